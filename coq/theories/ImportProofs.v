(** ImportProofs.v — lemmas about ImportDefs.v (C07). *)
From Coq Require Import String Ascii List Bool Arith Lia.
From LC Require Import ImportDefs ImportSpec.
Import ListNotations.
Local Open Scope string_scope.
Local Open Scope list_scope.

(* ------------------------------------------------------------------------------------------ generic *)

Section comp_induction.
  Variable P : comp -> Prop.
  Hypothesis H : forall n imp used kids, Forall P kids -> P (Comp n imp used kids).
  Fixpoint comp_ind' (c : comp) : P c :=
    match c with
    | Comp n imp used kids =>
      H n imp used kids
        ((fix go (l : list comp) : Forall P l :=
            match l with
            | [] => Forall_nil P
            | k :: r => Forall_cons k (comp_ind' k) (go r)
            end) kids)
    end.
End comp_induction.

Lemma all_ok_inv {A X : Type} (P : X -> Prop) (step : X -> A -> res (bool * X)) (l : list A) :
  (forall a, In a l -> forall x, P x -> exists b x', step x a = Ok (b, x') /\ P x') ->
  forall x, P x -> exists b x', all_ok step l x = Ok (b, x') /\ P x'.
Proof.
  induction l as [|a r IH]; intros Hs x Hx; cbn [all_ok].
  - exists true, x. split; [reflexivity | exact Hx].
  - destruct (Hs a (or_introl eq_refl) x Hx) as (b & x' & E & Hx'). rewrite E.
    destruct b.
    + apply IH; [|exact Hx']. intros a' Ha'. apply Hs. right. exact Ha'.
    + exists false, x'. split; [reflexivity | exact Hx'].
Qed.

Lemma walk_comp_inv (P : state -> Prop) (imp : state -> comp -> res (bool * state)) :
  (forall st c, P st -> exists b st', imp st c = Ok (b, st') /\ P st') ->
  forall c st, P st -> exists b st', walk_comp imp c st = Ok (b, st') /\ P st'.
Proof.
  intros Himp c. induction c as [n i used kids IHk] using comp_ind'. intros st Hst.
  cbn [walk_comp].
  destruct (negb (requires_imports (Comp n i used kids))).
  - exists true, st. split; [reflexivity | exact Hst].
  - destruct i as [p|].
    + apply Himp. exact Hst.
    + revert st Hst. induction kids as [|k r IHr]; intros st Hst.
      * exists true, st. split; [reflexivity | exact Hst].
      * inversion IHk as [|k' r' Hk Hr]; subst.
        destruct (Hk st Hst) as (b & st' & E & Hst'). rewrite E.
        destruct b.
        -- apply IHr; assumption.
        -- exists false, st'. split; [reflexivity | exact Hst'].
Qed.

(* ------------------------------------------------------------------------------------------ sparse lists *)

(* every element differs from all elements two or more positions further on *)
Fixpoint sparse (R : list string) : Prop :=
  match R with
  | [] => True
  | a :: r => match r with [] => True | _ :: r' => ~ In a r' end /\ sparse r
  end.

Fixpoint evens {A : Type} (l : list A) : list A :=
  match l with
  | [] => []
  | x :: r => x :: match r with [] => [] | _ :: r' => evens r' end
  end.

Lemma evens_props : forall n (l : list string), length l <= n ->
  incl (evens l) l /\ length l <= 2 * length (evens l) /\ (sparse l -> NoDup (evens l)).
Proof.
  induction n as [|n IH]; intros l Hl.
  - destruct l; [|cbn in Hl; lia]. cbn. repeat split; auto using incl_nil_l, NoDup_nil.
  - destruct l as [|a [|b r]].
    + cbn. repeat split; auto using incl_nil_l, NoDup_nil.
    + cbn. repeat split; auto using incl_refl. intros _. constructor; [intros []|constructor].
    + assert (Hr : length r <= n) by (cbn in Hl; lia).
      destruct (IH r Hr) as (Hi & Hlen & Hnd).
      change (evens (a :: b :: r)) with (a :: evens r).
      repeat split.
      * intros x [Hx|Hx]; [left; exact Hx | right; right; apply Hi; exact Hx].
      * cbn [length]. lia.
      * intros Hsp. destruct Hsp as [Ha Hsp]. constructor.
        -- intros Hin. apply Ha. apply Hi. exact Hin.
        -- apply Hnd. destruct Hsp as [_ Hsp]. exact Hsp.
Qed.

Lemma sparse_length : forall (l T : list string), sparse l -> incl l T -> length l <= 2 * length T.
Proof.
  intros l T Hs Hi.
  destruct (evens_props (length l) l (le_n _)) as (Hie & Hlen & Hnd).
  assert (length (evens l) <= length T).
  { apply NoDup_incl_length; [apply Hnd; exact Hs|]. intros x Hx. apply Hi. apply Hie. exact Hx. }
  lia.
Qed.

(* ------------------------------------------------------------------------------------------ state lemmas *)

Definition lib_keys (st : state) : list string := map fst (lib st).

Lemma lib_get_in : forall l k m, lib_get l k = Some m -> In k (map fst l).
Proof.
  induction l as [|[k' m'] r IH]; intros k m E; cbn in *; [discriminate|].
  destruct (String.eqb k' k) eqn:Ek.
  - left. apply String.eqb_eq. exact Ek.
  - right. eapply IH. exact E.
Qed.

Lemma fs_get_in : forall fs k, fs_get fs k <> Missing -> In k (map fst fs).
Proof.
  induction fs as [|[k' d] r IH]; intros k E; cbn in *; [congruence|].
  destruct (String.eqb k' k) eqn:Ek.
  - left. apply String.eqb_eq. exact Ek.
  - right. apply IH. exact E.
Qed.

(* what a successful / failed fetchImportSource does to the state *)
Lemma fis_ok : forall strict fs st o sid url st1 errs sm,
  fetch_import_source strict fs st o sid url = FMok st1 errs sm ->
  lib_get (lib st1) (key_of o url) = Some sm /\
  issues_rev st1 = issues_rev st /\
  ((lib st1 = lib st /\ errs = []) \/
   (lib st1 = (key_of o url, sm) :: lib st /\ fs_get fs (key_of o url) = Parsed errs sm
    /\ lib_get (lib st) (key_of o url) = None)).
Proof.
  intros strict fs st o sid url st1 errs sm. unfold fetch_import_source, linked_model.
  destruct (has_link st o sid) eqn:Hl.
  - destruct (lib_get (lib st) (key_of o url)) eqn:Hg.
    + intros E. inversion E; subst. auto.
    + unfold fetch_model. rewrite Hg. destruct (fs_get fs (key_of o url)) eqn:Hf; intros E; inversion E; subst.
      cbn. rewrite String.eqb_refl. split; [reflexivity|]. split; [reflexivity|]. right. auto.
  - unfold fetch_model. destruct (lib_get (lib st) (key_of o url)) eqn:Hg.
    + intros E. inversion E; subst. cbn. auto.
    + destruct (fs_get fs (key_of o url)) eqn:Hf; intros E; inversion E; subst.
      cbn. rewrite String.eqb_refl. split; [reflexivity|]. split; [reflexivity|]. right. auto.
Qed.

Lemma fis_fail : forall strict fs st o sid url st1,
  fetch_import_source strict fs st o sid url = FMfail st1 ->
  lib st1 = lib st /\ links st1 = links st /\ fs_model fs (key_of o url) = None /\
  exists r, issues_rev st1 = {| i_rule := r; i_item := ItImport o url |} :: issues_rev st.
Proof.
  intros strict fs st o sid url st1. unfold fetch_import_source.
  destruct (linked_model st o sid url); [discriminate|].
  unfold fetch_model. destruct (lib_get (lib st) (key_of o url)); [discriminate|].
  unfold fs_model. destruct (fs_get fs (key_of o url)); intros E; inversion E; subst; cbn; eauto 7.
Qed.

Lemma check_cycle_false_notin : forall st m0 hist h,
  check_cycle st m0 hist h = false -> ~ In (e_dst h) (map e_src hist).
Proof.
  intros st m0 hist h E Hin. apply in_map_iff in Hin. destruct Hin as (e & He & Hin).
  unfold check_cycle in E.
  assert (X : existsb (fun e0 => String.eqb (e_dst h) (e_src e0)
       || (String.eqb (e_src e0) origin_ref &&
           match content st m0 (e_srcm e0), e_dstm h with
           | Some a, Some k => match lib_get (lib st) k with Some b => model_equals a b | None => false end
           | _, _ => false
           end)) hist = true).
  { apply existsb_exists. exists e. split; [exact Hin|]. rewrite He. rewrite String.eqb_refl. reflexivity. }
  rewrite X in E. discriminate.
Qed.

(* ------------------------------------------------------------------------------------------ termination *)

(* sources of the history, newest first, headed by the URL of the model the current entity lives in *)
Definition srcs_rev (o : owner) (hist : list epoch) : list string := model_url o :: rev (map e_src hist).

Lemma srcs_rev_push : forall o hist url,
  srcs_rev (Some (key_of o url)) (hist ++ [fetch_epoch o url]) = key_of o url :: srcs_rev o hist.
Proof.
  intros. unfold srcs_rev. rewrite map_app, rev_app_distr. reflexivity.
Qed.

Section Total.
  Variable K : list string.          (* every key that can ever be in the library *)
  Variable fs : fsys.
  Variable strict : bool.
  Variable m0 : model.
  Hypothesis HfsK : incl (map fst fs) K.

  Definition good (st : state) : Prop := incl (lib_keys st) K.
  Definition hinv (o : owner) (hist : list epoch) : Prop :=
    sparse (srcs_rev o hist) /\ incl (srcs_rev o hist) (origin_ref :: K).

  Lemma hinv_length : forall o hist, hinv o hist -> length hist <= 2 * length K + 1.
  Proof.
    intros o hist [Hs Hi]. pose proof (sparse_length _ _ Hs Hi) as L.
    unfold srcs_rev in L. cbn [length] in L. rewrite rev_length, map_length in L. lia.
  Qed.

  Lemma fis_ok_good : forall st o sid url st1 errs sm,
    good st -> fetch_import_source strict fs st o sid url = FMok st1 errs sm ->
    good st1 /\ In (key_of o url) K.
  Proof.
    intros st o sid url st1 errs sm Hg E. destruct (fis_ok _ _ _ _ _ _ _ _ _ E) as (Hget & _ & Hl).
    assert (Hk : In (key_of o url) K).
    { destruct Hl as [Hl|(Hl & Hf & _)].
      - destruct Hl as [Hl _]. apply Hg. unfold lib_keys. rewrite <- Hl. eapply lib_get_in. exact Hget.
      - apply HfsK. apply fs_get_in. rewrite Hf. discriminate. }
    split; [|exact Hk].
    destruct Hl as [[Hl _]|(Hl & _)]; unfold good, lib_keys in *; rewrite Hl; [exact Hg|].
    cbn. intros x [Hx|Hx]; [subst; exact Hk | apply Hg; exact Hx].
  Qed.

  Lemma hinv_push : forall st o hist url,
    hinv o hist -> In (key_of o url) K ->
    check_cycle st m0 hist (fetch_epoch o url) = false ->
    hinv (Some (key_of o url)) (hist ++ [fetch_epoch o url]).
  Proof.
    intros st o hist url [Hs Hi] Hk Hc. unfold hinv. rewrite srcs_rev_push. split.
    - cbn [sparse]. split; [|exact Hs]. unfold srcs_rev. intros Hin. apply in_rev in Hin.
      apply (check_cycle_false_notin _ _ _ _ Hc). exact Hin.
    - intros x [Hx|Hx]; [subst; right; exact Hk | apply Hi; exact Hx].
  Qed.

  Definition total_at (f : state -> owner -> list epoch -> units -> res (bool * state)) (n : nat) : Prop :=
    forall st o hist u, good st -> hinv o hist -> 2 * length K + 3 <= n + length hist ->
                        exists b st', f st o hist u = Ok (b, st') /\ good st'.

  Lemma fetch_units_total : forall fuel, total_at (fetch_units fuel strict fs m0) fuel.
  Proof.
    induction fuel as [|f IH]; intros st o hist u Hg Hh Hfuel.
    - destruct u as [n refs|n sid url ref]; cbn [fetch_units]; [eauto|].
      pose proof (hinv_length _ _ Hh). lia.
    - destruct u as [n refs|n sid url ref]; cbn [fetch_units]; [eauto|].
      unfold fetch_units_body.
      destruct (fetch_import_source strict fs st o sid url) as [st1|st1 errs sm] eqn:Efis.
      + destruct (fis_fail _ _ _ _ _ _ _ Efis) as (Hl & _). exists false, st1. split; [reflexivity|].
        unfold good, lib_keys. rewrite Hl. exact Hg.
      + destruct (fis_ok_good _ _ _ _ _ _ _ Hg Efis) as (Hg1 & Hk).
        destruct (existsb (related_units ref) errs); [eauto|].
        destruct (check_cycle st1 m0 hist (fetch_epoch o url)) eqn:Ec; [eauto|].
        destruct (find_units (m_units sm) ref) as [su|]; [|eauto].
        pose proof (hinv_push _ _ _ _ Hh Hk Ec) as Hh'.
        assert (Hf' : 2 * length K + 3 <= f + length (hist ++ [fetch_epoch o url])).
        { rewrite app_length. cbn [length]. lia. }
        destruct (IH st1 _ _ su Hg1 Hh' Hf') as (b & st2 & E2 & Hg2). rewrite E2.
        destruct b; [|eauto].
        apply all_ok_inv with (P := good); [|exact Hg2].
        intros r _ x Hx. destruct (is_std r); [eauto|].
        destruct (find_units (m_units sm) r) as [cu|]; [|eauto].
        apply IH; assumption.
  Qed.

  Lemma fetch_comp_total : forall fuel st o hist c,
    good st -> hinv o hist -> 2 * length K + 3 <= fuel + length hist ->
    exists b st', fetch_comp fuel strict fs m0 st o hist c = Ok (b, st') /\ good st'.
  Proof.
    induction fuel as [|f IH]; intros st o hist c Hg Hh Hfuel.
    - pose proof (hinv_length _ _ Hh). lia.
    - cbn [fetch_comp]. apply walk_comp_inv with (P := good); [|exact Hg].
      clear st Hg c. intros st c Hg.
      destruct c as [name [[[sid url] ref]|] used kids]; [|eauto].
      unfold fetch_comp_body.
      destruct (fetch_import_source strict fs st o sid url) as [st1|st1 errs sm] eqn:Efis.
      + destruct (fis_fail _ _ _ _ _ _ _ Efis) as (Hl & _). exists false, st1. split; [reflexivity|].
        unfold good, lib_keys. rewrite Hl. exact Hg.
      + destruct (fis_ok_good _ _ _ _ _ _ _ Hg Efis) as (Hg1 & Hk).
        destruct (existsb (related_comp (find_comp (m_comps sm) ref)) errs); [eauto|].
        destruct (check_cycle st1 m0 hist (fetch_epoch o url)) eqn:Ec; [eauto|].
        destruct (find_comp (m_comps sm) ref) as [sc|]; [|eauto].
        pose proof (hinv_push _ _ _ _ Hh Hk Ec) as Hh'.
        assert (Hf' : 2 * length K + 3 <= f + length (hist ++ [fetch_epoch o url])).
        { rewrite app_length. cbn [length]. lia. }
        destruct (IH st1 _ _ sc Hg1 Hh' Hf') as (b & st2 & E2 & Hg2). rewrite E2.
        destruct b; [|eauto].
        destruct (all_ok_inv good (fun st k => fetch_comp f strict fs m0 st (Some (key_of o url))
                                                          (hist ++ [fetch_epoch o url]) k) (ckids sc)) with (x := st2)
          as (b3 & st3 & E3 & Hg3); [|exact Hg2|].
        { intros k _ x Hx. apply IH; assumption. }
        rewrite E3. destruct b3; [|eauto].
        apply all_ok_inv with (P := good); [|exact Hg3].
        intros n _ x Hx. destruct (is_std n); [eauto|].
        destruct (find_units (m_units sm) n) as [su|]; [|eauto].
        apply fetch_units_total; assumption.
  Qed.

  Lemma resolve_loop_total {A : Type} (fetch : state -> A -> res (bool * state)) (item : A -> iitem) :
    (forall st a, good st -> exists b st', fetch st a = Ok (b, st') /\ good st') ->
    forall l acc st, good st -> exists b st', resolve_loop fetch item l acc st = Ok (b, st') /\ good st'.
  Proof.
    intros Hf. induction l as [|a r IH]; intros acc st Hg; cbn [resolve_loop]; [eauto|].
    destruct (Hf st a Hg) as (b & st' & E & Hg'). rewrite E. destruct b.
    - apply IH. exact Hg'.
    - apply IH. unfold good, lib_keys, retarget_last in *. destruct (issues_rev st'); exact Hg'.
  Qed.
End Total.

Lemma hinv_start : forall K, hinv K None [].
Proof.
  intros K. unfold hinv, srcs_rev. cbn. split; [auto|]. intros x [Hx|[]]. left. exact Hx.
Qed.

(* resolveImports returns on every file system and from every importer state, cyclic import graphs included *)
Lemma resolve_terminates : forall strict fs st m0 fuel,
  fuel_bound fs st <= fuel ->
  exists b st', resolve_imports fuel strict fs st m0 = Ok (b, st').
Proof.
  intros strict fs st m0 fuel Hfuel. unfold resolve_imports.
  set (K := map fst fs ++ lib_keys st).
  assert (HfsK : incl (map fst fs) K) by (apply incl_appl, incl_refl).
  assert (Hg0 : good K (clear_origin_links (clear_issues st))).
  { unfold good, lib_keys. cbn. apply incl_appr, incl_refl. }
  assert (HK : 2 * length K + 3 <= fuel + 0).
  { unfold K, fuel_bound, lib_keys in *. rewrite app_length, !map_length. lia. }
  destruct (resolve_loop_total K (fun st u => fetch_units fuel strict fs m0 st None [] u)
                               (fun u => ItUnits None (uname u))) with (l := imported_units m0) (acc := true)
                               (st := clear_origin_links (clear_issues st)) as (b1 & st1 & E1 & Hg1).
  { intros st' u Hg. apply (fetch_units_total K fs strict m0 HfsK fuel); [exact Hg|apply hinv_start|exact HK]. }
  { exact Hg0. }
  rewrite E1.
  destruct (resolve_loop_total K (fun st c => fetch_comp fuel strict fs m0 st None [] c)
                               (fun c => ItComp None (cname c))) with (l := imported_comps m0) (acc := b1)
                               (st := st1) as (b2 & st2 & E2 & Hg2).
  { intros st' c Hg. apply (fetch_comp_total K fs strict m0 HfsK fuel); [exact Hg|apply hinv_start|exact HK]. }
  { exact Hg1. }
  eauto.
Qed.

(* ------------------------------------------------------------------------------------------ failure => issue *)

(* st' has the issues of st plus new ones on top; at least one new one when the answer is false *)
Definition ext (st st' : state) (b : bool) : Prop :=
  exists l, issues_rev st' = l ++ issues_rev st /\ (b = false -> l <> []).

Lemma ext_refl_true : forall st, ext st st true.
Proof. intros st. exists []. split; [reflexivity | discriminate]. Qed.

Lemma ext_add_issue : forall st r it b, ext st (add_issue st r it) b.
Proof. intros. exists [{| i_rule := r; i_item := it |}]. split; [reflexivity | discriminate]. Qed.

Lemma ext_trans : forall st1 st2 st3 b, ext st1 st2 true -> ext st2 st3 b -> ext st1 st3 b.
Proof.
  intros st1 st2 st3 b (l1 & E1 & _) (l2 & E2 & H2). exists (l2 ++ l1). split.
  - rewrite E2, E1, app_assoc. reflexivity.
  - intros Hb Habs. apply app_eq_nil in Habs. destruct Habs as [Habs _]. exact (H2 Hb Habs).
Qed.

Lemma ext_same_issues : forall st st1 st2 b, issues_rev st1 = issues_rev st -> ext st1 st2 b -> ext st st2 b.
Proof. intros st st1 st2 b E (l & E2 & H). exists l. rewrite <- E. auto. Qed.

Lemma all_ok_ext {A : Type} (step : state -> A -> res (bool * state)) (l : list A) :
  (forall a x b x', In a l -> step x a = Ok (b, x') -> ext x x' b) ->
  forall x b x', all_ok step l x = Ok (b, x') -> ext x x' b.
Proof.
  induction l as [|a r IH]; intros Hs x b x' E; cbn [all_ok] in E.
  - inversion E; subst. apply ext_refl_true.
  - destruct (step x a) as [[b1 x1]| |] eqn:E1; try discriminate.
    pose proof (Hs a x b1 x1 (or_introl eq_refl) E1) as H1.
    destruct b1.
    + eapply ext_trans; [exact H1|]. apply IH; [|exact E]. intros a' y b' y' Ha'. apply Hs. right. exact Ha'.
    + inversion E; subst. exact H1.
Qed.

Lemma walk_comp_ext (imp : state -> comp -> res (bool * state)) :
  (forall st c b st', imp st c = Ok (b, st') -> ext st st' b) ->
  forall c st b st', walk_comp imp c st = Ok (b, st') -> ext st st' b.
Proof.
  intros Himp c. induction c as [n i used kids IHk] using comp_ind'. intros st b st' E.
  cbn [walk_comp] in E.
  destruct (negb (requires_imports (Comp n i used kids))).
  - inversion E; subst. apply ext_refl_true.
  - destruct i as [p|].
    + eapply Himp. exact E.
    + revert st E. induction kids as [|k r IHr]; intros st E.
      * inversion E; subst. apply ext_refl_true.
      * inversion IHk as [|k' r' Hk Hr]; subst.
        destruct (walk_comp imp k st) as [[b1 st1]| |] eqn:E1; try discriminate.
        pose proof (Hk _ _ _ E1) as H1. destruct b1.
        -- eapply ext_trans; [exact H1|]. apply IHr; assumption.
        -- inversion E; subst. exact H1.
Qed.

Lemma fis_fail_ext : forall strict fs st o sid url st1,
  fetch_import_source strict fs st o sid url = FMfail st1 -> ext st st1 false.
Proof.
  intros strict fs st o sid url st1 E. destruct (fis_fail _ _ _ _ _ _ _ E) as (_ & _ & _ & r & Hi).
  eexists [_]. split; [exact Hi | discriminate].
Qed.

Lemma fetch_units_ext : forall fuel strict fs m0 st o hist u b st',
  fetch_units fuel strict fs m0 st o hist u = Ok (b, st') -> ext st st' b.
Proof.
  induction fuel as [|f IH]; intros strict fs m0 st o hist u b st' E;
    destruct u as [n refs|n sid url ref]; cbn [fetch_units] in E;
    try (inversion E; subst; apply ext_refl_true); try discriminate.
  unfold fetch_units_body in E.
  destruct (fetch_import_source strict fs st o sid url) as [st1|st1 errs sm] eqn:Efis.
  - inversion E; subst. eapply fis_fail_ext. exact Efis.
  - destruct (fis_ok _ _ _ _ _ _ _ _ _ Efis) as (_ & Hi & _).
    apply (ext_same_issues st st1 st' b Hi).
    destruct (existsb (related_units ref) errs); [inversion E; subst; apply ext_add_issue|].
    destruct (check_cycle st1 m0 hist (fetch_epoch o url)); [inversion E; subst; apply ext_add_issue|].
    destruct (find_units (m_units sm) ref) as [su|]; [|inversion E; subst; apply ext_add_issue].
    destruct (fetch_units f strict fs m0 st1 (Some (key_of o url)) (hist ++ [fetch_epoch o url]) su)
      as [[b2 st2]| |] eqn:E2; try discriminate.
    pose proof (IH _ _ _ _ _ _ _ _ _ E2) as H2. destruct b2.
    + eapply ext_trans; [exact H2|]. eapply all_ok_ext; [|exact E].
      intros r x b' x' _ Es. cbv beta in Es. destruct (is_std r); [inversion Es; subst; apply ext_refl_true|].
      destruct (find_units (m_units sm) r); [|inversion Es; subst; apply ext_add_issue].
      eapply IH. exact Es.
    + inversion E; subst. exact H2.
Qed.

Lemma fetch_comp_ext : forall fuel strict fs m0 st o hist c b st',
  fetch_comp fuel strict fs m0 st o hist c = Ok (b, st') -> ext st st' b.
Proof.
  induction fuel as [|f IH]; intros strict fs m0 st o hist c b st' E; cbn [fetch_comp] in E; [discriminate|].
  eapply walk_comp_ext; [|exact E]. clear st c b st' E.
  intros st c b st' E.
  destruct c as [name [[[sid url] ref]|] used kids]; [|inversion E; subst; apply ext_refl_true].
  unfold fetch_comp_body in E.
  destruct (fetch_import_source strict fs st o sid url) as [st1|st1 errs sm] eqn:Efis.
  - inversion E; subst. eapply fis_fail_ext. exact Efis.
  - destruct (fis_ok _ _ _ _ _ _ _ _ _ Efis) as (_ & Hi & _).
    apply (ext_same_issues st st1 st' b Hi).
    destruct (existsb (related_comp (find_comp (m_comps sm) ref)) errs); [inversion E; subst; apply ext_add_issue|].
    destruct (check_cycle st1 m0 hist (fetch_epoch o url)); [inversion E; subst; apply ext_add_issue|].
    destruct (find_comp (m_comps sm) ref) as [sc|]; [|inversion E; subst; apply ext_add_issue].
    destruct (fetch_comp f strict fs m0 st1 (Some (key_of o url)) (hist ++ [fetch_epoch o url]) sc)
      as [[b2 st2]| |] eqn:E2; try discriminate.
    pose proof (IH _ _ _ _ _ _ _ _ _ E2) as H2. destruct b2; [|inversion E; subst; exact H2].
    eapply ext_trans; [exact H2|].
    destruct (all_ok (fun st k => fetch_comp f strict fs m0 st (Some (key_of o url)) (hist ++ [fetch_epoch o url]) k)
                     (ckids sc) st2) as [[b3 st3]| |] eqn:E3; try discriminate.
    assert (H3 : ext st2 st3 b3).
    { eapply all_ok_ext; [|exact E3]. intros k x b' x' _ Es. cbv beta in Es. eapply IH. exact Es. }
    destruct b3; [|inversion E; subst; exact H3].
    eapply ext_trans; [exact H3|]. eapply all_ok_ext; [|exact E].
    intros n x b' x' _ Es. cbv beta in Es. destruct (is_std n); [inversion Es; subst; apply ext_refl_true|].
    destruct (find_units (m_units sm) n); [|inversion Es; subst; apply ext_add_issue].
    eapply fetch_units_ext. exact Es.
Qed.

(* the loops of resolveImports: old issues stay, and every failing entity gets an issue attached to it *)
Lemma resolve_loop_issue {A : Type} (fetch : state -> A -> res (bool * state)) (item : A -> iitem) :
  (forall st a b st', fetch st a = Ok (b, st') -> ext st st' b) ->
  forall l acc st b st', resolve_loop fetch item l acc st = Ok (b, st') ->
    (forall i, In i (issues_rev st) -> In i (issues_rev st')) /\
    (b = false -> acc = false \/
                  exists a st1 st2 i, In a l /\ fetch st1 a = Ok (false, st2) /\
                                      In i (issues_rev st') /\ i_item i = item a).
Proof.
  intros Hf. induction l as [|a r IH]; intros acc st b st' E; cbn [resolve_loop] in E.
  - inversion E; subst. split; [auto|]. intros ->. left. reflexivity.
  - destruct (fetch st a) as [[b1 st1]| |] eqn:E1; try discriminate.
    destruct (Hf _ _ _ _ E1) as (l1 & El1 & Hne). destruct b1.
    + destruct (IH _ _ _ _ E) as (Hkeep & Hfalse). split.
      * intros i Hi. apply Hkeep. rewrite El1. apply in_or_app. right. exact Hi.
      * intros Hb. destruct (Hfalse Hb) as [Hacc|(a' & s1 & s2 & i & Ha' & Hfa & Hi & Hit)]; [left; exact Hacc|].
        right. exists a', s1, s2, i. repeat split; auto. right. exact Ha'.
    + destruct (IH _ _ _ _ E) as (Hkeep & _).
      destruct l1 as [|i1 l1']; [exfalso; apply Hne; reflexivity|].
      assert (Hrt : issues_rev (retarget_last st1 (item a))
                    = {| i_rule := i_rule i1; i_item := item a |} :: l1' ++ issues_rev st).
      { unfold retarget_last. rewrite El1. reflexivity. }
      split.
      * intros i Hi. apply Hkeep. rewrite Hrt. right. apply in_or_app. right. exact Hi.
      * intros _. right. exists a, st, st1, {| i_rule := i_rule i1; i_item := item a |}.
        repeat split; auto.
        -- left. reflexivity.
        -- apply Hkeep. rewrite Hrt. left. reflexivity.
Qed.

(* resolveImports = false => at least one issue, attached to a top-level importing entity whose fetch failed *)
Lemma resolve_false_issue : forall fuel strict fs st m0 st',
  resolve_imports fuel strict fs st m0 = Ok (false, st') ->
  issues_rev st' <> [] /\
  exists i, In i (issues_rev st') /\
    ((exists u s1 s2, In u (imported_units m0) /\ i_item i = ItUnits None (uname u) /\
                      fetch_units fuel strict fs m0 s1 None [] u = Ok (false, s2))
     \/ (exists c s1 s2, In c (imported_comps m0) /\ i_item i = ItComp None (cname c) /\
                         fetch_comp fuel strict fs m0 s1 None [] c = Ok (false, s2))).
Proof.
  intros fuel strict fs st m0 st' E. unfold resolve_imports in E.
  destruct (resolve_loop (fun st u => fetch_units fuel strict fs m0 st None [] u) (fun u => ItUnits None (uname u))
                         (imported_units m0) true (clear_origin_links (clear_issues st)))
    as [[b1 st1]| |] eqn:E1; try discriminate.
  destruct (resolve_loop_issue _ _ (fun st a b st' => fetch_units_ext fuel strict fs m0 st None [] a b st') _ _ _ _ _ E1)
    as (_ & H1).
  destruct (resolve_loop_issue _ _ (fun st a b st' => fetch_comp_ext fuel strict fs m0 st None [] a b st') _ _ _ _ _ E)
    as (Hkeep & H2).
  assert (X : exists i, In i (issues_rev st') /\
    ((exists u s1 s2, In u (imported_units m0) /\ i_item i = ItUnits None (uname u) /\
                      fetch_units fuel strict fs m0 s1 None [] u = Ok (false, s2))
     \/ (exists c s1 s2, In c (imported_comps m0) /\ i_item i = ItComp None (cname c) /\
                         fetch_comp fuel strict fs m0 s1 None [] c = Ok (false, s2)))).
  { destruct (H2 eq_refl) as [Hb1|(c & s1 & s2 & i & Hc & Hfc & Hi & Hit)].
    - subst b1. destruct (H1 eq_refl) as [Habs|(u & s1 & s2 & i & Hu & Hfu & Hi & Hit)]; [discriminate|].
      exists i. split; [apply Hkeep; exact Hi|]. left. exists u, s1, s2. auto.
    - exists i. split; [exact Hi|]. right. exists c, s1, s2. auto. }
  split; [|exact X]. destruct X as (i & Hi & _). intros Hnil. rewrite Hnil in Hi. exact Hi.
Qed.

(* ------------------------------------------------------------------------------------------ operational = stateless *)

(* the library caches the file system; it only grows during a resolution *)
Definition cons (fs : fsys) (st : state) : Prop :=
  forall k m, lib_get (lib st) k = Some m -> fs_model fs k = Some m.
Definition mono (st st' : state) : Prop :=
  forall k m, lib_get (lib st) k = Some m -> lib_get (lib st') k = Some m.
Definition owner_ok (st : state) (o : owner) : Prop :=
  match o with None => True | Some k => exists m, lib_get (lib st) k = Some m end.
Definition hist_ok (st : state) (hist : list epoch) : Prop := forall e, In e hist -> owner_ok st (e_srcm e).

Lemma mono_refl : forall st, mono st st.
Proof. intros st k m E. exact E. Qed.
Lemma mono_trans : forall a b c, mono a b -> mono b c -> mono a c.
Proof. intros a b c H1 H2 k m E. apply H2, H1, E. Qed.
Lemma mono_same_lib : forall st st', lib st' = lib st -> mono st st'.
Proof. intros st st' E k m H. rewrite E. exact H. Qed.
Lemma owner_ok_mono : forall st st' o, mono st st' -> owner_ok st o -> owner_ok st' o.
Proof. intros st st' [k|] Hm H; [|exact I]. destruct H as (m & E). exists m. apply Hm, E. Qed.
Lemma hist_ok_mono : forall st st' h, mono st st' -> hist_ok st h -> hist_ok st' h.
Proof. intros st st' h Hm H e He. eapply owner_ok_mono; [exact Hm | apply H, He]. Qed.
Lemma cons_same_lib : forall fs st st', lib st' = lib st -> cons fs st -> cons fs st'.
Proof. intros fs st st' E H k m G. rewrite E in G. apply H, G. Qed.

Lemma fis_ok_cons : forall strict fs st o sid url st1 errs sm,
  cons fs st -> fetch_import_source strict fs st o sid url = FMok st1 errs sm ->
  cons fs st1 /\ mono st st1 /\ fs_model fs (key_of o url) = Some sm /\
  lib_get (lib st1) (key_of o url) = Some sm /\ issues_rev st1 = issues_rev st /\
  (errs = [] \/ fs_get fs (key_of o url) = Parsed errs sm).
Proof.
  intros strict fs st o sid url st1 errs sm Hc E.
  destruct (fis_ok _ _ _ _ _ _ _ _ _ E) as (Hget & Hi & Hl).
  destruct Hl as [[Hl He]|(Hl & Hf & Hn)].
  - assert (Hc1 : cons fs st1) by (eapply cons_same_lib; eauto).
    repeat split; auto using mono_same_lib.
  - assert (Hm : fs_model fs (key_of o url) = Some sm) by (unfold fs_model; rewrite Hf; reflexivity).
    assert (Hc1 : cons fs st1).
    { intros k m G. rewrite Hl in G. cbn [lib_get] in G. destruct (String.eqb (key_of o url) k) eqn:Ek.
      - apply String.eqb_eq in Ek. subst k. inversion G; subst. exact Hm.
      - apply Hc, G. }
    assert (Hmo : mono st st1).
    { intros k m G. rewrite Hl. cbn [lib_get]. destruct (String.eqb (key_of o url) k) eqn:Ek; [|exact G].
      apply String.eqb_eq in Ek. subst k. rewrite Hn in G. discriminate. }
    repeat split; auto.
Qed.

Lemma check_cycle_cycs : forall fs st m0 hist h k sm,
  cons fs st -> hist_ok st hist -> e_dstm h = Some k -> lib_get (lib st) k = Some sm ->
  check_cycle st m0 hist h = cycs fs m0 hist h.
Proof.
  intros fs st m0 hist h k sm Hc Hh Hd Hk. unfold check_cycle, cycs. rewrite Hd, Hk, (Hc _ _ Hk).
  induction hist as [|e r IH]; [reflexivity|]. cbn [existsb].
  rewrite IH by (intros e' He'; apply Hh; right; exact He'). f_equal. f_equal. f_equal.
  pose proof (Hh e (or_introl eq_refl)) as Ho. unfold content, fcontent.
  destruct (e_srcm e) as [k'|]; [|reflexivity]. destruct Ho as (m & Em). rewrite Em, (Hc _ _ Em). reflexivity.
Qed.

Lemma all_ok_spec {A : Type} (P : state -> Prop) (Q : A -> Prop) (step : state -> A -> res (bool * state)) (l : list A) :
  (forall a x b x', In a l -> P x -> step x a = Ok (b, x') ->
                    P x' /\ mono x x' /\ (b = true -> Q a) /\ (b = false -> ~ Q a)) ->
  forall x b x', P x -> all_ok step l x = Ok (b, x') ->
                 P x' /\ mono x x' /\ (b = true -> forall a, In a l -> Q a) /\
                 (b = false -> exists a, In a l /\ ~ Q a).
Proof.
  induction l as [|a r IH]; intros Hs x b x' Hx E; cbn [all_ok] in E.
  - inversion E; subst. repeat split; auto using mono_refl; [intros _ a []|discriminate].
  - destruct (step x a) as [[b1 x1]| |] eqn:E1; try discriminate.
    destruct (Hs a x b1 x1 (or_introl eq_refl) Hx E1) as (Hx1 & Hm1 & Ht & Hf).
    destruct b1.
    + destruct (IH (fun a' y b' y' Ha' => Hs a' y b' y' (or_intror Ha')) x1 b x' Hx1 E) as (Hx' & Hm' & Ht' & Hf').
      repeat split; auto.
      * eapply mono_trans; eauto.
      * intros Hb a' [->|Ha']; auto.
      * intros Hb. destruct (Hf' Hb) as (a' & Ha' & Hq). exists a'. split; [right; exact Ha' | exact Hq].
    + inversion E; subst. repeat split; auto; [discriminate|]. intros _. exists a. split; [left; reflexivity|auto].
Qed.

Section Spec.
  Variable fs : fsys.
  Variable strict : bool.
  Variable m0 : model.
  Hypothesis Hnoerr : NoErrs fs.

  Definition sinv (hist : list epoch) (o : owner) (st : state) : Prop :=
    cons fs st /\ hist_ok st hist /\ owner_ok st o.

  Lemma sinv_mono : forall hist o st st', cons fs st' -> mono st st' -> sinv hist o st -> sinv hist o st'.
  Proof.
    intros hist o st st' Hc Hm (_ & Hh & Ho). repeat split; auto; [eapply hist_ok_mono|eapply owner_ok_mono]; eauto.
  Qed.

  Lemma sinv_add_issue : forall hist o st r it, sinv hist o st -> sinv hist o (add_issue st r it).
  Proof. intros hist o st r it H. exact H. Qed.

  (* outcome of one fetchUnits call, in terms of the file system only *)
  Definition units_outcome (f : state -> owner -> list epoch -> units -> res (bool * state)) : Prop :=
    forall st o hist u b st', sinv hist o st -> f st o hist u = Ok (b, st') ->
      cons fs st' /\ mono st st' /\ (b = true -> FU fs m0 o hist u) /\ (b = false -> ~ FU fs m0 o hist u).

  Lemma fis_errs_nil : forall st o sid url st1 errs sm,
    fetch_import_source strict fs st o sid url = FMok st1 errs sm -> errs = [].
  Proof.
    intros st o sid url st1 errs sm E. destruct (fis_ok _ _ _ _ _ _ _ _ _ E) as (_ & _ & [[_ H]|(_ & H & _)]); [exact H|].
    eapply Hnoerr. exact H.
  Qed.

  Lemma fetch_units_spec : forall fuel, units_outcome (fetch_units fuel strict fs m0).
  Proof.
    induction fuel as [|f IH]; intros st o hist u b st' Hinv E;
      destruct u as [n refs|n sid url ref]; cbn [fetch_units] in E; try discriminate;
      try (inversion E; subst; destruct Hinv as (Hc & _); repeat split; auto using mono_refl;
           [intros _; constructor | discriminate]).
    unfold fetch_units_body in E.
    destruct Hinv as (Hc & Hh & Ho).
    destruct (fetch_import_source strict fs st o sid url) as [st1|st1 errs sm] eqn:Efis.
    - inversion E; subst. destruct (fis_fail _ _ _ _ _ _ _ Efis) as (Hl & _ & Hn & _).
      repeat split; eauto using cons_same_lib, mono_same_lib; [discriminate|].
      intros _ HF. inversion HF; subst. congruence.
    - rewrite (fis_errs_nil _ _ _ _ _ _ _ Efis) in E. cbn [existsb] in E.
      destruct (fis_ok_cons _ _ _ _ _ _ _ _ _ Hc Efis) as (Hc1 & Hm1 & Hfm & Hget & _ & _).
      assert (Hh1 : hist_ok st1 hist) by (eapply hist_ok_mono; eauto).
      assert (Ho1 : owner_ok st1 o) by (eapply owner_ok_mono; eauto).
      rewrite (check_cycle_cycs fs st1 m0 hist (fetch_epoch o url) (key_of o url) sm Hc1 Hh1 eq_refl Hget) in E.
      destruct (cycs fs m0 hist (fetch_epoch o url)) eqn:Ecy.
      { inversion E; subst. repeat split; auto; [discriminate|].
        intros _ HF. inversion HF; subst. congruence. }
      destruct (find_units (m_units sm) ref) as [su|] eqn:Efu.
      2:{ inversion E; subst. repeat split; auto; [discriminate|].
          intros _ HF. inversion HF; subst. congruence. }
      set (o' := Some (key_of o url)) in *. set (hist' := hist ++ [fetch_epoch o url]) in *.
      assert (Hinv1 : sinv hist' o' st1).
      { repeat split; auto.
        - intros e He. apply in_app_or in He. destruct He as [He|[<-|[]]]; [apply Hh1, He | exact Ho1].
        - exists sm. exact Hget. }
      destruct (fetch_units f strict fs m0 st1 o' hist' su) as [[b2 st2]| |] eqn:E2; try discriminate.
      destruct (IH _ _ _ _ _ _ Hinv1 E2) as (Hc2 & Hm2 & Ht2 & Hf2).
      destruct b2.
      2:{ inversion E; subst. repeat split; eauto using mono_trans; [discriminate|].
          intros _ HF. inversion HF; subst. assert (sm0 = sm) by congruence. subst sm0.
          assert (su0 = su) by congruence. subst su0. apply (Hf2 eq_refl). assumption. }
      assert (Hinv2 : sinv hist' o' st2) by (eapply sinv_mono; eauto).
      set (Q := fun r => is_std r = false ->
                         exists cu, find_units (m_units sm) r = Some cu /\ FU fs m0 o' hist' cu).
      assert (Hall : sinv hist' o' st' /\ mono st2 st' /\ (b = true -> forall a, In a (refs_of su) -> Q a) /\
                     (b = false -> exists a, In a (refs_of su) /\ ~ Q a)).
      { replace (match su with ULocal _ refs => refs | UImp _ _ _ _ => [] end) with (refs_of su) in E
          by (destruct su; reflexivity).
        eapply (all_ok_spec (sinv hist' o') Q); [|exact Hinv2|exact E].
        clear E. intros r x b' x' _ Hx Es. cbv beta in Es. unfold Q. destruct (is_std r) eqn:Estd.
        - inversion Es; subst. repeat split; auto using mono_refl; try apply Hx; discriminate.
        - destruct (find_units (m_units sm) r) as [cu|] eqn:Ecu.
          + destruct (IH _ _ _ _ _ _ Hx Es) as (Hcx & Hmx & Htx & Hfx).
            split; [eapply sinv_mono; eauto|]. split; [exact Hmx|]. split.
            * intros Hb _. exists cu. split; [reflexivity|auto].
            * intros Hb Hq. destruct (Hq eq_refl) as (cu' & Ecu' & HF'). assert (cu' = cu) by congruence. subst cu'. apply (Hfx Hb HF').
          + inversion Es; subst. split; [apply sinv_add_issue; exact Hx|].
            split; [apply mono_same_lib; reflexivity|]. split; [discriminate|].
            intros _ Hq. destruct (Hq eq_refl) as (cu' & Ecu' & _). discriminate. }
      destruct Hall as (Hinv' & Hm' & Ht' & Hf').
      destruct Hinv' as (Hc' & _).
      repeat split; auto.
      + eapply mono_trans; [exact Hm1|]. eapply mono_trans; eauto.
      + intros Hb. econstructor; eauto.
        * intros r Hr Hs. destruct (Ht' Hb r Hr Hs) as (cu & Ecu & _). congruence.
        * intros r cu Hr Hs Ecu. destruct (Ht' Hb r Hr Hs) as (cu' & Ecu' & HF'). assert (cu' = cu) by congruence. subst cu'. exact HF'.
      + intros Hb HF. destruct (Hf' Hb) as (r & Hr & Hq). clear Hf' Ht' Hb.
        inversion HF as [|? ? ? ? ? ? sm0 su0 H1 H2 H3 H4 Hex Hall]; subst.
        assert (sm0 = sm) by congruence. subst sm0.
        assert (su0 = su) by congruence. subst su0.
        apply Hq. intros Hs. specialize (Hex r Hr Hs).
        destruct (find_units (m_units sm) r) as [cu|] eqn:Ecu; [|congruence].
        exists cu. split; [reflexivity|]. eapply Hall; eauto.
  Qed.

  Lemma FC_local_inv : forall o hist n used kids,
    requires_imports (Comp n None used kids) = true -> FC fs m0 o hist (Comp n None used kids) ->
    forall k, In k kids -> FC fs m0 o hist k.
  Proof.
    intros o hist n used kids Hr HF. inversion HF; subst; [congruence|assumption].
  Qed.

  Lemma walk_comp_spec (P : state -> Prop) (o : owner) (hist : list epoch)
        (imp : state -> comp -> res (bool * state)) :
    (forall st c b st', cimp c <> None -> P st -> imp st c = Ok (b, st') ->
                        P st' /\ mono st st' /\ (b = true -> FC fs m0 o hist c) /\ (b = false -> ~ FC fs m0 o hist c)) ->
    forall c st b st', P st -> walk_comp imp c st = Ok (b, st') ->
                       P st' /\ mono st st' /\ (b = true -> FC fs m0 o hist c) /\ (b = false -> ~ FC fs m0 o hist c).
  Proof.
    intros Himp c. induction c as [n i used kids IHk] using comp_ind'. intros st b st' Hst E.
    cbn [walk_comp] in E.
    destruct (requires_imports (Comp n i used kids)) eqn:Hreq; cbn [negb] in E.
    2:{ inversion E; subst. repeat split; auto using mono_refl; [|discriminate]. intros _. apply FC_noreq. exact Hreq. }
    destruct i as [p|].
    - eapply Himp; eauto. discriminate.
    - assert (G : P st' /\ mono st st' /\ (b = true -> forall k, In k kids -> FC fs m0 o hist k) /\
                  (b = false -> exists k, In k kids /\ ~ FC fs m0 o hist k)).
      { clear Hreq. revert st Hst E. induction kids as [|k r IHr]; intros st Hst E.
        - inversion E; subst. repeat split; auto using mono_refl; [intros _ k []|discriminate].
        - inversion IHk as [|k' r' Hk Hr]; subst.
          destruct (walk_comp imp k st) as [[b1 st1]| |] eqn:E1; try discriminate.
          destruct (Hk _ _ _ Hst E1) as (H1 & Hm1 & Ht1 & Hf1). destruct b1.
          + destruct (IHr Hr _ H1 E) as (H2 & Hm2 & Ht2 & Hf2). repeat split; auto.
            * eapply mono_trans; eauto.
            * intros Hb k' [->|Hk']; auto.
            * intros Hb. destruct (Hf2 Hb) as (k' & Hk' & Hn). exists k'. split; [right; exact Hk'|exact Hn].
          + inversion E; subst. repeat split; auto; [discriminate|]. intros _. exists k. split; [left; reflexivity|auto]. }
      destruct G as (G1 & G2 & G3 & G4). repeat split; auto.
      + intros Hb. apply FC_local. auto.
      + intros Hb HF. destruct (G4 Hb) as (k & Hk & Hn). apply Hn. eapply FC_local_inv; eauto.
  Qed.

  Lemma fetch_comp_spec : forall fuel st o hist c b st',
    sinv hist o st -> fetch_comp fuel strict fs m0 st o hist c = Ok (b, st') ->
    sinv hist o st' /\ mono st st' /\ (b = true -> FC fs m0 o hist c) /\ (b = false -> ~ FC fs m0 o hist c).
  Proof.
    induction fuel as [|f IH]; intros st o hist c b st' Hinv E; cbn [fetch_comp] in E; [discriminate|].
    eapply (walk_comp_spec (sinv hist o)); [|exact Hinv|exact E].
    clear st c b st' Hinv E. intros st c b st' Himp Hinv E.
    destruct c as [name [[[sid url] ref]|] used kids]; [|exfalso; apply Himp; reflexivity]. clear Himp.
    unfold fetch_comp_body in E.
    destruct Hinv as (Hc & Hh & Ho).
    destruct (fetch_import_source strict fs st o sid url) as [st1|st1 errs sm] eqn:Efis.
    - inversion E; subst. destruct (fis_fail _ _ _ _ _ _ _ Efis) as (Hl & _ & Hn & _).
      split; [repeat split; eauto using cons_same_lib; [eapply hist_ok_mono|eapply owner_ok_mono]; eauto using mono_same_lib|].
      split; [eauto using mono_same_lib|]. split; [discriminate|].
      intros _ HF. inversion HF; subst; [discriminate|congruence].
    - rewrite (fis_errs_nil _ _ _ _ _ _ _ Efis) in E. cbn [existsb] in E.
      destruct (fis_ok_cons _ _ _ _ _ _ _ _ _ Hc Efis) as (Hc1 & Hm1 & Hfm & Hget & _ & _).
      assert (Hh1 : hist_ok st1 hist) by (eapply hist_ok_mono; eauto).
      assert (Ho1 : owner_ok st1 o) by (eapply owner_ok_mono; eauto).
      assert (Hinv1o : sinv hist o st1) by (repeat split; auto).
      rewrite (check_cycle_cycs fs st1 m0 hist (fetch_epoch o url) (key_of o url) sm Hc1 Hh1 eq_refl Hget) in E.
      destruct (cycs fs m0 hist (fetch_epoch o url)) eqn:Ecy.
      { inversion E; subst. repeat split; auto; try apply Hinv1o; [discriminate|].
        intros _ HF. inversion HF; subst; [discriminate|congruence]. }
      destruct (find_comp (m_comps sm) ref) as [sc|] eqn:Efc.
      2:{ inversion E; subst. repeat split; auto; try apply Hinv1o; [discriminate|].
          intros _ HF. inversion HF; subst; [discriminate|congruence]. }
      set (o' := Some (key_of o url)) in *. set (hist' := hist ++ [fetch_epoch o url]) in *.
      assert (Hinv1 : sinv hist' o' st1).
      { repeat split; auto.
        - intros e He. apply in_app_or in He. destruct He as [He|[<-|[]]]; [apply Hh1, He | exact Ho1].
        - exists sm. exact Hget. }
      assert (Hback : forall x, cons fs x -> mono st1 x -> sinv hist o x).
      { intros x Hcx Hmx. eapply sinv_mono; eauto. }
      destruct (fetch_comp f strict fs m0 st1 o' hist' sc) as [[b2 st2]| |] eqn:E2; try discriminate.
      destruct (IH _ _ _ _ _ _ Hinv1 E2) as (Hinv2 & Hm2 & Ht2 & Hf2).
      destruct b2.
      2:{ inversion E; subst. split; [apply Hback; [apply Hinv2|exact Hm2]|].
          split; [eauto using mono_trans|]. split; [discriminate|].
          intros _ HF. inversion HF; subst; [discriminate|]. assert (sm0 = sm) by congruence. subst sm0.
          assert (sc0 = sc) by congruence. subst sc0. apply (Hf2 eq_refl). assumption. }
      destruct (all_ok (fun st k => fetch_comp f strict fs m0 st o' hist' k) (ckids sc) st2) as [[b3 st3]| |] eqn:E3;
        try discriminate.
      assert (Hall3 : sinv hist' o' st3 /\ mono st2 st3 /\ (b3 = true -> forall k, In k (ckids sc) -> FC fs m0 o' hist' k) /\
                      (b3 = false -> exists k, In k (ckids sc) /\ ~ FC fs m0 o' hist' k)).
      { eapply (all_ok_spec (sinv hist' o') (FC fs m0 o' hist')); [|exact Hinv2|exact E3].
        intros k x b' x' _ Hx Es. cbv beta in Es. eapply IH; eauto. }
      destruct Hall3 as (Hinv3 & Hm3 & Ht3 & Hf3).
      destruct b3.
      2:{ inversion E; subst. split; [apply Hback; [apply Hinv3|eauto using mono_trans]|].
          split; [eauto using mono_trans|]. split; [discriminate|].
          intros _ HF. destruct (Hf3 eq_refl) as (k & Hk & Hn). clear Hf3 Ht3.
          inversion HF; subst; [discriminate|]. assert (sm0 = sm) by congruence. subst sm0.
          assert (sc0 = sc) by congruence. subst sc0. apply Hn. auto. }
      set (Q := fun un => is_std un = false ->
                          exists su, find_units (m_units sm) un = Some su /\ FU fs m0 o' hist' su).
      assert (Hall : sinv hist' o' st' /\ mono st3 st' /\ (b = true -> forall a, In a (cused sc) -> Q a) /\
                     (b = false -> exists a, In a (cused sc) /\ ~ Q a)).
      { eapply (all_ok_spec (sinv hist' o') Q); [|exact Hinv3|exact E].
        clear E. intros un x b' x' _ Hx Es. cbv beta in Es. unfold Q. destruct (is_std un) eqn:Estd.
        - inversion Es; subst. repeat split; auto using mono_refl; try apply Hx; discriminate.
        - destruct (find_units (m_units sm) un) as [su|] eqn:Esu.
          + destruct (fetch_units_spec f _ _ _ _ _ _ Hx Es) as (Hcx & Hmx & Htx & Hfx).
            split; [eapply sinv_mono; eauto|]. split; [exact Hmx|]. split.
            * intros Hb _. exists su. split; [reflexivity|auto].
            * intros Hb Hq. destruct (Hq eq_refl) as (su' & Esu' & HF'). assert (su' = su) by congruence. subst su'.
              apply (Hfx Hb HF').
          + inversion Es; subst. split; [apply sinv_add_issue; exact Hx|].
            split; [apply mono_same_lib; reflexivity|]. split; [discriminate|].
            intros _ Hq. destruct (Hq eq_refl) as (su' & Esu' & _). discriminate. }
      destruct Hall as (Hinv' & Hm' & Ht' & Hf').
      split; [apply Hback; [apply Hinv'|eauto using mono_trans]|].
      split; [eauto 6 using mono_trans|]. split.
      + intros Hb. eapply FC_imp; eauto.
        * intros un Hun Hs. destruct (Ht' Hb un Hun Hs) as (su & Esu & _). congruence.
        * intros un su Hun Hs Esu. destruct (Ht' Hb un Hun Hs) as (su' & Esu' & HF'). assert (su' = su) by congruence. subst su'. exact HF'.
      + intros Hb HF. destruct (Hf' Hb) as (un & Hun & Hq). clear Hf' Ht' Hb.
        inversion HF as [| |? ? ? ? ? ? ? ? sm0 sc0 H1 H2 H3 H4 H5 Hex Hall]; subst; [discriminate|].
        assert (sm0 = sm) by congruence. subst sm0.
        assert (sc0 = sc) by congruence. subst sc0.
        apply Hq. intros Hs. specialize (Hex un Hun Hs).
        destruct (find_units (m_units sm) un) as [su|] eqn:Esu; [|congruence].
        exists su. split; [reflexivity|]. eapply Hall; eauto.
  Qed.
End Spec.

Lemma resolve_loop_spec {A : Type} (P : state -> Prop) (Q : A -> Prop)
      (fetch : state -> A -> res (bool * state)) (item : A -> iitem) :
  (forall st it, P st -> P (retarget_last st it)) ->
  forall l,
  (forall st a b st', In a l -> P st -> fetch st a = Ok (b, st') ->
                      P st' /\ (b = true -> Q a) /\ (b = false -> ~ Q a)) ->
  forall acc st b st', P st -> resolve_loop fetch item l acc st = Ok (b, st') ->
    P st' /\ (b = true -> acc = true /\ forall a, In a l -> Q a) /\
    (b = false -> acc = false \/ exists a, In a l /\ ~ Q a).
Proof.
  intros Hrt. induction l as [|a r IH]; intros Hf acc st b st' Hst E; cbn [resolve_loop] in E.
  - inversion E; subst. repeat split; auto. intros x [].
  - destruct (fetch st a) as [[b1 st1]| |] eqn:E1; try discriminate.
    destruct (Hf _ _ _ _ (or_introl eq_refl) Hst E1) as (H1 & Ht1 & Hf1).
    assert (Hf' : forall st a b st', In a r -> P st -> fetch st a = Ok (b, st') ->
                                     P st' /\ (b = true -> Q a) /\ (b = false -> ~ Q a)).
    { intros s a' b' s' Ha'. apply Hf. right. exact Ha'. }
    destruct b1.
    + destruct (IH Hf' _ _ _ _ H1 E) as (H2 & Ht2 & Hf2). split; [exact H2|]. split.
      * intros Hb. destruct (Ht2 Hb) as [Hacc Hall]. split; [exact Hacc|].
        intros a' [<-|Ha']; [apply Ht1; reflexivity | apply Hall; exact Ha'].
      * intros Hb. destruct (Hf2 Hb) as [Hacc|(a' & Ha' & Hn)]; [left; exact Hacc|].
        right. exists a'. split; [right; exact Ha'|exact Hn].
    + destruct (IH Hf' _ _ _ _ (Hrt _ _ H1) E) as (H2 & Ht2 & Hf2). split; [exact H2|]. split.
      * intros Hb. destruct (Ht2 Hb) as [Habs _]. discriminate.
      * intros _. right. exists a. split; [left; reflexivity|apply Hf1; reflexivity].
Qed.

(* Theorem A: on an importer whose library caches (part of) the file system -- in particular a fresh one, or one
   after removeAllModels -- and when no file carries parser errors, resolveImports answers true exactly when the
   importer's own demands (ImportSpec.CodeResolvable) are met by the file system *)
Lemma resolve_code_spec : forall fs, NoErrs fs -> forall fuel strict st m0 b st',
  cons fs st ->
  resolve_imports fuel strict fs st m0 = Ok (b, st') ->
  (b = true <-> CodeResolvable fs m0).
Proof.
  intros fs Hne fuel strict st m0 b st' Hc E. unfold resolve_imports in E.
  set (P := sinv fs [] None).
  assert (HP0 : P (clear_origin_links (clear_issues st))).
  { repeat split; auto. intros e []. }
  assert (Hrt : forall s it, P s -> P (retarget_last s it)).
  { intros s it Hs. unfold retarget_last. destruct (issues_rev s); exact Hs. }
  destruct (resolve_loop (fun st u => fetch_units fuel strict fs m0 st None [] u) (fun u => ItUnits None (uname u))
                         (imported_units m0) true (clear_origin_links (clear_issues st)))
    as [[b1 st1]| |] eqn:E1; try discriminate.
  assert (Hsu : forall s u b' s', In u (imported_units m0) -> P s ->
                  fetch_units fuel strict fs m0 s None [] u = Ok (b', s') ->
                  P s' /\ (b' = true -> FU fs m0 None [] u) /\ (b' = false -> ~ FU fs m0 None [] u)).
  { intros s u b' s' _ Hs Es. destruct (fetch_units_spec fs strict m0 Hne fuel _ _ _ _ _ _ Hs Es) as (Hc' & Hm' & Ht & Hf).
    split; [eapply sinv_mono; eauto|]. auto. }
  assert (Hsc : forall s c b' s', In c (imported_comps m0) -> P s ->
                  fetch_comp fuel strict fs m0 s None [] c = Ok (b', s') ->
                  P s' /\ (b' = true -> FC fs m0 None [] c) /\ (b' = false -> ~ FC fs m0 None [] c)).
  { intros s c b' s' _ Hs Es. destruct (fetch_comp_spec fs strict m0 Hne fuel _ _ _ _ _ _ Hs Es) as (Hs' & _ & Ht & Hf).
    auto. }
  destruct (resolve_loop_spec P (FU fs m0 None []) _ _ Hrt _ Hsu _ _ _ _ HP0 E1) as (HP1 & Ht1 & Hf1).
  destruct (resolve_loop_spec P (FC fs m0 None []) _ _ Hrt _ Hsc _ _ _ _ HP1 E) as (HP2 & Ht2 & Hf2).
  split.
  - intros Hb. destruct (Ht2 Hb) as (Hb1 & Hcs). destruct (Ht1 Hb1) as (_ & Hus). split; assumption.
  - intros (Hus & Hcs). destruct b; [reflexivity|]. exfalso.
    destruct (Hf2 eq_refl) as [Hb1|(c & Hc' & Hn)]; [|apply Hn, Hcs, Hc'].
    destruct (Hf1 Hb1) as [Habs|(u & Hu & Hn)]; [discriminate|apply Hn, Hus, Hu].
Qed.

(* ------------------------------------------------------------------------------------------ membership lemmas *)

Lemma find_units_In : forall us n u, find_units us n = Some u -> In u us.
Proof. intros us n u E. unfold find_units in E. apply find_some in E. apply E. Qed.

Lemma subcomps_self : forall c, In c (subcomps c).
Proof. intros [n i u k]. cbn. left. reflexivity. Qed.

Lemma subcomps_kids : forall c k, In k (ckids c) -> incl (subcomps k) (subcomps c).
Proof.
  intros [n i u kids] k Hk x Hx. cbn [ckids] in Hk. cbn [subcomps]. right.
  induction kids as [|k' r IH]; [destruct Hk|]. apply in_or_app. destruct Hk as [->|Hk]; [left; exact Hx|right; auto].
Qed.

Lemma subcomps_trans : forall c d, In d (subcomps c) -> incl (subcomps d) (subcomps c).
Proof.
  induction c as [n i u kids IHk] using comp_ind'. intros d Hd. cbn [subcomps] in Hd.
  destruct Hd as [<-|Hd]; [apply incl_refl|].
  intros x Hx. cbn [subcomps]. right.
  induction kids as [|k r IHr]; [destruct Hd|]. inversion IHk as [|k' r' Hk Hr]; subst.
  apply in_app_or in Hd. apply in_or_app. destruct Hd as [Hd|Hd].
  - left. eapply Hk; eauto.
  - right. apply IHr; assumption.
Qed.

Lemma subcomps_eq : forall n i u kids, subcomps (Comp n i u kids) = Comp n i u kids :: flat_map subcomps kids.
Proof.
  intros. reflexivity.
Qed.

Lemma find_comp_in_sub : forall c n x, find_comp_in c n = Some x -> In x (flat_map subcomps (ckids c)).
Proof.
  induction c as [nm i u kids IHk] using comp_ind'. intros n x E. cbn [find_comp_in] in E. cbn [ckids].
  destruct (find (fun k => String.eqb (cname k) n) kids) as [k|] eqn:Ef.
  - inversion E; subst. apply find_some in Ef. apply in_flat_map. exists x. split; [apply Ef|apply subcomps_self].
  - clear Ef. induction kids as [|k r IHr]; [discriminate|]. inversion IHk as [|k' r' Hk Hr]; subst.
    cbn [flat_map]. apply in_or_app.
    destruct (find_comp_in k n) as [y|] eqn:Ek.
    + inversion E; subst. left. destruct k as [kn ki ku kk]. rewrite subcomps_eq. right. apply (Hk _ _ Ek).
    + right. apply IHr; assumption.
Qed.

Lemma find_comp_sub : forall cs n x, find_comp cs n = Some x -> In x (flat_map subcomps cs).
Proof.
  intros cs n x E. unfold find_comp in E.
  destruct (find (fun k => String.eqb (cname k) n) cs) as [k|] eqn:Ef.
  - inversion E; subst. apply find_some in Ef. apply in_flat_map. exists x. split; [apply Ef|apply subcomps_self].
  - clear Ef. induction cs as [|k r IHr]; [discriminate|]. cbn [flat_map]. apply in_or_app.
    destruct (find_comp_in k n) as [y|] eqn:Ek.
    + inversion E; subst. left. destruct k as [kn ki ku kk]. rewrite subcomps_eq. right.
      apply (find_comp_in_sub _ _ _ Ek).
    + right. apply IHr. exact E.
Qed.

(* children of a component of the model are child components of the model, and components of the model *)
Lemma kids_child_comps : forall m c k, In c (all_comps m) -> In k (ckids c) -> In k (child_comps m) /\ In k (all_comps m).
Proof.
  intros m c k Hc Hk. split.
  - unfold child_comps. apply in_flat_map. exists c. split; [exact Hc|]. apply in_flat_map. exists k.
    split; [exact Hk|apply subcomps_self].
  - unfold all_comps in *. apply in_flat_map in Hc. destruct Hc as (t & Ht & Hc). apply in_flat_map. exists t.
    split; [exact Ht|]. eapply subcomps_trans; [exact Hc|]. eapply subcomps_kids; [exact Hk|apply subcomps_self].
Qed.

Lemma child_comps_kids : forall m c k, In c (child_comps m) -> In k (ckids c) -> In k (child_comps m).
Proof.
  intros m c k Hc Hk. unfold child_comps in *. apply in_flat_map in Hc. destruct Hc as (p & Hp & Hc).
  apply in_flat_map in Hc. destruct Hc as (q & Hq & Hc). apply in_flat_map. exists p. split; [exact Hp|].
  apply in_flat_map. exists q. split; [exact Hq|]. eapply subcomps_trans; [exact Hc|].
  eapply subcomps_kids; [exact Hk|apply subcomps_self].
Qed.

Lemma child_comps_all : forall m c, In c (child_comps m) -> In c (all_comps m).
Proof.
  intros m c Hc. unfold child_comps in Hc. apply in_flat_map in Hc. destruct Hc as (p & Hp & Hc).
  apply in_flat_map in Hc. destruct Hc as (q & Hq & Hc).
  destruct (kids_child_comps m p q Hp Hq) as (_ & Hqa).
  unfold all_comps in *. apply in_flat_map in Hqa. destruct Hqa as (t & Ht & Hqa). apply in_flat_map. exists t.
  split; [exact Ht|]. eapply subcomps_trans; eauto.
Qed.

(* ------------------------------------------------------------------------------------------ code's demands => satisfiable *)

Section CodeToSpec.
  Variable fs : fsys.
  Variable m0 : model.
  Hypothesis Hsh : Shallow fs.

  Lemma only_std_RU : forall o cm cu, is_local cu -> only_std cu -> RU fs o cm cu.
  Proof.
    intros o cm [n refs|] Hl Ho; [|destruct Hl]. apply RU_local.
    - intros r Hr Hs. rewrite (Ho r Hr) in Hs. discriminate.
    - intros r cu Hr Hs. rewrite (Ho r Hr) in Hs. discriminate.
  Qed.

  Lemma FU_RU : forall o hist u, FU fs m0 o hist u -> forall cm, ~ is_local u -> RU fs o cm u.
  Proof.
    intros o hist u HF. induction HF as [o hist n refs | o hist n sid url ref sm su Hfm Hcy Hfu HFsu IHsu Hex Hall IHall];
      intros cm Hnl.
    - exfalso. apply Hnl. exact I.
    - apply RU_imp with (sm := sm) (su := su); auto.
      destruct su as [n' refs'|n' sid' url' ref']; [|apply IHsu; intros []].
      destruct (Hsh _ _ Hfm) as (S1 & _).
      apply RU_local.
      + intros r Hr Hs. apply Hex; assumption.
      + intros r cu Hr Hs Ecu. destruct cu as [nc rc|nc sc uc rc].
        * apply only_std_RU; [exact I|].
          eapply (S1 (ULocal n' refs') r (ULocal nc rc)); eauto; try exact I;
            try (eapply find_units_In; exact Hfu).
        * eapply IHall; eauto.
  Qed.

  (* units used by a component, given what fetchComponent checked about them *)
  Lemma used_RU : forall o sm k c, fs_model fs k = Some sm -> In c (all_comps sm) ->
    (forall un su, In un (cused c) -> is_std un = false -> find_units (m_units sm) un = Some su ->
                   exists hist, FU fs m0 o hist su) ->
    forall un su, In un (cused c) -> is_std un = false -> find_units (m_units sm) un = Some su -> RU fs o sm su.
  Proof.
    intros o sm k c Hfm Hc HF un su Hun Hs Esu. destruct (Hsh _ _ Hfm) as (_ & S2 & _).
    destruct su as [ns rs|ns ss us rs].
    - apply only_std_RU; [exact I|]. eapply S2; eauto. exact I.
    - destruct (HF _ _ Hun Hs Esu) as (hist & H). eapply FU_RU; eauto.
  Qed.

  Lemma child_used : forall o sm k c, fs_model fs k = Some sm -> In c (child_comps sm) ->
    (forall un, In un (cused c) -> is_std un = false -> find_units (m_units sm) un <> None) /\
    (forall un su, In un (cused c) -> is_std un = false -> find_units (m_units sm) un = Some su -> RU fs o sm su).
  Proof.
    intros o sm k c Hfm Hc. destruct (Hsh _ _ Hfm) as (_ & _ & S3 & _). split.
    - intros un Hun Hs. destruct (S3 c un Hc Hun Hs) as (su & E & _). congruence.
    - intros un su Hun Hs E. destruct (S3 c un Hc Hun Hs) as (su' & E' & Hl & Ho).
      assert (su' = su) by congruence. subst su'. apply only_std_RU; assumption.
  Qed.

  (* an encapsulated child without imports below it is satisfiable (S3 for its units, and so on downwards) *)
  Lemma noimp_RC : forall o sm k, fs_model fs k = Some sm ->
    forall c, requires_imports c = false -> In c (child_comps sm) -> RC fs o sm c.
  Proof.
    intros o sm k Hfm c. induction c as [n i used kids IHk] using comp_ind'. intros Hr Hc.
    destruct i as [p|]; [cbn in Hr; discriminate|].
    destruct (child_used o sm k _ Hfm Hc) as (Hex & Hall).
    apply RC_local; auto.
    intros kd Hkd. rewrite Forall_forall in IHk. apply IHk; auto.
    - cbn [requires_imports] in Hr. clear -Hr Hkd. induction kids as [|x r IH]; [destruct Hkd|].
      destruct (requires_imports x) eqn:Ex; [discriminate|]. destruct Hkd as [<-|Hkd]; auto.
    - eapply child_comps_kids; eauto.
  Qed.

  (* the import target [sc] of a component imported by an entity of [o], given what fetchComponent found out *)
  Lemma target_RC : forall o' sm k sc hist,
    fs_model fs k = Some sm -> In sc (all_comps sm) ->
    RCimport fs o' sc ->
    (forall kd, In kd (ckids sc) -> RC fs o' sm kd) ->
    (forall un, In un (cused sc) -> is_std un = false -> find_units (m_units sm) un <> None) ->
    (forall un su, In un (cused sc) -> is_std un = false -> find_units (m_units sm) un = Some su -> FU fs m0 o' hist su) ->
    RC fs o' sm sc.
  Proof.
    intros o' sm k sc hist Hfm Hin Himp Hk Hex Hall.
    assert (Hu_all : forall un su, In un (cused sc) -> is_std un = false ->
                                   find_units (m_units sm) un = Some su -> RU fs o' sm su).
    { eapply used_RU; eauto. }
    destruct sc as [n' [[[sid' url'] ref']|] used' kids'].
    - cbn [RCimport] in Himp. destruct Himp as (sm' & sc' & H1 & H2 & H3). eapply RC_imp; eauto.
    - apply RC_local; auto.
  Qed.

  (* what a successful fetchComponent says about a component [c] of a library model [cm]: its import is
     satisfiable, and if [c] is an encapsulated child then all of it is *)
  Lemma FC_RC : forall o hist c, FC fs m0 o hist c ->
    forall cm k, fs_model fs k = Some cm -> In c (all_comps cm) ->
                 RCimport fs o c /\ (In c (child_comps cm) -> RC fs o cm c).
  Proof.
    intros o hist c HF.
    induction HF as [o hist c Hreq
                    | o hist n used kids Hkids IHkids
                    | o hist n sid url ref used kids sm sc Hfm Hcy Hfc HFsc IHsc HFk IHk Hex Hall];
      intros cm k Hcm Hin.
    - split.
      + destruct c as [n [p|] u kd]; [cbn in Hreq; discriminate|exact I].
      + intros Hch. eapply noimp_RC; eauto.
    - split; [exact I|]. intros Hch.
      destruct (child_used o cm k _ Hcm Hch) as (Hex & Hall).
      apply RC_local; auto.
      intros kd Hkd. destruct (kids_child_comps cm _ kd Hin Hkd) as (Hkc & Hka).
      apply (IHkids kd Hkd cm k Hcm Hka). exact Hkc.
    - assert (Hsc_in : In sc (all_comps sm)) by (eapply find_comp_sub; exact Hfc).
      assert (HRC : RC fs (Some (key_of o url)) sm sc).
      { eapply target_RC; eauto.
        - apply (IHsc sm _ Hfm Hsc_in).
        - intros kd Hkd. destruct (kids_child_comps sm _ kd Hsc_in Hkd) as (Hkc & Hka).
          apply (IHk kd Hkd sm _ Hfm Hka). exact Hkc. }
      split.
      + cbn [RCimport]. exists sm, sc. auto.
      + intros Hch. destruct (child_used o cm k _ Hcm Hch) as (Hex' & Hall').
        destruct (Hsh _ _ Hcm) as (_ & _ & _ & S4).
        assert (Hnk : kids = []) by (apply (S4 _ Hch); cbn; discriminate).
        subst kids. eapply RC_imp; eauto. intros kd [].
  Qed.

  (* Theorem B, first half: under Shallow, what the importer demands implies that every import is satisfiable *)
  Lemma code_resolvable_resolvable : CodeResolvable fs m0 -> Resolvable fs m0.
  Proof.
    intros (Hu & Hc). split.
    - intros u Hin. apply (FU_RU _ _ _ (Hu u Hin)). unfold imported_units in Hin. apply filter_In in Hin.
      destruct u; [destruct Hin as [_ Habs]; discriminate|intros []].
    - intros c Hin. specialize (Hc c Hin).
      (* the import part of an imported component of the origin: same argument as in FC_RC, without a file *)
      inversion Hc as [o hist c' Hreq
                      | o hist n used kids Hkids
                      | o hist n sid url ref used kids sm sc Hfm Hcy Hfc HFsc HFk Hex Hall]; subst.
      + destruct c as [n [p|] u kd]; [cbn in Hreq; discriminate|exact I].
      + exact I.
      + assert (Hsc_in : In sc (all_comps sm)) by (eapply find_comp_sub; exact Hfc).
        cbn [RCimport]. exists sm, sc. split; [exact Hfm|]. split; [exact Hfc|].
        eapply target_RC; eauto.
        * apply (FC_RC _ _ _ HFsc sm _ Hfm Hsc_in).
        * intros kd Hkd. destruct (kids_child_comps sm _ kd Hsc_in Hkd) as (Hkc & Hka).
          apply (FC_RC _ _ _ (HFk kd Hkd) sm _ Hfm Hka). exact Hkc.
  Qed.
End CodeToSpec.

(* ------------------------------------------------------------------------------------------ satisfiable => code's demands *)

Lemma mk_key_not_origin : forall u, mk_key u <> origin_ref.
Proof. intros u H. unfold mk_key, dir_prefix, origin_ref in H. cbn in H. inversion H. Qed.

Lemma existsb_false {A : Type} (f : A -> bool) (l : list A) : (forall a, In a l -> f a = false) -> existsb f l = false.
Proof.
  induction l as [|a r IH]; intros H; [reflexivity|]. cbn. rewrite (H a (or_introl eq_refl)). apply IH.
  intros x Hx. apply H. right. exact Hx.
Qed.

Lemma imported_comps_of_imp : forall c x, In x (imported_comps_of c) -> cimp x <> None.
Proof.
  induction c as [n i u kids IHk] using comp_ind'. intros x Hx. cbn [imported_comps_of] in Hx.
  apply in_app_or in Hx. destruct Hx as [Hx|Hx].
  - destruct i; [|destruct Hx]. destruct Hx as [<-|[]]. cbn. discriminate.
  - induction kids as [|k r IHr]; [destruct Hx|]. inversion IHk as [|k' r' Hk Hr]; subst.
    apply in_app_or in Hx. destruct Hx as [Hx|Hx]; [apply Hk; exact Hx|apply IHr; assumption].
Qed.

Lemma imported_comps_imp : forall m x, In x (imported_comps m) -> cimp x <> None.
Proof.
  intros m x Hx. unfold imported_comps in Hx. apply in_flat_map in Hx. destruct Hx as (c & _ & Hx).
  eapply imported_comps_of_imp. exact Hx.
Qed.

Section SpecToCode.
  Variable fs : fsys.
  Variable m0 : model.
  Variable rank : string -> nat.
  Hypothesis Hrank : forall k sm url, fs_model fs k = Some sm -> In url (import_urls sm) ->
                                      rank (key_of (Some k) url) < rank k.
  Hypothesis Hnt : NoTwin fs m0.
  Hypothesis Hkeys : KeysOK fs.

  (* the history holds files of strictly larger rank than the current one (or the origin model) *)
  Definition below (o : owner) (hist : list epoch) : Prop :=
    (forall e, In e hist -> e_srcm e = None \/ e_src e <> origin_ref) /\
    match o with
    | None => hist = []
    | Some k => k <> origin_ref /\ forall e, In e hist -> e_src e = origin_ref \/ rank k < rank (e_src e)
    end.

  Definition lower (o : owner) (url : string) : Prop := forall k, o = Some k -> rank (key_of o url) < rank k.

  Lemma cycs_false : forall o hist url sm,
    below o hist -> lower o url -> fs_model fs (key_of o url) = Some sm ->
    cycs fs m0 hist (fetch_epoch o url) = false.
  Proof.
    intros o hist url sm (Hwf & Hb) Hlow Hfm. unfold cycs. apply existsb_false. intros e He.
    cbn [fetch_epoch e_dst e_dstm]. rewrite Hfm.
    destruct o as [k|]; [|subst hist; destruct He].
    destruct Hb as (_ & Hb). specialize (Hlow k eq_refl).
    apply orb_false_iff. split.
    - apply String.eqb_neq. intros Heq. destruct (Hb e He) as [Ho|Hr].
      + rewrite Ho in Heq. exact (Hkeys _ _ Hfm Heq).
      + rewrite <- Heq in Hr. lia.
    - destruct (String.eqb (e_src e) origin_ref) eqn:Eo; [|reflexivity]. cbn [andb].
      apply String.eqb_eq in Eo. destruct (Hwf e He) as [Hn|Hn]; [|contradiction].
      rewrite Hn. cbn [fcontent]. apply (Hnt _ _ Hfm).
  Qed.

  Lemma below_push : forall o hist url sm, below o hist -> lower o url -> fs_model fs (key_of o url) = Some sm ->
    below (Some (key_of o url)) (hist ++ [fetch_epoch o url]).
  Proof.
    intros o hist url sm (Hwf & Hb) Hlow Hfm. split.
    - intros e He. apply in_app_or in He. destruct He as [He|[<-|[]]]; [apply Hwf, He|].
      cbn [fetch_epoch e_srcm e_src]. destruct o as [k|]; [|left; reflexivity].
      right. destruct Hb as (Hk & _). cbn [model_url]. exact Hk.
    - split; [exact (Hkeys _ _ Hfm)|]. intros e He. apply in_app_or in He. destruct He as [He|[<-|[]]].
      + destruct o as [k|]; [|subst hist; destruct He]. destruct Hb as (_ & Hb). specialize (Hlow k eq_refl).
        destruct (Hb e He) as [Ho|Hr]; [left; exact Ho|right; lia].
      + cbn [fetch_epoch e_src]. destruct o as [k|]; [|left; reflexivity]. right. cbn [model_url]. apply Hlow. reflexivity.
  Qed.

  Definition ctxU (o : owner) (hist : list epoch) (cm : model) (u : units) : Prop :=
    fcontent fs m0 o = Some cm /\ In u (m_units cm) /\ below o hist.
  Definition ctxC (o : owner) (hist : list epoch) (cm : model) (c : comp) : Prop :=
    fcontent fs m0 o = Some cm /\ In c (all_comps cm) /\ below o hist.

  Lemma lower_units : forall o hist cm n sid url ref, ctxU o hist cm (UImp n sid url ref) -> lower o url.
  Proof.
    intros o hist cm n sid url ref (Hc & Hin & _) k ->. cbn [fcontent] in Hc. eapply Hrank; [exact Hc|].
    unfold import_urls. apply in_or_app. left. apply in_flat_map. eexists. split; [exact Hin|]. cbn. left. reflexivity.
  Qed.

  Lemma lower_comp : forall o hist cm n sid url ref used kids,
    ctxC o hist cm (Comp n (Some (sid, url, ref)) used kids) -> lower o url.
  Proof.
    intros o hist cm n sid url ref used kids (Hc & Hin & _) k ->. cbn [fcontent] in Hc. eapply Hrank; [exact Hc|].
    unfold import_urls. apply in_or_app. right. apply in_flat_map. eexists. split; [exact Hin|]. cbn. left. reflexivity.
  Qed.

  Lemma RU_FU : forall o cm u, RU fs o cm u ->
    (forall hist, ctxU o hist cm u -> FU fs m0 o hist u) /\
    (forall r cu, In r (refs_of u) -> is_std r = false -> find_units (m_units cm) r = Some cu ->
                  forall hist, ctxU o hist cm cu -> FU fs m0 o hist cu).
  Proof.
    intros o cm u HR.
    induction HR as [o cm n sid url ref sm su Hfm Hfu HRsu IHsu | o cm n refs Hex Hall IHall].
    - split; [|intros r cu []].
      intros hist Hctx. pose proof (lower_units _ _ _ _ _ _ _ Hctx) as Hlow.
      destruct Hctx as (Hc & Hin & Hb). destruct IHsu as (IH1 & IH2).
      assert (Hctx' : forall x, In x (m_units sm) ->
                                ctxU (Some (key_of o url)) (hist ++ [fetch_epoch o url]) sm x).
      { intros x Hx. split; [exact Hfm|]. split; [exact Hx|]. eapply below_push; eauto. }
      apply FU_imp with (sm := sm) (su := su); [exact Hfm| |exact Hfu| | |].
      + eapply cycs_false; eauto.
      + apply IH1. apply Hctx'. eapply find_units_In; eauto.
      + inversion HRsu; subst; cbn [refs_of]; [intros r []|]. assumption.
      + intros r cu Hr Hs E. eapply IH2; eauto. apply Hctx'. eapply find_units_In; eauto.
    - split; [intros; apply FU_local|].
      intros r cu Hr Hs E hist Hctx. cbn [refs_of] in Hr. destruct (IHall r cu Hr Hs E) as (IH1 & _). auto.
  Qed.

  Lemma RC_FC : forall o cm c, RC fs o cm c ->
    (forall hist, ctxC o hist cm c -> FC fs m0 o hist c) /\
    (forall k, In k (ckids c) -> forall hist, ctxC o hist cm k -> FC fs m0 o hist k) /\
    (forall un, In un (cused c) -> is_std un = false -> find_units (m_units cm) un <> None) /\
    (forall un su, In un (cused c) -> is_std un = false -> find_units (m_units cm) un = Some su ->
                   forall hist, ctxU o hist cm su -> FU fs m0 o hist su).
  Proof.
    intros o cm c HR.
    induction HR as [o cm n used kids Hex Hall Hkids IHkids
                    | o cm n sid url ref used kids sm sc Hfm Hfc HRsc IHsc Hex Hall Hkids IHkids].
    - assert (P2 : forall k, In k kids -> forall hist, ctxC o hist cm k -> FC fs m0 o hist k).
      { intros k Hk. destruct (IHkids k Hk) as (IH1 & _). exact IH1. }
      split; [|split; [exact P2|split; [exact Hex|]]].
      + intros hist (Hc & Hin & Hb). apply FC_local. intros k Hk. apply P2; [exact Hk|].
        split; [exact Hc|]. split; [|exact Hb]. eapply kids_child_comps; eauto.
      + intros un su Hun Hs E. apply (proj1 (RU_FU _ _ _ (Hall un su Hun Hs E))).
    - assert (P2 : forall k, In k kids -> forall hist, ctxC o hist cm k -> FC fs m0 o hist k).
      { intros k Hk. destruct (IHkids k Hk) as (IH1 & _). exact IH1. }
      split; [|split; [exact P2|split; [exact Hex|]]].
      + intros hist Hctx. pose proof (lower_comp _ _ _ _ _ _ _ _ _ Hctx) as Hlow.
        destruct Hctx as (Hc & Hin & Hb). destruct IHsc as (IH1 & IH2 & IH3 & IH4).
        assert (Hb' : below (Some (key_of o url)) (hist ++ [fetch_epoch o url])) by (eapply below_push; eauto).
        assert (Hsc_in : In sc (all_comps sm)) by (eapply find_comp_sub; exact Hfc).
        apply FC_imp with (sm := sm) (sc := sc); [exact Hfm| |exact Hfc| | |exact IH3|].
        * eapply cycs_false; eauto.
        * apply IH1. split; [exact Hfm|]. split; assumption.
        * intros k Hk. apply IH2; [exact Hk|]. split; [exact Hfm|]. split; [|exact Hb'].
          eapply kids_child_comps; eauto.
        * intros un su Hun Hs E. eapply IH4; eauto. split; [exact Hfm|]. split; [|exact Hb'].
          eapply find_units_In; eauto.
      + intros un su Hun Hs E. apply (proj1 (RU_FU _ _ _ (Hall un su Hun Hs E))).
  Qed.

  Lemma below_start : below None [].
  Proof. split; [intros e []|reflexivity]. Qed.

  (* Theorem B, second half: when files do not import in a circle and no file equals the origin model, every
     satisfiable import passes the importer's demands (its cycle test never fires) *)
  Lemma resolvable_code_resolvable : Resolvable fs m0 -> CodeResolvable fs m0.
  Proof.
    intros (Hu & Hc). split.
    - intros u Hin. apply (proj1 (RU_FU _ _ _ (Hu u Hin))). split; [reflexivity|]. split; [|apply below_start].
      unfold imported_units in Hin. apply filter_In in Hin. apply Hin.
    - intros c Hin. specialize (Hc c Hin). pose proof (imported_comps_imp _ _ Hin) as Himp.
      destruct c as [n [[[sid url] ref]|] used kids]; [|exfalso; apply Himp; reflexivity].
      cbn [RCimport] in Hc. destruct Hc as (sm & sc & Hfm & Hfc & HRsc).
      destruct (RC_FC _ _ _ HRsc) as (IH1 & IH2 & IH3 & IH4).
      assert (Hlow : lower None url) by (intros k Habs; discriminate).
      assert (Hb' : below (Some (key_of None url)) ([] ++ [fetch_epoch None url])) by (eapply below_push; eauto using below_start).
      assert (Hsc_in : In sc (all_comps sm)) by (eapply find_comp_sub; exact Hfc).
      apply FC_imp with (sm := sm) (sc := sc); [exact Hfm| |exact Hfc| | |exact IH3|].
      + eapply cycs_false; eauto. apply below_start.
      + apply IH1. split; [exact Hfm|]. split; assumption.
      + intros k Hk. apply IH2; [exact Hk|]. split; [exact Hfm|]. split; [|exact Hb'].
        eapply kids_child_comps; eauto.
      + intros un su Hun Hs E. eapply IH4; eauto. split; [exact Hfm|]. split; [|exact Hb'].
        eapply find_units_In; eauto.
  Qed.
End SpecToCode.

(* ------------------------------------------------------------------------------------------ the main theorems *)

Lemma cons_empty_lib : forall fs st, lib st = [] -> cons fs st.
Proof. intros fs st E k m H. rewrite E in H. discriminate. Qed.

(* exact form: on a library that caches the file system, resolveImports = true <-> the importer's demands *)
Lemma resolve_true_iff_code : forall fs strict st m0 fuel,
  NoErrs fs -> cons fs st -> fuel_bound fs st <= fuel ->
  exists b st', resolve_imports fuel strict fs st m0 = Ok (b, st') /\ (b = true <-> CodeResolvable fs m0).
Proof.
  intros fs strict st m0 fuel Hne Hc Hfuel.
  destruct (resolve_terminates strict fs st m0 fuel Hfuel) as (b & st' & E).
  exists b, st'. split; [exact E|]. eapply resolve_code_spec; eauto.
Qed.

(* the property's form, with the hypotheses the code needs spelled out *)
Lemma resolve_true_iff_partial : forall fs strict st m0 fuel,
  NoErrs fs -> Shallow fs -> AcyclicFiles fs -> NoTwin fs m0 -> KeysOK fs ->
  cons fs st -> fuel_bound fs st <= fuel ->
  exists b st', resolve_imports fuel strict fs st m0 = Ok (b, st') /\ (b = true <-> Resolvable fs m0).
Proof.
  intros fs strict st m0 fuel Hne Hsh (rank & Hrank) Hnt Hk Hc Hfuel.
  destruct (resolve_true_iff_code fs strict st m0 fuel Hne Hc Hfuel) as (b & st' & E & Hiff).
  exists b, st'. split; [exact E|]. rewrite Hiff. split.
  - apply code_resolvable_resolvable. exact Hsh.
  - eapply resolvable_code_resolvable; eauto.
Qed.

(* removeAllModels (or a new Importer) gives a fresh resolution, whatever happened before *)
Lemma resolve_after_clear : forall fuel strict fs st m0,
  resolve_imports fuel strict fs (remove_all_models st) m0 = resolve_imports fuel strict fs empty_state m0.
Proof. intros. reflexivity. Qed.

Lemma fuel_bound_clear : forall fs st, fuel_bound fs (remove_all_models st) = fuel_bound fs empty_state.
Proof. intros. reflexivity. Qed.

(* A failure leaves the importer usable: once the file system is repaired (fs'), a resolution after
   removeAllModels -- from ANY importer state st, whatever faults it has seen -- succeeds *)
Lemma retry_after_repair : forall fs' strict st m0 fuel,
  NoErrs fs' -> Shallow fs' -> AcyclicFiles fs' -> NoTwin fs' m0 -> KeysOK fs' -> Resolvable fs' m0 ->
  fuel_bound fs' empty_state <= fuel ->
  exists st', resolve_imports fuel strict fs' (remove_all_models st) m0 = Ok (true, st').
Proof.
  intros fs' strict st m0 fuel Hne Hsh Hac Hnt Hk Hres Hfuel. rewrite resolve_after_clear.
  destruct (resolve_true_iff_partial fs' strict empty_state m0 fuel Hne Hsh Hac Hnt Hk
              (cons_empty_lib fs' empty_state eq_refl) Hfuel) as (b & st' & E & Hiff).
  exists st'. rewrite E. f_equal. f_equal. apply Hiff. exact Hres.
Qed.

(* resolveImports = true => no import of the origin was left without its model: every imported units and every
   imported component of the origin model is linked to a library model (the first thing isResolved tests) *)

(* ------------------------------------------------------------------------------------------ witnesses *)

Definition mdl (n : string) (us : list units) (cs : list comp) : model := {| m_name := n; m_units := us; m_comps := cs |}.
Definition run1 (fs : fsys) (st : state) (m0 : model) : res (bool * state) :=
  resolve_imports (fuel_bound fs st) true fs st m0.
Definition st_of (r : res (bool * state)) : state := match r with Ok (_, st) => st | _ => empty_state end.
Definition ok_of (r : res (bool * state)) : option bool := match r with Ok (b, _) => Some b | _ => None end.

(* K35: a parser error on the imported units fails the first resolution and is forgotten by the second *)
Definition k35_m0 := mdl "m_f0" [UImp "u" 0 "f1" "u"] [].
Definition k35_fs : fsys := [(mk_key "f1", Parsed [PEUnits "u"] (mdl "m_f1" [ULocal "u" []] []))].

Lemma resolve_repeatable_refuted :
  exists fs m0 st1 st2,
    resolve_imports (fuel_bound fs empty_state) true fs empty_state m0 = Ok (false, st1) /\
    resolve_imports (fuel_bound fs st1) true fs st1 m0 = Ok (true, st2) /\ issues_rev st2 = [].
Proof.
  exists k35_fs, k35_m0, (st_of (run1 k35_fs empty_state k35_m0)),
         (st_of (run1 k35_fs (st_of (run1 k35_fs empty_state k35_m0)) k35_m0)).
  repeat split; vm_compute; reflexivity.
Qed.

(* row 32: an entity missing from a file; the file is repaired; the same importer still fails (stale library
   entry), removeAllModels gives a fresh and successful resolution *)
Definition r32_m0 := mdl "m_f0" [UImp "u" 0 "f1" "u"] [].
Definition r32_bad : fsys := [(mk_key "f1", Parsed [] (mdl "m_f1" [] []))].
Definition r32_good : fsys := [(mk_key "f1", Parsed [] (mdl "m_f1" [ULocal "u" []] []))].

Lemma r32_resolvable : Resolvable r32_good r32_m0.
Proof.
  split.
  - intros u [<-|[]]. eapply RU_imp with (sm := mdl "m_f1" [ULocal "u" []] []) (su := ULocal "u" []);
      [reflexivity|reflexivity|]. apply RU_local; [intros r []|intros r cu []].
  - intros c [].
Qed.

Lemma retry_same_importer_refuted :
  exists bad good m0 st1 st2 st3,
    Resolvable good m0 /\
    resolve_imports (fuel_bound bad empty_state) true bad empty_state m0 = Ok (false, st1) /\
    resolve_imports (fuel_bound good st1) true good st1 m0 = Ok (false, st2) /\
    resolve_imports (fuel_bound good empty_state) true good (remove_all_models st2) m0 = Ok (true, st3).
Proof.
  exists r32_bad, r32_good, r32_m0, (st_of (run1 r32_bad empty_state r32_m0)),
         (st_of (run1 r32_good (st_of (run1 r32_bad empty_state r32_m0)) r32_m0)),
         (st_of (run1 r32_good empty_state r32_m0)).
  split; [exact r32_resolvable|]. repeat split; vm_compute; reflexivity.
Qed.

(* finding C07-unexamined-dependencies: an import behind two local units is never fetched: resolveImports = true
   although the file it needs does not exist; and when the file exists, hasUnresolvedImports() stays true *)
Definition fa_m0 := mdl "m_f0" [UImp "u" 0 "f1" "u"] [].
Definition fa_f1 := mdl "m_f1" [ULocal "u" ["v"]; ULocal "v" ["w"]; UImp "w" 0 "f2" "w"] [].
Definition fa_fs_missing : fsys := [(mk_key "f1", Parsed [] fa_f1)].
Definition fa_fs_full : fsys := [(mk_key "f1", Parsed [] fa_f1); (mk_key "f2", Parsed [] (mdl "m_f2" [ULocal "w" []] []))].

Definition o_f1 : owner := Some (key_of None "f1").

Lemma fa_not_resolvable : ~ Resolvable fa_fs_missing fa_m0.
Proof.
  intros (Hu & _). specialize (Hu _ (or_introl eq_refl)).
  inversion Hu as [o cm n sid url ref sm su Hfm Hfu HR|]; subst. vm_compute in Hfm. inversion Hfm; subst.
  vm_compute in Hfu. inversion Hfu; subst.
  inversion HR as [|o cm n refs Hex Hall]; subst.
  assert (Hv : RU fa_fs_missing o_f1 fa_f1 (ULocal "v" ["w"])).
  { apply (Hall "v"); [left; reflexivity|reflexivity|reflexivity]. }
  inversion Hv as [|o cm n refs Hex' Hall']; subst.
  assert (Hw : RU fa_fs_missing o_f1 fa_f1 (UImp "w" 0 "f2" "w")).
  { apply (Hall' "w"); [left; reflexivity|reflexivity|reflexivity]. }
  inversion Hw as [o cm n sid url ref sm su Hfm' Hfu' HR'|]; subst. vm_compute in Hfm'. discriminate.
Qed.

Lemma fa_resolvable_full : Resolvable fa_fs_full fa_m0.
Proof.
  assert (Hw : RU fa_fs_full o_f1 fa_f1 (UImp "w" 0 "f2" "w")).
  { eapply RU_imp with (sm := mdl "m_f2" [ULocal "w" []] []) (su := ULocal "w" []); [reflexivity|reflexivity|].
    apply RU_local; [intros r []|intros r cu []]. }
  assert (Hv : RU fa_fs_full o_f1 fa_f1 (ULocal "v" ["w"])).
  { apply RU_local.
    - intros r [<-|[]] _. vm_compute. discriminate.
    - intros r cu [<-|[]] _ E. vm_compute in E. inversion E; subst. exact Hw. }
  split.
  - intros u [<-|[]]. eapply RU_imp with (sm := fa_f1) (su := ULocal "u" ["v"]); [reflexivity|reflexivity|].
    apply RU_local.
    + intros r [<-|[]] _. vm_compute. discriminate.
    + intros r cu [<-|[]] _ E. vm_compute in E. inversion E; subst. exact Hv.
  - intros c [].
Qed.

Lemma resolve_true_iff_refuted :
  exists fs m0 st', NoErrs fs /\ resolve_imports (fuel_bound fs empty_state) true fs empty_state m0 = Ok (true, st') /\
                    issues_rev st' = [] /\ ~ Resolvable fs m0.
Proof.
  exists fa_fs_missing, fa_m0, (st_of (run1 fa_fs_missing empty_state fa_m0)).
  split.
  { intros k errs m E. cbn [fa_fs_missing fs_get] in E. destruct (String.eqb (mk_key "f1") k); [|discriminate].
    inversion E. reflexivity. }
  split; [vm_compute; reflexivity|]. split; [vm_compute; reflexivity|]. exact fa_not_resolvable.
Qed.

Lemma resolve_true_post_refuted_unexamined :
  exists fs m0 st', Resolvable fs m0 /\
    resolve_imports (fuel_bound fs empty_state) true fs empty_state m0 = Ok (true, st') /\
    has_unresolved_imports no_fixes (scan_fuel fs st' m0) st' m0 = Ok true.
Proof.
  exists fa_fs_full, fa_m0, (st_of (run1 fa_fs_full empty_state fa_m0)).
  split; [exact fa_resolvable_full|]. split; vm_compute; reflexivity.
Qed.

(* finding C07-units-history-not-popped: a diamond below a local units; every hypothesis of the iff theorem
   holds, resolveImports = true, all imports are linked, and still hasUnresolvedImports() = true; with the
   history popped (fx_pop) it is false *)
Definition fb_m0 := mdl "m_f0" [UImp "a" 0 "f2" "w"; UImp "b" 1 "f1" "x"; ULocal "u" ["a"; "b"]] [].
Definition fb_fs : fsys :=
  [(mk_key "f1", Parsed [] (mdl "m_f1" [UImp "x" 0 "f2" "w"] []));
   (mk_key "f2", Parsed [] (mdl "m_f2" [UImp "w" 0 "f3" "z"] []));
   (mk_key "f3", Parsed [] (mdl "m_f3" [ULocal "z" []] []))].

Lemma fb_resolvable : Resolvable fb_fs fb_m0.
Proof.
  pose (m2 := mdl "m_f2" [UImp "w" 0 "f3" "z"] []). pose (m3 := mdl "m_f3" [ULocal "z" []] []).
  assert (Hz : RU fb_fs (Some (key_of None "f2")) m2 (UImp "w" 0 "f3" "z")).
  { eapply RU_imp with (sm := m3) (su := ULocal "z" []); [reflexivity|reflexivity|].
    apply RU_local; [intros r []|intros r cu []]. }
  split.
  - intros u [<-|[<-|[]]].
    + eapply RU_imp with (sm := m2) (su := UImp "w" 0 "f3" "z"); [reflexivity|reflexivity|exact Hz].
    + eapply RU_imp with (sm := mdl "m_f1" [UImp "x" 0 "f2" "w"] []) (su := UImp "x" 0 "f2" "w"); [reflexivity|reflexivity|].
      eapply RU_imp with (sm := m2) (su := UImp "w" 0 "f3" "z"); [reflexivity|reflexivity|exact Hz].
  - intros c [].
Qed.

Lemma resolve_true_post_refuted :
  exists fs m0 st', Resolvable fs m0 /\
    resolve_imports (fuel_bound fs empty_state) true fs empty_state m0 = Ok (true, st') /\
    has_unresolved_imports no_fixes (scan_fuel fs st' m0) st' m0 = Ok true /\
    has_unresolved_imports {| fx_pop := true; fx_nullref := false; fx_placeholder_children := false; fx_cycle_guard := false |} (scan_fuel fs st' m0) st' m0 = Ok false.
Proof.
  exists fb_fs, fb_m0, (st_of (run1 fb_fs empty_state fb_m0)).
  split; [exact fb_resolvable|]. repeat split; vm_compute; reflexivity.
Qed.

(* finding C07-null-deref-dangling-units-ref: no import at all, and hasUnresolvedImports dereferences null *)
Definition fc_m0 := mdl "m" [ULocal "u" ["nothere"]] [Comp "c" None ["u"] []].

Lemma unresolved_test_crash_refuted :
  exists m0 st', resolve_imports (fuel_bound [] empty_state) true [] empty_state m0 = Ok (true, st') /\
                 has_unresolved_imports no_fixes (scan_fuel [] st' m0) st' m0 = Crash /\
                 flatten_precheck no_fixes (scan_fuel [] st' m0) st' m0 = Crash /\
                 has_unresolved_imports {| fx_pop := false; fx_nullref := true; fx_placeholder_children := false; fx_cycle_guard := false |} (scan_fuel [] st' m0) st' m0 = Ok false.
Proof.
  exists fc_m0, (st_of (run1 [] empty_state fc_m0)). repeat split; vm_compute; reflexivity.
Qed.

(* K3: cyclic LOCAL units in an imported file: resolveImports = true, and the pre-flatten scan
   (checkUnitsForCycles) recurses for ever: out of fuel for EVERY fuel *)
Definition k3_m0 := mdl "m_f0" [UImp "u" 0 "f1" "u"] [].
Definition k3_f1 := mdl "m_f1" [ULocal "u" ["u"]] [].
Definition k3_fs : fsys := [(mk_key "f1", Parsed [] k3_f1)].
Definition k3_st : state := st_of (run1 k3_fs empty_state k3_m0).

Lemma k3_loop : forall fuel hs, check_units_for_cycles fuel k3_m0 (Some (mk_key "f1")) k3_f1 hs (ULocal "u" ["u"]) = OutOfFuel.
Proof.
  induction fuel as [|f IH]; intros hs; [reflexivity|].
  cbn [check_units_for_cycles]. destruct hs as [hist st].
  cbn [none_found]. cbv beta.
  change (find_units (m_units k3_f1) "u") with (Some (ULocal "u" ["u"])).
  cbv iota. rewrite IH. reflexivity.
Qed.

Lemma flatten_precheck_cyclic_units_refuted :
  exists fs m0 st', resolve_imports (fuel_bound fs empty_state) true fs empty_state m0 = Ok (true, st') /\
                    issues_rev st' = [] /\
                    (forall fx fuel, flatten_precheck fx fuel st' m0 = OutOfFuel) /\
                    has_unresolved_imports no_fixes (scan_fuel fs st' m0) st' m0 = OutOfFuel /\
                    has_unresolved_imports head_fixes (scan_fuel fs st' m0) st' m0 = Ok true.
Proof.
  exists k3_fs, k3_m0, k3_st. split; [vm_compute; reflexivity|]. split; [vm_compute; reflexivity|].
  split; [|split; vm_compute; reflexivity].
  intros fx fuel. unfold flatten_precheck, has_import_issues.
  change (imported_units k3_m0) with [UImp "u" 0 "f1" "u"]. cbn [none_found].
  destruct fuel as [|f]; [reflexivity|].
  cbn [check_units_for_cycles].
  change (check_cycle (clear_issues k3_st) k3_m0 [] (scan_epoch (clear_issues k3_st) None 0 "f1")) with false.
  cbv iota.
  change (linked_model (clear_issues k3_st) None 0 "f1") with (Some k3_f1).
  cbv iota.
  change (find_units (m_units k3_f1) "u") with (Some (ULocal "u" ["u"])).
  cbv iota. rewrite k3_loop. reflexivity.
Qed.

(* 85ba0d4 (fx_cycle_guard): cyclic local units of the model itself, no import at all.  Before: hasUnresolvedImports and
   flattenModel's pre-checks exhaust every stack; with the guard hasUnresolvedImports() = true (cyclic units count as
   unresolved) and flattenModel returns null with the issue IMPORTER_UNRESOLVED_IMPORTS on the model *)
Definition k3o_m0 := mdl "m" [ULocal "u" ["v"]; ULocal "v" ["u"]] [].

Lemma cycle_guard_witness :
  exists m0 st', resolve_imports (fuel_bound [] empty_state) true [] empty_state m0 = Ok (true, st') /\
    has_unresolved_imports (no_fixes) (scan_fuel [] st' m0) st' m0 = OutOfFuel /\
    flatten_precheck no_fixes (scan_fuel [] st' m0) st' m0 = OutOfFuel /\
    has_unresolved_imports head_fixes (scan_fuel [] st' m0) st' m0 = Ok true /\
    exists st'', flatten_precheck head_fixes (scan_fuel [] st' m0) st' m0 = Ok (false, st'') /\
                 issues_rev st'' = [{| i_rule := R_UNRESOLVED_IMPORTS; i_item := ItModel |}].
Proof.
  exists k3o_m0, (st_of (run1 [] empty_state k3o_m0)).
  split; [vm_compute; reflexivity|]. split; [vm_compute; reflexivity|]. split; [vm_compute; reflexivity|].
  split; [vm_compute; reflexivity|]. eexists. split; vm_compute; reflexivity.
Qed.

(* ------------------------------------------------------------------------------------------ non-vacuity *)

Definition ex_m1 := mdl "m_f1" [ULocal "u" []] [Comp "c" None ["u"] []].
Definition ex_m0 := mdl "m_f0" [UImp "u" 0 "f1" "u"] [Comp "c" (Some (1, "f1", "c")) [] []].
Definition ex_fs : fsys := [(mk_key "f1", Parsed [] ex_m1)].

Lemma ex_fs_model : forall k sm, fs_model ex_fs k = Some sm -> sm = ex_m1.
Proof.
  intros k sm E. unfold fs_model, ex_fs in E. cbn [fs_get] in E.
  destruct (String.eqb (mk_key "f1") k); [inversion E; reflexivity|discriminate].
Qed.

Lemma nonvacuous :
  NoErrs ex_fs /\ Shallow ex_fs /\ AcyclicFiles ex_fs /\ NoTwin ex_fs ex_m0 /\ Resolvable ex_fs ex_m0 /\
  exists st', resolve_imports (fuel_bound ex_fs empty_state) true ex_fs empty_state ex_m0 = Ok (true, st').
Proof.
  split.
  { intros k errs m E. unfold ex_fs in E. cbn [fs_get] in E. destruct (String.eqb (mk_key "f1") k); [|discriminate].
    inversion E. reflexivity. }
  split.
  { intros k sm E. rewrite (ex_fs_model _ _ E). repeat split.
    - intros u r cu [<-|[]] _ [].
    - intros c un su [<-|[]] [<-|[]] _ E' _ r Hr. vm_compute in E'. inversion E'; subst. destruct Hr.
    - intros c un [].
    - intros c []. }
  split.
  { exists (fun _ => 0). intros k sm url E Hin. rewrite (ex_fs_model _ _ E) in Hin. destruct Hin. }
  split.
  { intros k sm E. rewrite (ex_fs_model _ _ E). reflexivity. }
  split.
  { split.
    - intros u [<-|[]]. eapply RU_imp with (sm := ex_m1) (su := ULocal "u" []); [reflexivity|reflexivity|].
      apply RU_local; [intros r []|intros r cu []].
    - intros c [<-|[]]. cbn [RCimport]. exists ex_m1, (Comp "c" None ["u"] []).
      split; [reflexivity|]. split; [reflexivity|]. apply RC_local.
      + intros un [<-|[]] _. vm_compute. discriminate.
      + intros un su [<-|[]] _ E. vm_compute in E. inversion E; subst. apply RU_local; [intros r []|intros r cu []].
      + intros k []. }
  eexists. vm_compute. reflexivity.
Qed.

(* ------------------------------------------------------------------------------------------ the flat reading of URLs *)

Fixpoint no_sep (s : string) : bool :=
  match s with
  | EmptyString => true
  | String c r => negb (Ascii.eqb c "/"%char) && negb (Ascii.eqb c "\"%char) && no_sep r
  end.

Lemma norm_sep_no_sep : forall s, no_sep s = true -> norm_sep s = s /\ upto_last_slash s = None.
Proof.
  induction s as [|c r IH]; intros H; [split; reflexivity|]. cbn [no_sep] in H.
  apply andb_true_iff in H. destruct H as [H Hr]. apply andb_true_iff in H. destruct H as [H1 H2].
  destruct (IH Hr) as [IH1 IH2]. cbn [norm_sep upto_last_slash]. rewrite IH1, IH2.
  destruct (Ascii.eqb c "\"%char); [discriminate|]. destruct (Ascii.eqb c "/"%char); [discriminate|]. split; reflexivity.
Qed.

Lemma upto_last_slash_dir : forall s, ends_with_slash s = true -> upto_last_slash s = Some s.
Proof.
  induction s as [|c r IH]; intros H; [discriminate|]. cbn [upto_last_slash]. destruct r as [|c' r'].
  - cbn [ends_with_slash] in H. cbn [upto_last_slash]. rewrite H. reflexivity.
  - rewrite IH; [reflexivity|]. exact H.
Qed.

Lemma append_nil_r : forall s, String.append s EmptyString = s.
Proof. induction s as [|c r IH]; [reflexivity|]. cbn. rewrite IH. reflexivity. Qed.

(* For a normalised directory and a plain file name, the code's key is directory ++ name and the base path handed
   to the imported file's own imports is the directory again: the flat model's [mk_key] *)
Lemma resolve_path_flat : forall dir name,
  norm_sep dir = dir -> ends_with_slash dir = true -> no_sep name = true ->
  import_key name dir = String.append dir name /\ new_base name dir = dir /\ normalise_path dir = dir.
Proof.
  intros dir name Hd He Hn. destruct (norm_sep_no_sep _ Hn) as [Hn1 Hn2].
  unfold import_key, new_base, resolve_path, path_from_url, normalise_path. rewrite Hn1, Hn2, Hd.
  rewrite (upto_last_slash_dir _ He). rewrite append_nil_r. rewrite He.
  destruct dir; [discriminate|]. auto.
Qed.

(* ------------------------------------------------------------------------------------------ links after success *)

(* links and library entries are never removed during a resolution *)
Definition grow (st st' : state) : Prop :=
  (forall o sid, has_link st o sid = true -> has_link st' o sid = true) /\ mono st st'.

Lemma grow_refl : forall st, grow st st.
Proof. intros st. split; [auto|apply mono_refl]. Qed.
Lemma grow_trans : forall a b c, grow a b -> grow b c -> grow a c.
Proof. intros a b c [L1 M1] [L2 M2]. split; [auto|eapply mono_trans; eauto]. Qed.
Lemma grow_add_issue : forall st r it, grow st (add_issue st r it).
Proof. intros. split; [auto|intros k m E; exact E]. Qed.

Lemma has_link_set : forall st o sid, has_link (set_link st o sid) o sid = true.
Proof.
  intros st o sid. unfold has_link, set_link. cbn [links existsb fst snd].
  assert (owner_eqb o o = true) as -> by (destruct o; cbn; [apply String.eqb_refl|reflexivity]).
  rewrite Nat.eqb_refl. reflexivity.
Qed.

Lemma has_link_set_other : forall st o sid o' sid', has_link st o' sid' = true -> has_link (set_link st o sid) o' sid' = true.
Proof. intros st o sid o' sid' H. unfold has_link, set_link in *. cbn [links existsb]. rewrite H. apply orb_true_r. Qed.

Lemma fis_grow : forall strict fs st o sid url,
  match fetch_import_source strict fs st o sid url with
  | FMfail st1 => grow st st1
  | FMok st1 _ sm => grow st st1 /\ has_link st1 o sid = true /\ lib_get (lib st1) (key_of o url) = Some sm
  end.
Proof.
  intros strict fs st o sid url. unfold fetch_import_source, linked_model.
  destruct (has_link st o sid) eqn:Hl.
  - destruct (lib_get (lib st) (key_of o url)) eqn:Hg; [auto using grow_refl|].
    unfold fetch_model. rewrite Hg. destruct (fs_get fs (key_of o url)); try apply grow_add_issue.
    split; [|split; [apply has_link_set|cbn; rewrite String.eqb_refl; reflexivity]].
    split; [intros; apply has_link_set_other; assumption|].
    intros k m' E. cbn [lib set_link lib_add lib_get]. destruct (String.eqb (key_of o url) k) eqn:Ek; [|exact E].
    apply String.eqb_eq in Ek. subst k. congruence.
  - unfold fetch_model. destruct (lib_get (lib st) (key_of o url)) eqn:Hg.
    + split; [|split; [apply has_link_set|exact Hg]]. split; [intros; apply has_link_set_other; assumption|intros k m' E; exact E].
    + destruct (fs_get fs (key_of o url)); try apply grow_add_issue.
      split; [|split; [apply has_link_set|cbn; rewrite String.eqb_refl; reflexivity]].
      split; [intros; apply has_link_set_other; assumption|].
      intros k m' E. cbn [lib set_link lib_add lib_get]. destruct (String.eqb (key_of o url) k) eqn:Ek; [|exact E].
      apply String.eqb_eq in Ek. subst k. congruence.
Qed.

Lemma all_ok_grow {A : Type} (step : state -> A -> res (bool * state)) (l : list A) :
  (forall a x b x', step x a = Ok (b, x') -> grow x x') ->
  forall x b x', all_ok step l x = Ok (b, x') -> grow x x'.
Proof.
  intros Hs. induction l as [|a r IH]; intros x b x' E; cbn [all_ok] in E.
  - inversion E; subst. apply grow_refl.
  - destruct (step x a) as [[b1 x1]| |] eqn:E1; try discriminate. pose proof (Hs _ _ _ _ E1) as G1.
    destruct b1; [eapply grow_trans; [exact G1|eapply IH; exact E]|inversion E; subst; exact G1].
Qed.

Lemma walk_comp_grow (imp : state -> comp -> res (bool * state)) :
  (forall st c b st', imp st c = Ok (b, st') -> grow st st') ->
  forall c st b st', walk_comp imp c st = Ok (b, st') -> grow st st'.
Proof.
  intros Himp c. induction c as [n i used kids IHk] using comp_ind'. intros st b st' E. cbn [walk_comp] in E.
  destruct (negb (requires_imports (Comp n i used kids))); [inversion E; subst; apply grow_refl|].
  destruct i as [p|]; [eapply Himp; exact E|].
  revert st E. induction kids as [|k r IHr]; intros st E; [inversion E; subst; apply grow_refl|].
  inversion IHk as [|k' r' Hk Hr]; subst.
  destruct (walk_comp imp k st) as [[b1 st1]| |] eqn:E1; try discriminate. pose proof (Hk _ _ _ E1) as G1.
  destruct b1; [eapply grow_trans; [exact G1|apply IHr; assumption]|inversion E; subst; exact G1].
Qed.

(* a successful fetch of an imported units leaves its import source linked; in any case the state only grows *)
Lemma fetch_units_grow : forall fuel strict fs m0 st o hist u b st',
  fetch_units fuel strict fs m0 st o hist u = Ok (b, st') ->
  grow st st' /\
  (b = true -> match u with UImp _ sid url _ => linked_model st' o sid url <> None | ULocal _ _ => True end).
Proof.
  induction fuel as [|f IH]; intros strict fs m0 st o hist u b st' E;
    destruct u as [n refs|n sid url ref]; cbn [fetch_units] in E;
    try (inversion E; subst; split; [apply grow_refl|auto]); try discriminate.
  unfold fetch_units_body in E. pose proof (fis_grow strict fs st o sid url) as Hfis.
  destruct (fetch_import_source strict fs st o sid url) as [st1|st1 errs sm].
  { inversion E; subst. split; [exact Hfis|discriminate]. }
  destruct Hfis as (G1 & Hl1 & Hg1).
  assert (Hlinked : forall x, grow st1 x -> linked_model x o sid url <> None).
  { intros x [Lx Mx]. unfold linked_model. rewrite (Lx _ _ Hl1), (Mx _ _ Hg1). discriminate. }
  assert (Hadd : forall r it, grow st (add_issue st1 r it)) by (intros; eapply grow_trans; [exact G1|apply grow_add_issue]).
  destruct (existsb (related_units ref) errs); [inversion E; subst; split; [apply Hadd|discriminate]|].
  destruct (check_cycle st1 m0 hist (fetch_epoch o url)); [inversion E; subst; split; [apply Hadd|discriminate]|].
  destruct (find_units (m_units sm) ref) as [su|]; [|inversion E; subst; split; [apply Hadd|discriminate]].
  destruct (fetch_units f strict fs m0 st1 (Some (key_of o url)) (hist ++ [fetch_epoch o url]) su) as [[b2 st2]| |] eqn:E2;
    try discriminate.
  destruct (IH _ _ _ _ _ _ _ _ _ E2) as (G2 & _).
  destruct b2; [|inversion E; subst; split; [eapply grow_trans; eauto|discriminate]].
  assert (G3 : grow st2 st').
  { eapply all_ok_grow; [|exact E]. intros r x b' x' Es. cbv beta in Es.
    destruct (is_std r); [inversion Es; subst; apply grow_refl|].
    destruct (find_units (m_units sm) r); [|inversion Es; subst; apply grow_add_issue].
    apply (IH _ _ _ _ _ _ _ _ _ Es). }
  split; [eapply grow_trans; [exact G1|eapply grow_trans; eauto]|].
  intros _. apply Hlinked. eapply grow_trans; eauto.
Qed.

Lemma fetch_comp_grow : forall fuel strict fs m0 st o hist c b st',
  fetch_comp fuel strict fs m0 st o hist c = Ok (b, st') -> grow st st'.
Proof.
  induction fuel as [|f IH]; intros strict fs m0 st o hist c b st' E; cbn [fetch_comp] in E; [discriminate|].
  eapply walk_comp_grow; [|exact E]. clear st c b st' E. intros st c b st' E.
  destruct c as [name [[[sid url] ref]|] used kids]; [|inversion E; subst; apply grow_refl].
  unfold fetch_comp_body in E. pose proof (fis_grow strict fs st o sid url) as Hfis.
  destruct (fetch_import_source strict fs st o sid url) as [st1|st1 errs sm]; [inversion E; subst; exact Hfis|].
  destruct Hfis as (G1 & _).
  assert (Hadd : forall r it, grow st (add_issue st1 r it)) by (intros; eapply grow_trans; [exact G1|apply grow_add_issue]).
  destruct (existsb (related_comp (find_comp (m_comps sm) ref)) errs); [inversion E; subst; apply Hadd|].
  destruct (check_cycle st1 m0 hist (fetch_epoch o url)); [inversion E; subst; apply Hadd|].
  destruct (find_comp (m_comps sm) ref) as [sc|]; [|inversion E; subst; apply Hadd].
  destruct (fetch_comp f strict fs m0 st1 (Some (key_of o url)) (hist ++ [fetch_epoch o url]) sc) as [[b2 st2]| |] eqn:E2;
    try discriminate.
  pose proof (IH _ _ _ _ _ _ _ _ _ E2) as G2.
  destruct b2; [|inversion E; subst; eapply grow_trans; eauto].
  destruct (all_ok (fun st k => fetch_comp f strict fs m0 st (Some (key_of o url)) (hist ++ [fetch_epoch o url]) k)
                   (ckids sc) st2) as [[b3 st3]| |] eqn:E3; try discriminate.
  assert (G3 : grow st2 st3).
  { eapply all_ok_grow; [|exact E3]. intros k x b' x' Es. cbv beta in Es. eapply IH. exact Es. }
  destruct b3; [|inversion E; subst; eapply grow_trans; [exact G1|eapply grow_trans; eauto]].
  assert (G4 : grow st3 st').
  { eapply all_ok_grow; [|exact E]. intros n x b' x' Es. cbv beta in Es.
    destruct (is_std n); [inversion Es; subst; apply grow_refl|].
    destruct (find_units (m_units sm) n); [|inversion Es; subst; apply grow_add_issue].
    eapply fetch_units_grow. exact Es. }
  eapply grow_trans; [exact G1|]. eapply grow_trans; [exact G2|]. eapply grow_trans; eauto.
Qed.

(* the import source of a top-level imported component is linked once its fetch succeeded *)
Lemma fetch_comp_link : forall fuel strict fs m0 st n sid url ref used kids st',
  fetch_comp fuel strict fs m0 st None [] (Comp n (Some (sid, url, ref)) used kids) = Ok (true, st') ->
  linked_model st' None sid url <> None.
Proof.
  intros fuel strict fs m0 st n sid url ref used kids st' E. destruct fuel as [|f]; [discriminate|].
  cbn [fetch_comp walk_comp requires_imports negb] in E. unfold fetch_comp_body in E.
  pose proof (fis_grow strict fs st None sid url) as Hfis.
  destruct (fetch_import_source strict fs st None sid url) as [st1|st1 errs sm]; [discriminate|].
  destruct Hfis as (G1 & Hl1 & Hg1).
  assert (Hlinked : forall x, grow st1 x -> linked_model x None sid url <> None).
  { intros x [Lx Mx]. unfold linked_model. rewrite (Lx _ _ Hl1), (Mx _ _ Hg1). discriminate. }
  destruct (existsb (related_comp (find_comp (m_comps sm) ref)) errs); [discriminate|].
  destruct (check_cycle st1 m0 [] (fetch_epoch None url)); [discriminate|].
  destruct (find_comp (m_comps sm) ref) as [sc|]; [|discriminate].
  destruct (fetch_comp f strict fs m0 st1 (Some (key_of None url)) ([] ++ [fetch_epoch None url]) sc) as [[b2 st2]| |] eqn:E2;
    try discriminate.
  pose proof (fetch_comp_grow _ _ _ _ _ _ _ _ _ _ E2) as G2. destruct b2; [|discriminate].
  destruct (all_ok (fun st k => fetch_comp f strict fs m0 st (Some (key_of None url)) ([] ++ [fetch_epoch None url]) k)
                   (ckids sc) st2) as [[b3 st3]| |] eqn:E3; try discriminate.
  assert (G3 : grow st2 st3).
  { eapply all_ok_grow; [|exact E3]. intros k x b' x' Es. cbv beta in Es. eapply fetch_comp_grow. exact Es. }
  destruct b3; [|discriminate].
  assert (G4 : grow st3 st').
  { eapply all_ok_grow; [|exact E]. intros un x b' x' Es. cbv beta in Es.
    destruct (is_std un); [inversion Es; subst; apply grow_refl|].
    destruct (find_units (m_units sm) un); [|inversion Es; subst; apply grow_add_issue].
    eapply fetch_units_grow. exact Es. }
  apply Hlinked. eapply grow_trans; [exact G2|]. eapply grow_trans; eauto.
Qed.

Lemma grow_retarget : forall st it, grow st (retarget_last st it).
Proof. intros st it. unfold retarget_last. destruct (issues_rev st); [apply grow_refl|]. split; [auto|intros k m E; exact E]. Qed.

Lemma resolve_loop_links {A : Type} (fetch : state -> A -> res (bool * state)) (item : A -> iitem) (Q : state -> A -> Prop) :
  (forall st a b st', fetch st a = Ok (b, st') -> grow st st' /\ (b = true -> Q st' a)) ->
  (forall st st' a, grow st st' -> Q st a -> Q st' a) ->
  forall l acc st b st', resolve_loop fetch item l acc st = Ok (b, st') ->
    grow st st' /\ (b = true -> forall a, In a l -> Q st' a).
Proof.
  intros Hf HQ. induction l as [|a r IH]; intros acc st b st' E; cbn [resolve_loop] in E.
  - inversion E; subst. split; [apply grow_refl|intros _ a []].
  - destruct (fetch st a) as [[b1 st1]| |] eqn:E1; try discriminate.
    destruct (Hf _ _ _ _ E1) as (G1 & Hq). destruct b1.
    + destruct (IH _ _ _ _ E) as (G2 & H2). split; [eapply grow_trans; eauto|].
      intros Hb a' [<-|Ha']; [eapply HQ; [exact G2|apply Hq; reflexivity]|apply H2; assumption].
    + destruct (IH _ _ _ _ E) as (G2 & H2). split; [eapply grow_trans; [exact G1|eapply grow_trans; [apply grow_retarget|exact G2]]|].
      intros Hb. exfalso.
      (* the accumulator is false from here on *)
      clear -E Hb. revert st1 E. generalize (item a). intros it st1.
      generalize (retarget_last st1 it). clear st1. induction r as [|a' r' IHr]; intros s E; cbn [resolve_loop] in E.
      * inversion E; subst. discriminate.
      * destruct (fetch s a') as [[b2 s2]| |]; try discriminate. destruct b2; eapply IHr; exact E.
Qed.

Definition units_linked (st : state) (u : units) : Prop :=
  match u with UImp _ sid url _ => linked_model st None sid url <> None | ULocal _ _ => True end.
Definition comp_linked (st : state) (c : comp) : Prop :=
  match c with Comp _ (Some (sid, url, _)) _ _ => linked_model st None sid url <> None | Comp _ None _ _ => True end.

Lemma linked_grow : forall st st' o sid url, grow st st' -> linked_model st o sid url <> None -> linked_model st' o sid url <> None.
Proof.
  intros st st' o sid url [L M] H. unfold linked_model in *. destruct (has_link st o sid) eqn:Hl; [|congruence].
  rewrite (L _ _ Hl). destruct (lib_get (lib st) (key_of o url)) eqn:Hg; [|congruence]. rewrite (M _ _ Hg). discriminate.
Qed.

(* resolveImports = true => every import source of the model has its model: the first thing
   hasUnresolvedImports() / isResolved() test.  (First level only; see resolve_true_post_refuted for the rest.) *)
Lemma resolve_true_links : forall fuel strict fs st m0 st',
  resolve_imports fuel strict fs st m0 = Ok (true, st') ->
  (forall u, In u (imported_units m0) -> units_linked st' u) /\
  (forall c, In c (imported_comps m0) -> comp_linked st' c).
Proof.
  intros fuel strict fs st m0 st' E. unfold resolve_imports in E.
  destruct (resolve_loop (fun st u => fetch_units fuel strict fs m0 st None [] u) (fun u => ItUnits None (uname u))
                         (imported_units m0) true (clear_origin_links (clear_issues st)))
    as [[b1 st1]| |] eqn:E1; try discriminate.
  assert (HQu : forall s s' u, grow s s' -> units_linked s u -> units_linked s' u).
  { intros s s' u G H. destruct u; [exact I|]. eapply linked_grow; eauto. }
  destruct (resolve_loop_links _ _ units_linked
              (fun s u b s' Es => fetch_units_grow fuel strict fs m0 s None [] u b s' Es) HQu _ _ _ _ _ E1) as (G1 & H1).
  assert (Hc : forall s c b s', fetch_comp fuel strict fs m0 s None [] c = Ok (b, s') ->
                                grow s s' /\ (b = true -> comp_linked s' c)).
  { intros s c b s' Es. split; [eapply fetch_comp_grow; exact Es|]. intros ->.
    destruct c as [n [[[sid url] ref]|] used kids]; [|exact I]. eapply fetch_comp_link. exact Es. }
  assert (HQc : forall s s' c, grow s s' -> comp_linked s c -> comp_linked s' c).
  { intros s s' c G H. destruct c as [n [[[sid url] ref]|] used kids]; [|exact I]. eapply linked_grow; eauto. }
  destruct (resolve_loop_links _ _ comp_linked Hc HQc _ _ _ _ _ E) as (G2 & H2).
  assert (Hb1 : b1 = true).
  { destruct b1; [reflexivity|]. exfalso. clear -E.
    revert st1 E. induction (imported_comps m0) as [|c r IH]; intros s E; cbn [resolve_loop] in E.
    - inversion E.
    - destruct (fetch_comp fuel strict fs m0 s None [] c) as [[b2 s2]| |]; try discriminate. destruct b2; eapply IH; exact E. }
  split.
  - intros u Hu. specialize (H1 Hb1 u Hu). destruct u; [exact I|]. eapply linked_grow; eauto.
  - intros c Hc'. apply H2; auto.
Qed.

(* ------------------------------------------------------------------------------------------ the scan is total *)

(* [fine P r]: r is not out of fuel, and if it is a value the value satisfies P *)
Definition fine {A : Type} (P : A -> Prop) (r : res A) : Prop :=
  match r with Ok a => P a | Crash => True | OutOfFuel => False end.

Lemma fine_weaken {A : Type} (P Q : A -> Prop) (r : res A) : (forall a, P a -> Q a) -> fine P r -> fine Q r.
Proof. destruct r; cbn; auto. Qed.

Lemma fine_res_map {A B : Type} (f : A -> B) (P : B -> Prop) (r : res A) : fine (fun a => P (f a)) r -> fine P (res_map f r).
Proof. destruct r; cbn; auto. Qed.

Lemma all_ok_fine {A X : Type} (P : X -> Prop) (step : X -> A -> res (bool * X)) (l : list A) :
  (forall a, In a l -> forall x, P x -> fine (fun r => P (snd r)) (step x a)) ->
  forall x, P x -> fine (fun r => P (snd r)) (all_ok step l x).
Proof.
  induction l as [|a r IH]; intros Hs x Hx; cbn [all_ok]; [exact Hx|].
  pose proof (Hs a (or_introl eq_refl) x Hx) as H. destruct (step x a) as [[b x']| |]; cbn in *; auto.
  destruct b; [|exact H]. apply IH; [|exact H]. intros a' Ha'. apply Hs. right. exact Ha'.
Qed.

Lemma none_found_fine {A X : Type} (P : X -> Prop) (step : X -> A -> res (bool * X)) (l : list A) :
  (forall a, In a l -> forall x, P x -> fine (fun r => P (snd r)) (step x a)) ->
  forall x, P x -> fine (fun r => P (snd r)) (none_found step l x).
Proof.
  induction l as [|a r IH]; intros Hs x Hx; cbn [none_found]; [exact Hx|].
  pose proof (Hs a (or_introl eq_refl) x Hx) as H. destruct (step x a) as [[b x']| |]; cbn in *; auto.
  destruct b; [exact H|]. apply IH; [|exact H]. intros a' Ha'. apply Hs. right. exact Ha'.
Qed.

Lemma imported_comps_of_sub : forall c x, In x (imported_comps_of c) -> In x (subcomps c).
Proof.
  induction c as [n i u kids IHk] using comp_ind'. intros x Hx. cbn [imported_comps_of] in Hx. rewrite subcomps_eq.
  apply in_app_or in Hx. destruct Hx as [Hx|Hx].
  - destruct i; [|destruct Hx]. destruct Hx as [<-|[]]. left. reflexivity.
  - right. induction kids as [|k r IHr]; [destruct Hx|]. inversion IHk as [|k' r' Hk Hr]; subst. cbn [flat_map].
    apply in_app_or in Hx. apply in_or_app. destruct Hx as [Hx|Hx]; [left; apply Hk; exact Hx|right; apply IHr; assumption].
Qed.

Lemma imported_comps_all : forall m x, In x (imported_comps m) -> In x (all_comps m).
Proof.
  intros m x Hx. unfold imported_comps, all_comps in *. apply in_flat_map in Hx. destruct Hx as (c & Hc & Hx).
  apply in_flat_map. exists c. split; [exact Hc|apply imported_comps_of_sub; exact Hx].
Qed.

Section ScanTotal.
  Variable fx : fixes.
  Variable st : state.
  Variable m0 : model.
  (* ranks on (model, entity name): "no units / component depends on itself" *)
  Variable urank : owner -> string -> nat.
  Variable crank : owner -> string -> nat.
  Variable Bu Bc : nat.

  Definition owns (o : owner) (cm : model) : Prop := content st m0 o = Some cm.

  Hypothesis U_bound : forall o n, urank o n < Bu.
  Hypothesis C_bound : forall o n, crank o n < Bc.
  Hypothesis U_local : forall o cm n refs r cu, owns o cm -> In (ULocal n refs) (m_units cm) -> In r refs ->
    find_units (m_units cm) r = Some cu -> urank o (uname cu) < urank o n.
  Hypothesis U_imp : forall o cm n sid url ref sm iu, owns o cm -> In (UImp n sid url ref) (m_units cm) ->
    linked_model st o sid url = Some sm -> find_units (m_units sm) ref = Some iu ->
    urank (Some (key_of o url)) (uname iu) < urank o n.
  Hypothesis C_imp : forall o cm n sid url ref used kids sm ic, owns o cm ->
    In (Comp n (Some (sid, url, ref)) used kids) (all_comps cm) ->
    linked_model st o sid url = Some sm -> find_comp (m_comps sm) ref = Some ic ->
    crank (Some (key_of o url)) (cname ic) < crank o n.
  Hypothesis C_kid : forall o cm c k, owns o cm -> In c (all_comps cm) -> In k (ckids c) ->
    crank o (cname k) <= crank o (cname c).

  (* states that differ from st by issues only *)
  Definition same_ll (s : state) : Prop := links s = links st /\ lib s = lib st.

  Lemma same_ll_linked : forall s o sid url, same_ll s -> linked_model s o sid url = linked_model st o sid url.
  Proof. intros s o sid url [L B]. unfold linked_model, has_link. rewrite L, B. reflexivity. Qed.

  Lemma linked_owns : forall o sid url sm, linked_model st o sid url = Some sm -> owns (Some (key_of o url)) sm.
  Proof. intros o sid url sm H. unfold linked_model in H. destruct (has_link st o sid); [exact H|discriminate]. Qed.

  Lemma same_ll_add : forall s r it, same_ll s -> same_ll (add_issue s r it).
  Proof. intros s r it H. exact H. Qed.

  Lemma units_test_total : forall fuel ty s o cm hist u,
    same_ll s -> owns o cm -> In u (m_units cm) -> urank o (uname u) < fuel ->
    fine (fun _ => True) (units_test fx fuel ty s m0 o cm hist u).
  Proof.
    induction fuel as [|f IH]; intros ty s o cm hist u Hs Ho Hin Hr; [lia|].
    cbn [units_test]. destruct u as [n refs|n sid url ref].
    - apply (fine_weaken (fun r => True)); [auto|].
      apply (all_ok_fine (fun _ => True)); [|exact I]. intros r Hrin x _.
      destruct (is_std r); [exact I|]. destruct (find_units (m_units cm) r) as [cu|] eqn:Ecu.
      + apply (fine_weaken (fun _ => True)); [auto|]. apply IH; auto.
        * eapply find_units_In; eauto.
        * pose proof (U_local _ _ _ _ _ _ Ho Hin Hrin Ecu). cbn [uname] in Hr. lia.
      + destruct ty; exact I.
    - rewrite (same_ll_linked _ _ _ _ Hs). destruct (linked_model st o sid url) as [sm|] eqn:El; [|exact I].
      destruct (find_units (m_units sm) ref) as [iu|] eqn:Eiu; [|exact I].
      destruct (check_cycle s m0 hist _); [exact I|].
      assert (G : fine (fun _ => True) (units_test fx f ty s m0 (Some (key_of o url)) sm
                 (hist ++ [{| e_src := importee_url hist url; e_dst := url; e_srcm := o; e_dstm := Some (key_of o url) |}]) iu)).
      { apply IH; auto.
        - eapply linked_owns; eauto.
        - eapply find_units_In; eauto.
        - pose proof (U_imp _ _ _ _ _ _ _ _ Ho Hin El Eiu). cbn [uname] in Hr. lia. }
      destruct (units_test fx f ty s m0 (Some (key_of o url)) sm _ iu) as [[b h]| |]; cbn in *; auto.
  Qed.

  Lemma cufc_total : forall fuel o cm hist s u,
    same_ll s -> owns o cm -> In u (m_units cm) -> urank o (uname u) < fuel ->
    fine (fun r => same_ll (snd (snd r))) (check_units_for_cycles fuel m0 o cm (hist, s) u).
  Proof.
    induction fuel as [|f IH]; intros o cm hist s u Hs Ho Hin Hr; [lia|].
    cbn [check_units_for_cycles]. destruct u as [n refs|n sid url ref].
    - apply (none_found_fine (fun hs => same_ll (snd hs))); [|exact Hs].
      intros r Hrin [h x] Hx. cbn [snd] in Hx. destruct (find_units (m_units cm) r) as [cu|] eqn:Ecu; [|exact Hx].
      apply IH; auto.
      + eapply find_units_In; eauto.
      + pose proof (U_local _ _ _ _ _ _ Ho Hin Hrin Ecu). cbn [uname] in Hr. lia.
    - destruct (check_cycle s m0 hist (scan_epoch s o sid url)); [exact Hs|].
      rewrite (same_ll_linked _ _ _ _ Hs). destruct (linked_model st o sid url) as [sm|] eqn:El; [|exact Hs].
      destruct (find_units (m_units sm) ref) as [iu|] eqn:Eiu; [|exact Hs].
      apply IH; auto.
      + eapply linked_owns; eauto.
      + eapply find_units_In; eauto.
      + pose proof (U_imp _ _ _ _ _ _ _ _ Ho Hin El Eiu). cbn [uname] in Hr. lia.
  Qed.

  Lemma ccfc_total : forall fuel s o cm hist c,
    same_ll s -> owns o cm -> In c (all_comps cm) -> crank o (cname c) < fuel ->
    fine (fun r => same_ll (snd r)) (check_comp_for_cycles fuel s m0 o hist c).
  Proof.
    induction fuel as [|f IH]; intros s o cm hist c Hs Ho Hin Hr; [lia|].
    cbn [check_comp_for_cycles]. destruct c as [n [[[sid url] ref]|] used kids]; [|exact I].
    destruct (check_cycle s m0 hist (scan_epoch s o sid url)); [exact Hs|].
    rewrite (same_ll_linked _ _ _ _ Hs). destruct (linked_model st o sid url) as [sm|] eqn:El; [|exact Hs].
    destruct (find_comp (m_comps sm) ref) as [ic|] eqn:Eic; [|exact Hs].
    destruct (cimp ic); [|exact Hs].
    apply IH with (cm := sm); auto.
    - eapply linked_owns; eauto.
    - eapply find_comp_sub; eauto.
    - pose proof (C_imp _ _ _ _ _ _ _ _ _ _ Ho Hin El Eic). cbn [cname] in Hr. lia.
  Qed.

  Definition in_model (cm : model) (l : list uref) : Prop := forall u, In (InModel u) l -> In u (m_units cm).

  Lemma in_model_app : forall cm a b, in_model cm a -> in_model cm b -> in_model cm (a ++ b).
  Proof. intros cm a b Ha Hb u Hu. apply in_app_or in Hu. destruct Hu; auto. Qed.

  Lemma referenced_units_total : forall cyc fuel o cm u,
    owns o cm -> In u (m_units cm) -> urank o (uname u) < fuel ->
    fine (in_model cm) (referenced_units fx cyc fuel cm u).
  Proof.
    intros cyc. induction fuel as [|f IH]; intros o cm u Ho Hin Hr; [lia|].
    cbn [referenced_units]. destruct (cyc u); [intros x []|]. destruct u as [n refs|n sid url ref]; [|intros u []].
    match goal with |- fine _ (?F refs) =>
      assert (L : forall l, (forall r, In r l -> In r refs) -> fine (in_model cm) (F l)); [|apply L; auto] end.
    intros l. induction l as [|r rest IHl]; intros Hsub; [intros u []|].
    destruct (is_std r); [apply IHl; intros; apply Hsub; right; assumption|].
    destruct (find_units (m_units cm) r) as [ru|] eqn:Eru.
    - assert (G : fine (in_model cm) (referenced_units fx cyc f cm ru)).
      { apply IH with (o := o); auto.
        - eapply find_units_In; eauto.
        - pose proof (U_local _ _ _ _ _ _ Ho Hin (Hsub r (or_introl eq_refl)) Eru). cbn [uname] in Hr. lia. }
      destruct (referenced_units fx cyc f cm ru) as [l1| |]; cbn [fine] in G |- *; auto.
      assert (G2 := IHl (fun x Hx => Hsub x (or_intror Hx))).
      match goal with |- fine _ (match ?X with _ => _ end) => destruct X as [l2| |] end; cbn [fine] in G2 |- *; auto.
      apply in_model_app; [exact G|].
      intros u [E|Hu]; [inversion E; subst; eapply find_units_In; eauto|apply G2; exact Hu].
    - destruct (fx_nullref fx); [|exact I]. apply IHl. intros; apply Hsub; right; assumption.
  Qed.

  Lemma units_used_total : forall cyc fuel o cm c, owns o cm -> Bu <= fuel -> fine (in_model cm) (units_used fx cyc fuel cm c).
  Proof.
    intros cyc fuel o cm c Ho Hf. induction c as [n i used kids IHk] using comp_ind'. cbn [units_used].
    assert (Hv : fine (in_model cm)
              ((fix vars (l : list string) : res (list uref) :=
                  match l with
                  | [] => Ok []
                  | n0 :: r =>
                    if is_std n0 then vars r
                    else match (match find_units (m_units cm) n0 with
                                | Some mu => match referenced_units fx cyc fuel cm mu with
                                             | Ok l0 => Ok (l0 ++ [InModel mu])
                                             | other => other
                                             end
                                | None => Ok [Standalone n0]
                                end) with
                         | Ok l1 => match vars r with Ok l2 => Ok (l1 ++ l2) | other => other end
                         | other => other
                         end
                  end) used)).
    { induction used as [|un r IHr]; [intros u []|].
      destruct (is_std un); [exact IHr|].
      destruct (find_units (m_units cm) un) as [mu|] eqn:Emu.
      - assert (G : fine (in_model cm) (referenced_units fx cyc fuel cm mu)).
        { apply referenced_units_total with (o := o); auto; [eapply find_units_In; eauto|].
          pose proof (U_bound o (uname mu)). lia. }
        destruct (referenced_units fx cyc fuel cm mu) as [l0| |]; cbn [fine] in G |- *; auto.
        match goal with |- fine _ (match ?X with _ => _ end) => destruct X as [l2| |] end; cbn [fine] in IHr |- *; auto.
        apply in_model_app; [|exact IHr]. apply in_model_app; [exact G|].
        intros u [E|[]]. inversion E; subst. eapply find_units_In; eauto.
      - match goal with |- fine _ (match ?X with _ => _ end) => destruct X as [l2| |] end; cbn [fine] in IHr |- *; auto.
        apply in_model_app; [|exact IHr]. intros u [E|[]]. discriminate. }
    match goal with |- fine _ (match ?X with _ => _ end) => destruct X as [l1| |] end; cbn [fine] in Hv |- *; auto.
    assert (Hg : fine (in_model cm)
              ((fix go (l : list comp) : res (list uref) :=
                  match l with
                  | [] => Ok []
                  | k :: r => match units_used fx cyc fuel cm k with
                              | Ok a => match go r with Ok b => Ok (a ++ b) | other => other end
                              | other => other
                              end
                  end) kids)).
    { induction kids as [|k r IHr]; [intros u []|]. inversion IHk as [|k' r' Hk Hr]; subst.
      destruct (units_used fx cyc fuel cm k) as [a| |]; cbn [fine] in Hk |- *; auto.
      specialize (IHr Hr).
      match goal with |- fine _ (match ?X with _ => _ end) => destruct X as [b| |] end; cbn [fine] in IHr |- *; auto.
      apply in_model_app; assumption. }
    match goal with |- fine _ (match ?X with _ => _ end) => destruct X as [l2| |] end; cbn [fine] in Hg |- *; auto.
    apply in_model_app; assumption.
  Qed.

  Lemma uref_test_total : forall fuel ty s o cm x, same_ll s -> owns o cm -> Bu <= fuel ->
    (forall u, x = InModel u -> In u (m_units cm)) -> fine (fun _ => True) (uref_test fx fuel ty s m0 o cm x).
  Proof.
    intros fuel ty s o cm x Hs Ho Hf Hx. destruct x as [u|n]; cbn [uref_test]; [|destruct ty; exact I].
    destruct (guarded fx s m0 o cm u); [exact I|].
    apply fine_res_map. apply (fine_weaken (fun _ => True)); [auto|].
    apply units_test_total; auto. pose proof (U_bound o (uname u)). lia.
  Qed.

  Lemma comp_walk_fine (pk : bool) (imp units_ok : comp -> res bool) :
    forall c, (forall c', In c' (subcomps c) -> fine (fun _ => True) (imp c')) ->
              (forall c', In c' (subcomps c) -> fine (fun _ => True) (units_ok c')) ->
              fine (fun _ => True) (comp_walk pk imp units_ok c).
  Proof.
    induction c as [n i used kids IHk] using comp_ind'. intros Hi Hu. cbn [comp_walk].
    assert (H0 : fine (fun _ => True) (match i with Some _ => imp (Comp n i used kids) | None => units_ok (Comp n i used kids) end)).
    { destruct i; [apply Hi|apply Hu]; apply subcomps_self. }
    destruct (match i with Some _ => imp (Comp n i used kids) | None => units_ok (Comp n i used kids) end) as [b| |];
      cbn [fine] in H0 |- *; auto.
    destruct b; [|exact I].
    destruct (match i with Some _ => pk | None => true end); [|exact I].
    assert (Hi' : forall c', In c' (flat_map subcomps kids) -> fine (fun _ => True) (imp c')).
    { intros c' Hc'. apply Hi. rewrite subcomps_eq. right. exact Hc'. }
    assert (Hu' : forall c', In c' (flat_map subcomps kids) -> fine (fun _ => True) (units_ok c')).
    { intros c' Hc'. apply Hu. rewrite subcomps_eq. right. exact Hc'. }
    clear H0 Hi Hu. induction kids as [|k r IHr]; [exact I|].
    inversion IHk as [|k' r' Hk Hr]; subst.
    assert (G : fine (fun _ => True) (comp_walk pk imp units_ok k)).
    { apply Hk; intros c' Hc'; [apply Hi'|apply Hu']; cbn [flat_map]; apply in_or_app; left; exact Hc'. }
    destruct (comp_walk pk imp units_ok k) as [b| |]; cbn [fine] in G |- *; auto. destruct b; [|exact I].
    apply IHr; [exact Hr| |]; intros c' Hc'; [apply Hi'|apply Hu']; cbn [flat_map]; apply in_or_app; right; exact Hc'.
  Qed.

  Lemma subcomps_rank : forall o cm c c', owns o cm -> In c (all_comps cm) -> In c' (subcomps c) ->
    In c' (all_comps cm) /\ crank o (cname c') <= crank o (cname c).
  Proof.
    intros o cm c. induction c as [n i used kids IHk] using comp_ind'. intros c' Ho Hin Hc'.
    rewrite subcomps_eq in Hc'. destruct Hc' as [<-|Hc']; [split; [exact Hin|lia]|].
    apply in_flat_map in Hc'. destruct Hc' as (k & Hk & Hc'). rewrite Forall_forall in IHk.
    destruct (kids_child_comps cm _ k Hin Hk) as (_ & Hka).
    destruct (IHk k Hk c' Ho Hka Hc') as (H1 & H2). split; [exact H1|].
    pose proof (C_kid _ _ _ k Ho Hin Hk). lia.
  Qed.

  Lemma comp_test_total : forall fuel ty s o cm hist c,
    same_ll s -> owns o cm -> In c (all_comps cm) -> crank o (cname c) + Bu < fuel ->
    fine (fun _ => True) (comp_test fx fuel ty s m0 o cm hist c).
  Proof.
    induction fuel as [|f IH]; intros ty s o cm hist c Hs Ho Hin Hr; [lia|].
    cbn [comp_test]. apply comp_walk_fine.
    - intros c' Hc'. destruct (subcomps_rank _ _ _ _ Ho Hin Hc') as (Hin' & Hrk).
      destruct c' as [n [[[sid url] ref]|] used kids]; [|exact I].
      rewrite (same_ll_linked _ _ _ _ Hs). destruct (linked_model st o sid url) as [sm|] eqn:El; [|exact I].
      destruct (find_comp (m_comps sm) ref) as [ic|] eqn:Eic; [|exact I].
      destruct (check_cycle s m0 hist _); [exact I|].
      apply IH; auto.
      + eapply linked_owns; eauto.
      + eapply find_comp_sub; eauto.
      + pose proof (C_imp _ _ _ _ _ _ _ _ _ _ Ho Hin' El Eic). cbn [cname] in Hrk. lia.
    - intros c' _.
      pose proof (units_used_total (guarded fx s m0 o cm) (S f) o cm c' Ho ltac:(lia)) as G.
      destruct (units_used fx (guarded fx s m0 o cm) (S f) cm c') as [us| |]; cbn [fine] in G |- *; auto.
      apply fine_res_map. apply (fine_weaken (fun r => True)); [auto|].
      apply (all_ok_fine (fun _ => True)); [|exact I]. intros x Hx [] _. unfold unit_step.
      apply fine_res_map. apply (fine_weaken (fun _ => True)); [auto|].
      apply uref_test_total; auto; [lia|]. intros u ->. apply G. exact Hx.
  Qed.

  Lemma model_test_total : forall fuel ty s, same_ll s -> Bu + Bc <= fuel -> fine (fun _ => True) (model_test fx fuel ty s m0).
  Proof.
    intros fuel ty s Hs Hf. unfold model_test.
    assert (Ho : owns None m0) by reflexivity.
    assert (G1 : fine (fun r => True)
                   (all_ok (unit_step (fun u => if guarded fx s m0 None m0 u then Ok false
                                           else res_map fst (units_test fx fuel ty s m0 None m0 [] u))) (m_units m0) tt)).
    { apply (fine_weaken (fun r => True)); [auto|]. apply (all_ok_fine (fun _ => True)); [|exact I].
      intros u Hu [] _. unfold unit_step. apply fine_res_map. destruct (guarded fx s m0 None m0 u); [exact I|]. apply fine_res_map.
      apply (fine_weaken (fun _ => True)); [auto|]. apply units_test_total; auto.
      pose proof (U_bound None (uname u)). lia. }
    destruct (all_ok _ (m_units m0) tt) as [[b []]| |]; cbn [fine] in G1 |- *; auto.
    destruct b; [|exact I]. apply fine_res_map. apply (fine_weaken (fun r => True)); [auto|].
    apply (all_ok_fine (fun _ => True)); [|exact I]. intros c Hc [] _. unfold unit_step. apply fine_res_map.
    apply (fine_weaken (fun _ => True)); [auto|]. apply comp_test_total; auto.
    - unfold all_comps. apply in_flat_map. exists c. split; [exact Hc|apply subcomps_self].
    - pose proof (C_bound None (cname c)). lia.
  Qed.

  (* flattenModel's pre-checks return (with a value or with the null dereference of finding
     C07-null-deref-dangling-units-ref) whenever no units and no component depends on itself *)
  Lemma flatten_precheck_total : forall fuel, Bu + Bc <= fuel -> flatten_precheck fx fuel st m0 <> OutOfFuel.
  Proof.
    intros fuel Hf. assert (Ho : owns None m0) by reflexivity.
    assert (Hs0 : same_ll (clear_issues st)) by (split; reflexivity).
    assert (G : fine (fun r => same_ll (snd r)) (has_import_issues fx fuel (clear_issues st) m0)).
    { unfold has_import_issues.
      assert (G1 : fine (fun r => same_ll (snd r))
                 (none_found (fun s u => res_map (fun r => (fst r, snd (snd r)))
                                                 (check_units_for_cycles fuel m0 None m0 ([], s) u))
                             (imported_units m0) (clear_issues st))).
      { apply (none_found_fine same_ll); [|exact Hs0]. intros u Hu x Hx. apply fine_res_map. cbn [snd].
        apply cufc_total; auto.
        - unfold imported_units in Hu. apply filter_In in Hu. apply Hu.
        - pose proof (U_bound None (uname u)). lia. }
      destruct (none_found _ (imported_units m0) (clear_issues st)) as [[b1 s1]| |]; cbn [fine] in G1 |- *; auto.
      destruct b1; [exact G1|].
      assert (G2 : fine (fun r => same_ll (snd r))
                 (none_found (fun s c => check_comp_for_cycles fuel s m0 None [] c) (imported_comps m0) s1)).
      { apply (none_found_fine same_ll); [|exact G1]. intros c Hc x Hx.
        apply ccfc_total with (cm := m0); auto.
        - apply imported_comps_all. exact Hc.
        - pose proof (C_bound None (cname c)). lia. }
      destruct (none_found _ (imported_comps m0) s1) as [[b2 s2]| |]; cbn [fine] in G2 |- *; auto.
      destruct b2; [exact G2|].
      pose proof (model_test_total fuel RESOLVED s2 G2 Hf) as G3. unfold has_unresolved_imports.
      destruct (model_test fx fuel RESOLVED s2 m0) as [b3| |]; cbn [fine] in G3 |- *; auto.
      destruct b3; cbn; [exact G2|apply same_ll_add; exact G2]. }
    unfold flatten_precheck.
    destruct (has_import_issues fx fuel (clear_issues st) m0) as [[b s]| |]; cbn in G; [|discriminate|contradiction].
    destruct b; [discriminate|].
    pose proof (model_test_total fuel DEFINED s G Hf) as G3. unfold is_defined.
    destruct (model_test fx fuel DEFINED s m0) as [b3| |]; cbn in G3; [destruct b3; discriminate|discriminate|contradiction].
  Qed.
End ScanTotal.

Lemma flatten_precheck_total_spec : forall fx st m0 urank crank Bu Bc,
  NoSelfDependence st m0 urank crank Bu Bc ->
  forall fuel, Bu + Bc <= fuel -> flatten_precheck fx fuel st m0 <> OutOfFuel.
Proof.
  intros fx st m0 urank crank Bu Bc (H1 & H2 & H3 & H4 & H5 & H6).
  eapply flatten_precheck_total; eauto.
Qed.

(* non-vacuity: the state reached by resolving the example of [nonvacuous] has no self-dependence *)
Definition ex_st : state := st_of (run1 ex_fs empty_state ex_m0).

Lemma ex_content : forall o cm, content ex_st ex_m0 o = Some cm ->
  (o = None /\ cm = ex_m0) \/ (o = Some (mk_key "f1") /\ cm = ex_m1).
Proof.
  intros [k|] cm E; [|left; inversion E; auto]. right. cbn [content] in E.
  change (lib ex_st) with [(mk_key "f1", ex_m1)] in E. cbn [lib_get] in E.
  destruct (String.eqb (mk_key "f1") k) eqn:Ek; [|discriminate]. apply String.eqb_eq in Ek. inversion E. subst. auto.
Qed.

Lemma total_nonvacuous :
  exists urank crank Bu Bc, NoSelfDependence ex_st ex_m0 urank crank Bu Bc /\
    flatten_precheck no_fixes (Bu + Bc) ex_st ex_m0 = Ok (true, clear_issues ex_st).
Proof.
  exists (fun o _ => match o with None => 1 | Some _ => 0 end),
         (fun o _ => match o with None => 1 | Some _ => 0 end), 2, 2.
  split; [|vm_compute; reflexivity].
  split; [intros [k|] n; lia|]. split; [intros [k|] n; lia|]. split.
  { intros o cm n refs r cu E Hin Hr Ef. destruct (ex_content _ _ E) as [[-> ->]|[-> ->]].
    - destruct Hin as [Habs|[]]. discriminate.
    - destruct Hin as [Heq|[]]. inversion Heq; subst. destruct Hr. }
  split.
  { intros o cm n sid url ref sm iu E Hin El Ef. destruct (ex_content _ _ E) as [[-> ->]|[-> ->]].
    - lia.
    - destruct Hin as [Habs|[]]. discriminate. }
  split.
  { intros o cm n sid url ref used kids sm ic E Hin El Ef. destruct (ex_content _ _ E) as [[-> ->]|[-> ->]].
    - lia.
    - destruct Hin as [Habs|[]]. discriminate. }
  intros o cm c k E Hin Hk. destruct o; lia.
Qed.

(* ------------------------------------------------------------------------------------------ the base path *)

Lemma norm_sep_app : forall a b, norm_sep (String.append a b) = String.append (norm_sep a) (norm_sep b).
Proof. induction a as [|c r IH]; intros b; [reflexivity|]. cbn. rewrite IH. reflexivity. Qed.

Lemma norm_sep_idem : forall s, norm_sep (norm_sep s) = norm_sep s.
Proof.
  induction s as [|c r IH]; [reflexivity|]. cbn [norm_sep]. rewrite IH.
  destruct (Ascii.eqb c "\"%char) eqn:E; [reflexivity|]. rewrite E. reflexivity.
Qed.

Lemma upto_last_slash_app : forall a b,
  upto_last_slash (String.append a b) =
  match upto_last_slash b with Some p => Some (String.append a p) | None => upto_last_slash a end.
Proof.
  induction a as [|c r IH]; intros b; [cbn; destruct (upto_last_slash b); reflexivity|].
  cbn [String.append upto_last_slash]. rewrite IH. destruct (upto_last_slash b); reflexivity.
Qed.

Lemma ends_with_slash_app : forall a b, ends_with_slash b = true -> ends_with_slash (String.append a b) = true.
Proof.
  induction a as [|c r IH]; intros b H; [exact H|]. cbn [String.append ends_with_slash].
  destruct (String.append r b) eqn:E; [|rewrite <- E; apply IH; exact H].
  destruct r; [cbn in E; subst b; discriminate|discriminate].
Qed.

Lemma upto_ends : forall s p, upto_last_slash s = Some p -> ends_with_slash p = true.
Proof.
  induction s as [|c r IH]; intros p H; [discriminate|]. cbn [upto_last_slash] in H.
  destruct (upto_last_slash r) as [q|] eqn:E.
  - inversion H; subst. specialize (IH q eq_refl). cbn [ends_with_slash]. destruct q; [discriminate|exact IH].
  - destruct (Ascii.eqb c "/"%char) eqn:Ec; [|discriminate]. inversion H; subst. cbn. exact Ec.
Qed.

(* the prefix up to the last '/' of a normalised string is normalised *)
Lemma upto_norm : forall s p, norm_sep s = s -> upto_last_slash s = Some p -> norm_sep p = p.
Proof.
  induction s as [|c r IH]; intros p Hn H; [discriminate|]. cbn [norm_sep] in Hn. injection Hn as Hc Hr.
  cbn [upto_last_slash] in H. destruct (upto_last_slash r) as [q|] eqn:E.
  - injection H as <-. cbn [norm_sep]. rewrite Hc. f_equal. apply IH; [exact Hr|reflexivity].
  - destruct (Ascii.eqb c "/"%char); [|discriminate]. injection H as <-. cbn [norm_sep]. rewrite Hc. reflexivity.
Qed.

(* a base path as the code keeps it: separators normalised, empty or ending in '/' *)
Definition good_base (b : string) : Prop := norm_sep b = b /\ (b = EmptyString \/ ends_with_slash b = true).

Lemma path_from_url_good : forall b, good_base b -> path_from_url b = b.
Proof.
  intros b [Hn [->|He]]; [reflexivity|]. unfold path_from_url. rewrite Hn, (upto_last_slash_dir _ He). reflexivity.
Qed.

(* fetchUnits / fetchComponent hand "newBase = baseFile + pathFromUrl(url)" to the entities of the imported model;
   that is the directory part of the key under which fetchModel stored the model: the model's [base_of]. *)
Lemma new_base_dir : forall base url, good_base base ->
  new_base url base = base_of (Some (import_key url base)) /\ good_base (new_base url base).
Proof.
  intros base url Hg. pose proof (path_from_url_good _ Hg) as Hp. destruct Hg as [Hn He].
  unfold new_base, base_of, import_key, resolve_path, path_from_url at 2. rewrite Hp.
  rewrite norm_sep_app, Hn, norm_sep_idem, upto_last_slash_app. unfold path_from_url.
  destruct (upto_last_slash (norm_sep url)) as [p|] eqn:Eu.
  - split; [reflexivity|]. split.
    + rewrite norm_sep_app, Hn. f_equal.
      eapply upto_norm; [apply norm_sep_idem|exact Eu].
    + right. apply ends_with_slash_app. eapply upto_ends. exact Eu.
  - rewrite append_nil_r. destruct He as [->|He].
    + split; [reflexivity|]. split; [reflexivity|left; reflexivity].
    + rewrite (upto_last_slash_dir _ He). split; [reflexivity|]. split; [exact Hn|right; exact He].
Qed.

Lemma dir_prefix_good : good_base dir_prefix.
Proof. split; [reflexivity|right; reflexivity]. Qed.

(* plain file names in one directory: the generalised keys are the flat ones *)
Lemma key_of_flat : forall url, no_sep url = true ->
  key_of None url = mk_key url /\ forall u', no_sep u' = true -> key_of (Some (mk_key u')) url = mk_key url.
Proof.
  intros url Hu. destruct (norm_sep_no_sep _ Hu) as [Hn _]. split.
  - unfold key_of, base_of, import_key, resolve_path. rewrite Hn. reflexivity.
  - intros u' Hu'. destruct (norm_sep_no_sep _ Hu') as [Hn' Hs'].
    unfold key_of, base_of, import_key, resolve_path, mk_key, dir_prefix. rewrite Hn.
    assert (path_from_url (String.append "/" u') = "/") as ->; [|assert (path_from_url "/" = "/") as -> by reflexivity; reflexivity].
    unfold path_from_url. cbn [String.append norm_sep]. rewrite Hn'. cbn [upto_last_slash]. rewrite Hs'. reflexivity.
Qed.
