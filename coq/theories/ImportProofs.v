(** ImportProofs.v — lemmas about ImportDefs.v (C07). *)
From Coq Require Import String Ascii List Bool Arith Lia.
From LC Require Import ImportDefs.
Import ListNotations.
Local Open Scope string_scope.
Local Open Scope list_scope.

Lemma placeholder_true : True. Proof. exact I. Qed.
