(** TransformHoistProofs.v — C14: component-level units in the rewriting.  [to1x] with [hoist = true] moves the block of
    units elements that stands immediately before the first component element into that component;
    loadUnitsFromComponent brings them back to the model in the same order, so for a printable, expressible model the
    permissive parser answers exactly as for the rewriting without the move.  Lemmas only. *)
From Coq Require Import String Ascii List Bool ZArith Arith.
From LC Require Import Common NumDefs XmlDefs EntTreeDefs PrintDefs LoadDefs RoundtripSpec Load1xDefs To1xDefs
     RoundtripReadProofs RoundtripLoadProofs TransformSimProofs TransformProofs.
Import ListNotations.
Local Open Scope string_scope.
Local Open Scope bool_scope.
Local Open Scope list_scope.

Section Hoist.
Variable E : env.
Variable fx fi fd : bool.

Notation lmk := (load_model_kid1 E fi fd).

Lemma units_el_shape : forall k, is_1x "units" k = true -> exists ns a ks, k = Elem ns "units" a ks.
Proof.
  intros [ns nm a ks|s|] H; try discriminate. unfold is_1x, is_element in H.
  apply orb_true_iff in H. destruct H as [H|H]; apply andb_true_iff in H; destruct H as [_ H]; apply String.eqb_eq in H; subst; eauto.
Qed.

(** ** a units element is passed over by loadComponent *)
Lemma comp_kid_units : forall st k, is_1x "units" k = true -> load_component_kid1 E fi st k = st.
Proof.
  intros st k H. destruct (units_el_shape k H) as (ns & a & ks & ->).
  unfold load_component_kid1, is_cellml_any, is_cellml20, is_mathml, is_element. cbn. rewrite !andb_false_r. reflexivity.
Qed.

Lemma comp_kids_skip_units : forall P ks st, Forall (fun U => is_1x "units" U = true) P ->
  fold_left (load_component_kid1 E fi) (P ++ ks) st = fold_left (load_component_kid1 E fi) ks st.
Proof.
  induction P as [|U r IH]; intros ks st H; [reflexivity|]. inversion H; subst. cbn [app fold_left].
  rewrite comp_kid_units by assumption. now apply IH.
Qed.

(** ** loadUnitsFromComponent, explicitly *)
Definition ufc_step (acc : list units * list issue) (k : xml) : list units * list issue :=
  if is_1x "units" k then let r := load_units1 E fd k in (fst acc ++ [fst r], snd acc ++ snd r) else acc.

Lemma ufc_explicit : forall ks acc,
  fold_left ufc_step ks acc
  = (fst acc ++ map (fun k => fst (load_units1 E fd k)) (filter (is_1x "units") ks),
     snd acc ++ flat_map (fun k => snd (load_units1 E fd k)) (filter (is_1x "units") ks)).
Proof.
  induction ks as [|k r IH]; intros [a b]; [cbn; now rewrite !app_nil_r|].
  cbn [fold_left filter]. rewrite IH. unfold ufc_step. destruct (is_1x "units" k); [|reflexivity].
  cbn [fst snd map flat_map]. now rewrite <- !app_assoc.
Qed.

Lemma ufc_is_fold : forall x, units_from_component E fd x = fold_left ufc_step (xml_kids x) ([], []).
Proof. reflexivity. Qed.

Definition quiet_units (U : xml) : Prop := is_1x "units" U = true /\ snd (load_units1 E fd U) = [].

Lemma filter_all : forall {A} (f : A -> bool) l, Forall (fun x => f x = true) l -> filter f l = l.
Proof. intros A f l H. induction H as [|x r Hx _ IH]; [reflexivity|]. cbn [filter]. now rewrite Hx, IH. Qed.

Lemma flat_map_quiet : forall P, Forall quiet_units P -> flat_map (fun k => snd (load_units1 E fd k)) P = [].
Proof. intros P H. induction H as [|x r [_ Hx] _ IH]; [reflexivity|]. cbn [flat_map]. now rewrite Hx, IH. Qed.

(** ** the first component with a block of quiet units elements in front *)
Lemma add_front_component : forall P C, Forall quiet_units P -> is_1x "component" C = true ->
  units_from_component E fd C = ([], []) ->
  is_1x "component" (add_kids_front P C) = true
  /\ load_component1 E fi (add_kids_front P C) = load_component1 E fi C
  /\ units_from_component E fd (add_kids_front P C) = (map (fun k => fst (load_units1 E fd k)) P, []).
Proof.
  intros P C HP HC Hu. destruct C as [ns nm a ks|s|]; try discriminate.
  assert (HPu : Forall (fun U => is_1x "units" U = true) P) by (eapply Forall_impl; [|exact HP]; intros U [H _]; exact H).
  cbn [add_kids_front]. split; [exact HC|]. split.
  - unfold load_component1, xattrs. cbn [xml_attrs xml_kids]. now rewrite comp_kids_skip_units.
  - rewrite ufc_is_fold in *. cbn [xml_kids] in *. rewrite ufc_explicit in Hu. rewrite ufc_explicit.
    pose proof (f_equal fst Hu) as Hu1. pose proof (f_equal snd Hu) as Hu2. cbn [fst snd app] in Hu1, Hu2 |- *.
    rewrite filter_app, map_app, flat_map_app, Hu1, Hu2, !app_nil_r.
    rewrite (filter_all _ P HPu). now rewrite flat_map_quiet.
Qed.

Lemma units_not_component : forall k, is_1x "units" k = true -> is_1x "component" k = false.
Proof.
  intros k H. destruct (units_el_shape k H) as (ns & a & ks & ->). unfold is_1x, is_element. cbn. now rewrite !andb_false_r.
Qed.

(** loading a block of quiet units elements only extends the units list *)
Lemma fold_quiet_block : forall P u c i e es cs is, Forall quiet_units P ->
  fold_left lmk P {| ma_units := u; ma_comps := c; ma_imports := i; ma_encid := e; ma_encs := es; ma_conns := cs; ma_issues := is |}
  = {| ma_units := u ++ map (fun k => fst (load_units1 E fd k)) P; ma_comps := c; ma_imports := i; ma_encid := e;
       ma_encs := es; ma_conns := cs; ma_issues := is |}.
Proof.
  induction P as [|U r IH]; intros u c i e es cs is H; [cbn; now rewrite app_nil_r|].
  inversion H as [|? ? [HU Hq] Hr]; subst. cbn [fold_left map]. unfold load_model_kid1 at 2.
  rewrite (units_not_component U HU), HU. cbn [ma_units ma_comps ma_imports ma_encid ma_encs ma_conns ma_issues].
  rewrite Hq, app_nil_r, IH by assumption. now rewrite <- app_assoc.
Qed.

(** the move is invisible to the parser when the units elements are quiet and the components hold no units of their own *)
Lemma hoist_fold : forall l P st,
  Forall quiet_units P ->
  Forall (fun k => (is_1x "units" k = true -> quiet_units k)
                   /\ (is_1x "component" k = true -> units_from_component E fd k = ([], []))) l ->
  fold_left lmk (hoist_units l P) st = fold_left lmk (P ++ l) st.
Proof.
  induction l as [|k r IH]; intros P st HP Hl; [cbn; now rewrite app_nil_r|].
  inversion Hl as [|? ? [Hku Hkc] Hr]; subst. cbn [hoist_units].
  destruct (is_1x "units" k) eqn:Eu.
  - rewrite IH; [now rewrite <- app_assoc| |assumption]. apply Forall_app. split; [assumption|]. constructor; [now apply Hku|constructor].
  - destruct (is_1x "component" k) eqn:Ec.
    + destruct (add_front_component P k HP Ec (Hkc eq_refl)) as (H1 & H2 & H3).
      rewrite fold_left_app. cbn [fold_left]. f_equal.
      destruct st as [u c i e es cs is]. rewrite fold_quiet_block by assumption.
      unfold load_model_kid1. rewrite H1, Ec, H2, H3, (Hkc eq_refl).
      cbn [ma_units ma_comps ma_imports ma_encid ma_encs ma_conns ma_issues fst snd]. now rewrite !app_nil_r.
    + rewrite fold_left_app. cbn [fold_left]. rewrite fold_left_app. cbn [fold_left]. apply IH; [constructor|assumption].
Qed.

End Hoist.

(** * the printed, converted children of a printable, expressible model satisfy the hypotheses of [hoist_fold] *)
Section HoistPrinted.
Variable E : env.
Variable fx fi fd : bool.
Variable v : version.
Variable ist : list attr -> istyle.
Variable cm us : bool.
Variable mcpos rrpos : nat.
Hypothesis Hstyle : style_ok ist fi.

Definition kid_quiet (k : xml) : Prop :=
  model_kid_ok1 k = true /\ (is_cellml20 "units" k = true -> snd (load_units E k) = []).

Lemma kid_quiet_other : forall k nm, model_kid_ok1 k = true -> is_cellml20 nm k = true -> String.eqb nm "units" = false -> kid_quiet k.
Proof.
  intros k nm Hk Hn Hne. split; [assumption|]. intros Hu. exfalso.
  apply is_element_inv in Hn. destruct Hn as (a & ks & ->). unfold is_cellml20, is_element in Hu. cbn in Hu.
  rewrite Hne in Hu. discriminate.
Qed.

Lemma printed_kids_quiet : forall m, printable E true m -> expressible_1xb E v m = true ->
  Forall kid_quiet (xml_kids (print_tree E m)).
Proof.
  intros m Hp He. pose proof Hp as Hp'. unfold printable, printableb in Hp'. bsplit_all.
  assert (Hok : conv_ok (print_tree E m) = true) by (eapply print_tree_conv_ok; eassumption).
  unfold conv_ok in Hok. apply andb_true_iff in Hok. destruct Hok as [_ Hk].
  assert (Hall : forall k, In k (xml_kids (print_tree E m)) -> model_kid_ok1 k = true) by (intros k Hin; by_forallb).
  apply Forall_forall. intros k Hin. specialize (Hall k Hin).
  unfold print_tree, print_gen, el in Hin. cbn [xml_kids] in Hin.
  repeat (apply in_app_or in Hin; destruct Hin as [Hin|Hin]).
  - unfold print_imports in Hin. apply in_map_iff in Hin. destruct Hin as (i & <- & _).
    apply (kid_quiet_other _ "import"); [assumption|reflexivity|reflexivity].
  - apply in_flat_map in Hin. destruct Hin as (u & Hu & Hin). split; [assumption|]. intros _.
    assert (Huok : units_ok E true u = true) by by_forallb.
    unfold print_units in Hin. destruct (is_import_units u) eqn:Ei; [contradiction|]. cbn [orb] in Hin.
    assert (Hs : u_src u = None) by (unfold is_import_units in Ei; destruct (u_src u); [discriminate|reflexivity]).
    destruct (load_print_units E u Huok Hs) as (a & ks & Hpu & Hl).
    unfold print_units in Hpu. rewrite Ei in Hpu. cbn [orb] in Hpu.
    destruct (is_standard_unit u); [contradiction|]. injection Hpu as Ha Hks. destruct Hin as [<-|[]].
    unfold el in *. rewrite Ha, Hks, Hl. reflexivity.
  - apply in_flat_map in Hin. destruct Hin as (c & _ & Hin).
    assert (Hc : forall c k, In k (print_component E ident ident c) -> is_cellml20 "component" k = true).
    { clear. induction c as [s ks IH] using comp_ind'. intros k Hin. rewrite print_component_unfold in Hin.
      apply in_app_or in Hin. destruct Hin as [Hin|Hin].
      - destruct (c_src s); [contradiction|]. destruct Hin as [<-|[]]. reflexivity.
      - apply in_flat_map in Hin. destruct Hin as (c' & Hc' & Hin). rewrite Forall_forall in IH. eapply IH; eassumption. }
    apply (kid_quiet_other _ "component"); [assumption|eapply Hc; eassumption|reflexivity].
  - assert (Hc : forall cs l done k, In k (print_connections ident cs l done) -> is_cellml20 "connection" k = true).
    { clear. intros cs. induction l as [|e r IH]; intros done k Hin; [contradiction|]. cbn [print_connections] in Hin.
      destruct (existsb _ done); [eapply IH; eassumption|]. destruct Hin as [<-|Hin]; [reflexivity|eapply IH; eassumption]. }
    apply (kid_quiet_other _ "connection"); [assumption|eapply Hc; eassumption|reflexivity].
  - destruct (flat_map _ (m_comps m)); [contradiction|]. destruct Hin as [<-|[]].
    apply (kid_quiet_other _ "encapsulation"); [assumption|reflexivity|reflexivity].
Qed.

Lemma conv_kid_hyps : forall k, kid_quiet k ->
  (is_1x "units" (conv_model_kid v ist cm us mcpos rrpos k) = true -> quiet_units E fd (conv_model_kid v ist cm us mcpos rrpos k))
  /\ (is_1x "component" (conv_model_kid v ist cm us mcpos rrpos k) = true -> units_from_component E fd (conv_model_kid v ist cm us mcpos rrpos k) = ([], [])).
Proof.
  intros k [Hk Hq]. unfold model_kid_ok1 in Hk.
  repeat (apply orb_true_iff in Hk; destruct Hk as [Hk|Hk]).
  - (* import *)
    pose proof Hk as Hi. unfold import_ok1 in Hi. bsplit_all.
    match goal with Hc : is_cellml20 "import" k = true |- _ => apply is_element_inv in Hc; destruct Hc as (a & ks & ->) end.
    unfold conv_model_kid. replace (is_cellml20 "import" (Elem CELLML_2_0_NS "import" a ks)) with true by reflexivity.
    unfold conv_import. split; intros H; rewrite is_1x_other_name in H by reflexivity; discriminate.
  - (* units *)
    pose proof Hk as Hi. unfold units_ok1 in Hi. bsplit_all.
    match goal with Hc : is_cellml20 "units" k = true |- _ => pose proof Hc as Hc'; apply is_element_inv in Hc; destruct Hc as (a & ks & ->) end.
    unfold conv_model_kid. rewrite (is_20_other_name "import" "units") by reflexivity.
    replace (is_cellml20 "units" (Elem CELLML_2_0_NS "units" a ks)) with true by reflexivity.
    split; intros H.
    + split; [assumption|]. rewrite units_sim by assumption. now apply Hq.
    + unfold conv_units in H. rewrite is_1x_other_name in H by reflexivity. discriminate.
  - (* component *)
    destruct (comp_sim E fi fd v ist cm us Hstyle k Hk) as [_ Hu].
    pose proof Hk as Hi. unfold comp_ok1 in Hi. bsplit_all.
    match goal with Hc : is_cellml20 "component" k = true |- _ => apply is_element_inv in Hc; destruct Hc as (a & ks & ->) end.
    unfold conv_model_kid in *. rewrite (is_20_other_name "import" "component"), (is_20_other_name "units" "component") in * by reflexivity.
    replace (is_cellml20 "component" (Elem CELLML_2_0_NS "component" a ks)) with true in * by reflexivity.
    split; intros H; [|exact Hu]. unfold conv_component in H. rewrite is_1x_other_name in H by reflexivity. discriminate.
  - (* connection *)
    pose proof Hk as Hi. unfold conn_ok1 in Hi. bsplit_all.
    match goal with Hc : is_cellml20 "connection" k = true |- _ => apply is_element_inv in Hc; destruct Hc as (a & ks & ->) end.
    unfold conv_model_kid. rewrite (is_20_other_name "import" "connection"), (is_20_other_name "units" "connection"),
      (is_20_other_name "component" "connection") by reflexivity.
    replace (is_cellml20 "connection" (Elem CELLML_2_0_NS "connection" a ks)) with true by reflexivity.
    unfold conv_connection. split; intros H; rewrite is_1x_other_name in H by reflexivity; discriminate.
  - (* encapsulation *)
    pose proof Hk as Hi. unfold enc_ok1 in Hi. bsplit_all.
    match goal with Hc : is_cellml20 "encapsulation" k = true |- _ => apply is_element_inv in Hc; destruct Hc as (a & ks & ->) end.
    unfold conv_model_kid. rewrite (is_20_other_name "import" "encapsulation"), (is_20_other_name "units" "encapsulation"),
      (is_20_other_name "component" "encapsulation"), (is_20_other_name "connection" "encapsulation") by reflexivity.
    replace (is_cellml20 "encapsulation" (Elem CELLML_2_0_NS "encapsulation" a ks)) with true by reflexivity.
    unfold conv_encapsulation. split; intros H; rewrite is_1x_other_name in H by reflexivity; discriminate.
Qed.

(** component-level units in the rewriting: the parser answers exactly as without them *)
Theorem transform_hoist : forall m, printable E true m -> expressible_1x E v m ->
  load1x E fx fi fd false (to1x v ist cm us true mcpos rrpos E m) = load1x E fx fi fd false (to1x v ist cm us false mcpos rrpos E m).
Proof.
  intros m Hp He. pose proof (printed_kids_quiet m Hp He) as Hq.
  unfold to1x. remember (print_tree E m) as t eqn:Et.
  assert (Helem : exists a ks, t = Elem CELLML_2_0_NS "model" a ks) by (subst t; unfold print_tree, print_gen, el; eauto).
  destruct Helem as (a & ks & ->). cbn [xml_kids] in Hq.
  unfold conv1x, load1x. rewrite !is_20_V, !is_1x_V. cbn [negb andb].
  unfold load_1x_root. cbn [xml_attrs xml_kids].
  rewrite (hoist_fold E fi fd (map (conv_model_kid v ist cm us mcpos rrpos) ks) [] model_acc0); [reflexivity|constructor|].
  apply Forall_forall. intros k' Hin. apply in_map_iff in Hin. destruct Hin as (k & <- & Hin).
  rewrite Forall_forall in Hq. apply conv_kid_hyps. now apply Hq.
Qed.

(** the theorems of TransformProofs for both placements of the units *)
Theorem transform_as_20_h : forall hoist m, printable E true m -> expressible_1x E v m ->
  load1x E fx fi fd false (to1x v ist cm us hoist mcpos rrpos E m)
  = (fst (load E fx true (print_tree E m)), msg :: snd (load E fx true (print_tree E m))).
Proof. intros [|] m Hp He; [rewrite transform_hoist by assumption|]; now apply transform_as_20. Qed.

Theorem transform_flat_h : forall hoist m, printable E true m -> expressible_1x E v m -> flat m = true ->
  load1x E fx fi fd false (to1x v ist cm us hoist mcpos rrpos E m) = (canon E m, [msg]).
Proof. intros [|] m Hp He Hf; [rewrite transform_hoist by assumption|]; now apply transform_flat. Qed.

Theorem transform_encapsulation_exact_h : forall hoist m, printable E true m -> expressible_1x E v m ->
  no_imports m = true -> no_connections m = true ->
  load1x E fx fi fd false (to1x v ist cm us hoist mcpos rrpos E m)
  = ({| m_name := m_name m; m_id := m_id m; m_encid := m_encid m; m_units := map (canon_units E) (m_units m);
        m_comps := map (canon_comp E) (RoundtripEncProofs.enc_order (m_comps m)); m_eqv := [] |}, [msg]).
Proof. intros [|] m Hp He Hi Hc; [rewrite transform_hoist by assumption|]; now apply transform_encapsulation_exact. Qed.

Theorem transform_roundtrip_h : forall hoist m, printable E true m -> expressible_1x E v m ->
  no_imports m = true -> no_connections m = true ->
  exists m' is, load1x E fx fi fd false (to1x v ist cm us hoist mcpos rrpos E m) = (m', is)
                /\ content_eq m' (canon E m) /\ Forall (fun i => is_message i = true) is.
Proof. intros [|] m Hp He Hi Hc; [rewrite transform_hoist by assumption|]; now apply transform_roundtrip. Qed.

End HoistPrinted.
