(** ReadProofs.v — the token stream [gent a] of a safe AST is read by the precedence-climbing reader as the
    intended tree [tr a], up to re-association ([norm]).  Main result: [parse_gent]. *)
From Coq Require Import String Ascii List Bool Arith ZArith Lia.
From LC Require Import NumDefs AstDefs GenDefs GramDefs GramSpec GramProofs ReadDefs GenTok.
Import ListNotations.
Local Open Scope string_scope.
Local Open Scope list_scope.

Local Ltac inv H := inversion H; subst; clear H.

(** ** norm: congruence and re-association *)

Lemma graft_add_assoc A B C : graft_add (graft_add A B) C = graft_add A (graft_add B C).
Proof.
  induction C; cbn; try reflexivity.
  destruct op; cbn; try reflexivity; rewrite IHC1; reflexivity.
Qed.
Lemma graft_mul_assoc A B C : graft_mul (graft_mul A B) C = graft_mul A (graft_mul B C).
Proof.
  induction C; cbn; try reflexivity.
  destruct op; cbn; try reflexivity; rewrite IHC1; reflexivity.
Qed.
Lemma graft_and_assoc A B C : graft_and (graft_and A B) C = graft_and A (graft_and B C).
Proof.
  induction C; cbn; try reflexivity.
  destruct op; cbn; try reflexivity; rewrite IHC1; reflexivity.
Qed.
Lemma graft_or_assoc A B C : graft_or (graft_or A B) C = graft_or A (graft_or B C).
Proof.
  induction C; cbn; try reflexivity.
  destruct op; cbn; try reflexivity; rewrite IHC1; reflexivity.
Qed.

Lemma norm_bin_cong op A A' B B' :
  norm A = norm A' -> norm B = norm B' -> norm (TBin op A B) = norm (TBin op A' B').
Proof. intros H1 H2. destruct op; cbn; rewrite H1, H2; reflexivity. Qed.

(* operators at the same level as [op] that may follow it in an unparenthesised chain *)
Definition same_level (op op2 : binop) : bool :=
  match op, op2 with
  | Add, (Add | Sub) | Mul, (Mul | Div) | And, And | Or, Or => true
  | _, _ => false
  end.

Lemma norm_assoc op op2 Lh A B :
  same_level op op2 = true ->
  norm (TBin op2 (TBin op Lh A) B) = norm (TBin op Lh (TBin op2 A B)).
Proof.
  destruct op, op2; cbn; try discriminate; intros _;
    try reflexivity; auto using graft_add_assoc, graft_mul_assoc, graft_and_assoc, graft_or_assoc.
Qed.

Fixpoint tnegs (k : nat) (t : tree) : tree := match k with 0 => t | S k' => TNeg (tnegs k' t) end.
Definition negs (k : nat) (ts : list token) : list token := repeat TMinus k ++ ts.

Lemma negs_app k ts rest : negs k ts ++ rest = negs k (ts ++ rest).
Proof. unfold negs. rewrite app_assoc. reflexivity. Qed.
Lemma negs_S k ts : negs (S k) ts = TMinus :: negs k ts.
Proof. reflexivity. Qed.
Lemma negs_S' k ts : negs (S k) ts = negs k (TMinus :: ts).
Proof.
  unfold negs. replace (S k) with (k + 1) by lia. rewrite repeat_app. cbn. rewrite <- app_assoc. reflexivity.
Qed.
Lemma tnegs_S' k t : tnegs (S k) t = tnegs k (TNeg t).
Proof. induction k; cbn in *; congruence. Qed.

Lemma norm_tnegs_cong k A A' : norm A = norm A' -> norm (tnegs k A) = norm (tnegs k A').
Proof. intros H. induction k; cbn; congruence. Qed.

Lemma neg_left_graft_mul A B : neg_left (graft_mul A B) = graft_mul (neg_left A) B.
Proof.
  induction B; cbn; try reflexivity.
  destruct op; cbn; try reflexivity; rewrite IHB1; reflexivity.
Qed.

Lemma norm_tnegs_mul k A B : norm (tnegs k (TBin Mul A B)) = norm (TBin Mul (tnegs k A) B).
Proof.
  induction k; cbn; [reflexivity|]. cbn in IHk. rewrite IHk. apply neg_left_graft_mul.
Qed.
Lemma norm_tnegs_div k A B : norm (tnegs k (TBin Div A B)) = norm (TBin Div (tnegs k A) B).
Proof.
  induction k; cbn; [reflexivity|]. cbn in IHk. rewrite IHk. reflexivity.
Qed.

(* what the proofs use of a profile: which operators it prints infix.  Both built-in profiles satisfy it
   (flags_C, flags_Py below, by computation on the regenerated ProfileStrings). *)
Definition flags_ok (L : lang) (p : profile) : Prop :=
  has_eq_operator p = is_C L /\ has_neq_operator p = is_C L /\ has_lt_operator p = is_C L
  /\ has_leq_operator p = is_C L /\ has_gt_operator p = is_C L /\ has_geq_operator p = is_C L
  /\ has_and_operator p = is_C L /\ has_or_operator p = is_C L /\ has_not_operator p = is_C L
  /\ has_xor_operator p = false /\ has_power_operator p = false /\ has_conditional_operator p = true
  /\ square_string p = "".

Lemma flags_C : flags_ok LC profile_C.
Proof. repeat split. Qed.
Lemma flags_Py : flags_ok LPy profile_Py.
Proof. repeat split. Qed.

Section RP.
Variable L : lang.
Variable p : profile.
Hypothesis HF : flags_ok L p.

Lemma F1 : has_eq_operator p = is_C L. Proof. apply HF. Qed.
Lemma F2 : has_neq_operator p = is_C L. Proof. apply HF. Qed.
Lemma F3 : has_lt_operator p = is_C L. Proof. apply HF. Qed.
Lemma F4 : has_leq_operator p = is_C L. Proof. apply HF. Qed.
Lemma F5 : has_gt_operator p = is_C L. Proof. apply HF. Qed.
Lemma F6 : has_geq_operator p = is_C L. Proof. apply HF. Qed.
Lemma F7 : has_and_operator p = is_C L. Proof. apply HF. Qed.
Lemma F8 : has_or_operator p = is_C L. Proof. apply HF. Qed.
Lemma F9 : has_not_operator p = is_C L. Proof. apply HF. Qed.
Lemma F10 : has_xor_operator p = false. Proof. apply HF. Qed.
Lemma F11 : has_power_operator p = false. Proof. apply HF. Qed.
Lemma F12 : has_conditional_operator p = true. Proof. apply HF. Qed.
Lemma F13 : square_string p = "". Proof. apply HF. Qed.

Notation PExpr := (PExpr L).
Notation PPrefix := (PPrefix L).
Notation PLoop := (PLoop L).
Notation next_step := (next_step L).
Notation gent := (gent L p).
Notation tr := (tr p).
Notation lvl := (lvl p).
Notation safe := (safe_b L p).

(** ** the loop's dispatch *)

Lemma binop_info_le t op q : binop_info L t = Some (op, q) -> 2 <= q <= 7.
Proof. destruct t; cbn; try discriminate; try (destruct (is_C L); [|discriminate]); intros H; inv H; lia. Qed.

Lemma binop_info_not_cond t op q : binop_info L t = Some (op, q) -> t <> TQuest /\ t <> TIf.
Proof. destruct t; cbn; try discriminate; split; discriminate. Qed.

Lemma next_step_tok m t r op q :
  binop_info L t = Some (op, q) -> next_step m (t :: r) = if (m <=? q)%nat then KBin op q else KStop.
Proof.
  intros H. destruct (binop_info_not_cond _ _ _ H) as [H1 H2].
  unfold GramSpec.next_step. destruct t; try congruence; rewrite H; reflexivity.
Qed.

Lemma next_step_nonop m t r :
  binop_info L t = None -> t <> TQuest -> t <> TIf -> next_step m (t :: r) = KStop.
Proof.
  intros H H1 H2. unfold GramSpec.next_step. destruct t; try congruence; rewrite H; reflexivity.
Qed.

Lemma next_step_mono m m' ts : m <= m' -> next_step m ts = KStop -> next_step m' ts = KStop.
Proof.
  intros Hle. unfold GramSpec.next_step. destruct ts as [|t r]; [reflexivity|].
  destruct t;
    try (destruct (binop_info L _) as [[o k]|]; [|reflexivity];
         destruct (m <=? k)%nat eqn:E1; [discriminate|]; intros _;
         destruct (m' <=? k)%nat eqn:E2; [apply Nat.leb_le in E2; apply Nat.leb_gt in E1; lia|reflexivity]).
  - destruct (is_C L); cbn; [|reflexivity].
    destruct (m <=? 1)%nat eqn:E1; [discriminate|]. intros _.
    destruct (m' <=? 1)%nat eqn:E2; [apply Nat.leb_le in E2; apply Nat.leb_gt in E1; lia|reflexivity].
  - destruct (negb (is_C L)); cbn; [|reflexivity].
    destruct (m <=? 1)%nat eqn:E1; [discriminate|]. intros _.
    destruct (m' <=? 1)%nat eqn:E2; [apply Nat.leb_le in E2; apply Nat.leb_gt in E1; lia|reflexivity].
Qed.

Lemma next_step_high m ts : 8 <= m -> next_step m ts = KStop.
Proof.
  intros Hm. unfold GramSpec.next_step. destruct ts as [|t r]; [reflexivity|].
  destruct t;
    try (destruct (binop_info L _) as [[o k]|] eqn:E; [|reflexivity];
         apply binop_info_le in E; destruct (m <=? k)%nat eqn:E1; [apply Nat.leb_le in E1; lia|reflexivity]).
  - destruct (m <=? 1)%nat eqn:E1; [apply Nat.leb_le in E1; lia|]. rewrite andb_false_r. reflexivity.
  - destruct (m <=? 1)%nat eqn:E1; [apply Nat.leb_le in E1; lia|]. rewrite andb_false_r. reflexivity.
Qed.

Lemma next_step_rp m r : next_step m (TRp :: r) = KStop.
Proof. reflexivity. Qed.
Lemma next_step_comma m r : next_step m (TComma :: r) = KStop.
Proof. reflexivity. Qed.
Lemma next_step_colon m r : next_step m (TColon :: r) = KStop.
Proof. reflexivity. Qed.
Lemma next_step_else m r : next_step m (TElse :: r) = KStop.
Proof. reflexivity. Qed.

(** ** reading contexts *)

(* what may follow an operand: the loop stops there at level [st], and it is not "(" (which after an
   identifier would make a call) *)
Definition okrest (st : nat) (rest : list token) : Prop := next_step st rest = KStop /\ not_lparen rest.

Lemma okrest_mono st st' rest : (st <= st' \/ 8 <= st') -> okrest st rest -> okrest st' rest.
Proof.
  intros H [H1 H2]. split; [|exact H2].
  destruct H as [H|H]; [eapply next_step_mono; eauto|apply next_step_high; exact H].
Qed.

Lemma okrest_closer st t rest :
  binop_info L t = None -> t <> TQuest -> t <> TIf -> t <> TLp -> okrest st (t :: rest).
Proof.
  intros H1 H2 H3 H4. split; [apply next_step_nonop; assumption|]. destruct t; try exact I. congruence.
Qed.

Lemma okrest_rp st rest : okrest st (TRp :: rest). Proof. split; [reflexivity|exact I]. Qed.
Lemma okrest_comma st rest : okrest st (TComma :: rest). Proof. split; [reflexivity|exact I]. Qed.
Lemma okrest_colon st rest : okrest st (TColon :: rest). Proof. split; [reflexivity|exact I]. Qed.
Lemma okrest_else st rest : okrest st (TElse :: rest). Proof. split; [reflexivity|exact I]. Qed.

Lemma okrest_tok st tok op q rest : binop_info L tok = Some (op, q) -> q < st -> okrest st (tok :: rest).
Proof.
  intros Hb Hq. split.
  - rewrite (next_step_tok _ _ _ _ _ Hb). destruct (st <=? q)%nat eqn:E; [apply Nat.leb_le in E; lia|reflexivity].
  - destruct tok; try exact I. discriminate.
Qed.

(* [toks] followed by any acceptable [rest], read at any level m <= lo, behaves as one tree T
   (equal to T0 up to norm) handed to the loop *)
Definition Reads (toks : list token) (T0 : tree) (lo st : nat) : Prop :=
  exists T, norm T = norm T0 /\
    forall m rest t' rest', m <= lo -> okrest st rest ->
      PLoop m T rest t' rest' -> PExpr m (toks ++ rest) t' rest'.

(* the loop, holding [lhs], consumes [toks] and continues as if it held T0 *)
Definition Cont (lhs : tree) (toks : list token) (T0 : tree) (lo st : nat) : Prop :=
  exists T, norm T = norm T0 /\
    forall m rest t' rest', m <= lo -> okrest st rest ->
      PLoop m T rest t' rest' -> PLoop m lhs (toks ++ rest) t' rest'.

(* a prefix unit: tokens that PPrefix reads on their own *)
Definition Unit (toks : list token) (T0 : tree) : Prop :=
  exists T, norm T = norm T0 /\ forall rest, not_lparen rest -> PPrefix (toks ++ rest) T rest.

Lemma reads_norm toks T0 T0' lo st : norm T0 = norm T0' -> Reads toks T0 lo st -> Reads toks T0' lo st.
Proof. intros E (T & Hn & H). exists T. split; [congruence|exact H]. Qed.
Lemma cont_norm lhs toks T0 T0' lo st : norm T0 = norm T0' -> Cont lhs toks T0 lo st -> Cont lhs toks T0' lo st.
Proof. intros E (T & Hn & H). exists T. split; [congruence|exact H]. Qed.
Lemma unit_norm toks T0 T0' : norm T0 = norm T0' -> Unit toks T0 -> Unit toks T0'.
Proof. intros E (T & Hn & H). exists T. split; [congruence|exact H]. Qed.

Lemma reads_weaken' toks T0 lo st lo' st' :
  lo' <= lo -> (st' <= st \/ 8 <= st) -> Reads toks T0 lo st -> Reads toks T0 lo' st'.
Proof.
  intros H1 H2 (T & Hn & H). exists T. split; [exact Hn|]. intros m rest t' rest' Hm Hs Hl.
  apply H; [lia| |exact Hl]. eapply okrest_mono; eauto.
Qed.

Lemma unit_negs k toks T0 : Unit toks T0 -> Unit (negs k toks) (tnegs k T0).
Proof.
  intros (T & Hn & H). induction k as [|k IH].
  - exists T. split; [exact Hn|]. exact H.
  - destruct IH as (T' & Hn' & H'). exists (TNeg T'). split.
    + cbn. rewrite Hn'. reflexivity.
    + intros rest Hnl. rewrite negs_S. cbn [app]. apply PP_neg. eapply PE_intro; [apply H'; exact Hnl|].
      apply PL_stop. apply next_step_high. lia.
Qed.

Lemma unit_reads toks T0 lo st : Unit toks T0 -> Reads toks T0 lo st.
Proof.
  intros (T & Hn & H). exists T. split; [exact Hn|]. intros m rest t' rest' _ [_ Hnl] Hl.
  eapply PE_intro; [apply H; exact Hnl|exact Hl].
Qed.

Lemma reads_paren toks T0 lo st : Reads toks T0 lo st -> 1 <= lo -> Unit (TLp :: toks ++ [TRp]) T0.
Proof.
  intros (T & Hn & H) Hlo. exists T. split; [exact Hn|]. intros rest _.
  cbn [app]. rewrite <- app_assoc. cbn [app]. apply PP_paren.
  apply H; [exact Hlo|apply okrest_rp|]. apply PL_stop. reflexivity.
Qed.

Lemma unit_call1 f toks T0 lo st : Reads toks T0 lo st -> 1 <= lo -> Unit (call1t f toks) (TCall1 f T0).
Proof.
  intros (T & Hn & H) Hlo. exists (TCall1 f T). split; [cbn; rewrite Hn; reflexivity|]. intros rest _.
  unfold call1t. cbn [app]. rewrite <- app_assoc. cbn [app]. apply PP_call1.
  apply H; [exact Hlo|apply okrest_rp|]. apply PL_stop. reflexivity.
Qed.

Lemma unit_call2 f toks1 T1 lo1 st1 toks2 T2 lo2 st2 :
  Reads toks1 T1 lo1 st1 -> 1 <= lo1 -> Reads toks2 T2 lo2 st2 -> 1 <= lo2 ->
  Unit (call2t f toks1 toks2) (TCall2 f T1 T2).
Proof.
  intros (A & Hna & Ha) Hl1 (B & Hnb & Hb) Hl2. exists (TCall2 f A B).
  split; [cbn; rewrite Hna, Hnb; reflexivity|]. intros rest _.
  unfold call2t. cbn [app]. rewrite <- app_assoc. cbn [app]. rewrite <- app_assoc. cbn [app].
  eapply PP_call2.
  - apply Ha; [exact Hl1|apply okrest_comma|]. apply PL_stop. reflexivity.
  - apply Hb; [exact Hl2|apply okrest_rp|]. apply PL_stop. reflexivity.
Qed.

(* an operand of level >= 8 is read whole by a level-8 reader, whatever follows *)
Lemma reads_high toks T0 lo st :
  Reads toks T0 lo st -> 8 <= lo -> 8 <= st ->
  exists T, norm T = norm T0 /\ forall rest, not_lparen rest -> PExpr 8 (toks ++ rest) T rest.
Proof.
  intros (T & Hn & H) Hlo Hst. exists T. split; [exact Hn|]. intros rest Hnl.
  apply H; [exact Hlo|split; [apply next_step_high; exact Hst|exact Hnl]|]. apply PL_stop. apply next_step_high. lia.
Qed.

Lemma unit_not toks T0 lo st :
  is_C L = true -> Reads toks T0 lo st -> 8 <= lo -> 8 <= st -> Unit (TBang :: toks) (TNot T0).
Proof.
  intros HC HR Hlo Hst. destruct (reads_high _ _ _ _ HR Hlo Hst) as (T & Hn & H).
  exists (TNot T). split; [cbn; rewrite Hn; reflexivity|]. intros rest Hnl.
  cbn [app]. apply PP_not; [exact HC|apply H; exact Hnl].
Qed.

(** ** binary operators *)

(* right operand that is a prefix unit (parenthesised, a call, a leaf) *)
Lemma right_unit tok op q rtoks Tr lhs :
  binop_info L tok = Some (op, q) -> Unit rtoks Tr ->
  Cont lhs (tok :: rtoks) (TBin op lhs Tr) q (S q).
Proof.
  intros Hb (T & Hn & H). exists (TBin op lhs T). split; [apply norm_bin_cong; [reflexivity|exact Hn]|].
  intros m rest t' rest' Hm [Hs Hnl] Hl. cbn [app].
  eapply PL_bin.
  - rewrite (next_step_tok _ _ _ _ _ Hb). apply Nat.leb_le in Hm. rewrite Hm. reflexivity.
  - eapply PE_intro; [apply H; exact Hnl|]. apply PL_stop. exact Hs.
  - exact Hl.
Qed.

(* right operand of a higher level *)
Lemma right_reads tok op q rtoks Tr lo st lhs :
  binop_info L tok = Some (op, q) -> Reads rtoks Tr lo st -> S q <= lo -> (S q <= st \/ 8 <= st) ->
  Cont lhs (tok :: rtoks) (TBin op lhs Tr) q (S q).
Proof.
  intros Hb (T & Hn & H) Hlo Hst. exists (TBin op lhs T). split; [apply norm_bin_cong; [reflexivity|exact Hn]|].
  intros m rest t' rest' Hm Hs Hl. cbn [app].
  eapply PL_bin.
  - rewrite (next_step_tok _ _ _ _ _ Hb). apply Nat.leb_le in Hm. rewrite Hm. reflexivity.
  - apply H; [exact Hlo|eapply okrest_mono; eauto|apply PL_stop; apply Hs].
  - exact Hl.
Qed.

(* left operand read first, then the loop continues with the operator *)
Lemma reads_bin tok op q ltoks Tl lo_l st_l rtoks Tr :
  binop_info L tok = Some (op, q) ->
  Reads ltoks Tl lo_l st_l -> q <= lo_l -> (q < st_l) ->
  (forall lhs, Cont lhs (tok :: rtoks) (TBin op lhs Tr) q (S q)) ->
  Reads (ltoks ++ tok :: rtoks) (TBin op Tl Tr) q (S q).
Proof.
  intros Hb (A & Hna & Ha) Hlo Hst HC. destruct (HC A) as (T & Hn & H).
  exists T. split.
  - rewrite Hn. apply norm_bin_cong; [exact Hna|reflexivity].
  - intros m rest t' rest' Hm Hs Hl. rewrite <- app_assoc.
    apply Ha; [lia| |].
    + cbn [app]. eapply okrest_tok; eauto.
    + apply H; assumption.
Qed.

(* the same when the loop already holds a left-hand side and [op0] is associative with [op] *)
Lemma cont_bin tok0 op0 tok op q ltoks Tl rtoks Tr lhs :
  binop_info L tok = Some (op, q) -> same_level op0 op = true ->
  Cont lhs (tok0 :: ltoks) (TBin op0 lhs Tl) q (S q) ->
  (forall lhs', Cont lhs' (tok :: rtoks) (TBin op lhs' Tr) q (S q)) ->
  Cont lhs (tok0 :: ltoks ++ tok :: rtoks) (TBin op0 lhs (TBin op Tl Tr)) q (S q).
Proof.
  intros Hb Hsl (A & Hna & Ha) HC. destruct (HC A) as (T & Hn & H).
  exists T. split.
  - rewrite Hn. rewrite <- (norm_assoc _ _ _ _ _ Hsl). apply norm_bin_cong; [exact Hna|reflexivity].
  - intros m rest t' rest' Hm Hs Hl.
    replace ((tok0 :: ltoks ++ tok :: rtoks) ++ rest) with ((tok0 :: ltoks) ++ (tok :: rtoks) ++ rest)
      by (cbn [app]; rewrite <- app_assoc; reflexivity).
    apply Ha; [exact Hm| |].
    + cbn [app]. eapply okrest_tok; eauto.
    + apply H; assumption.
Qed.

(** ** conditionals *)

Lemma reads_condC ctoks Tc loc stc vtoks Tv lov stv etoks Te loe ste :
  is_C L = true ->
  Reads ctoks Tc loc stc -> 1 <= loc ->
  Reads vtoks Tv lov stv -> 1 <= lov ->
  Reads etoks Te loe ste -> 1 <= loe -> (1 <= ste) ->
  Reads (TLp :: ctoks ++ TRp :: TQuest :: vtoks ++ TColon :: etoks) (TCond Tc Tv Te) 1 1.
Proof.
  intros HC (C & Hnc & Hc) Hlc (V & Hnv & Hv) Hlv (E & Hne & He) Hle Hste.
  exists (TCond C V E). split; [cbn; rewrite Hnc, Hnv, Hne; reflexivity|].
  intros m rest t' rest' Hm Hs Hl.
  cbn [app]. rewrite <- app_assoc. cbn [app]. rewrite <- app_assoc. cbn [app].
  eapply PE_intro.
  - apply PP_paren. apply Hc; [exact Hlc|apply okrest_rp|]. apply PL_stop. reflexivity.
  - eapply PL_condC.
    + unfold GramSpec.next_step. rewrite HC. apply Nat.leb_le in Hm. rewrite Hm. reflexivity.
    + apply Hv; [exact Hlv|apply okrest_colon|]. apply PL_stop. reflexivity.
    + apply He; [exact Hle| |apply PL_stop; apply Hs]. eapply okrest_mono; [|exact Hs]. left; exact Hste.
    + exact Hl.
Qed.

Lemma reads_condPy ctoks Tc loc stc vtoks Tv lov stv etoks Te loe ste :
  is_C L = false ->
  Reads ctoks Tc loc stc -> 2 <= loc ->
  Reads vtoks Tv lov stv -> 2 <= lov -> 2 <= stv ->
  Reads etoks Te loe ste -> 1 <= loe -> (1 <= ste) ->
  Reads (vtoks ++ TIf :: ctoks ++ TElse :: etoks) (TCond Tc Tv Te) 1 1.
Proof.
  intros HC (C & Hnc & Hc) Hlc (V & Hnv & Hv) Hlv Hsv (E & Hne & He) Hle Hste.
  exists (TCond C V E). split; [cbn; rewrite Hnc, Hnv, Hne; reflexivity|].
  intros m rest t' rest' Hm Hs Hl.
  rewrite <- app_assoc. cbn [app]. rewrite <- app_assoc. cbn [app].
  apply Hv; [lia| |].
  - split; [|exact I]. unfold GramSpec.next_step. rewrite HC. cbn.
    destruct (stv <=? 1)%nat eqn:E1; [apply Nat.leb_le in E1; lia|reflexivity].
  - eapply PL_condPy.
    + unfold GramSpec.next_step. rewrite HC. apply Nat.leb_le in Hm. rewrite Hm. reflexivity.
    + apply Hc; [exact Hlc|apply okrest_else|]. apply PL_stop. reflexivity.
    + apply He; [exact Hle| |apply PL_stop; apply Hs]. eapply okrest_mono; [|exact Hs]. left; exact Hste.
    + exact Hl.
Qed.

(** ** levels *)

(* the level at which the reader must stop after the text of [a] *)
Fixpoint flv (a : ast) : nat :=
  match a with
  | Node PIECEWISE _ _ _ => 1
  | Node PLUS _ l r => if is_nil r then flv l else S (lvl a)
  | _ => S (lvl a)
  end.

Definition lvlk (k : nat) (a : ast) : nat := if (k =? 0)%nat then lvl a else Nat.min 8 (lvl a).
Definition stk (k : nat) (a : ast) : nat := if (k =? 0)%nat then flv a else 8.

Definition ML (a : ast) : Prop :=
  safe a = true -> forall k, (k = 0 \/ 7 <= lvl a) ->
  Reads (negs k (gent a)) (tnegs k (tr a)) (lvlk k a) (stk k a).

Definition SP (a : ast) : Prop :=
  safe a = true -> forall k q op tok lhs,
  binop_info L tok = Some (op, q) -> assoc_ok op = true -> lvlk k a = q -> (k = 0 \/ 7 <= lvl a) ->
  Cont lhs (tok :: negs k (gent a)) (TBin op lhs (tnegs k (tr a))) q (S q).

Lemma flv_cases a : flv a = S (lvl a) \/ (flv a = 1 /\ lvl a = 1).
Proof.
  induction a as [|t v l IHl r IHr]; [left; reflexivity|].
  destruct t; try (left; reflexivity).
  - cbn [flv lvl]. destruct (is_nil r); [exact IHl|left; reflexivity].
  - right. split; reflexivity.
Qed.

Lemma flv_ge a : 1 <= flv a.
Proof. destruct (flv_cases a) as [H|[H _]]; lia. Qed.

Lemma flv_gt q a : 2 <= q -> q <= lvl a -> q < flv a.
Proof. intros H1 H2. destruct (flv_cases a) as [H|[_ H]]; lia. Qed.

(** ** what each node type prints, means and requires *)

Ltac flags := idtac.
Ltac fl := rewrite ?F1, ?F2, ?F3, ?F4, ?F5, ?F6, ?F7, ?F8, ?F9, ?F10, ?F11, ?F12, ?F13.
Ltac fl_in H := rewrite ?F1, ?F2, ?F3, ?F4, ?F5, ?F6, ?F7, ?F8, ?F9, ?F10, ?F11, ?F12, ?F13 in H.

Lemma kind_fun1 t v l r f :
  fun1_name p t = Some f ->
  gent (Node t v l r) = call1t f (gent l) /\ tr (Node t v l r) = TCall1 f (tr l)
  /\ lvl (Node t v l r) = 9 /\ flv (Node t v l r) = 10 /\ (safe (Node t v l r) = true -> safe l = true).
Proof.
  flags. intros Hx.
  destruct t; cbn in Hx; try discriminate; fl_in Hx;
    try (inv Hx; cbn; fl; (split; [|split; [|split; [|split]]]); [reflexivity..|]; intros H0; exact H0).
  (* NOT *)
  destruct (is_C L) eqn:EC; [discriminate|]. inv Hx. cbn. fl. rewrite ?EC. cbn.
  split; [|split; [|split; [|split]]]; [reflexivity..|]. intros H0. rewrite andb_true_r in H0. exact H0.
Qed.

Lemma kind_fun2 t v l r f :
  fun2_name p t = Some f ->
  gent (Node t v l r) = call2t f (gent l) (gent r) /\ tr (Node t v l r) = TCall2 f (tr l) (tr r)
  /\ lvl (Node t v l r) = 9 /\ flv (Node t v l r) = 10
  /\ (safe (Node t v l r) = true -> safe l = true /\ safe r = true).
Proof.
  intros Hx.
  destruct t; cbn in Hx; try discriminate; fl_in Hx; cbn in Hx;
    destruct (is_C L) eqn:EC; try discriminate; inv Hx; cbn; fl; rewrite ?EC; cbn;
    (split; [|split; [|split; [|split]]]); try reflexivity;
    intros H0; rewrite ?andb_true_r in H0; apply andb_prop in H0; exact H0.
Qed.

Lemma kind_infix t v l r tok op q :
  infix_info p t = Some (tok, op, q) -> is_nil r = false ->
  gent (Node t v l r) =
    wrapt (paren_left p t l r) (gent l) ++ tok :: wrapt (paren_right p t l r (gen p r)) (gent r)
  /\ tr (Node t v l r) = TBin op (tr l) (tr r)
  /\ lvl (Node t v l r) = q /\ flv (Node t v l r) = S q
  /\ binop_info L tok = Some (op, q)
  /\ (safe (Node t v l r) = true -> safe l = true /\ safe r = true /\ bin_ok p t op q l r = true).
Proof.
  intros Hx Hr.
  destruct t; cbn in Hx; try discriminate; fl_in Hx; cbn in Hx;
    destruct (is_C L) eqn:EC; try discriminate; inv Hx;
    cbn [GenTok.gent ReadDefs.tr ReadDefs.lvl flv safe_b is_relational]; rewrite ?Hr; fl; rewrite ?EC;
    cbn [GenTok.infix_info infix_or_call binop_info]; fl; rewrite ?EC;
    (split; [|split; [|split; [|split; [|split]]]]); try reflexivity;
    intros H0; rewrite ?andb_true_r in H0;
    repeat (apply andb_prop in H0; destruct H0 as [H0 ?]); auto.
Qed.

Lemma lvl_ge1 a : safe a = true -> 1 <= lvl a.
Proof.
  induction a as [|t v l IHl r IHr]; [discriminate|].
  destruct t; cbn [ReadDefs.lvl safe_b]; intros H; try discriminate; try lia;
    repeat match goal with
           | |- context [if ?b then _ else _] => destruct b eqn:?
           end; try lia.
  - (* unary plus *) apply IHl. exact H.
  - (* unary minus, not parenthesised *)
    apply andb_prop in H. destruct H as [H _]. apply andb_prop in H. destruct H as [_ H].
    unfold operand_ok in H. rewrite orb_false_l in H. apply Nat.leb_le in H. lia.
Qed.

Lemma negs_0 ts : negs 0 ts = ts.
Proof. reflexivity. Qed.

Lemma lvlk_0 a : lvlk 0 a = lvl a. Proof. reflexivity. Qed.
Lemma stk_0 a : stk 0 a = flv a. Proof. reflexivity. Qed.
Lemma lvlk_S k a : lvlk (S k) a = Nat.min 8 (lvl a). Proof. reflexivity. Qed.
Lemma stk_S k a : stk (S k) a = 8. Proof. reflexivity. Qed.

Lemma same_level_of_info tok0 op0 tok op q :
  binop_info L tok0 = Some (op0, q) -> binop_info L tok = Some (op, q) -> assoc_ok op0 = true ->
  same_level op0 op = true.
Proof.
  unfold binop_info. destruct (is_C L); destruct tok0; try discriminate; intros H; inv H;
    destruct tok; try discriminate; intros H; inv H; cbn; try discriminate; reflexivity.
Qed.

Lemma level7_ops tok op : binop_info L tok = Some (op, 7) -> op = Mul \/ op = Div.
Proof.
  destruct tok; cbn; try discriminate; try (destruct (is_C L); try discriminate); intros H; inv H; auto.
Qed.

Lemma norm_tnegs_bin7 k op A B : (op = Mul \/ op = Div) -> norm (tnegs k (TBin op A B)) = norm (TBin op (tnegs k A) B).
Proof. intros [-> | ->]; [apply norm_tnegs_mul|apply norm_tnegs_div]. Qed.

(* the whole operand when it is parenthesised *)
Lemma ml_paren a : ML a -> safe a = true -> Unit (TLp :: gent a ++ [TRp]) (tr a).
Proof.
  intros H Hs. eapply reads_paren.
  - apply (H Hs 0). left; reflexivity.
  - rewrite lvlk_0. apply lvl_ge1. exact Hs.
Qed.

Lemma ml_arg a : ML a -> safe a = true -> Reads (gent a) (tr a) (lvl a) (flv a).
Proof. intros H Hs. apply (H Hs 0). left; reflexivity. Qed.

Lemma sp_high a : 8 <= lvl a -> SP a.
Proof.
  intros H Hs k q op tok lhs Hb _ Hq _. exfalso.
  apply binop_info_le in Hb. unfold lvlk in Hq. destruct (k =? 0)%nat; lia.
Qed.

Lemma ml_of_unit a toks T0 :
  gent a = toks -> tr a = T0 -> Unit toks T0 -> ML a.
Proof.
  intros Eg Et HU _ k _. rewrite Eg, Et. apply unit_reads. apply unit_negs. exact HU.
Qed.

Lemma infix_case t v l r tok op q :
  infix_info p t = Some (tok, op, q) -> is_nil r = false ->
  ML l /\ SP l -> ML r /\ SP r -> ML (Node t v l r) /\ SP (Node t v l r).
Proof.
  intros Hi Hr [MLl SPl] [MLr SPr].
  destruct (kind_infix t v l r tok op q Hi Hr) as (Eg & Et & El & Ef & Hb & Hsafe).
  pose proof (binop_info_le _ _ _ Hb) as Hq27.
  remember (paren_left p t l r) as PL eqn:EPL0. remember (paren_right p t l r (gen p r)) as PR eqn:EPR0.
  (* the right operand, whatever the loop holds *)
  assert (RC : safe (Node t v l r) = true ->
               forall lhs, Cont lhs (tok :: wrapt PR (gent r)) (TBin op lhs (tr r)) q (S q)).
  { intros Hs lhs. destruct (Hsafe Hs) as (Hsl & Hsr & Hbo).
    unfold bin_ok in Hbo. rewrite <- EPL0, <- EPR0 in Hbo. apply andb_prop in Hbo. destruct Hbo as [_ Hro].
    destruct PR eqn:EPR; cbn [wrapt].
    - apply right_unit; [exact Hb|]. apply ml_paren; assumption.
    - apply orb_prop in Hro. destruct Hro as [Hro|Hro].
      + unfold operand_ok in Hro. rewrite orb_false_l in Hro. apply Nat.leb_le in Hro.
        eapply right_reads; [exact Hb|apply ml_arg; assumption|exact Hro|].
        left. pose proof (flv_gt (S q) r ltac:(lia) Hro). lia.
      + apply andb_prop in Hro. destruct Hro as [Hao Hlq]. apply Nat.eqb_eq in Hlq.
        pose proof (SPr Hsr 0 q op tok lhs Hb Hao Hlq (or_introl eq_refl)) as HC.
        rewrite negs_0 in HC. exact HC. }
  split.
  - (* ML *)
    intros Hs k Hk. destruct (Hsafe Hs) as (Hsl & Hsr & Hbo).
    unfold bin_ok in Hbo. rewrite <- EPL0, <- EPR0 in Hbo. apply andb_prop in Hbo. destruct Hbo as [Hlo _].
    assert (Hkq : k = 0 \/ q = 7) by (destruct Hk as [Hk|Hk]; [left; exact Hk|right; rewrite El in Hk; lia]).
    assert (LR : Reads (negs k (wrapt PL (gent l))) (tnegs k (tr l)) q (S q)).
    { destruct PL eqn:EPL; cbn [wrapt].
      - apply unit_reads. apply unit_negs. apply ml_paren; assumption.
      - unfold operand_ok in Hlo. rewrite orb_false_l in Hlo. apply Nat.leb_le in Hlo.
        eapply reads_weaken'; [| |apply (MLl Hsl k); destruct Hkq as [Hk0|Hk7]; [left; exact Hk0|right; lia]].
        + unfold lvlk. destruct (k =? 0)%nat eqn:Ek; [exact Hlo|].
          destruct Hkq as [Hk0|Hk7]; [subst k; discriminate|]. lia.
        + unfold stk. destruct (k =? 0)%nat eqn:Ek; [|right; lia].
          left. pose proof (flv_gt q l ltac:(lia) Hlo). lia. }
    rewrite Eg, Et.
    assert (Elk : lvlk k (Node t v l r) = q).
    { unfold lvlk. rewrite El. destruct (k =? 0)%nat eqn:Ek; [reflexivity|].
      destruct Hkq as [Hk0|Hk7]; [subst k; discriminate|]. lia. }
    assert (Esk : stk k (Node t v l r) <= S q \/ 8 <= S q).
    { unfold stk. destruct (k =? 0)%nat eqn:Ek; [left; rewrite Ef; lia|].
      destruct Hkq as [Hk0|Hk7]; [subst k; discriminate|]. right. lia. }
    rewrite Elk.
    eapply reads_weaken' with (lo := q) (st := S q); [lia| |].
    { destruct Esk as [E|E]; [left; exact E|right; exact E]. }
    unfold negs. rewrite app_assoc. fold (negs k (wrapt PL (gent l))).
    eapply reads_norm; [|eapply reads_bin; [exact Hb|exact LR|lia|lia|apply RC; exact Hs]].
    destruct Hkq as [Hk0|Hk7].
    + subst k. reflexivity.
    + symmetry. apply norm_tnegs_bin7. rewrite Hk7 in Hb. exact (level7_ops _ _ Hb).
  - (* SP *)
    intros Hs k q0 op0 tok0 lhs Hb0 Hao Hlk Hk. destruct (Hsafe Hs) as (Hsl & Hsr & Hbo).
    unfold bin_ok in Hbo. rewrite <- EPL0, <- EPR0 in Hbo. apply andb_prop in Hbo. destruct Hbo as [Hlo _].
    assert (Hkq : k = 0 \/ q = 7) by (destruct Hk as [Hk|Hk]; [left; exact Hk|right; rewrite El in Hk; lia]).
    assert (Elk : lvlk k (Node t v l r) = q).
    { unfold lvlk. rewrite El. destruct (k =? 0)%nat eqn:Ek; [reflexivity|].
      destruct Hkq as [Hk0|Hk7]; [subst k; discriminate|]. lia. }
    rewrite Elk in Hlk. subst q0.
    pose proof (same_level_of_info _ _ _ _ _ Hb0 Hb Hao) as Hsl0.
    assert (LC' : Cont lhs (tok0 :: negs k (wrapt PL (gent l))) (TBin op0 lhs (tnegs k (tr l))) q (S q)).
    { destruct PL eqn:EPL; cbn [wrapt].
      - apply right_unit; [exact Hb0|]. apply unit_negs. apply ml_paren; assumption.
      - unfold operand_ok in Hlo. rewrite orb_false_l in Hlo. apply Nat.leb_le in Hlo.
        assert (Hkl : k = 0 \/ 7 <= lvl l) by (destruct Hkq as [Hk0|Hk7]; [left; exact Hk0|right; lia]).
        destruct (Nat.eq_dec (lvlk k l) q) as [Heq|Hne].
        + apply (SPl Hsl k q op0 tok0 lhs Hb0 Hao Heq Hkl).
        + assert (Hge : S q <= lvlk k l).
          { unfold lvlk in *. destruct (k =? 0)%nat eqn:Ek; [lia|].
            destruct Hkq as [Hk0|Hk7]; [subst k; discriminate|]. lia. }
          eapply right_reads; [exact Hb0|apply (MLl Hsl k Hkl)|exact Hge|].
          unfold stk, lvlk in *. destruct (k =? 0)%nat eqn:Ek; [|right; lia].
          left. pose proof (flv_gt (S q) l ltac:(lia) Hge). lia. }
    rewrite Eg, Et.
    unfold negs. rewrite app_assoc. fold (negs k (wrapt PL (gent l))).
    eapply cont_norm; [|eapply cont_bin; [exact Hb|exact Hsl0|exact LC'|apply RC; exact Hs]].
    apply norm_bin_cong; [reflexivity|].
    destruct Hkq as [Hk0|Hk7].
    + subst k. reflexivity.
    + symmetry. apply norm_tnegs_bin7. rewrite Hk7 in Hb. exact (level7_ops _ _ Hb).
Qed.

(** ** the other node types *)

Definition Q (a : ast) : Prop := ML a /\ SP a.

Lemma unsafe_node a : safe a = false -> Q a.
Proof. intros H. split; intros Hs; rewrite H in Hs; discriminate. Qed.

Lemma q_of_unit a toks T0 :
  8 <= lvl a -> gent a = toks -> tr a = T0 -> (safe a = true -> Unit toks T0) -> Q a.
Proof.
  intros Hl Eg Et HU. split; [|apply sp_high; exact Hl].
  intros Hs k _. rewrite Eg, Et. apply unit_reads. apply unit_negs. apply HU. exact Hs.
Qed.

Lemma fun1_case t v l r f : fun1_name p t = Some f -> Q l -> Q (Node t v l r).
Proof.
  intros Hk [MLl _]. destruct (kind_fun1 t v l r f Hk) as (Eg & Et & El & Ef & Hs).
  eapply q_of_unit; [rewrite El; lia|exact Eg|exact Et|].
  intros Hsa. specialize (Hs Hsa). eapply unit_call1; [apply ml_arg; assumption|apply lvl_ge1; exact Hs].
Qed.

Lemma fun2_case t v l r f : fun2_name p t = Some f -> Q l -> Q r -> Q (Node t v l r).
Proof.
  intros Hk [MLl _] [MLr _]. destruct (kind_fun2 t v l r f Hk) as (Eg & Et & El & Ef & Hs).
  eapply q_of_unit; [rewrite El; lia|exact Eg|exact Et|].
  intros Hsa. destruct (Hs Hsa) as [Hsl Hsr].
  eapply unit_call2; [apply ml_arg; assumption|apply lvl_ge1; exact Hsl|apply ml_arg; assumption|apply lvl_ge1; exact Hsr].
Qed.

Lemma leaf_var s : Unit [TId s] (TVar s).
Proof. exists (TVar s). split; [reflexivity|]. intros rest Hnl. apply PP_var. exact Hnl. Qed.
Lemma leaf_num s : Unit [TNum s] (TLit s).
Proof. exists (TLit s). split; [reflexivity|]. intros rest _. apply PP_num. Qed.

Lemma ci_case v l r : Q (Node CI v l r).
Proof. eapply q_of_unit; [cbn; lia|reflexivity|reflexivity|]. intros _. apply leaf_var. Qed.

Lemma cn_case v l r : Q (Node CN v l r).
Proof.
  split; [|apply sp_high; cbn; destruct (cn_neg v); lia].
  intros _ k _. cbn [GenTok.gent ReadDefs.tr]. unfold lit_tree. destruct (cn_neg v).
  - change [TMinus; TNum (cn_body v)] with (TMinus :: [TNum (cn_body v)]).
    rewrite <- negs_S', <- tnegs_S'. apply unit_reads. apply unit_negs. apply leaf_num.
  - apply unit_reads. apply unit_negs. apply leaf_num.
Qed.

Lemma const_num_case t v l r s :
  gent (Node t v l r) = [TNum s] -> tr (Node t v l r) = TLit s -> lvl (Node t v l r) = 9 -> Q (Node t v l r).
Proof. intros Eg Et El. eapply q_of_unit; [rewrite El; lia|exact Eg|exact Et|]. intros _. apply leaf_num. Qed.
Lemma const_id_case t v l r s :
  gent (Node t v l r) = [TId s] -> tr (Node t v l r) = TVar s -> lvl (Node t v l r) = 9 -> Q (Node t v l r).
Proof. intros Eg Et El. eapply q_of_unit; [rewrite El; lia|exact Eg|exact Et|]. intros _. apply leaf_var. Qed.

(* unary plus: transparent *)
Lemma uplus_case v l r : is_nil r = true -> Q l -> Q (Node PLUS v l r).
Proof.
  intros Hr [MLl SPl].
  assert (Eg : gent (Node PLUS v l r) = gent l) by (cbn [GenTok.gent]; rewrite Hr; reflexivity).
  assert (Et : tr (Node PLUS v l r) = tr l) by (cbn [ReadDefs.tr]; rewrite Hr; reflexivity).
  assert (El : lvl (Node PLUS v l r) = lvl l) by (cbn [ReadDefs.lvl]; rewrite Hr; reflexivity).
  assert (Ef : flv (Node PLUS v l r) = flv l) by (cbn [flv]; rewrite Hr; reflexivity).
  assert (Es : safe (Node PLUS v l r) = safe l) by (cbn [safe_b]; rewrite Hr; reflexivity).
  split.
  - intros Hs k Hk. rewrite Eg, Et. unfold lvlk, stk. rewrite El, Ef. rewrite Es in Hs. rewrite El in Hk.
    apply (MLl Hs k Hk).
  - intros Hs k q op tok lhs Hb Hao Hlk Hk. rewrite Eg, Et. rewrite Es in Hs. rewrite El in Hk.
    unfold lvlk in Hlk. rewrite El in Hlk. apply (SPl Hs k q op tok lhs Hb Hao Hlk Hk).
Qed.

(* unary minus *)
Lemma uminus_case v l r : is_nil r = true -> Q l -> Q (Node MINUS v l r).
Proof.
  intros Hr [MLl SPl].
  remember (paren_unary_minus p l) as PU eqn:EPU.
  assert (Eg : gent (Node MINUS v l r) = TMinus :: wrapt PU (gent l)) by (cbn [GenTok.gent]; rewrite Hr, EPU; reflexivity).
  assert (Et : tr (Node MINUS v l r) = TNeg (tr l)) by (cbn [ReadDefs.tr]; rewrite Hr; reflexivity).
  assert (El : lvl (Node MINUS v l r) = if PU then 8 else Nat.min 8 (lvl l))
    by (cbn [ReadDefs.lvl]; rewrite Hr, EPU; reflexivity).
  assert (Ef : flv (Node MINUS v l r) = S (lvl (Node MINUS v l r))) by reflexivity.
  assert (Es : safe (Node MINUS v l r) = true -> safe l = true /\ (PU = true \/ 7 <= lvl l)).
  { cbn [safe_b]. rewrite Hr, <- EPU. intros H. apply andb_prop in H. destruct H as [H _].
    apply andb_prop in H. destruct H as [H1 H2]. split; [exact H1|].
    unfold operand_ok in H2. apply orb_prop in H2. destruct H2 as [H2|H2]; [left; exact H2|right; apply Nat.leb_le; exact H2]. }
  split.
  - intros Hs k Hk. destruct (Es Hs) as [Hsl Hc]. rewrite Eg, Et. rewrite <- negs_S', <- tnegs_S'.
    destruct PU; cbn [wrapt].
    + apply unit_reads. apply unit_negs. apply ml_paren; assumption.
    + destruct Hc as [Hc|Hc]; [discriminate|].
      eapply reads_weaken'; [| |apply (MLl Hsl (S k)); right; exact Hc].
      * rewrite lvlk_S. unfold lvlk. rewrite El. destruct (k =? 0)%nat; lia.
      * right. rewrite stk_S. lia.
  - intros Hs k q op tok lhs Hb Hao Hlk Hk. destruct (Es Hs) as [Hsl Hc]. rewrite Eg, Et.
    rewrite <- negs_S', <- tnegs_S'. pose proof (binop_info_le _ _ _ Hb) as Hq.
    destruct PU; cbn [wrapt].
    + exfalso. unfold lvlk in Hlk. rewrite El in Hlk. destruct (k =? 0)%nat; lia.
    + destruct Hc as [Hc|Hc]; [discriminate|].
      apply (SPl Hsl (S k) q op tok lhs Hb Hao); [|right; exact Hc].
      rewrite lvlk_S. unfold lvlk in Hlk. rewrite El in Hlk. destruct (k =? 0)%nat; lia.
Qed.

(* not, when the profile prints it as "!" *)
Lemma not_case v l r : is_C L = true -> Q l -> Q (Node NOT v l r).
Proof.
  intros HC [MLl _].
  assert (Hn : has_not_operator p = true) by (rewrite F9; exact HC).
  eapply q_of_unit with (toks := TBang :: gent l) (T0 := TNot (tr l)).
  - cbn [ReadDefs.lvl]. rewrite Hn. lia.
  - cbn [GenTok.gent]. rewrite Hn. reflexivity.
  - cbn [ReadDefs.tr]. rewrite Hn. reflexivity.
  - cbn [safe_b]. rewrite Hn. intros H. apply andb_prop in H. destruct H as [Hsl Hl]. apply Nat.leb_le in Hl.
    eapply unit_not; [exact HC|apply ml_arg; assumption|exact Hl|].
    pose proof (flv_gt 8 l ltac:(lia) Hl). lia.
Qed.

Ltac split_andb :=
  repeat match goal with H : (_ && _)%bool = true |- _ => apply andb_prop in H; destruct H end.

Lemma power_case v l r : Q l -> Q r -> Q (Node POWER v l r).
Proof.
  intros [MLl _] [MLr _].
  eapply q_of_unit; [cbn; lia|reflexivity|reflexivity|].
  cbn [safe_b GenTok.gent ReadDefs.tr]. intros H. split_andb.
  match goal with Hx : Bool.eqb _ _ = true |- _ => apply Bool.eqb_prop in Hx; rewrite Hx end.
  destruct (lit_is (tr r) 1 2).
  - eapply unit_call1; [apply ml_arg; assumption|apply lvl_ge1; assumption].
  - eapply unit_call2; [apply ml_arg; assumption|apply lvl_ge1; assumption|apply ml_arg; assumption|apply lvl_ge1; assumption].
Qed.

Lemma slash_info : binop_info L TSlash = Some (Div, 7).
Proof. reflexivity. Qed.

Lemma root_case v l r : Q l -> Q r -> Q (left_of l) -> Q (Node ROOT v l r).
Proof.
  intros [MLl _] [MLr _] [MLd _].
  eapply q_of_unit; [cbn; lia|reflexivity|reflexivity|].
  cbn [safe_b GenTok.gent ReadDefs.tr]. destruct (is_nil r) eqn:Er.
  - intros H. eapply unit_call1; [apply ml_arg; assumption|apply lvl_ge1; assumption].
  - destruct l as [|tl vl d rl]; [discriminate|]. destruct tl; try discriminate.
    cbn [left_of] in *. intros H. split_andb.
    match goal with Hx : Bool.eqb _ _ = true |- _ => apply Bool.eqb_prop in Hx; rewrite Hx end.
    change (ReadDefs.tr p (Node DEGREE vl d rl)) with (tr d) in *.
    change (GenTok.gent L p (Node DEGREE vl d rl)) with (gent d).
    change (gen p (Node DEGREE vl d rl)) with (gen p d).
    destruct (lit_is (tr d) 2 1) eqn:Elit.
    + eapply unit_call1; [apply ml_arg; assumption|apply lvl_ge1; assumption].
    + match goal with Hx : (false || _)%bool = true |- _ => rewrite orb_false_l in Hx; rename Hx into Hop end.
      unfold operand_ok in Hop. fold one_ast in Hop.
      remember (paren_right p DIVIDE one_ast d (gen p d)) as PD eqn:EPD in *.
      change (TId (power_string p) :: TLp :: gent r ++ TComma :: TNum "1.0" :: TSlash :: wrapt PD (gent d) ++ [TRp])
        with (call2t (power_string p) (gent r) ([TNum "1.0"] ++ TSlash :: wrapt PD (gent d))).
      eapply unit_call2 with (lo2 := 7) (st2 := 8); [apply ml_arg; assumption|apply lvl_ge1; assumption| |lia].
      eapply reads_bin; [apply slash_info|apply unit_reads with (lo := 7) (st := 8); apply leaf_num|lia|lia|].
      intros lhs. destruct PD; cbn [wrapt].
      * apply right_unit; [apply slash_info|]. apply ml_paren; assumption.
      * rewrite orb_false_l in Hop. apply Nat.leb_le in Hop.
        eapply right_reads; [apply slash_info|apply ml_arg; assumption|exact Hop|].
        left. pose proof (flv_gt 8 d ltac:(lia) Hop). lia.
Qed.

(* a quotient of two prefix units, as printed for a logarithm with a base *)
Lemma quotient_q a U1 T1 U2 T2 :
  gent a = U1 ++ TSlash :: U2 -> tr a = TBin Div T1 T2 -> lvl a = 7 -> flv a = 8 ->
  (safe a = true -> Unit U1 T1 /\ Unit U2 T2) -> Q a.
Proof.
  intros Eg Et El Ef HU. split.
  - intros Hs k Hk. destruct (HU Hs) as [H1 H2]. rewrite Eg, Et.
    eapply reads_weaken' with (lo := 7) (st := 8).
    + unfold lvlk. rewrite El. destruct (k =? 0)%nat; lia.
    + right. lia.
    + unfold negs. rewrite app_assoc. fold (negs k U1).
      eapply reads_norm; [symmetry; apply norm_tnegs_div|].
      eapply reads_bin; [apply slash_info|apply unit_reads with (lo := 7) (st := 8); apply unit_negs; exact H1|lia|lia|].
      intros lhs. apply right_unit; [apply slash_info|exact H2].
  - intros Hs k q op tok lhs Hb Hao Hlk Hk. destruct (HU Hs) as [H1 H2]. rewrite Eg, Et.
    assert (q = 7) as -> by (unfold lvlk in Hlk; rewrite El in Hlk; destruct (k =? 0)%nat; lia).
    unfold negs. rewrite app_assoc. fold (negs k U1).
    eapply cont_norm; [apply norm_bin_cong; [reflexivity|symmetry; apply norm_tnegs_div]|].
    eapply cont_bin; [apply slash_info|eapply same_level_of_info; [exact Hb|apply slash_info|exact Hao]| |].
    + apply right_unit; [exact Hb|]. apply unit_negs. exact H1.
    + intros lhs'. apply right_unit; [apply slash_info|exact H2].
Qed.

Lemma log_case v l r : Q l -> Q r -> Q (left_of l) -> Q (Node LOG v l r).
Proof.
  intros [MLl _] [MLr _] [MLb _].
  destruct (is_nil r) eqn:Er.
  - eapply q_of_unit; [cbn [ReadDefs.lvl]; rewrite Er; lia|cbn [GenTok.gent]; rewrite Er; reflexivity
                      |cbn [ReadDefs.tr]; rewrite Er; reflexivity|].
    cbn [safe_b]. rewrite Er. intros H. eapply unit_call1; [apply ml_arg; assumption|apply lvl_ge1; assumption].
  - destruct l as [|tl vl b rl]; [apply unsafe_node; cbn [safe_b]; rewrite Er; reflexivity|].
    destruct tl; try (apply unsafe_node; cbn [safe_b]; rewrite Er; reflexivity).
    cbn [left_of] in *.
    destruct (safe (Node LOG v (Node LOGBASE vl b rl) r)) eqn:Hs; [|apply unsafe_node; exact Hs].
    assert (Es : safe b = true /\ safe r = true /\ text_is_number (gen p b) 10 1 = lit_is (tr b) 10 1).
    { revert Hs. cbn [safe_b]. rewrite Er. intros H. split_andb.
      match goal with Hx : Bool.eqb _ _ = true |- _ => apply Bool.eqb_prop in Hx end. auto. }
    destruct Es as (Hsb & Hsr & Heq).
    assert (Eg : gent (Node LOG v (Node LOGBASE vl b rl) r) =
                 if lit_is (tr b) 10 1 then call1t (common_logarithm_string p) (gent r)
                 else call1t (natural_logarithm_string p) (gent r) ++ TSlash :: call1t (natural_logarithm_string p) (gent b)).
    { cbn [GenTok.gent]. rewrite Er. change (gen p (Node LOGBASE vl b rl)) with (gen p b). rewrite Heq. reflexivity. }
    assert (Et : tr (Node LOG v (Node LOGBASE vl b rl) r) =
                 if lit_is (tr b) 10 1 then TCall1 (common_logarithm_string p) (tr r)
                 else TBin Div (TCall1 (natural_logarithm_string p) (tr r)) (TCall1 (natural_logarithm_string p) (tr b))).
    { cbn [ReadDefs.tr]. rewrite Er. reflexivity. }
    assert (El : lvl (Node LOG v (Node LOGBASE vl b rl) r) = if lit_is (tr b) 10 1 then 9 else 7).
    { cbn [ReadDefs.lvl ReadDefs.tr]. rewrite Er. reflexivity. }
    destruct (lit_is (tr b) 10 1) eqn:Elit.
    + eapply q_of_unit; [rewrite El; lia|exact Eg|exact Et|]. intros _.
      eapply unit_call1; [apply ml_arg; assumption|apply lvl_ge1; assumption].
    + eapply quotient_q; [exact Eg|exact Et|exact El|change (S (lvl (Node LOG v (Node LOGBASE vl b rl) r)) = 8); rewrite El; reflexivity|].
      intros _. split; (eapply unit_call1; [apply ml_arg; assumption|apply lvl_ge1; assumption]).
Qed.

(** conditional expressions *)
Definition piece_toks (vv cc : list token) : list token :=
  if is_C L then TLp :: cc ++ TRp :: TQuest :: vv else vv ++ TIf :: cc.

Lemma cond_reads vx c etoks Te loe ste :
  Q vx -> Q c -> safe vx = true -> safe c = true -> piece_ok L p vx c = true ->
  Reads etoks Te loe ste -> 1 <= loe -> 1 <= ste ->
  Reads (piece_toks (gent vx) (gent c) ++ else_tok L :: etoks) (TCond (tr c) (tr vx) Te) 1 1.
Proof.
  intros [MLv _] [MLc _] Hsv Hsc Hpo HE Hle Hse. unfold piece_toks, else_tok, piece_ok in *.
  destruct (is_C L) eqn:HC.
  - replace ((TLp :: gent c ++ TRp :: TQuest :: gent vx) ++ TColon :: etoks)
      with (TLp :: gent c ++ TRp :: TQuest :: gent vx ++ TColon :: etoks)
      by (cbn [app]; rewrite <- app_assoc; reflexivity).
    eapply reads_condC; [exact HC|apply ml_arg; assumption|apply lvl_ge1; assumption|apply ml_arg; assumption
                        |apply lvl_ge1; assumption|exact HE|exact Hle|exact Hse].
  - apply andb_prop in Hpo. destruct Hpo as [Hv2 Hc2]. apply Nat.leb_le in Hv2. apply Nat.leb_le in Hc2.
    replace ((gent vx ++ TIf :: gent c) ++ TElse :: etoks) with (gent vx ++ TIf :: gent c ++ TElse :: etoks)
      by (rewrite <- app_assoc; reflexivity).
    eapply reads_condPy; [exact HC|apply ml_arg; assumption|exact Hc2|apply ml_arg; assumption|exact Hv2|
                          |exact HE|exact Hle|exact Hse].
    pose proof (flv_gt 2 vx ltac:(lia) Hv2). lia.
Qed.

Lemma piecewise_case v l r :
  Q (left_of l) -> Q (right_of l) -> Q r -> Q (left_of r) -> Q (right_of r) -> Q (Node PIECEWISE v l r).
Proof.
  intros Qv1 Qc1 Qr Qlr Qrr.
  destruct (safe (Node PIECEWISE v l r)) eqn:Hs; [|apply unsafe_node; exact Hs].
  destruct l as [|tl vl v1 c1]; [discriminate|]. destruct tl; try discriminate.
  cbn [left_of right_of] in *.
  split.
  2:{ intros _ k q op tok lhs Hb _ Hlk Hk. exfalso. apply binop_info_le in Hb.
      change (lvl (Node PIECEWISE v (Node PIECE vl v1 c1) r)) with 1 in Hk.
      destruct Hk as [-> | Hk]; [|lia]. cbn in Hlk. lia. }
  intros _ k Hk.
  change (lvl (Node PIECEWISE v (Node PIECE vl v1 c1) r)) with 1 in Hk.
  destruct Hk as [-> | Hk]; [|lia]. rewrite negs_0. cbn [tnegs].
  change (lvlk 0 (Node PIECEWISE v (Node PIECE vl v1 c1) r)) with 1.
  change (stk 0 (Node PIECEWISE v (Node PIECE vl v1 c1) r)) with 1.
  revert Hs. cbn [safe_b GenTok.gent ReadDefs.tr]. fold (piece_toks (gent v1) (gent c1)). intros Hs. split_andb.
  assert (NanU : Reads (nan_toks p) (TVar (nan_string p)) 1 1) by (apply unit_reads; apply leaf_var).
  destruct r as [|tr0 vr lr rr].
  - eapply cond_reads with (loe := 1) (ste := 1); [exact Qv1|exact Qc1|assumption|assumption|assumption|exact NanU|lia|lia].
  - cbn [left_of right_of] in *.
    destruct tr0;
      try (match goal with
           | |- Reads (_ ++ _ :: gent ?R) _ _ _ =>
               eapply cond_reads with (loe := lvl R) (ste := flv R);
               [exact Qv1|exact Qc1|assumption|assumption|assumption
               |apply ml_arg; [apply Qr|assumption]|apply lvl_ge1; assumption|apply flv_ge]
           end).
    + (* a last PIECE *)
      split_andb. fold (piece_toks (gent lr) (gent rr)).
      eapply cond_reads with (loe := 1) (ste := 1); [exact Qv1|exact Qc1|assumption|assumption|assumption| |lia|lia].
      eapply cond_reads with (loe := 1) (ste := 1); [exact Qlr|exact Qrr|assumption|assumption|assumption|exact NanU|lia|lia].
    + (* OTHERWISE x *)
      change (GenTok.gent L p (Node OTHERWISE vr lr rr)) with (gent lr).
      change (ReadDefs.tr p (Node OTHERWISE vr lr rr)) with (tr lr).
      eapply cond_reads with (loe := lvl lr) (ste := flv lr);
        [exact Qv1|exact Qc1|assumption|assumption|assumption
        |apply ml_arg; [apply Qlr|assumption]|apply lvl_ge1; assumption|apply flv_ge].
Qed.

(** ** all node types *)

Theorem all_nodes a : Q a /\ Q (left_of a) /\ Q (right_of a).
Proof.
  induction a as [|t v l IHl r IHr].
  - repeat split; intros H; discriminate.
  - destruct IHl as (Ql & Qll & Qrl). destruct IHr as (Qr & Qlr & Qrr).
    split; [|split; [exact Ql|exact Qr]].
    destruct (is_C L) eqn:EC;
    destruct t;
      first
        [ apply unsafe_node; reflexivity
        | apply ci_case | apply cn_case
        | apply power_case; assumption
        | apply root_case; assumption
        | apply log_case; assumption
        | apply piecewise_case; assumption
        | apply not_case; assumption
        | (eapply fun1_case; [cbn; fl; rewrite ?EC; reflexivity|assumption])
        | (eapply fun2_case; [cbn; fl; rewrite ?EC; reflexivity|assumption|assumption])
        | (eapply const_num_case; reflexivity)
        | (eapply const_id_case; reflexivity)
        | (destruct (is_nil r) eqn:Er;
           [ first [apply uplus_case; assumption | apply uminus_case; assumption
                   | apply unsafe_node; cbn [safe_b]; fl; rewrite ?EC;
                     destruct r; [cbn [safe_b]; rewrite andb_false_r; reflexivity|discriminate Er] ]
           | eapply infix_case; [cbn; fl; rewrite ?EC; reflexivity|exact Er|split; apply Ql|split; apply Qr] ])
        ].
Qed.

(** the tokens of a safe AST parse to the intended tree, up to re-association *)
Theorem parse_gent a :
  safe a = true -> exists T, parse L (gent a) = Some T /\ norm T = norm (tr a).
Proof.
  intros Hs. destruct (all_nodes a) as ((MLa & _) & _).
  destruct (MLa Hs 0 (or_introl eq_refl)) as (T & Hn & H).
  exists T. split; [|exact Hn].
  apply pratt_complete.
  specialize (H 1 [] T []). rewrite negs_0, app_nil_r in H.
  apply H.
  - rewrite lvlk_0. apply lvl_ge1. exact Hs.
  - split; [reflexivity|exact I].
  - apply PL_stop. reflexivity.
Qed.

End RP.

Theorem parse_gent_C a :
  safe_b LC profile_C a = true ->
  exists T, parse LC (gent LC profile_C a) = Some T /\ norm T = norm (tr profile_C a).
Proof. apply parse_gent. apply flags_C. Qed.

Theorem parse_gent_Py a :
  safe_b LPy profile_Py a = true ->
  exists T, parse LPy (gent LPy profile_Py a) = Some T /\ norm T = norm (tr profile_Py a).
Proof. apply parse_gent. apply flags_Py. Qed.
