(** GramSpec.v — the precedence-climbing reader of GramDefs as a big-step relation (no fuel), used to reason
    about it.  GramProofs shows the relation and the executable [pexpr] coincide. No proofs here. *)
From Coq Require Import String List Bool Arith.
From LC Require Import GramDefs.
Import ListNotations.

Section Spec.
Variable L : lang.

Inductive step_kind : Set := KStop | KBin (op : binop) (q : nat) | KCondC | KCondPy.

(* what the loop does on the next token, at minimum level m (the dispatch of GramDefs.ploop) *)
Definition next_step (m : nat) (ts : list token) : step_kind :=
  match ts with
  | [] => KStop
  | TQuest :: _ => if is_C L && (m <=? 1)%nat then KCondC else KStop
  | TIf :: _ => if negb (is_C L) && (m <=? 1)%nat then KCondPy else KStop
  | t :: _ =>
      match binop_info L t with
      | Some (op, q) => if (m <=? q)%nat then KBin op q else KStop
      | None => KStop
      end
  end.

Definition not_lparen (r : list token) : Prop := match r with TLp :: _ => False | _ => True end.

Inductive PExpr : nat -> list token -> tree -> list token -> Prop :=
| PE_intro m ts lhs ts' t rest :
    PPrefix ts lhs ts' -> PLoop m lhs ts' t rest -> PExpr m ts t rest
with PPrefix : list token -> tree -> list token -> Prop :=
| PP_num s r : PPrefix (TNum s :: r) (TLit s) r
| PP_var s r : not_lparen r -> PPrefix (TId s :: r) (TVar s) r
| PP_call1 f r a r' :
    PExpr 1 r a (TRp :: r') -> PPrefix (TId f :: TLp :: r) (TCall1 f a) r'
| PP_call2 f r a r' b r'' :
    PExpr 1 r a (TComma :: r') -> PExpr 1 r' b (TRp :: r'') -> PPrefix (TId f :: TLp :: r) (TCall2 f a b) r''
| PP_paren r a r' : PExpr 1 r a (TRp :: r') -> PPrefix (TLp :: r) a r'
| PP_neg r a r' : PExpr 8 r a r' -> PPrefix (TMinus :: r) (TNeg a) r'
| PP_not r a r' : is_C L = true -> PExpr 8 r a r' -> PPrefix (TBang :: r) (TNot a) r'
with PLoop : nat -> tree -> list token -> tree -> list token -> Prop :=
| PL_stop m lhs ts : next_step m ts = KStop -> PLoop m lhs ts lhs ts
| PL_bin m lhs t r op q rhs r' out rest :
    next_step m (t :: r) = KBin op q -> PExpr (S q) r rhs r' -> PLoop m (TBin op lhs rhs) r' out rest ->
    PLoop m lhs (t :: r) out rest
| PL_condC m lhs r a r' b r'' out rest :
    next_step m (TQuest :: r) = KCondC -> PExpr 1 r a (TColon :: r') -> PExpr 1 r' b r'' ->
    PLoop m (TCond lhs a b) r'' out rest -> PLoop m lhs (TQuest :: r) out rest
| PL_condPy m lhs r c r' b r'' out rest :
    next_step m (TIf :: r) = KCondPy -> PExpr 2 r c (TElse :: r') -> PExpr 1 r' b r'' ->
    PLoop m (TCond c lhs b) r'' out rest -> PLoop m lhs (TIf :: r) out rest.

Scheme PExpr_mind := Minimality for PExpr Sort Prop
  with PPrefix_mind := Minimality for PPrefix Sort Prop
  with PLoop_mind := Minimality for PLoop Sort Prop.
Combined Scheme pratt_mutind from PExpr_mind, PPrefix_mind, PLoop_mind.

End Spec.
