(** ExternalNlaProofs.v — NLA grouping is computed on the PRUNED unknown sets: when analyseModel walks over an NLA
    equation, the siblings it records are the other NLA equations that share with it an unknown that is NOT marked as
    external (AnalysisDefs.nla_step: the external unknowns are erased from mUnknownVariables BEFORE the sibling loop). *)
From Coq Require Import List Bool Arith PeanoNat Lia.
From LC Require Import AnalysisDefs AnalysisSpec AnalysisWfProofs ExternalDefs.
Import ListNotations.
Local Open Scope bool_scope.

Lemma existsb_filter : forall {A} (f g : A -> bool) l, existsb f (filter g l) = existsb (fun x => g x && f x) l.
Proof.
  intros A f g l. induction l as [|x t IH]; cbn; [reflexivity|].
  destruct (g x); cbn; rewrite IH; reflexivity.
Qed.

Lemma gete_upd_same : forall es k x, k < length es -> gete (upd es k x) k = x.
Proof. intros. unfold gete. apply nth_upd_same. assumption. Qed.

Lemma gete_upd_other : forall es k j x, k <> j -> gete (upd es k x) j = gete es j.
Proof. intros. unfold gete. apply nth_upd_other. assumption. Qed.

Lemma fold_set_nla_other : forall idx others es k, ~ In k others ->
  gete (fold_left (fun l j => upd l j (set_nla (gete l j) (Some idx))) others es) k = gete es k /\
  length (fold_left (fun l j => upd l j (set_nla (gete l j) (Some idx))) others es) = length es.
Proof.
  intros idx others. induction others as [|j t IH]; intros es k Hk; cbn [fold_left]; [split; reflexivity|].
  destruct (IH (upd es j (set_nla (gete es j) (Some idx))) k) as (A & B).
  { intro K. apply Hk. right. exact K. }
  rewrite A, B, upd_length. split; [|reflexivity]. apply gete_upd_other. intro E. apply Hk. left. exact E.
Qed.

(* the siblings that one step of the walk records for the equation it stands on *)
Definition shares_kept_unknown (ivs : list ivar) (es : list ieq) (k j : nat) : bool :=
  existsb (fun p => negb (iv_external (geti ivs p)) && mem_nat p (ie_unknown (gete es j))) (ie_unknown (gete es k)).

Theorem nla_grouping_after_pruning : forall ivs st k,
  let es := ns_es st in
  k < length es -> is_nla (gete es k) = true ->
  ie_sibs (gete (ns_es (nla_step ivs st k)) k) =
  ie_sibs (gete es k) ++
  filter (fun j => negb (j =? k) && is_nla (gete es j) && shares_kept_unknown ivs es k j) (seq 0 (length es)).
Proof.
  intros ivs st k es Hk Hnla. unfold nla_step. fold es. rewrite Hnla.
  set (e := gete es k) in *.
  set (e1 := set_unknown e (filter (fun p => negb (iv_external (geti ivs p))) (ie_unknown e))).
  assert (Hn1 : is_nla e1 = true) by exact Hnla.
  cbv zeta. rewrite Hn1. cbn [negb].
  destruct (ie_nla e1) as [i0|];
    match goal with |- context [upd (upd es k e1) k (set_nla e1 (Some ?ix))] => set (idx := ix) end.
  all: set (es2 := upd (upd es k e1) k (set_nla e1 (Some idx))).
  all: assert (L2 : length es2 = length es) by (unfold es2; rewrite !upd_length; reflexivity).
  all: assert (G2 : forall j, j <> k -> gete es2 j = gete es j)
         by (intros j Hj; unfold es2; rewrite !gete_upd_other by (intro K; apply Hj; symmetry; exact K); reflexivity).
  all: assert (G2k : gete es2 k = set_nla e1 (Some idx))
         by (unfold es2; apply gete_upd_same; rewrite upd_length; exact Hk).
  all: set (others := filter (fun j => negb (j =? k) && is_nla (gete es2 j)
                                         && existsb (fun p => mem_nat p (ie_unknown (gete es2 j))) (ie_unknown e1)) (seq 0 (length es2))).
  all: assert (Hoth : others = filter (fun j => negb (j =? k) && is_nla (gete es j) && shares_kept_unknown ivs es k j) (seq 0 (length es))).
  all: try (unfold others; rewrite L2; apply filter_ext; intro j; destruct (j =? k) eqn:E; [reflexivity|];
            apply Nat.eqb_neq in E; rewrite (G2 j E); cbn [negb andb]; f_equal;
            unfold shares_kept_unknown; fold e; unfold e1; cbn [set_unknown ie_unknown]; apply existsb_filter).
  all: assert (Hnk : ~ In k others)
         by (unfold others; intro K; apply filter_In in K; destruct K as (_ & K); rewrite Nat.eqb_refl in K; discriminate).
  all: cbn [ns_es].
  all: destruct (fold_set_nla_other idx others es2 k Hnk) as (G3 & L3).
  all: rewrite gete_upd_same by (rewrite L3, L2; exact Hk).
  all: cbn [set_sibs ie_sibs]; rewrite G3, G2k; cbn [set_nla ie_sibs]; unfold e1; cbn [set_unknown ie_sibs]; rewrite Hoth; reflexivity.
Qed.
