(** ValidWitness.v — C04: concrete worlds on which the tree BEFORE the repairs of fixes/C04-*.diff breaks the property
    (each checked by computation), and the two deviations of the CURRENT tree that are not repaired (both pinned by
    upstream tests): the shared import source id and the children of an import target. *)
From Coq Require Import String Ascii List Bool Arith ZArith QArith.
From LC Require Import Common NumDefs MathDefs ValidDefs ValidSpec.
Import ListNotations.
Local Open Scope string_scope.
Local Open Scope list_scope.
Local Open Scope nat_scope.

Definition mk_var (t : nat) (n u i : string) (eqs : list nat) : var :=
  mkV t n "" (Some u) i "" (map (fun e => mkE e "" "") eqs).
Definition mk_comp (t : nat) (n : string) (vs : list var) (rs : list reset) (math : list xml) (kids : list comp) : comp :=
  Comp (mkC t n "" "" None vs rs math) kids.
Definition one_doc : list xml := [m_math [Elem MATHML_NS "cn" [(CELLML_2_0_NS, "units", "second")] [Text "1"]]].
Definition mk_reset (o : Z) (v : nat) : reset := mkR "" (Some o) (Some v) (Some v) one_doc "" one_doc "".

(** 1. reset orders: a ~ b ~ c (a and c not mapped directly), resets on a and on c with the same order *)
Definition w_reset_chain : world :=
  [mkM "m" "" "" []
     [mk_comp 1 "c1" [mk_var 11 "a" "second" "public" [12]] [mk_reset 1%Z 11] [] [];
      mk_comp 2 "c2" [mk_var 12 "b" "second" "public" [11; 13]] [] [] [];
      mk_comp 3 "c3" [mk_var 13 "c" "second" "public" [12]] [mk_reset 1%Z 13] [] []]].

(** 2. MathML below a qualifier: d x / d (nothing) *)
Definition w_bvar_empty_ci : world :=
  [mkM "m" "" "" []
     [mk_comp 1 "c" [mk_var 11 "x" "second" "" []] []
        [m_math [m_apply "eq" [m_ci "x"; m_apply "diff" [m_el "bvar" [m_el "ci" []]; m_ci "x"]]]] []]].

(** 3. one import element with an id and two children *)
Definition shared_src : isrc := mkIS 7 "imp1" "lib.cellml" true None.
Definition w_shared_import : world :=
  [mkM "m" "" "" [mkU "u1" "" (Some (shared_src, "a")) []; mkU "u2" "" (Some (shared_src, "b")) []] [mk_comp 1 "c" [] [] [] []]].

(** 4. variable "ab" of component "c" mapped to variable "a" of component "bc", the map_variables id is not an XML name *)
Definition w_concat : world :=
  [mkM "m" "" "" []
     [Comp (mkC 1 "c" "" "" None [mkV 11 "ab" "" (Some "second") "public" "" [mkE 12 "1bad" ""]] [] []) [];
      Comp (mkC 2 "bc" "" "" None [mkV 12 "a" "" (Some "second") "public" "" [mkE 11 "1bad" ""]] [] []) []]].

(** 5. NOT repaired (pinned by upstream tests): a fault in a component encapsulated by the target of a resolved import *)
Definition lib_model : model :=
  mkM "lib" "" "" []
    [Comp (mkC 20 "parent" "" "" None [] [] []) [Comp (mkC 21 "child" "" "" None [mk_var 22 "1bad" "second" "" []] [] []) []]].
Definition w_import_child : world :=
  [mkM "m" "" "" [] [Comp (mkC 1 "c" "" "" (Some (mkIS 2 "" "lib.cellml" true (Some 1), "parent")) [] [] []) []]; lib_model].

Definition has_rule (r : vrule) (l : list (level * vrule)) : bool :=
  existsb (fun i => match fst i with Error => String.eqb (vrule_name (snd i)) (vrule_name r) | _ => false end) l.

Lemma w_reset_chain_facts :
  validate unfixed ueq_c08 false w_reset_chain = []
  /\ has_rule V_RESET_ORDER_UNIQUE (validate current_fixes ueq_c08 false w_reset_chain) = true.
Proof. vm_compute. split; reflexivity. Qed.

Lemma w_bvar_empty_ci_facts :
  validate unfixed ueq_c08 false w_bvar_empty_ci = []
  /\ has_rule V_MATH_CI_VARIABLE_REFERENCE (validate current_fixes ueq_c08 false w_bvar_empty_ci) = true.
Proof. vm_compute. split; reflexivity. Qed.

Lemma w_shared_import_facts :
  validate all_fixed ueq_c08 false w_shared_import = []
  /\ has_rule V_XML_ID_ATTRIBUTE (validate current_fixes ueq_c08 false w_shared_import) = true.
Proof. vm_compute. split; reflexivity. Qed.

Lemma w_concat_facts :
  validate unfixed ueq_c08 false w_concat = []
  /\ has_rule V_XML_ID_ATTRIBUTE (validate current_fixes ueq_c08 false w_concat) = true.
Proof. vm_compute. split; reflexivity. Qed.

Lemma w_import_child_facts :
  validate current_fixes ueq_c08 false w_import_child = []
  /\ validate_component true 2 w_import_child 1 [] (mkC 21 "child" "" "" None [mk_var 22 "1bad" "second" "" []] [] [])
     = [V_VARIABLE_NAME_VALUE].
Proof. vm_compute. split; reflexivity. Qed.

(* ------------------------------------------------------------------ a valid model with a bit of everything (non-vacuity) *)

Definition ex_math : list xml :=
  [m_math [m_apply "eq" [m_ci "x";
             m_apply "plus" [m_apply "root" [m_el "degree" [Elem MATHML_NS "cn" [(CELLML_2_0_NS, "units", "dimensionless")] [Text "3"]]; m_ci "y"];
                             m_apply "diff" [m_el "bvar" [m_ci "y"]; m_ci "x"]]]]].
Definition w_valid : world :=
  [mkM "model_1" "mid" "enc"
     [mkU "mV" "u1" None [mkUI "volt" "milli" (1 # 1) (0 # 1) "it1"];
      mkU "per_mV" "" None [mkUI "mV" "" (-1 # 1) (0 # 1) ""];
      mkU "imported_u" "" (Some (mkIS 50 "imp" "lib.cellml" true None, "u_in_lib")) []]
     [Comp (mkC 1 "parent" "c1" "" None
              [mkV 11 "x" "v1" (Some "mV") "private" "1.5e3" [mkE 21 "map1" "conn1"]; mkV 12 "y" "" (Some "second") "" "x" []]
              [mkR "r1" (Some 2%Z) (Some 11) (Some 12) one_doc "tv1" one_doc "rv1"] ex_math)
        [Comp (mkC 2 "child" "" "ce" None [mkV 21 "x" "" (Some "mV") "public" "" [mkE 11 "map1" "conn1"]] [] []) [];
         Comp (mkC 3 "imp_c" "" "" (Some (mkIS 51 "" "other.cellml" true None, "some_component")) [] [] []) []]]].

Lemma w_valid_accepted : validate current_fixes ueq_c08 false w_valid = [].
Proof. vm_compute. reflexivity. Qed.

From LC Require Import ValidLeaf ValidCompProofs ValidUnitsProofs ValidProofs.
From Coq Require Import Lia.

Lemma w_valid_repr : Repr (model_at w_valid 0).
Proof. split; cbn; repeat constructor; cbn; intuition discriminate. Qed.

Lemma w_valid_unresolved : unresolved_world w_valid.
Proof.
  split.
  - intros u Hu. cbn in Hu. destruct Hu as [Hu|[Hu|[Hu|[]]]]; subst u; cbn; auto.
  - cbn. repeat constructor.
Qed.

Lemma w_valid_wf : WF current_fixes ueq_c08 w_valid.
Proof. apply (validate_sound current_fixes ueq_c08 w_valid w_valid_repr w_valid_unresolved). exact w_valid_accepted. Qed.

(* ------------------------------------------------------------------ the shared import source id, on the current tree *)

From LC Require Import ValidIdsProofs.

(** WF looks at the repairs only through the MathML qualifier switch *)
Lemma wf_fx_transfer : forall fx fx' ueq W, fx_math_qual fx = fx_math_qual fx' -> WF fx ueq W -> WF fx' ueq W.
Proof. intros fx fx' ueq W E [H1 H2 H3 H4 H5 H6 H7 H8 H9]. constructor; try assumption. rewrite <- E. exact H3. Qed.

Lemma w_shared_import_repr : Repr (model_at w_shared_import 0).
Proof. split; cbn; repeat constructor; cbn; intuition discriminate. Qed.

Lemma w_shared_import_unresolved : unresolved_world w_shared_import.
Proof.
  split.
  - intros u Hu. cbn in Hu. destruct Hu as [Hu|[Hu|[]]]; subst u; cbn; auto.
  - cbn. repeat constructor.
Qed.

(** the model is valid — every clause of WF, the reset orders, and the ids of the document pairwise distinct (one import
    element, one id) — and the current validator rejects it *)
Lemma w_shared_import_current :
  WF current_fixes ueq_c08 w_shared_import
  /\ OrdersOK current_fixes w_shared_import
  /\ NoDup (entity_ids (model_at w_shared_import 0))
  /\ has_rule V_XML_ID_ATTRIBUTE (validate current_fixes ueq_c08 false w_shared_import) = true
  /\ ~ no_shared_isrc_id (model_at w_shared_import 0).
Proof.
  split; [|split; [|split; [|split]]].
  - apply (wf_fx_transfer all_fixed); [reflexivity|].
    apply (validate_sound all_fixed ueq_c08 w_shared_import w_shared_import_repr w_shared_import_unresolved).
    exact (proj1 w_shared_import_facts).
  - vm_compute. reflexivity.
  - vm_compute. repeat constructor. intros [].
  - exact (proj2 w_shared_import_facts).
  - unfold no_shared_isrc_id. vm_compute. intro H. inversion H; subst. apply H2. left. reflexivity.
Qed.

(** completeness of the current tree away from that shape *)
Lemma validate_complete_current : forall ueq W, Repr (model_at W 0) -> unresolved_world W ->
  no_shared_isrc_id (model_at W 0) ->
  WF current_fixes ueq W -> IdsOK all_fixed W -> OrdersOK current_fixes W -> validate current_fixes ueq false W = [].
Proof.
  intros ueq W HR HU HS HW HI HO. unfold current_fixes. rewrite (validate_isrc_once_irrelevant true true true ueq false W HS).
  apply (validate_complete all_fixed ueq W HR HU); [|exact HI | exact HO].
  apply (wf_fx_transfer current_fixes); [reflexivity | exact HW].
Qed.

(* ------------------------------------------------------------------ the operand of diff (rule of /repo 49595f2) *)

(** d(1)/dx: the second sibling of diff is a cn, not a ci *)
Definition w_diff_of_cn : world :=
  [mkM "m" "" "" []
     [mk_comp 1 "c" [mk_var 11 "x" "second" "" []; mk_var 12 "y" "second" "" []] []
        [m_math [m_apply "eq" [m_ci "y";
                   m_apply "diff" [m_el "bvar" [m_ci "x"];
                                   Elem MATHML_NS "cn" [(CELLML_2_0_NS, "units", "second")] [Text "1"]]]]] []]].
Definition w_diff_of_ci : world :=
  [mkM "m" "" "" []
     [mk_comp 1 "c" [mk_var 11 "x" "second" "" []; mk_var 12 "y" "second" "" []] []
        [m_math [m_apply "eq" [m_ci "y"; m_apply "diff" [m_el "bvar" [m_ci "x"]; m_ci "y"]]]] []]].

Lemma w_diff_operand_facts :
  validate current_fixes ueq_c08 false w_diff_of_cn = [(Error, V_MATH_MATHML)]
  /\ validate current_fixes ueq_c08 false w_diff_of_ci = [].
Proof. vm_compute. split; reflexivity. Qed.

(* ------------------------------------------------------------------ resolved component imports: what IS checked *)

From LC Require Import ValidImportProofs.

Lemma w_import_child_repr : Repr (model_at w_import_child 0).
Proof. split; cbn; repeat constructor; cbn; intuition discriminate. Qed.

Lemma w_import_child_forward : imports_forward w_import_child.
Proof.
  intros mi c s cref mj Hc Hi Hm. destruct mi as [|[|mi]].
  - cbn in Hc. destruct Hc as [Hc|[]]. subst c. cbn in Hi. inversion Hi; subst. cbn in Hm. inversion Hm; subst. cbn. lia.
  - cbn in Hc. destruct Hc as [Hc|[Hc|[]]]; subst c; cbn in Hi; discriminate Hi.
  - exfalso. unfold model_at in Hc. cbn in Hc. destruct mi; cbn in Hc; destruct Hc.
Qed.

(** the world of finding C04-imported-component-children satisfies the specification of what the validator checks through a
    resolved import (the target 'parent' is fine) although the component 'child' it encapsulates is not *)
Lemma w_import_child_wfr : WFr current_fixes ueq_c08 w_import_child.
Proof.
  apply (validate_nil_iff_resolved current_fixes ueq_c08 w_import_child w_import_child_repr).
  - intros u [].
  - exact w_import_child_forward.
  - cbn. lia.
  - exact (proj1 w_import_child_facts).
Qed.

(* ------------------------------------------------------------------ soundness without hypotheses: non-vacuity *)

From LC Require Import ValidSoundProofs.

(** both a units import and a component import of model 0 are RESOLVED (outside unresolved_world and units_stay_local) *)
Definition lib_both : model :=
  mkM "lib" "" "" [mkU "lu" "" None [mkUI "metre" "milli" (2 # 1) (0 # 1) ""]]
    [Comp (mkC 20 "parent" "" "" None [mk_var 22 "p" "lu" "" []] [] []) []].
Definition w_resolved_both : world :=
  [mkM "m" "" "" [mkU "u" "" (Some (mkIS 5 "" "lib.cellml" true (Some 1), "lu")) []]
     [Comp (mkC 1 "c" "" "" (Some (mkIS 6 "" "lib.cellml" true (Some 1), "parent")) [] [] []) [];
      mk_comp 2 "d" [mk_var 11 "x" "u" "" []] [] [] []];
   lib_both].

Lemma w_resolved_both_accepted : validate current_fixes ueq_c08 false w_resolved_both = [].
Proof. vm_compute. reflexivity. Qed.

Lemma w_resolved_both_rules : Rules current_fixes ueq_c08 w_resolved_both.
Proof.
  apply validate_sound_general; [|exact w_resolved_both_accepted].
  split; cbn; repeat constructor; cbn; intuition discriminate.
Qed.
