(** AnalysisDefs.v — executable model of the classification core of libcellml's Analyser (C05, later C20).

    Transcribes /repo/src/analyser.cpp (AnalyserInternalVariable, AnalyserInternalEquation::check,
    AnalyserImpl::internalVariable / analyseNode (ci, diff, bvar) / analyseComponent /
    analyseComponentVariables / analyseEquationAst / analyseModel) and
    /repo/src/analyserequation.cpp (AnalyserEquationImpl::cleanUpDependencies), as the code is now.

    The input ("abstract system") is exactly what that code reads from a validated model whose units are all
    dimensionless: the components in depth-first document order, each with its variables (name, equivalence
    class, initial value: none / a number / the name of a variable) and its equations (two expression trees over
    variable names, d(x)/d(t) and numbers).  Identity of C++ objects: a variable is the pair
    (component index, variable index); an internal variable / equation is its position in
    mInternalVariables / mInternalEquations.

    No proofs here: the file must keep running when a proof breaks. *)
From Coq Require Import List Bool Arith PeanoNat.
Import ListNotations.
Local Open Scope bool_scope.

(* ------------------------------------------------------------------------------------------ input *)

Inductive init := INone | IConst | IRef (n : nat).          (* initial_value: "", a real, a variable name *)
Record var := mkVar { v_name : nat; v_cls : nat; v_init : init }.
Inductive expr := EVar (n : nat)                              (* <ci>n</ci> *)
                | EDiff (t x : nat)                           (* <apply><diff/><bvar><ci>t</ci></bvar><ci>x</ci></apply> *)
                | ECn                                         (* <cn>…</cn> *)
                | EOp (a b : expr).                           (* <apply><op/>a b</apply>, any binary operator *)
Record eqn := mkEqn { q_id : nat; q_lhs : expr; q_rhs : expr }.   (* <apply><eq/>lhs rhs</apply> *)
Record comp := mkComp { c_vars : list var; c_eqs : list eqn }.
Definition system := list comp.                               (* depth-first order: analyseComponent recursion *)
Definition vref := (nat * nat)%type.                          (* a Variable object: (component, index in it) *)

Definition vref_eqb (a b : vref) : bool := (fst a =? fst b) && (snd a =? snd b).

Definition dvar := mkVar 0 0 INone.
Definition dcomp := mkComp [] [].
Definition get_comp (s : system) (c : nat) : comp := nth c s dcomp.
Definition get_var (s : system) (r : vref) : var := nth (snd r) (c_vars (get_comp s (fst r))) dvar.
Definition has_init (v : var) : bool := match v_init v with INone => false | _ => true end.

(* Component::variable(name): the first variable of that name *)
Fixpoint find_index {A} (p : A -> bool) (l : list A) : option nat :=
  match l with
  | [] => None
  | x :: r => if p x then Some 0 else option_map S (find_index p r)
  end.
Definition find_var (c : comp) (name : nat) : option nat := find_index (fun v => v_name v =? name) (c_vars c).

(* the first variable of component [c] that is in class [k]:
   check(): do { localVariable = mComponent->variable(++i); } while (!areEquivalentVariables(...)) *)
Definition first_member (s : system) (c : nat) (k : nat) : option vref :=
  option_map (fun i => (c, i)) (find_index (fun v => v_cls v =? k) (c_vars (get_comp s c))).

(* ------------------------------------------------------------------------------ internal objects *)

(* AnalyserInternalVariable::Type *)
Inductive vtype := VUnknown | VShouldBeState | VInitialised | VVoi | VState | VConstant
  | VCompTrue | VCompVarBased | VInitAlgebraic | VAlgebraic | VOverconstrained.
(* AnalyserInternalEquation::Type *)
Inductive etype := EUnknown | ETrueConst | EVarBasedConst | EOde | ENla | EAlgebraic.

Definition vtype_eqb (a b : vtype) : bool :=
  match a, b with
  | VUnknown, VUnknown | VShouldBeState, VShouldBeState | VInitialised, VInitialised | VVoi, VVoi
  | VState, VState | VConstant, VConstant | VCompTrue, VCompTrue | VCompVarBased, VCompVarBased
  | VInitAlgebraic, VInitAlgebraic | VAlgebraic, VAlgebraic | VOverconstrained, VOverconstrained => true
  | _, _ => false
  end.
Definition etype_eqb (a b : etype) : bool :=
  match a, b with
  | EUnknown, EUnknown | ETrueConst, ETrueConst | EVarBasedConst, EVarBasedConst | EOde, EOde
  | ENla, ENla | EAlgebraic, EAlgebraic => true
  | _, _ => false
  end.

(* what variableOnLhsRhs() sees of a child of the equality: CI, DIFF (its right child), anything else *)
Inductive side := SVar (n : nat) | SDiff (n : nat) | SOther.
Definition side_of (e : expr) : side :=
  match e with EVar n => SVar n | EDiff _ x => SDiff x | _ => SOther end.

Record ivar := mkIvar {
  iv_cls : nat;                 (* the equivalence class (areEquivalentVariables with mVariable) *)
  iv_type : vtype;              (* mType *)
  iv_index : option nat;        (* mIndex, None = MAX_SIZE_T *)
  iv_external : bool;           (* mIsExternal *)
  iv_initvar : option vref;     (* mInitialisingVariable *)
  iv_var : vref;                (* mVariable *)
  iv_deps : list vref }.        (* mDependencies (external variables only) *)

Record ieq := mkIeq {
  ie_id : option nat;           (* which input equation (None: created for a constant / an external variable) *)
  ie_comp : nat;                (* mComponent *)
  ie_type : etype;              (* mType *)
  ie_lhs : side; ie_rhs : side; (* mAst->leftChild(), mAst->rightChild() as seen by variableOnLhsRhs *)
  ie_diffs : list (vref * vref);(* the (bvar, variable) pairs of the DIFF nodes of mAst, in pre-order *)
  ie_deps : list vref;          (* mDependencies *)
  ie_vars : list nat;           (* mVariables          (positions in mInternalVariables) *)
  ie_odes : list nat;           (* mOdeVariables *)
  ie_all : list nat;            (* mAllVariables *)
  ie_unknown : list nat;        (* mUnknownVariables *)
  ie_nla : option nat;          (* mNlaSystemIndex *)
  ie_sibs : list nat;           (* mNlaSiblings (positions in mInternalEquations) *)
  ie_tc : bool; ie_vc : bool }. (* mComputedTrueConstant, mComputedVariableBasedConstant *)

Definition divar := mkIvar 0 VUnknown None false None (0, 0) [].
Definition dieq := mkIeq None 0 EUnknown SOther SOther [] [] [] [] [] [] None [] true true.
Definition geti (ivs : list ivar) (i : nat) : ivar := nth i ivs divar.

Fixpoint upd {A} (l : list A) (i : nat) (x : A) : list A :=
  match l, i with
  | [], _ => []
  | _ :: r, 0 => x :: r
  | y :: r, S j => y :: upd r j x
  end.

Definition set_type (v : ivar) (t : vtype) : ivar :=
  mkIvar (iv_cls v) t (iv_index v) (iv_external v) (iv_initvar v) (iv_var v) (iv_deps v).
Definition set_index (v : ivar) (i : option nat) : ivar :=
  mkIvar (iv_cls v) (iv_type v) i (iv_external v) (iv_initvar v) (iv_var v) (iv_deps v).
Definition set_var (v : ivar) (r : vref) : ivar :=
  mkIvar (iv_cls v) (iv_type v) (iv_index v) (iv_external v) (iv_initvar v) r (iv_deps v).
Definition set_ext (v : ivar) (d : list vref) : ivar :=
  mkIvar (iv_cls v) (iv_type v) (iv_index v) true (iv_initvar v) (iv_var v) d.

(* issues: (level, rule, item variable) *)
Inductive rule := RInitTwice | RNonConstInit | RVoiInit | RVoiSeveral | RUnused | RStateNotInit | RComputedTwice.
Record issue := mkIssue { is_rule : rule; is_item : vref }.     (* all of level ERROR *)

(* ------------------------------------------------------------------- building (analyseComponent) *)

(* AnalyserInternalVariable::create + setVariable(variable) *)
Definition new_ivar (s : system) (r : vref) : ivar :=
  let v := get_var s r in
  if has_init v then mkIvar (v_cls v) VInitialised None false (Some r) r []
  else mkIvar (v_cls v) VUnknown None false None r [].

(* AnalyserImpl::internalVariable *)
Definition internal_variable (s : system) (ivs : list ivar) (r : vref) : list ivar * nat :=
  match find_index (fun iv => iv_cls iv =? v_cls (get_var s r)) ivs with
  | Some i => (ivs, i)
  | None => (ivs ++ [new_ivar s r], length ivs)
  end.

Definition mem_nat (x : nat) (l : list nat) : bool := existsb (Nat.eqb x) l.

(* analyseNode over one side of the equation: the ci / diff cases.  [None] = a name the component lacks
   (the validator rejects such a model; the analyser is never run on it). *)
Fixpoint analyse_node (s : system) (c : nat) (e : expr) (acc : list ivar * ieq) : option (list ivar * ieq) :=
  let '(ivs, q) := acc in
  match e with
  | EVar n =>
      match find_var (get_comp s c) n with
      | None => None
      | Some i =>
          let '(ivs1, p) := internal_variable s ivs (c, i) in
          (* addVariable *)
          if mem_nat p (ie_vars q) then Some (ivs1, q)
          else Some (ivs1, mkIeq (ie_id q) (ie_comp q) (ie_type q) (ie_lhs q) (ie_rhs q) (ie_diffs q) (ie_deps q)
                                 (ie_vars q ++ [p]) (ie_odes q) (ie_all q ++ [p]) (ie_unknown q) (ie_nla q) (ie_sibs q)
                                 (ie_tc q) (ie_vc q))
      end
  | EDiff t x =>
      match find_var (get_comp s c) t, find_var (get_comp s c) x with
      | Some ti, Some xi =>
          (* the bvar's ci is not tracked by the equation; the differentiated ci is an ODE variable *)
          let '(ivs1, p) := internal_variable s ivs (c, xi) in
          let dfs := ie_diffs q ++ [((c, ti), (c, xi))] in
          (* addOdeVariable *)
          if mem_nat p (ie_odes q)
          then Some (ivs1, mkIeq (ie_id q) (ie_comp q) (ie_type q) (ie_lhs q) (ie_rhs q) dfs (ie_deps q)
                                 (ie_vars q) (ie_odes q) (ie_all q) (ie_unknown q) (ie_nla q) (ie_sibs q) (ie_tc q) (ie_vc q))
          else Some (ivs1, mkIeq (ie_id q) (ie_comp q) (ie_type q) (ie_lhs q) (ie_rhs q) dfs (ie_deps q)
                                 (ie_vars q) (ie_odes q ++ [p]) (ie_all q ++ [p]) (ie_unknown q) (ie_nla q) (ie_sibs q)
                                 (ie_tc q) (ie_vc q))
      | _, _ => None
      end
  | ECn => Some acc
  | EOp a b =>
      match analyse_node s c a acc with
      | None => None
      | Some acc1 => analyse_node s c b acc1
      end
  end.

(* AnalyserInternalEquation::create(component) + analyseNode on <apply><eq/>lhs rhs</apply> *)
Definition build_eq (s : system) (c : nat) (ivs : list ivar) (q : eqn) : option (list ivar * ieq) :=
  let q0 := mkIeq (Some (q_id q)) c EUnknown (side_of (q_lhs q)) (side_of (q_rhs q)) [] [] [] [] [] [] None [] true true in
  match analyse_node s c (q_lhs q) (ivs, q0) with
  | None => None
  | Some acc => analyse_node s c (q_rhs q) acc
  end.

Fixpoint build_eqs (s : system) (c : nat) (qs : list eqn) (acc : list ivar * list ieq) : option (list ivar * list ieq) :=
  match qs with
  | [] => Some acc
  | q :: r =>
      match build_eq s c (fst acc) q with
      | None => None
      | Some (ivs1, e) => build_eqs s c r (ivs1, snd acc ++ [e])
      end
  end.

(* second half of analyseComponent: "if variable has an initial value and the variable held by
   internalVariable doesn't, then replace the variable held by internalVariable" (setVariable(variable)) *)
Fixpoint track_inits (s : system) (c : nat) (i : nat) (n : nat) (ivs : list ivar) : list ivar :=
  match n with
  | 0 => ivs
  | S m =>
      let '(ivs1, p) := internal_variable s ivs (c, i) in
      let iv := geti ivs1 p in
      let ivs2 :=
        if has_init (get_var s (c, i)) && negb (has_init (get_var s (iv_var iv)))
        then upd ivs1 p (mkIvar (iv_cls iv) VInitialised (iv_index iv) (iv_external iv) (Some (c, i)) (c, i) (iv_deps iv))
        else ivs1 in
      track_inits s c (S i) m ivs2
  end.

Fixpoint build_comps (s : system) (c : nat) (cs : list comp) (acc : list ivar * list ieq) : option (list ivar * list ieq) :=
  match cs with
  | [] => Some acc
  | k :: r =>
      match build_eqs s c (c_eqs k) acc with
      | None => None
      | Some (ivs1, es1) => build_comps s (S c) r (track_inits s c 0 (length (c_vars k)) ivs1, es1)
      end
  end.

Definition build (s : system) : option (list ivar * list ieq) := build_comps s 0 s ([], []).

(* position of the internal variable of a (known) variable *)
Definition ivar_of (s : system) (ivs : list ivar) (r : vref) : nat := snd (internal_variable s ivs r).

(* ------------------------------------------------------- analyseComponentVariables: initial values *)

Fixpoint check_inits_comp (s : system) (ivs : list ivar) (c : nat) (i : nat) (n : nat) : list issue :=
  match n with
  | 0 => []
  | S m =>
      let r := (c, i) in
      let iv := geti ivs (ivar_of s ivs r) in
      let here :=
        if negb (vref_eqb r (iv_var iv)) && has_init (get_var s r) then [mkIssue RInitTwice r]
        else match v_init (get_var s (iv_var iv)) with
             | IRef nm =>
                 (* initialisingComponent->variable(initialValue): [None] = refused by the validator, see [resolvable] *)
                 match find_var (get_comp s (fst (iv_var iv))) nm with
                 | Some j =>
                     if vtype_eqb (iv_type (geti ivs (ivar_of s ivs (fst (iv_var iv), j)))) VInitialised then []
                     else [mkIssue RNonConstInit r]
                 | None => [mkIssue RNonConstInit r]
                 end
             | _ => []
             end in
      here ++ check_inits_comp s ivs c (S i) m
  end.

Fixpoint check_inits (s : system) (ivs : list ivar) (c : nat) (cs : list comp) : list issue :=
  match cs with
  | [] => []
  | k :: r => check_inits_comp s ivs c 0 (length (c_vars k)) ++ check_inits s ivs (S c) r
  end.

(* every initial value that names a variable names one of the same component *)
Definition resolvable (s : system) : bool :=
  forallb (fun k => forallb (fun v => match v_init v with
                                       | IRef nm => match find_var k nm with Some _ => true | None => false end
                                       | _ => true end) (c_vars k)) s.

(* ------------------------------------------------------------- analyseEquationAst: voi and states *)

(* all variables of the model in voiFirstOccurrence order; equivalentVariables(voi) = those of its class *)
Fixpoint all_vrefs_from (c : nat) (cs : list comp) : list vref :=
  match cs with
  | [] => []
  | k :: r => map (fun i => (c, i)) (seq 0 (length (c_vars k))) ++ all_vrefs_from (S c) r
  end.
Definition members (s : system) (k : nat) : list vref :=
  filter (fun r => v_cls (get_var s r) =? k) (all_vrefs_from 0 s).

Definition make_state (v : ivar) : ivar :=
  match iv_type v with
  | VUnknown => set_type v VShouldBeState
  | VInitialised => set_type v VState
  | _ => v
  end.

Record voi_state := mkVs { vs_ivs : list ivar; vs_voi : option vref; vs_issues : list issue }.

(* one DIFF node: first its BVAR child's CI (variable of integration), then its CI child (state) *)
Definition diff_event (s : system) (st : voi_state) (d : vref * vref) : voi_state :=
  let '(t, x) := d in
  let pt := ivar_of s (vs_ivs st) t in
  let ivs1 := upd (vs_ivs st) pt (set_type (geti (vs_ivs st) pt) VVoi) in           (* makeVoi() *)
  let k := v_cls (get_var s t) in
  let '(voi1, iss1) :=
    match vs_voi st with
    | None =>
        let inited := filter (fun r => has_init (get_var s r)) (members s k) in
        match inited with
        | [] => (hd_error (members s k), [])                                          (* voiFirstOccurrence *)
        | _ => (None, map (fun r => mkIssue RVoiInit r) inited)
        end
    | Some v0 =>
        if v_cls (get_var s v0) =? k then (Some v0, []) else (Some v0, [mkIssue RVoiSeveral t])
    end in
  let px := ivar_of s ivs1 x in
  let ivs2 := upd ivs1 px (make_state (geti ivs1 px)) in                              (* makeState() *)
  mkVs ivs2 voi1 (vs_issues st ++ iss1).

Definition analyse_asts (s : system) (ivs : list ivar) (es : list ieq) : voi_state :=
  fold_left (fun st e => fold_left (diff_event s) (ie_diffs e) st) es (mkVs ivs None []).

(* ------------------------------------------------------------- AnalyserInternalEquation::check() *)

Definition is_known (ivs : list ivar) (i : nat) : bool := negb (vtype_eqb (iv_type (geti ivs i)) VUnknown).
Definition is_known_ode (ivs : list ivar) (i : nat) : bool :=
  match iv_index (geti ivs i) with Some _ => true | None => false end.
Definition is_nonconst (ivs : list ivar) (i : nat) : bool :=
  let v := geti ivs i in
  iv_external v ||
  match iv_type v with
  | VUnknown | VInitialised | VCompTrue | VCompVarBased => false
  | _ => true
  end.

Definition var_name (s : system) (r : vref) : nat := v_name (get_var s r).

(* variableOnLhsRhs: the comparison is between NAMES: that of the CI (resp. of the DIFF's variable) in the
   equation's component and that of the variable currently held by the internal variable (mVariable) *)
Definition on_side (s : system) (v : ivar) (sd : side) : bool :=
  match sd with
  | SVar n | SDiff n => n =? var_name s (iv_var v)
  | SOther => false
  end.
Definition on_rhs (s : system) (e : ieq) (v : ivar) : bool := on_side s v (ie_rhs e).
Definition on_lhs_or_rhs (s : system) (e : ieq) (v : ivar) : bool := on_side s v (ie_lhs e) || on_rhs s e v.

Fixpoint remove_first (r : vref) (l : list vref) : list vref :=
  match l with
  | [] => []
  | x :: t => if vref_eqb x r then t else x :: remove_first r t
  end.

(* DEFECT C05-dependency-lost-on-retarget.  Dependencies are recorded as Variable objects (the one the internal
   variable tracks at that moment) and later compared / looked up BY POINTER, although setVariable() re-targets
   the internal variable in between.  [dependency_fix = true] is the code with fixes/C05-dependency-retarget.diff
   (comparison / lookup through the equivalence class); to be switched when that patch is in /repo. *)
Definition dependency_fix : bool := true.

Fixpoint remove_first_cls (s : system) (k : nat) (l : list vref) : list vref :=
  match l with
  | [] => []
  | x :: t => if v_cls (get_var s x) =? k then t else x :: remove_first_cls s k t
  end.
(* check(): "we must remove our dependencies on our unknown variables" *)
Definition dep_remove (fx : bool) (s : system) (v : ivar) (d : list vref) : list vref :=
  if fx then remove_first_cls s (iv_cls v) d else remove_first (iv_var v) d.

(* the state threaded through the loop: the internal variables and the two counters
   (stateIndex / variableIndex: number of indices handed out, the C++ value is this minus one) *)
Record cstate := mkCs { cs_ivs : list ivar; cs_sidx : nat; cs_vidx : nat }.

(* the body of "for (const auto &variable : variables)": setVariable(local, false), type if unknown, index.
   The boolean is false for the "default: return false" exit, whose earlier side effects are kept. *)
Definition retarget (s : system) (comp : nat) (tc vc : bool) (v : ivar) : ivar :=
  let v1 := match first_member s comp (iv_cls v) with Some r => set_var v r | None => v end in  (* setVariable(local, false) *)
  if vtype_eqb (iv_type v1) VUnknown
  then set_type v1 (if tc then VCompTrue else if vc then VCompVarBased else VAlgebraic)
  else v1.

Fixpoint type_variables (s : system) (comp : nat) (tc vc : bool) (st : cstate) (unk : list nat) (ps : list nat)
  : cstate * list nat * bool :=
  match ps with
  | [] => (st, unk, true)
  | p :: r =>
      let v2 := retarget s comp tc vc (geti (cs_ivs st) p) in
      match iv_type v2 with
      | VState =>
          type_variables s comp tc vc
            (mkCs (upd (cs_ivs st) p (set_index v2 (Some (cs_sidx st)))) (S (cs_sidx st)) (cs_vidx st)) (unk ++ [p]) r
      | VCompTrue | VCompVarBased | VInitAlgebraic | VAlgebraic =>
          type_variables s comp tc vc
            (mkCs (upd (cs_ivs st) p (set_index v2 (Some (cs_vidx st)))) (cs_sidx st) (S (cs_vidx st))) (unk ++ [p]) r
      | _ => (mkCs (upd (cs_ivs st) p v2) (cs_sidx st) (cs_vidx st), unk, false)
      end
  end.

Definition is_initialised_kind (t : vtype) : bool :=
  match t with VInitialised | VInitAlgebraic => true | _ => false end.

Definition check (s : system) (nla : bool) (st : cstate) (e : ieq) : cstate * ieq * bool :=
  if negb (etype_eqb (ie_type e) EUnknown) then (st, e, false) else
  let ivs := cs_ivs st in
  let tc := ie_tc e && negb (existsb (is_known ivs) (ie_vars e) || existsb (is_known ivs) (ie_odes e)) in
  let vc := ie_vc e && negb (existsb (is_nonconst ivs) (ie_vars e) || existsb (is_nonconst ivs) (ie_odes e)) in
  let deps := ie_deps e ++ map (fun i => iv_var (geti ivs i)) (filter (is_known ivs) (ie_vars e)) in
  let vars := filter (fun i => negb (is_known ivs i)) (ie_vars e) in
  let odes := filter (fun i => negb (is_known_ode ivs i)) (ie_odes e) in
  let left := length vars + length odes in
  let e1 := mkIeq (ie_id e) (ie_comp e) EUnknown (ie_lhs e) (ie_rhs e) (ie_diffs e) deps vars odes (ie_all e)
                  (ie_unknown e) (ie_nla e) (ie_sibs e) tc vc in
  (* "if (checkNlaSystems && (unknownVariablesOrOdeVariablesLeft == 0))" *)
  let do_nla := nla && (left =? 0) in
  let inits := if do_nla then filter (fun i => is_initialised_kind (iv_type (geti ivs i))) (ie_all e) else [] in
  let ivs1 := if do_nla
              then fold_left (fun l i => if is_initialised_kind (iv_type (geti l i)) then upd l i (set_type (geti l i) VInitAlgebraic) else l)
                             (ie_all e) ivs
              else ivs in
  if do_nla && (match inits with [] => true | _ => false end) then
    (* overconstrained *)
    (mkCs (fold_left (fun l i => upd l i (set_type (geti l i) VOverconstrained)) (ie_all e) ivs1) (cs_sidx st) (cs_vidx st), e1, false)
  else
  let left_var : option nat :=
    if left =? 1 then (match vars with [] => hd_error odes | p :: _ => Some p end) else None in
  let st1 := mkCs ivs1 (cs_sidx st) (cs_vidx st) in
  let fires := match left_var with
               | Some p => nla || on_lhs_or_rhs s e1 (geti ivs1 p)
               | None => false
               end || (match inits with [] => false | _ => true end) in
  if negb fires then (st1, e1, false) else
  let variables := match vars with [] => (match odes with [] => inits | _ => odes end) | _ => vars end in
  let '(st2, unk, ok) := type_variables s (ie_comp e) tc vc st1 (ie_unknown e) variables in
  let e2 := mkIeq (ie_id e) (ie_comp e) EUnknown (ie_lhs e) (ie_rhs e) (ie_diffs e) deps vars odes (ie_all e)
                  unk (ie_nla e) (ie_sibs e) tc vc in
  if negb ok then (st2, e2, false) else
  let ty := match left_var with
            | None => ENla
            | Some p =>
                let v := geti (cs_ivs st2) p in
                if negb (on_lhs_or_rhs s e2 v) then ENla
                else match iv_type v with
                     | VState => EOde
                     | VCompTrue => ETrueConst
                     | VCompVarBased => EVarBasedConst
                     | _ => EAlgebraic
                     end
            end in
  let deps2 := fold_left (fun d p => dep_remove dependency_fix s (geti (cs_ivs st2) p) d) unk deps in
  (st2, mkIeq (ie_id e) (ie_comp e) ty (ie_lhs e) (ie_rhs e) (ie_diffs e) deps2 vars odes (ie_all e)
              unk (ie_nla e) (ie_sibs e) tc vc, true).

(* "for (const auto &internalEquation : mInternalEquations) relevantCheck = check(...) || relevantCheck;" *)
Fixpoint sweep (s : system) (nla : bool) (st : cstate) (es : list ieq) : cstate * list ieq * bool :=
  match es with
  | [] => (st, [], false)
  | e :: r =>
      let '(st1, e1, b) := check s nla st e in
      let '(st2, r1, b2) := sweep s nla st1 r in
      (st2, e1 :: r1, b || b2)
  end.

(* the do/while of analyseModel.  [loopn] = loopNumber, [nla] = checkNlaSystems.  [None] = fuel exhausted. *)
Fixpoint loop (s : system) (fuel : nat) (loopn : nat) (nla : bool) (st : cstate) (es : list ieq) : option (cstate * list ieq) :=
  match fuel with
  | 0 => None
  | S f =>
      let '(st1, es1, rel) := sweep s nla st es in
      if rel then loop s f loopn nla st1 es1
      else if (loopn =? 1) || (loopn =? 3) then loop s f (S loopn) true st1 es1
      else if loopn =? 2 then
        let ivs2 := map (fun v => if iv_external v && vtype_eqb (iv_type v) VUnknown then set_type v VInitialised else v) (cs_ivs st1) in
        let st2 := mkCs ivs2 (cs_sidx st1) (cs_vidx st1) in
        if existsb iv_external (cs_ivs st1) then loop s f 3 false st2 es1 else Some (st2, es1)
      else Some (st1, es1)
  end.

Definition count_unknown (es : list ieq) : nat := length (filter (fun e => etype_eqb (ie_type e) EUnknown) es).
Definition loop_fuel (es : list ieq) : nat := count_unknown es + 5.

(* ------------------------------------------------------------------- second half of analyseModel *)

Inductive mtype := MUnknown | MAlgebraic | MDae | MInvalid | MNla | MOde | MOverconstrained | MUnderconstrained | MUnsuitably.
Inductive atype := AState | AConstant | ACompConst | AAlgebraic | AExternal.          (* AnalyserVariable::Type *)
Inductive qtype := QTrueConst | QVarBasedConst | QOde | QNla | QAlgebraic | QExternal.   (* AnalyserEquation::Type *)

Record avar := mkAvar { av_var : vref; av_type : atype; av_index : nat; av_init : option vref;
                        av_eqs : list nat (* positions in the final mInternalEquations *) }.
Record aeq := mkAeq { ae_pos : nat; ae_id : option nat; ae_type : qtype; ae_vars : list vref;
                      ae_deps : list nat; ae_nla : option nat; ae_sibs : list nat (* positions *) }.
Record result := mkResult { r_type : mtype; r_issues : list issue; r_voi : option vref;
                            r_states : list avar; r_vars : list avar; r_eqs : list aeq;
                            r_ids : list (option nat) (* id of every final internal equation, by position *) }.

Definition invalid_result (t : mtype) (iss : list issue) : result := mkResult t iss None [] [] [] [].

(* "Make sure that our variables are valid": issues + makeConstant *)
Fixpoint validate_vars (ivs : list ivar) (vidx : nat) : list ivar * nat * list issue :=
  match ivs with
  | [] => ([], vidx, [])
  | v :: r =>
      match iv_type v with
      | VUnknown => let '(r1, n, i) := validate_vars r vidx in (v :: r1, n, mkIssue RUnused (iv_var v) :: i)
      | VShouldBeState => let '(r1, n, i) := validate_vars r vidx in (v :: r1, n, mkIssue RStateNotInit (iv_var v) :: i)
      | VInitialised =>
          let '(r1, n, i) := validate_vars r (S vidx) in
          (set_index (set_type v VConstant) (Some vidx) :: r1, n, i)
      | VOverconstrained => let '(r1, n, i) := validate_vars r vidx in (v :: r1, n, mkIssue RComputedTwice (iv_var v) :: i)
      | _ => let '(r1, n, i) := validate_vars r vidx in (v :: r1, n, i)
      end
  end.

Definition set_nla (e : ieq) (n : option nat) : ieq :=
  mkIeq (ie_id e) (ie_comp e) (ie_type e) (ie_lhs e) (ie_rhs e) (ie_diffs e) (ie_deps e) (ie_vars e) (ie_odes e) (ie_all e)
        (ie_unknown e) n (ie_sibs e) (ie_tc e) (ie_vc e).
Definition set_sibs (e : ieq) (l : list nat) : ieq :=
  mkIeq (ie_id e) (ie_comp e) (ie_type e) (ie_lhs e) (ie_rhs e) (ie_diffs e) (ie_deps e) (ie_vars e) (ie_odes e) (ie_all e)
        (ie_unknown e) (ie_nla e) l (ie_tc e) (ie_vc e).
Definition set_unknown (e : ieq) (l : list nat) : ieq :=
  mkIeq (ie_id e) (ie_comp e) (ie_type e) (ie_lhs e) (ie_rhs e) (ie_diffs e) (ie_deps e) (ie_vars e) (ie_odes e) (ie_all e)
        l (ie_nla e) (ie_sibs e) (ie_tc e) (ie_vc e).
Definition set_etype (e : ieq) (t : etype) : ieq :=
  mkIeq (ie_id e) (ie_comp e) t (ie_lhs e) (ie_rhs e) (ie_diffs e) (ie_deps e) (ie_vars e) (ie_odes e) (ie_all e)
        (ie_unknown e) (ie_nla e) (ie_sibs e) (ie_tc e) (ie_vc e).
Definition gete (es : list ieq) (i : nat) : ieq := nth i es dieq.

Definition is_nla (e : ieq) : bool := etype_eqb (ie_type e) ENla.

(* AnalyserInternalEquation::create(variable) *)
Definition new_var_eq (ivs : list ivar) (p : nat) : ieq :=
  mkIeq None (fst (iv_var (geti ivs p))) EUnknown SOther SOther [] [] [] [] [] [p] None [] true true.

Record nla_state := mkNs { ns_es : list ieq; ns_next : nat (* nlaSystemIndex + 1 *);
                           ns_added_vars : list nat; ns_removed : list nat }.

(* one iteration of "Make sure that our equations are valid" for the equation at position k *)
Definition nla_step (ivs : list ivar) (st : nla_state) (k : nat) : nla_state :=
  let es := ns_es st in
  let e := gete es k in
  (* unknown variables of an NLA equation that are external get their own equation *)
  let '(added, e1) :=
    if is_nla e then
      (fold_left (fun a p => if iv_external (geti ivs p) && negb (mem_nat p a) then a ++ [p] else a) (ie_unknown e) (ns_added_vars st),
       set_unknown e (filter (fun p => negb (iv_external (geti ivs p))) (ie_unknown e)))
    else (ns_added_vars st, e) in
  let removed := match ie_unknown e1 with [] => ns_removed st ++ [k] | _ => ns_removed st end in
  let es1 := upd es k e1 in
  if negb (is_nla e1) then mkNs es1 (ns_next st) added removed else
  let '(idx, next) := match ie_nla e1 with Some i => (i, ns_next st) | None => (ns_next st, S (ns_next st)) end in
  let es2 := upd es1 k (set_nla e1 (Some idx)) in
  (* siblings: the other NLA equations sharing an unknown variable; they take this equation's system index *)
  let others := filter (fun j => negb (j =? k) && is_nla (gete es2 j)
                                 && existsb (fun p => mem_nat p (ie_unknown (gete es2 j))) (ie_unknown e1))
                       (seq 0 (length es2)) in
  let es3 := fold_left (fun l j => upd l j (set_nla (gete l j) (Some idx))) others es2 in
  let es4 := upd es3 k (set_sibs (gete es3 k) (ie_sibs (gete es3 k) ++ others)) in
  mkNs es4 next added removed.

(* positions are renumbered when equations are erased: sibling lists hold pointers in the C++, so in the model
   they are translated *)
Definition renumber (removed : list nat) (j : nat) : option nat :=
  if mem_nat j removed then None else Some (j - length (filter (fun r => r <? j) removed)).
Fixpoint filter_map {A B} (f : A -> option B) (l : list A) : list B :=
  match l with [] => [] | x :: r => match f x with Some y => y :: filter_map f r | None => filter_map f r end end.

Definition nla_group (ivs : list ivar) (es : list ieq) : list ieq :=
  let st := fold_left (nla_step ivs) (seq 0 (length es)) (mkNs es 0 [] []) in
  let es1 := ns_es st ++ map (new_var_eq ivs) (ns_added_vars st) in
  let keep := filter (fun j => negb (mem_nat j (ns_removed st))) (seq 0 (length es1)) in
  map (fun j => let e := gete es1 j in set_sibs e (filter_map (renumber (ns_removed st)) (ie_sibs e))) keep.

Definition is_some_const (t : vtype) : bool :=
  match t with VConstant | VCompTrue | VCompVarBased => true | _ => false end.

(* requalification of variable-based constants, and over-constrained NLA systems *)
Definition requalify_step (acc : list ivar * list ieq * list nat * list issue) (e : ieq)
  : list ivar * list ieq * list nat * list issue :=
  let '(ivs, done, over, iss) := acc in
  match ie_type e with
  | EVarBasedConst =>
      let u := hd 0 (ie_unknown e) in
      if existsb (fun p => negb (p =? u) && negb (is_some_const (iv_type (geti ivs p)))) (ie_all e)
      then (upd ivs u (set_type (geti ivs u) VAlgebraic), done ++ [set_etype e EAlgebraic], over, iss)
      else (ivs, done ++ [e], over, iss)
  | ENla =>
      if length (ie_unknown e) <? length (ie_sibs e) + 1 then
        let '(ivs1, over1, iss1) :=
          fold_left (fun a p => let '(l, o, i) := a in
                                if mem_nat p o then a
                                else (upd l p (set_type (geti l p) VOverconstrained), o ++ [p],
                                      i ++ [mkIssue RComputedTwice (iv_var (geti l p))]))
                    (ie_unknown e) (ivs, over, iss) in
        (ivs1, done ++ [e], over1, iss1)
      else (ivs, done ++ [e], over, iss)
  | _ => (ivs, done ++ [e], over, iss)
  end.

Definition atype_of (v : ivar) : option atype :=
  if iv_external v then Some AExternal else
  match iv_type v with
  | VState => Some AState
  | VConstant => Some AConstant
  | VCompTrue | VCompVarBased => Some ACompConst
  | VAlgebraic | VInitAlgebraic => Some AAlgebraic
  | _ => None                                                 (* the variable of integration: skipped *)
  end.

(* "Make our internal variables available through our API": positions paired with the API variable *)
Fixpoint make_avars (es : list ieq) (ivs : list ivar) (p : nat) (sidx vidx : nat) : list (nat * avar) :=
  match ivs with
  | [] => []
  | v :: r =>
      match atype_of v with
      | None => make_avars es r (S p) sidx vidx
      | Some t =>
          let eqs := filter (fun j => mem_nat p (ie_unknown (gete es j))) (seq 0 (length es)) in
          let ini := match t with AExternal => None | _ => iv_initvar v end in
          match t with
          | AState => (p, mkAvar (iv_var v) t sidx ini eqs) :: make_avars es r (S p) (S sidx) vidx
          | _ => (p, mkAvar (iv_var v) t vidx ini eqs) :: make_avars es r (S p) sidx (S vidx)
          end
      end
  end.

Definition lookup_avar (avs : list (nat * avar)) (p : nat) : option avar :=
  option_map snd (find (fun x => fst x =? p) avs).
Definition lookup_avar_by_var (avs : list (nat * avar)) (r : vref) : option avar :=
  option_map snd (find (fun x => vref_eqb (av_var (snd x)) r) avs).

Definition atype_eqb (a b : atype) : bool :=
  match a, b with
  | AState, AState | AConstant, AConstant | ACompConst, ACompConst | AAlgebraic, AAlgebraic | AExternal, AExternal => true
  | _, _ => false
  end.

Fixpoint dedup_app (acc : list nat) (l : list nat) : list nat :=
  match l with
  | [] => acc
  | x :: r => if mem_nat x acc then dedup_app acc r else dedup_app (acc ++ [x]) r
  end.

(* "Make our internal equations available through our API" for the equation at position j; None = skipped *)
(* analyseModel: "auto variable = v2avMappings[variableDependency]" *)
Definition dep_lookup (fx : bool) (s : system) (ivs : list ivar) (avs : list (nat * avar)) (d : vref) : option avar :=
  if fx then lookup_avar avs (ivar_of s ivs d) else lookup_avar_by_var avs d.

Definition make_aeq (s : system) (ivs : list ivar) (es : list ieq) (avs : list (nat * avar)) (j : nat) : option aeq :=
  let e := gete es j in
  let vars := filter_map (lookup_avar avs) (ie_unknown e) in
  let external := forallb (fun a => atype_eqb (av_type a) AExternal) vars in
  let ty := if external then Some QExternal else
            match ie_type e with
            | ETrueConst => Some QTrueConst
            | EVarBasedConst => Some QVarBasedConst
            | EOde => Some QOde
            | ENla => Some QNla
            | EAlgebraic => Some QAlgebraic
            | EUnknown => None
            end in
  match ty with
  | None => None
  | Some t =>
      let vdeps := match t with
                   | QExternal => flat_map (fun p => iv_deps (geti ivs p)) (ie_unknown e)
                   | _ => ie_deps e
                   end in
      let edeps := fold_left (fun acc d => match dep_lookup dependency_fix s ivs avs d with
                                           | Some a => dedup_app acc (av_eqs a)
                                           | None => acc
                                           end) vdeps [] in
      Some (mkAeq j (ie_id e) t (map av_var vars) edeps (ie_nla e) (ie_sibs e))
  end.

(* AnalyserEquationImpl::cleanUpDependencies: drop the dependencies on equations that were never populated *)
Definition clean_deps (populated : list nat) (a : aeq) : aeq :=
  mkAeq (ae_pos a) (ae_id a) (ae_type a) (ae_vars a) (filter (fun j => mem_nat j populated) (ae_deps a)) (ae_nla a) (ae_sibs a).

(* the tail of analyseModel for a model of valid type: dummy equations for the constants, API variables,
   API equations, cleanUpDependencies *)
Definition package (s : system) (ty : mtype) (voi : option vref) (ivs2 : list ivar) (es2 : list ieq) : result :=
  (* a dummy equation for each true constant *)
  let consts := filter (fun p => vtype_eqb (iv_type (geti ivs2 p)) VConstant) (seq 0 (length ivs2)) in
  let es3 := es2 ++ map (new_var_eq ivs2) consts in
  let avs := make_avars es3 ivs2 0 0 0 in
  let aeqs := filter_map (make_aeq s ivs2 es3 avs) (seq 0 (length es3)) in
  let populated := map ae_pos aeqs in
  let aeqs1 := map (clean_deps populated) aeqs in
  mkResult ty [] voi
           (map snd (filter (fun x => atype_eqb (av_type (snd x)) AState) avs))
           (map snd (filter (fun x => negb (atype_eqb (av_type (snd x)) AState)) avs))
           aeqs1 (map ie_id es3).

Definition model_type (voi : option vref) (ivs2 : list ivar) (es2 : list ieq) : mtype :=
  let has_nla := existsb (fun e => is_nla e && existsb (fun p => negb (iv_external (geti ivs2 p))) (ie_unknown e)) es2 in
  match voi with
  | Some _ => if has_nla then MDae else MOde
  | None => match ivs2 with [] => MUnknown | _ => if has_nla then MNla else MAlgebraic end
  end.

Definition finish (s : system) (voi : option vref) (ivs0 : list ivar) (es0 : list ieq) (vidx0 : nat) : result :=
  let '(ivs1, vidx1, iss1) := validate_vars ivs0 vidx0 in
  match iss1 with
  | _ :: _ =>
      let under := existsb (fun v => match iv_type v with VUnknown | VShouldBeState => true | _ => false end) ivs1 in
      let over := existsb (fun v => vtype_eqb (iv_type v) VOverconstrained) ivs1 in
      invalid_result (if under then (if over then MUnsuitably else MUnderconstrained) else MOverconstrained) iss1
  | [] =>
      let es1 := nla_group ivs1 es0 in
      let '(ivs2, es2, _, iss2) := fold_left requalify_step es1 (ivs1, [], [], []) in
      match iss2 with
      | _ :: _ => invalid_result MOverconstrained iss2
      | [] =>
          match model_type voi ivs2 es2 with
          | MUnknown => invalid_result MUnknown []
          | ty => package s ty voi ivs2 es2
          end
      end
  end.

(* externals: (variable, declared dependencies), AnalyserImpl::analyseModel "Mark some variables as external"
   (the messages about non-primary / voi external variables are C20's) *)
Definition mark_external (s : system) (ivs : list ivar) (x : vref * list vref) : list ivar :=
  let p := ivar_of s ivs (fst x) in
  let v := geti ivs p in
  if iv_external v then ivs
  else upd ivs p (set_ext v (map (fun d => iv_var (geti ivs (ivar_of s ivs d))) (snd x))).

Inductive outcome := Malformed                      (* a name that the component lacks: not a validated model *)
                   | OutOfFuel                      (* never happens: AnalysisProofs.loop_terminates *)
                   | Done (r : result).

Definition analyse_ext (s : system) (externals : list (vref * list vref)) : outcome :=
  if negb (resolvable s) then Malformed else
  match build s with
  | None => Malformed
  | Some (ivs0, es0) =>
      let iss0 := check_inits s ivs0 0 s in
      match iss0 with
      | _ :: _ => Done (invalid_result MInvalid iss0)
      | [] =>
          let ivs1 := fold_left (mark_external s) externals ivs0 in
          let vst := analyse_asts s ivs1 es0 in
          match vs_issues vst with
          | _ :: _ => Done (invalid_result MInvalid (vs_issues vst))
          | [] =>
              match loop s (loop_fuel es0) 1 false (mkCs (vs_ivs vst) 0 0) es0 with
              | None => OutOfFuel
              | Some (st, es1) => Done (finish s (vs_voi vst) (cs_ivs st) es1 (cs_vidx st))
              end
          end
      end
  end.

Definition analyse (s : system) : outcome := analyse_ext s [].

(* the first pass alone (sweeps with checkNlaSystems = false until nothing changes): loopNumber 0 never starts
   another pass.  [Some true]: it gave a type to every equation. *)
Definition first_pass (s : system) : option (cstate * list ieq) :=
  match build s with
  | None => None
  | Some (ivs0, es0) =>
      let vst := analyse_asts s ivs0 es0 in
      loop s (loop_fuel es0) 0 false (mkCs (vs_ivs vst) 0 0) es0
  end.
Definition first_pass_complete (s : system) : option bool :=
  match first_pass s with
  | None => None
  | Some (_, es) => Some (count_unknown es =? 0)
  end.
