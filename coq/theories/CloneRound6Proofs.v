(* CloneRound6Proofs.v -- C11 proof depth round 6: independence over arbitrary SEQUENCES of mutations.
   The round-1 theorems speak of one API call; here: any finite sequence of calls, each on an object that is not
   reachable from y, leaves y unchanged; and after clone(), any sequence of calls on objects that existed before the
   call (identity < n; whatever the original has become in between) leaves the clone unchanged, while any sequence of
   calls on objects created by the call or later (identity >= n) leaves the original unchanged. *)
From Coq Require Import List Arith Lia.
From LC Require Import CloneDefs CloneProofs.
Import ListNotations.

Section Seq.
  Context {A : Type} (app : mutation -> A -> A) (oids : A -> list oid).
  Hypothesis indep : forall mu x, ~ In (mut_target mu) (oids x) -> app mu x = x.

  Lemma seq_independent mus x :
    Forall (fun mu => ~ In (mut_target mu) (oids x)) mus -> fold_left (fun y mu => app mu y) mus x = x.
  Proof.
    induction mus as [|mu mus IH]; intros H; [reflexivity|]. inversion H as [|? ? H1 H2]; subst. cbn.
    rewrite (indep mu x H1). apply IH. exact H2.
  Qed.
End Seq.

Theorem independent_seq : forall mus,
  (forall u, Forall (fun mu => ~ In (mut_target mu) (units_oids u)) mus -> fold_left (fun y mu => apply_units mu y) mus u = u) /\
  (forall v, Forall (fun mu => ~ In (mut_target mu) (var_oids v)) mus -> fold_left (fun y mu => apply_variable mu y) mus v = v) /\
  (forall r, Forall (fun mu => ~ In (mut_target mu) (reset_oids r)) mus -> fold_left (fun y mu => apply_reset mu y) mus r = r) /\
  (forall c, Forall (fun mu => ~ In (mut_target mu) (comp_oids c)) mus -> fold_left (fun y mu => apply_component mu y) mus c = c) /\
  (forall m, Forall (fun mu => ~ In (mut_target mu) (model_oids m)) mus -> fold_left (fun y mu => apply_model mu y) mus m = m).
Proof.
  intros mus. repeat split; intros x H.
  - apply (seq_independent apply_units units_oids independent_units); exact H.
  - apply (seq_independent apply_variable var_oids independent_variable); exact H.
  - apply (seq_independent apply_reset reset_oids independent_reset); exact H.
  - apply (seq_independent apply_component comp_oids independent_component); exact H.
  - apply (seq_independent apply_model model_oids independent_model); exact H.
Qed.

Lemma rng_not_lt n n' l o : rng n n' l -> o < n -> ~ In o l.
Proof. unfold rng. rewrite Forall_forall. intros H Ho Hi. specialize (H o Hi). lia. Qed.

Lemma rng_not_ge n l o : rng 0 n l -> n <= o -> ~ In o l.
Proof. unfold rng. rewrite Forall_forall. intros H Ho Hi. specialize (H o Hi). lia. Qed.

Theorem clone_model_independent_seq : forall ext n m m' n' mus,
  clone_model all_fixed ext n m = Some (m', n') ->
  (Forall (fun mu => mut_target mu < n) mus -> fold_left (fun y mu => apply_model mu y) mus m' = m') /\
  (rng 0 n (model_oids m) -> Forall (fun mu => n <= mut_target mu) mus -> fold_left (fun y mu => apply_model mu y) mus m = m).
Proof.
  intros ext n m m' n' mus Hc. apply clone_model_fresh in Hc; [|left; reflexivity]. destruct Hc as (_ & Hn). split.
  - intros H. apply (seq_independent apply_model model_oids independent_model).
    eapply Forall_impl; [|exact H]. intros mu Hmu. cbn beta in Hmu. eapply rng_not_lt; eassumption.
  - intros Ho H. apply (seq_independent apply_model model_oids independent_model).
    eapply Forall_impl; [|exact H]. intros mu Hmu. cbn beta in Hmu. eapply rng_not_ge; eassumption.
Qed.

Theorem clone_component_independent_seq : forall n c c' n' mus,
  clone_component all_fixed n c = (c', n') ->
  (Forall (fun mu => mut_target mu < n) mus -> fold_left (fun y mu => apply_component mu y) mus c' = c') /\
  (rng 0 n (comp_oids c) -> Forall (fun mu => n <= mut_target mu) mus -> fold_left (fun y mu => apply_component mu y) mus c = c).
Proof.
  intros n c c' n' mus Hc. apply clone_component_fresh in Hc; [|left; reflexivity]. destruct Hc as (_ & Hn & _). split.
  - intros H. apply (seq_independent apply_component comp_oids independent_component).
    eapply Forall_impl; [|exact H]. intros mu Hmu. cbn beta in Hmu. eapply rng_not_lt; eassumption.
  - intros Ho H. apply (seq_independent apply_component comp_oids independent_component).
    eapply Forall_impl; [|exact H]. intros mu Hmu. cbn beta in Hmu. eapply rng_not_ge; eassumption.
Qed.
