(** ExternalProofs.v — consequences of the characterisation ExternalMarkProofs.analyse_x_spec: which variables become
    external, which marks do not matter, and that a marked variable is never reported as unused. *)
From Coq Require Import List Bool Arith PeanoNat Lia.
From LC Require Import AnalysisDefs AnalysisSpec AnalysisProofs AnalysisWfProofs AnalysisOwnProofs ExternalDefs ExternalMarkProofs.
Import ListNotations.
Local Open Scope bool_scope.

(* ------------------------------------------------------------------ what the second half of analyseModel keeps *)

(* only mType / mIndex may differ *)
Definition tkeeps (a b : list ivar) : Prop :=
  length b = length a /\
  forall p, iv_cls (geti b p) = iv_cls (geti a p) /\ iv_external (geti b p) = iv_external (geti a p) /\
            iv_var (geti b p) = iv_var (geti a p).

Lemma tkeeps_refl : forall a, tkeeps a a.
Proof. intro a. split; [reflexivity|]. intro p. repeat split; reflexivity. Qed.

Lemma tkeeps_trans : forall a b c, tkeeps a b -> tkeeps b c -> tkeeps a c.
Proof.
  intros a b c (L1 & H1) (L2 & H2). split; [congruence|]. intro p.
  destruct (H1 p) as (A1 & A2 & A3). destruct (H2 p) as (B1 & B2 & B3). repeat split; congruence.
Qed.

Lemma tkeeps_set_type : forall a p t, tkeeps a (upd a p (set_type (geti a p) t)).
Proof.
  intros a p t. split; [apply upd_length|]. intro q. rewrite geti_upd.
  destruct ((q =? p) && (p <? length a)) eqn:E; [|repeat split; reflexivity].
  apply andb_true_iff in E. destruct E as (E & _). apply Nat.eqb_eq in E. subst q. repeat split; reflexivity.
Qed.

Lemma over_fold_keeps : forall l l0 o i,
  tkeeps l0 (fst (fst (fold_left (fun a p => let '(l, o, i) := a in
                                if mem_nat p o then a
                                else (upd l p (set_type (geti l p) VOverconstrained), o ++ [p],
                                      i ++ [mkIssue RComputedTwice (iv_var (geti l p))]))
                    l (l0, o, i)))).
Proof.
  intros l. induction l as [|p t IH]; intros l0 o i; cbn [fold_left]; [apply tkeeps_refl|].
  destruct (mem_nat p o); [apply IH|]. eapply tkeeps_trans; [|apply IH]. apply tkeeps_set_type.
Qed.

Lemma requalify_step_keeps : forall ivs done over iss e ivs' done' over' iss',
  requalify_step (ivs, done, over, iss) e = (ivs', done', over', iss') -> tkeeps ivs ivs'.
Proof.
  intros ivs done over iss e ivs' done' over' iss' H. unfold requalify_step in H.
  destruct (ie_type e); try (inversion H; subst; apply tkeeps_refl).
  - (* variable-based constant *)
    destruct (existsb _ (ie_all e)); inversion H; subst; [apply tkeeps_set_type|apply tkeeps_refl].
  - (* NLA *)
    destruct (length (ie_unknown e) <? length (ie_sibs e) + 1); [|inversion H; subst; apply tkeeps_refl].
    pose proof (over_fold_keeps (ie_unknown e) ivs over iss) as G.
    destruct (fold_left _ (ie_unknown e) (ivs, over, iss)) as [[ivs1 over1] iss1]. inversion H; subst. exact G.
Qed.

Lemma requalify_fold_keeps : forall es ivs done over iss ivs' done' over' iss',
  fold_left requalify_step es (ivs, done, over, iss) = (ivs', done', over', iss') -> tkeeps ivs ivs'.
Proof.
  intros es. induction es as [|e t IH]; intros ivs done over iss ivs' done' over' iss' H; cbn [fold_left] in H.
  - inversion H; subst. apply tkeeps_refl.
  - destruct (requalify_step (ivs, done, over, iss) e) as [[[ivs1 done1] over1] iss1] eqn:E.
    eapply tkeeps_trans; [eapply requalify_step_keeps; exact E|eapply IH; exact H].
Qed.

Lemma evolves_tkeeps_ok : forall s a b, ivs_ok s a -> evolves s a b ->
  length b = length a /\ ivs_ok s b /\
  forall p, p < length a -> iv_cls (geti b p) = iv_cls (geti a p) /\ iv_external (geti b p) = iv_external (geti a p).
Proof.
  intros s a b Hok Hev. split; [apply Hev|]. split; [eapply evolves_ivs_ok; eassumption|].
  intros p Hp. destruct (evolves_geti _ _ _ _ Hev Hp) as (A & B & _). split; assumption.
Qed.

(* the API variables with the internal variable each comes from *)
Lemma make_avars_from : forall es ivs p si vi x, In x (make_avars es ivs p si vi) ->
  exists v, In v ivs /\ atype_of v = Some (av_type (snd x)) /\ av_var (snd x) = iv_var v.
Proof.
  intros es ivs. induction ivs as [|v r IH]; intros p si vi x H; cbn [make_avars] in H; [destruct H|].
  destruct (atype_of v) as [t|] eqn:E.
  - destruct t; destruct H as [<-|H];
      try (exists v; split; [left; reflexivity|]; split; [exact E|reflexivity]);
      destruct (IH _ _ _ _ H) as (w & W1 & W2 & W3); exists w; (split; [right; exact W1|]); split; assumption.
  - destruct (IH _ _ _ _ H) as (w & W1 & W2 & W3). exists w. split; [right; exact W1|]. split; assumption.
Qed.

Lemma make_avars_all : forall es ivs p si vi v t, In v ivs -> atype_of v = Some t ->
  exists x, In x (make_avars es ivs p si vi) /\ av_type (snd x) = t /\ av_var (snd x) = iv_var v.
Proof.
  intros es ivs. induction ivs as [|w r IH]; intros p si vi v t Hin Ht; [destruct Hin|].
  cbn [make_avars]. destruct Hin as [->|Hin].
  - rewrite Ht. destruct t; eexists; (split; [left; reflexivity|]); split; reflexivity.
  - destruct (atype_of w) as [tw|].
    + destruct tw;
        [destruct (IH (S p) (S si) vi v t Hin Ht) as (x & X1 & X2 & X3)
        |destruct (IH (S p) si (S vi) v t Hin Ht) as (x & X1 & X2 & X3)
        |destruct (IH (S p) si (S vi) v t Hin Ht) as (x & X1 & X2 & X3)
        |destruct (IH (S p) si (S vi) v t Hin Ht) as (x & X1 & X2 & X3)
        |destruct (IH (S p) si (S vi) v t Hin Ht) as (x & X1 & X2 & X3)];
        exists x; (split; [right; exact X1|]); split; assumption.
    + destruct (IH (S p) si vi v t Hin Ht) as (x & X1 & X2 & X3). exists x. split; [exact X1|]. split; assumption.
Qed.

Lemma atype_external : forall v, atype_of v = Some AExternal <-> iv_external v = true.
Proof.
  intro v. unfold atype_of. destruct (iv_external v); [split; reflexivity|].
  split; [|discriminate]. destruct (iv_type v); discriminate.
Qed.

Lemma all_avars_package : forall s ty voi ivs es a,
  In a (all_avars (package s ty voi ivs es)) <->
  exists es3, In a (map snd (make_avars es3 ivs 0 0 0)) /\ es3 = es ++ map (new_var_eq ivs) (filter (fun p => vtype_eqb (iv_type (geti ivs p)) VConstant) (seq 0 (length ivs))).
Proof.
  intros s ty voi ivs es a. unfold package, all_avars. cbn [r_states r_vars].
  set (es3 := es ++ _). set (avs := make_avars es3 ivs 0 0 0). split.
  - intro H. exists es3. split; [|reflexivity]. apply in_app_or in H.
    destruct H as [H|H]; apply in_map_iff in H; destruct H as (x & <- & Hx); apply filter_In in Hx; apply in_map; apply Hx.
  - intros (es3' & H & ->). fold es3 in H. fold avs in H. apply in_map_iff in H. destruct H as (x & <- & Hx).
    apply in_or_app. destruct (atype_eqb (av_type (snd x)) AState) eqn:E.
    + left. apply in_map. apply filter_In. split; assumption.
    + right. apply in_map. apply filter_In. split; [assumption|]. rewrite E. reflexivity.
Qed.

Lemma package_vars : forall s ty voi ivs es,
  r_voi (package s ty voi ivs es) = voi /\
  (forall a, In a (all_avars (package s ty voi ivs es)) ->
     exists v, In v ivs /\ atype_of v = Some (av_type a) /\ av_var a = iv_var v) /\
  (forall v t, In v ivs -> atype_of v = Some t ->
     exists a, In a (all_avars (package s ty voi ivs es)) /\ av_type a = t /\ av_var a = iv_var v).
Proof.
  intros s ty voi ivs es. split; [reflexivity|]. split.
  - intros a Ha. apply all_avars_package in Ha. destruct Ha as (es3 & Ha & _).
    apply in_map_iff in Ha. destruct Ha as (x & <- & Hx). eapply make_avars_from. exact Hx.
  - intros v t Hv Ht.
    set (es3 := es ++ map (new_var_eq ivs) (filter (fun p => vtype_eqb (iv_type (geti ivs p)) VConstant) (seq 0 (length ivs)))).
    destruct (make_avars_all es3 ivs 0 0 0 v t Hv Ht) as (x & X1 & X2 & X3).
    exists (snd x). split; [|split; assumption]. apply all_avars_package. exists es3. split; [apply in_map; exact X1|reflexivity].
Qed.

(** The API variables of a valid result, read off the internal variables with which the loop was entered. *)
Lemma tail_variables : forall s es0 voi ivs2 hx r h,
  ivs_ok s ivs2 -> Forall (eq_inv ivs2) es0 ->
  tail_y s es0 voi ivs2 hx = (Done r, h) -> valid_type (r_type r) = true ->
  r_voi r = voi /\
  (forall a, In a (all_avars r) ->
     exists p, p < length ivs2 /\ iv_cls (geti ivs2 p) = cls_of s (av_var a) /\
               (av_type a = AExternal <-> iv_external (geti ivs2 p) = true)) /\
  (forall p, p < length ivs2 -> iv_external (geti ivs2 p) = true ->
     exists a, In a (all_avars r) /\ av_type a = AExternal /\ cls_of s (av_var a) = iv_cls (geti ivs2 p)).
Proof.
  intros s es0 voi ivs2 hx r h Hok Heq H Hvalid. unfold tail_y in H.
  destruct (loop s (loop_fuel es0) 1 false (mkCs ivs2 0 0) es0) as [[st es1]|] eqn:El; [|discriminate].
  inversion H; subst r. clear H.
  destruct (loop_inv _ _ _ _ _ _ _ _ El Heq) as (L1 & L2). cbn [cs_ivs] in *.
  set (es1x := map (nla_ext_deps nla_dep_fix (cs_ivs st)) es1) in *.
  unfold finish in *.
  destruct (validate_vars (cs_ivs st) (cs_vidx st)) as [[ivs1 vidx1] iss1] eqn:Ev.
  destruct (validate_vars_spec s _ _ _ _ _ Ev) as (V1 & V2).
  destruct iss1 as [|i1 ir1].
  2:{ cbn in Hvalid. destruct (existsb _ ivs1); [destruct (existsb _ ivs1)|]; discriminate. }
  pose proof (Forall2_evolves _ _ _ V1) as Hev1.
  pose proof (evolves_trans _ _ _ _ L1 Hev1) as Hev.
  destruct (evolves_tkeeps_ok s ivs2 ivs1 Hok Hev) as (Len1 & Hok1 & K1).
  destruct (fold_left requalify_step (nla_group ivs1 es1x) (ivs1, [], [], [])) as [[[ivsF esF] ov] iss2] eqn:Er.
  destruct iss2 as [|i2 ir2]; [|discriminate].
  destruct (requalify_fold_keeps _ _ _ _ _ _ _ _ _ Er) as (LenF & KF).
  assert (Hpack : forall ty,
    r_voi (package s ty voi ivsF esF) = voi /\
    (forall a, In a (all_avars (package s ty voi ivsF esF)) ->
       exists p, p < length ivs2 /\ iv_cls (geti ivs2 p) = cls_of s (av_var a) /\
                 (av_type a = AExternal <-> iv_external (geti ivs2 p) = true)) /\
    (forall p, p < length ivs2 -> iv_external (geti ivs2 p) = true ->
       exists a, In a (all_avars (package s ty voi ivsF esF)) /\ av_type a = AExternal /\ cls_of s (av_var a) = iv_cls (geti ivs2 p))).
  { intro ty. destruct (package_vars s ty voi ivsF esF) as (P1 & P2 & P3). split; [exact P1|]. split.
    - intros a Ha. destruct (P2 a Ha) as (v & Hv & Ht & Hvar).
      apply In_nth with (d := divar) in Hv. destruct Hv as (p & Hp & Hnth). fold (geti ivsF p) in Hnth. subst v.
      assert (Hp2 : p < length ivs2) by lia.
      destruct (K1 p Hp2) as (C1 & X1). destruct (KF p) as (C2 & X2 & W2).
      exists p. split; [exact Hp2|]. split.
      + rewrite Hvar, W2. destruct (ivs_ok_geti s ivs1 p Hok1) as (_ & J & _); [lia|]. rewrite J. symmetry. exact C1.
      + rewrite <- X1, <- X2. rewrite <- atype_external. split; [intro E; rewrite <- E; exact Ht|intro E; rewrite E in Ht; inversion Ht; reflexivity].
    - intros p Hp Hx. destruct (K1 p Hp) as (C1 & X1). destruct (KF p) as (C2 & X2 & W2).
      assert (HpF : p < length ivsF) by lia.
      assert (Hext : atype_of (geti ivsF p) = Some AExternal) by (apply atype_external; congruence).
      destruct (P3 (geti ivsF p) AExternal (geti_In _ _ HpF) Hext) as (a & A1 & A2 & A3).
      exists a. split; [exact A1|]. split; [exact A2|].
      rewrite A3, W2. destruct (ivs_ok_geti s ivs1 p Hok1) as (_ & J & _); [lia|]. rewrite J. exact C1. }
  destruct (model_type voi ivsF esF); try discriminate Hvalid; apply Hpack.
Qed.

(* ------------------------------------------------------------------ the unmarked first stages *)

Lemma asts_facts : forall s ivs0 es0, build s = Some (ivs0, es0) ->
  vs_issues (analyse_asts s ivs0 es0) = [] ->
  let U := vs_ivs (analyse_asts s ivs0 es0) in
  let voi := vs_voi (analyse_asts s ivs0 es0) in
  ivs_ok s U /\ length U = length ivs0 /\ Forall plain U /\ kept ivs0 U /\
  (forall p, p < length U ->
     (iv_type (geti U p) = VVoi <-> exists v, voi = Some v /\ cls_of s v = iv_cls (geti U p))).
Proof.
  intros s ivs0 es0 Hb Hi. cbv zeta.
  destruct (build_spec _ _ _ Hb) as (B1 & B2 & B3).
  pose proof (build_fresh _ _ _ Hb) as B4.
  destruct (analyse_asts_inv s ivs0 es0 B1 B3 B4 B2 Hi) as ((I1 & I2 & I3 & I4 & I5) & Hlen).
  assert (HA : Forall asts_iv ivs0).
  { eapply Forall_impl; [|exact B4]. intros v ([T|T] & _ & I); split; try exact I; rewrite T; reflexivity. }
  assert (Hpos : forall e d, In e es0 -> In d (ie_diffs e) -> ivar_of s ivs0 (snd d) < length ivs0).
  { intros e d He Hd. rewrite Forall_forall in B2. destruct (B2 e He) as (D & _). rewrite Forall_forall in D.
    destruct (D d Hd) as (_ & R). apply ivar_of_spec; [exact B1|]. apply B3; [exact R|]. apply in_range_comp in R. apply R. }
  destruct (analyse_asts_types s ivs0 es0 HA Hpos) as (T1 & _ & _).
  split; [exact I1|]. split; [exact Hlen|].
  split; [apply analyse_asts_plain; eapply build_plain; exact Hb|].
  split; [apply analyse_asts_kept|].
  intros p Hp. split.
  - intro Ht. apply I3; assumption.
  - intros (v & Hv & Hc). destruct (I4 v Hv) as (_ & q & Hq & Hqc & Hqt).
    assert (q = p).
    { apply (cls_pos_unique _ q p (proj1 I1) Hq Hp). congruence. }
    subst q. destruct Hqt as [K|K]; [exact K|].
    rewrite Forall_forall in T1. destruct (T1 _ (geti_In _ _ Hp)) as (A & _). rewrite K in A. discriminate.
Qed.

Lemma remark_ivs_ok : forall s f U, ivs_ok s U -> ivs_ok s (remark f 0 U).
Proof.
  intros s f U (Hnd & Hok). split; [rewrite remark_cls; exact Hnd|].
  rewrite Forall_forall. intros v Hv. apply In_nth with (d := divar) in Hv. destruct Hv as (p & Hp & <-).
  rewrite remark_length in Hp. fold (geti (remark f 0 U) p). rewrite remark_geti by exact Hp.
  rewrite Forall_forall in Hok. specialize (Hok _ (geti_In _ _ Hp)).
  destruct (f (0 + p)); [|exact Hok]. exact Hok.
Qed.

Lemma remark_external : forall f U p, Forall plain U -> p < length U ->
  (iv_external (geti (remark f 0 U) p) = true <-> f p <> None).
Proof.
  intros f U p HU Hp. rewrite remark_geti by exact Hp. cbn [Nat.add].
  rewrite Forall_forall in HU. destruct (HU _ (geti_In _ _ Hp)) as (A & _).
  destruct (f p); cbn [apply_mark]; [split; [discriminate|reflexivity]|]. rewrite A. split; [discriminate|congruence].
Qed.

Lemma marked_classes_In : forall s marks k,
  In k (marked_classes s marks) <-> exists m r, In m marks /\ xm_var m = XLocal r /\ cls_of s r = k.
Proof.
  intros s marks k. unfold marked_classes. induction marks as [|m t IH]; cbn [filter_map].
  - split; [intros []|intros (m & r & [] & _)].
  - destruct (xm_var m) as [r|j] eqn:Ev; cbn [local_of option_map].
    + cbn [In]. rewrite IH. split.
      * intros [H|(m1 & r1 & A & B & C)]; [exists m, r; split; [left; reflexivity|split; assumption]|].
        exists m1, r1. split; [right; exact A|]. split; assumption.
      * intros (m1 & r1 & [->|A] & B & C); [left; congruence|]. right. exists m1, r1. split; [exact A|]. split; assumption.
    + rewrite IH. split.
      * intros (m1 & r1 & A & B & C). exists m1, r1. split; [right; exact A|]. split; assumption.
      * intros (m1 & r1 & [->|A] & B & C); [congruence|]. exists m1, r1. split; [exact A|]. split; assumption.
Qed.

Lemma rescue_geti_keeps : forall b X p, p < length X ->
  iv_cls (geti (map (state_rescue b) X) p) = iv_cls (geti X p) /\
  iv_external (geti (map (state_rescue b) X) p) = iv_external (geti X p) /\
  (iv_type (geti (map (state_rescue b) X) p) = iv_type (geti X p) \/
   (iv_type (geti X p) = VShouldBeState /\ iv_type (geti (map (state_rescue b) X) p) = VState)).
Proof.
  intros b X p Hp. rewrite geti_map by exact Hp. destruct (state_rescue_keeps b (geti X p)) as (A & B & _ & _ & C).
  split; [exact A|]. split; [exact B|exact C].
Qed.

Lemma rescue_ok : forall s b X es, ivs_ok s X -> Forall (eq_inv X) es ->
  ivs_ok s (map (state_rescue b) X) /\ Forall (eq_inv (map (state_rescue b) X)) es.
Proof.
  intros s b X es Hok Heq. pose proof (state_rescue_evolves s b X) as Hev.
  split; [eapply evolves_ivs_ok; eassumption|]. eapply Forall_impl; [|exact Heq]. intros e He. eapply eq_inv_evolves; eassumption.
Qed.

(** externals_exact: in a valid result of the repaired code, a variable is of type EXTERNAL exactly when its class
    is marked through a variable of the model and is not the class of the variable of integration. *)
Theorem externals_exact : forall s marks r,
  marks_in_range s marks -> xr_outcome (analyse_x true s marks) = Done r -> valid_type (r_type r) = true ->
  forall a, In a (all_avars r) ->
    (av_type a = AExternal <->
     In (cls_of s (av_var a)) (marked_classes s marks) /\ is_voi_class s r (cls_of s (av_var a)) = false).
Proof.
  intros s marks r Hr Ho Hvalid a Ha.
  pose proof (analyse_x_spec s marks Hr) as Hspec. rewrite Ho in Hspec. unfold spec_x in Hspec.
  destruct (negb (resolvable s)); [discriminate|].
  destruct (build s) as [[ivs0 es0]|] eqn:Eb; [|discriminate].
  destruct (check_inits s ivs0 0 s) as [|i0 ir0]; [|inversion Hspec; subst; discriminate]. cbv zeta in Hspec.
  destruct (vs_issues (analyse_asts s ivs0 es0)) as [|i1 ir1] eqn:Ei; [|inversion Hspec; subst; discriminate].
  destruct (asts_facts s ivs0 es0 Eb Ei) as (Uok & Ulen & Uplain & Ukept & Uvoi). cbv zeta in *.
  set (U := vs_ivs (analyse_asts s ivs0 es0)) in *. set (voi := vs_voi (analyse_asts s ivs0 es0)) in *.
  set (f := eff s ivs0 U marks) in *.
  destruct (build_spec _ _ _ Eb) as (B1 & B2 & B3).
  assert (Hok2 : ivs_ok s (remark f 0 U)) by (apply remark_ivs_ok; exact Uok).
  assert (Heq2 : Forall (eq_inv (remark f 0 U)) es0).
  { eapply Forall_impl; [|exact B2]. intros e He. eapply eq_ok_eq_inv. rewrite remark_length, Ulen. exact He. }
  symmetry in Hspec. unfold tail_x in Hspec.
  destruct (rescue_ok s state_rescue_fix _ _ Hok2 Heq2) as (Hok2R & Heq2R).
  destruct (tail_variables s es0 voi _ _ r _ Hok2R Heq2R Hspec Hvalid) as (Hvoi & Hvars & _).
  destruct (Hvars a Ha) as (p & Hp & Hc & Hx). rewrite map_length, remark_length in Hp.
  assert (HpR : p < length (remark f 0 U)) by (rewrite remark_length; exact Hp).
  destruct (rescue_geti_keeps state_rescue_fix (remark f 0 U) p HpR) as (RC & RX & _). rewrite RC in Hc. rewrite RX in Hx.
  rewrite Hx. rewrite (remark_external f U p Uplain Hp).
  rewrite remark_geti in Hc by exact Hp. rewrite apply_mark_cls in Hc.
  destruct Ukept as (_ & Ukept). destruct (Ukept p) as (Kc & _).
  assert (Hp0 : p < length ivs0) by lia.
  unfold is_voi_class, voi_class. rewrite Hvoi.
  (* the variable of integration *)
  assert (Hv : iv_type (geti U p) = VVoi <-> match option_map (cls_of s) voi with Some c => c =? cls_of s (av_var a) | None => false end = true).
  { rewrite (Uvoi p Hp). split.
    - intros (v & -> & E). cbn. apply Nat.eqb_eq. congruence.
    - destruct voi as [v|]; cbn; [|discriminate]. intro E. apply Nat.eqb_eq in E. exists v. split; [reflexivity|congruence]. }
  (* the marks *)
  assert (Hm : first_mark s ivs0 marks p <> None <-> In (cls_of s (av_var a)) (marked_classes s marks)).
  { rewrite marked_classes_In. split.
    - intro Hn. destruct (first_mark s ivs0 marks p) as [d|] eqn:Ef; [|congruence].
      destruct (first_mark_some _ _ _ _ _ Ef) as (m & r0 & M1 & M2 & M3). exists m, r0. split; [exact M1|]. split; [exact M2|].
      assert (Hrange : in_range s r0 = true).
      { unfold marks_in_range in Hr. rewrite Forall_forall in Hr. specialize (Hr m M1). rewrite M2 in Hr. exact Hr. }
      destruct (key_position s ivs0 r0 B1 B3 Hrange) as (_ & K2 & _). rewrite M3 in K2. congruence.
    - intros (m & r0 & M1 & M2 & M3) Hn.
      assert (Hrange : in_range s r0 = true).
      { unfold marks_in_range in Hr. rewrite Forall_forall in Hr. specialize (Hr m M1). rewrite M2 in Hr. exact Hr. }
      destruct (key_position s ivs0 r0 B1 B3 Hrange) as (K1 & K2 & _).
      apply (first_mark_none _ _ _ _ Hn m r0 M1 M2).
      apply (cls_pos_unique ivs0 _ _ (proj1 B1) K1 Hp0). congruence. }
  unfold f, eff. destruct (vtype_eqb (iv_type (geti U p)) VVoi) eqn:Et.
  - apply vtype_eqb_eq in Et. apply Hv in Et. rewrite Et. split; [congruence|intros (_ & K); discriminate].
  - assert (Hnv : match option_map (cls_of s) voi with Some c => c =? cls_of s (av_var a) | None => false end = false).
    { apply Bool.not_true_is_false. intro E. apply Hv in E. apply vtype_eqb_eq in E. congruence. }
    rewrite Hnv. rewrite Hm. split; [intro K; split; [exact K|reflexivity]|intros (K & _); exact K].
Qed.

(* ------------------------------------------------------------------ marks that do not matter *)

Corollary same_effect_same_analysis' : forall s marks marks',
  marks_in_range s marks -> marks_in_range s marks' ->
  (forall ivs0 es0, build s = Some (ivs0, es0) -> vs_issues (analyse_asts s ivs0 es0) = [] ->
     forall p, p < length ivs0 ->
       eff s ivs0 (vs_ivs (analyse_asts s ivs0 es0)) marks p = eff s ivs0 (vs_ivs (analyse_asts s ivs0 es0)) marks' p) ->
  xr_outcome (analyse_x true s marks) = xr_outcome (analyse_x true s marks') /\
  xr_has_ext (analyse_x true s marks) = xr_has_ext (analyse_x true s marks').
Proof.
  intros s marks marks' H1 H2 He.
  pose proof (analyse_x_spec s marks H1) as A. pose proof (analyse_x_spec s marks' H2) as B.
  assert (E : spec_x s marks = spec_x s marks').
  { unfold spec_x. destruct (negb (resolvable s)); [reflexivity|].
    destruct (build s) as [[ivs0 es0]|] eqn:Eb; [|reflexivity].
    destruct (check_inits s ivs0 0 s); [|reflexivity]. cbv zeta.
    destruct (vs_issues (analyse_asts s ivs0 es0)) eqn:Ei; [|reflexivity].
    f_equal. apply remark_ext. intros p Hp. cbn [Nat.add]. apply (He ivs0 es0 eq_refl Ei).
    destruct (analyse_asts_kept s ivs0 es0) as (L & _). lia. }
  rewrite E in A. rewrite <- B in A. inversion A. split; reflexivity.
Qed.

Lemma marks_in_range_filter : forall s f marks, marks_in_range s marks -> marks_in_range s (filter f marks).
Proof. intros s f marks H. unfold marks_in_range in *. apply Forall_filter. exact H. Qed.

(* a variable of another model *)
Lemma first_mark_local : forall s ivs0 marks p,
  first_mark s ivs0 (filter is_local_mark marks) p = first_mark s ivs0 marks p.
Proof.
  intros s ivs0 marks p. induction marks as [|m t IH]; [reflexivity|].
  cbn [filter]. unfold is_local_mark at 1. cbn [first_mark]. destruct (xm_var m) as [r|k] eqn:Ev; cbn [local_of].
  - cbn [first_mark]. rewrite Ev. cbn [local_of]. rewrite IH. reflexivity.
  - exact IH.
Qed.

Theorem foreign_marks_ignored : forall s marks, marks_in_range s marks ->
  xr_outcome (analyse_x true s marks) = xr_outcome (analyse_x true s (filter is_local_mark marks)) /\
  xr_has_ext (analyse_x true s marks) = xr_has_ext (analyse_x true s (filter is_local_mark marks)).
Proof.
  intros s marks Hr. apply same_effect_same_analysis; [exact Hr|apply marks_in_range_filter; exact Hr|].
  intros ivs0 es0 _ p _. unfold eff. rewrite first_mark_local. reflexivity.
Qed.

(* another member of the same class *)
Lemma ivar_of_same_class : forall s ivs r r', cls_of s r = cls_of s r' -> ivar_of s ivs r = ivar_of s ivs r'.
Proof.
  intros s ivs r r' H. unfold ivar_of, internal_variable. unfold cls_of in H. rewrite H.
  destruct (find_index _ ivs); reflexivity.
Qed.

Lemma first_mark_same_class : forall s ivs0 marks marks' p, Forall2 (same_class_mark s) marks marks' ->
  first_mark s ivs0 marks p = first_mark s ivs0 marks' p.
Proof.
  intros s ivs0 marks marks' p H. induction H as [|m m' t t' (Hd & Hv) Ht IH]; [reflexivity|].
  cbn [first_mark]. destruct (xm_var m) as [r|k]; destruct (xm_var m') as [r'|k']; try contradiction; cbn [local_of].
  - rewrite (ivar_of_same_class s ivs0 r r' Hv). unfold ext_deps, local_deps. rewrite Hd, IH. reflexivity.
  - exact IH.
Qed.

Theorem member_choice_irrelevant : forall s marks marks',
  marks_in_range s marks -> marks_in_range s marks' -> Forall2 (same_class_mark s) marks marks' ->
  xr_outcome (analyse_x true s marks) = xr_outcome (analyse_x true s marks') /\
  xr_has_ext (analyse_x true s marks) = xr_has_ext (analyse_x true s marks').
Proof.
  intros s marks marks' H1 H2 H. apply same_effect_same_analysis; [exact H1|exact H2|].
  intros ivs0 es0 _ p _. unfold eff. rewrite (first_mark_same_class s ivs0 marks marks' p H). reflexivity.
Qed.

(* the variable of integration *)
Theorem voi_marks_ignored : forall s marks, marks_in_range s marks ->
  xr_outcome (analyse_x true s marks) = xr_outcome (analyse_x true s (filter (fun m => negb (is_voi_mark s m)) marks)) /\
  xr_has_ext (analyse_x true s marks) = xr_has_ext (analyse_x true s (filter (fun m => negb (is_voi_mark s m)) marks)).
Proof.
  intros s marks Hr. apply same_effect_same_analysis'; [exact Hr|apply marks_in_range_filter; exact Hr|].
  intros ivs0 es0 Eb Ei p Hp. unfold eff.
  destruct (vtype_eqb (iv_type (geti (vs_ivs (analyse_asts s ivs0 es0)) p)) VVoi) eqn:Et; [reflexivity|].
  destruct (asts_facts s ivs0 es0 Eb Ei) as (Uok & Ulen & Uplain & Ukept & Uvoi). cbv zeta in *.
  destruct (build_spec _ _ _ Eb) as (B1 & B2 & B3).
  set (U := vs_ivs (analyse_asts s ivs0 es0)) in *.
  induction marks as [|m t IH]; [reflexivity|].
  inversion Hr as [|? ? Hm Ht]; subst. specialize (IH Ht).
  cbn [filter]. unfold is_voi_mark at 1. unfold model_voi. rewrite Eb.
  destruct (xm_var m) as [r|k] eqn:Ev.
  - destruct (vs_voi (analyse_asts s ivs0 es0)) as [v|] eqn:Evoi.
    + destruct (cls_of s r =? cls_of s v) eqn:Ec; cbn [negb].
      * (* a mark on the variable of integration: it lands on a position of type VVoi, hence not on p *)
        cbn [first_mark]. rewrite Ev. cbn [local_of].
        destruct (key_position s ivs0 r B1 B3 Hm) as (K1 & K2 & _).
        destruct (ivar_of s ivs0 r =? p) eqn:Eq; [|exact IH]. exfalso.
        apply Nat.eqb_eq in Eq. rewrite Eq in K2. apply Nat.eqb_eq in Ec.
        assert (Hvoi : iv_type (geti U p) = VVoi).
        { apply Uvoi; [lia|]. exists v. split; [reflexivity|]. destruct Ukept as (_ & Uk). destruct (Uk p) as (Kc & _). congruence. }
        rewrite Hvoi in Et. discriminate.
      * cbn [first_mark]. rewrite Ev. cbn [local_of]. rewrite IH. reflexivity.
    + cbn [negb first_mark]. rewrite Ev. cbn [local_of]. rewrite IH. reflexivity.
  - cbn [negb first_mark]. rewrite Ev. cbn [local_of]. exact IH.
Qed.

(* ------------------------------------------------------------------ a marked variable is never reported as unused *)

(* every external variable has a type *)
Definition ext_known (ivs : list ivar) : Prop := forall q, iv_external (geti ivs q) = true -> iv_type (geti ivs q) <> VUnknown.

Lemma check_known : forall s nla st e st' e' b,
  check s nla st e = (st', e', b) -> eq_inv (cs_ivs st) e ->
  forall q, iv_type (geti (cs_ivs st) q) <> VUnknown -> iv_type (geti (cs_ivs st') q) <> VUnknown.
Proof.
  intros s nla st e st' e' b H Hinv q Hq.
  destruct (etype_eqb (ie_type e) EUnknown) eqn:Et.
  2:{ unfold check in H. rewrite Et in H. cbn [negb] in H. inversion H; subst. exact Hq. }
  assert (Hty : ie_type e = EUnknown) by (destruct (ie_type e); try discriminate; reflexivity).
  pose proof (check_cases s nla st e st' e' b H Hty Hinv) as Hc. cbv zeta in Hc.
  destruct Hc as [(_ & _ & _ & (_ & K))|[(p & _ & _ & _ & _ & _ & Hoth & _ & _ & Hp & _)|(inits & _ & _ & _ & _ & _ & Hin & Hout)]].
  - destruct (K q) as (_ & [E|[(_ & E)|E]]); rewrite E; try exact Hq; discriminate.
  - destruct (Nat.eq_dec q p) as [->|Hne].
    + destruct Hp as [(A & _)|(_ & B)]; [contradiction|]. rewrite B. exact Hq.
    + rewrite (Hoth q Hne). exact Hq.
  - destruct (in_dec Nat.eq_dec q inits) as [Hi|Hi].
    + destruct (Hin q Hi) as (_ & _ & E & _). rewrite E. discriminate.
    + destruct (Hout q Hi) as (E & _). rewrite E. exact Hq.
Qed.

Lemma evolves_external : forall s a b q, evolves s a b -> iv_external (geti b q) = iv_external (geti a q).
Proof.
  intros s a b q (L & H). destruct (Nat.lt_ge_cases q (length a)) as [Hq|Hq].
  - destruct (H q Hq) as (_ & E & _). exact E.
  - rewrite !geti_beyond by lia. reflexivity.
Qed.

Lemma sweep_known : forall s nla es st st' es' b,
  sweep s nla st es = (st', es', b) -> Forall (eq_inv (cs_ivs st)) es ->
  (forall q, iv_type (geti (cs_ivs st) q) <> VUnknown -> iv_type (geti (cs_ivs st') q) <> VUnknown).
Proof.
  intros s nla es. induction es as [|e r IH]; intros st st' es' b H Hinv q Hq; cbn [sweep] in H.
  - inversion H; subst. exact Hq.
  - destruct (check s nla st e) as [[st1 e1] b1] eqn:Ec. destruct (sweep s nla st1 r) as [[st2 r1] b2] eqn:Es.
    inversion H; subst. inversion Hinv as [|? ? He Hr]; subst.
    destruct (check_inv _ _ _ _ _ _ _ Ec He) as (Hev & _).
    eapply IH; [exact Es| |].
    + eapply Forall_impl; [|exact Hr]. intros x Hx. eapply eq_inv_evolves; eassumption.
    + eapply check_known; eassumption.
Qed.

Lemma ext_known_step : forall s a b, evolves s a b ->
  (forall q, iv_type (geti a q) <> VUnknown -> iv_type (geti b q) <> VUnknown) -> ext_known a -> ext_known b.
Proof.
  intros s a b Hev Hk Ha q Hq. apply Hk. apply Ha. rewrite <- (evolves_external s a b q Hev). exact Hq.
Qed.

Lemma loop_ext_known : forall s fuel loopn nla st es st' es',
  loop s fuel loopn nla st es = Some (st', es') -> Forall (eq_inv (cs_ivs st)) es ->
  (loopn = 1 \/ loopn = 2 \/ ext_known (cs_ivs st)) -> ext_known (cs_ivs st').
Proof.
  intros s fuel. induction fuel as [|f IH]; intros loopn nla st es st' es' H Hinv Hstart; [discriminate|].
  cbn [loop] in H. destruct (sweep s nla st es) as [[st1 es1] rel] eqn:Hs.
  destruct (sweep_inv _ _ _ _ _ _ _ Hs Hinv) as (A1 & A2).
  pose proof (sweep_known _ _ _ _ _ _ _ Hs Hinv) as Hk.
  assert (Hstart1 : loopn = 1 \/ loopn = 2 \/ ext_known (cs_ivs st1)).
  { destruct Hstart as [E|[E|E]]; [left; exact E|right; left; exact E|right; right]. eapply ext_known_step; eassumption. }
  destruct rel; [eapply IH; eassumption|].
  destruct ((loopn =? 1) || (loopn =? 3)) eqn:E13.
  { eapply IH; [exact H|exact A2|].
    apply orb_true_iff in E13. destruct E13 as [E|E]; apply Nat.eqb_eq in E; subst loopn.
    - right. left. reflexivity.
    - right. right. destruct Hstart1 as [K|[K|K]]; [discriminate|discriminate|exact K]. }
  destruct (loopn =? 2) eqn:E2.
  - set (ivs2 := map (fun v => if iv_external v && vtype_eqb (iv_type v) VUnknown then set_type v VInitialised else v) (cs_ivs st1)) in *.
    assert (Hk2 : ext_known ivs2).
    { intros q Hq. destruct (Nat.lt_ge_cases q (length (cs_ivs st1))) as [Lq|Lq].
      - unfold ivs2 in *. rewrite geti_map in * by exact Lq.
        destruct (iv_external (geti (cs_ivs st1) q) && vtype_eqb (iv_type (geti (cs_ivs st1) q)) VUnknown) eqn:Eb; [discriminate|].
        rewrite Hq in Eb. cbn [andb] in Eb. intro K. rewrite K in Eb. discriminate.
      - rewrite geti_beyond in Hq by (unfold ivs2; rewrite map_length; exact Lq). discriminate. }
    destruct (existsb iv_external (cs_ivs st1)).
    + eapply IH; [exact H| |right; right; exact Hk2]. cbn [cs_ivs].
      assert (Hev : evolves s (cs_ivs st1) ivs2).
      { apply map_evolves. intro v. destruct (iv_external v && vtype_eqb (iv_type v) VUnknown) eqn:E; [|apply step_ok_refl].
        apply andb_true_iff in E. destruct E as (_ & E). apply vtype_eqb_eq in E. apply set_type_step. rewrite E.
        unfold tok. repeat split; intros; try discriminate; auto. }
      eapply Forall_impl; [|exact A2]. intros x Hx. eapply eq_inv_evolves; eassumption.
    + inversion H; subst. exact Hk2.
  - inversion H; subst. destruct Hstart1 as [K|[K|K]]; [subst; discriminate|subst; discriminate|exact K].
Qed.

Lemma validate_vars_unused : forall ivs vidx ivs1 n iss i,
  validate_vars ivs vidx = (ivs1, n, iss) -> In i iss -> is_rule i = RUnused ->
  exists v, In v ivs /\ iv_type v = VUnknown /\ is_item i = iv_var v.
Proof.
  intros ivs. induction ivs as [|v r IH]; intros vidx ivs1 n iss i H Hin Hr; cbn [validate_vars] in H.
  - inversion H; subst. destruct Hin.
  - destruct (iv_type v) eqn:Et;
      try (destruct (validate_vars r vidx) as [[r1 n1] i1] eqn:E; inversion H; subst;
           destruct (IH _ _ _ _ _ E Hin Hr) as (w & W1 & W2 & W3); exists w; (split; [right; exact W1|]); split; assumption).
    + destruct (validate_vars r vidx) as [[r1 n1] i1] eqn:E. inversion H; subst. destruct Hin as [<-|Hin].
      * exists v. split; [left; reflexivity|]. split; [exact Et|reflexivity].
      * destruct (IH _ _ _ _ _ E Hin Hr) as (w & W1 & W2 & W3). exists w. split; [right; exact W1|]. split; assumption.
    + destruct (validate_vars r vidx) as [[r1 n1] i1] eqn:E. inversion H; subst. destruct Hin as [<-|Hin]; [discriminate|].
      destruct (IH _ _ _ _ _ E Hin Hr) as (w & W1 & W2 & W3). exists w. split; [right; exact W1|]. split; assumption.
    + destruct (validate_vars r (S vidx)) as [[r1 n1] i1] eqn:E. inversion H; subst.
      destruct (IH _ _ _ _ _ E Hin Hr) as (w & W1 & W2 & W3). exists w. split; [right; exact W1|]. split; assumption.
    + destruct (validate_vars r vidx) as [[r1 n1] i1] eqn:E. inversion H; subst. destruct Hin as [<-|Hin]; [discriminate|].
      destruct (IH _ _ _ _ _ E Hin Hr) as (w & W1 & W2 & W3). exists w. split; [right; exact W1|]. split; assumption.
Qed.

Definition not_unused (i : issue) : Prop := is_rule i <> RUnused.

Lemma over_fold_rules : forall l l0 o i,
  Forall not_unused i ->
  Forall not_unused (snd (fold_left (fun a p => let '(l, o, i) := a in
                                if mem_nat p o then a
                                else (upd l p (set_type (geti l p) VOverconstrained), o ++ [p],
                                      i ++ [mkIssue RComputedTwice (iv_var (geti l p))]))
                    l (l0, o, i))).
Proof.
  intros l. induction l as [|p t IH]; intros l0 o i Hi; cbn [fold_left]; [exact Hi|].
  destruct (mem_nat p o); [apply IH; exact Hi|]. apply IH. apply Forall_app. split; [exact Hi|].
  constructor; [|constructor]. unfold not_unused. cbn. discriminate.
Qed.

Lemma requalify_fold_rules : forall es ivs done over iss ivs' done' over' iss',
  fold_left requalify_step es (ivs, done, over, iss) = (ivs', done', over', iss') ->
  Forall not_unused iss -> Forall not_unused iss'.
Proof.
  intros es. induction es as [|e t IH]; intros ivs done over iss ivs' done' over' iss' H Hi; cbn [fold_left] in H.
  - inversion H; subst. exact Hi.
  - destruct (requalify_step (ivs, done, over, iss) e) as [[[ivs1 done1] over1] iss1] eqn:E.
    eapply IH; [exact H|]. unfold requalify_step in E.
    destruct (ie_type e); try (inversion E; subst; exact Hi).
    + destruct (existsb _ (ie_all e)); inversion E; subst; exact Hi.
    + destruct (length (ie_unknown e) <? length (ie_sibs e) + 1); [|inversion E; subst; exact Hi].
      pose proof (over_fold_rules (ie_unknown e) ivs over iss Hi) as G.
      destruct (fold_left _ (ie_unknown e) (ivs, over, iss)) as [[ivs2 over2] iss2]. inversion E; subst. exact G.
Qed.

Lemma check_inits_comp_rules : forall s ivs c n i, Forall not_unused (check_inits_comp s ivs c i n).
Proof.
  intros s ivs c n. induction n as [|m IH]; intro i; cbn [check_inits_comp]; [constructor|].
  apply Forall_app. split; [|apply IH].
  destruct (negb (vref_eqb (c, i) (iv_var (geti ivs (ivar_of s ivs (c, i))))) && has_init (get_var s (c, i))).
  - constructor; [|constructor]. unfold not_unused. cbn. discriminate.
  - destruct (v_init (get_var s (iv_var (geti ivs (ivar_of s ivs (c, i)))))) as [| |nm]; try constructor.
    destruct (find_var _ nm); [destruct (vtype_eqb _ VInitialised); [constructor|]|];
      (constructor; [|constructor]); unfold not_unused; cbn; discriminate.
Qed.

Lemma check_inits_rules : forall s ivs cs c, Forall not_unused (check_inits s ivs c cs).
Proof.
  intros s ivs cs. induction cs as [|k r IH]; intro c; cbn [check_inits]; [constructor|].
  apply Forall_app. split; [apply check_inits_comp_rules|apply IH].
Qed.

Lemma diff_event_rules : forall s st d, Forall not_unused (vs_issues st) -> Forall not_unused (vs_issues (diff_event s st d)).
Proof.
  intros s [ivs voi iss] [t x] H. unfold diff_event. cbn [vs_ivs vs_voi vs_issues] in *.
  destruct voi as [v0|].
  - destruct (v_cls (get_var s v0) =? v_cls (get_var s t)); cbn [vs_issues]; apply Forall_app; split; try exact H; try constructor.
    + unfold not_unused. cbn. discriminate.
    + constructor.
  - destruct (filter (fun r => has_init (get_var s r)) (members s (v_cls (get_var s t)))) as [|a l] eqn:Ef; cbn [vs_issues].
    + rewrite app_nil_r. exact H.
    + apply Forall_app. split; [exact H|]. rewrite Forall_forall. intros i Hi. apply in_map_iff in Hi.
      destruct Hi as (y & <- & _). unfold not_unused. cbn. discriminate.
Qed.

Lemma analyse_asts_rules : forall s ivs es, Forall not_unused (vs_issues (analyse_asts s ivs es)).
Proof.
  intros s ivs es. unfold analyse_asts.
  assert (G : forall es st, Forall not_unused (vs_issues st) ->
              Forall not_unused (vs_issues (fold_left (fun st e => fold_left (diff_event s) (ie_diffs e) st) es st))).
  { clear. intros es. induction es as [|e t IH]; intros st H; cbn [fold_left]; [exact H|]. apply IH.
    generalize (ie_diffs e) st H. clear. intros ds. induction ds as [|d r IH]; intros st H; cbn [fold_left]; [exact H|].
    apply IH. apply diff_event_rules. exact H. }
  apply G. constructor.
Qed.

(** underconstrained_rescued, the part that holds in general: a class marked as external is never among the
    variables reported as unused ("the type of variable ... is unknown"), whatever else is wrong with the model. *)
Theorem marked_never_unused : forall s marks r,
  marks_in_range s marks -> xr_outcome (analyse_x true s marks) = Done r ->
  forall i, In i (r_issues r) -> is_rule i = RUnused -> ~ In (cls_of s (is_item i)) (marked_classes s marks).
Proof.
  intros s marks r Hr Ho i Hi Hrule Hmarked.
  pose proof (analyse_x_spec s marks Hr) as Hspec. rewrite Ho in Hspec. unfold spec_x in Hspec.
  destruct (negb (resolvable s)); [discriminate|].
  destruct (build s) as [[ivs0 es0]|] eqn:Eb; [|discriminate].
  destruct (check_inits s ivs0 0 s) as [|i0 ir0] eqn:Eci.
  2:{ inversion Hspec as [[Hres Hh]]. rewrite Hres in Hi. cbn [invalid_result r_issues] in Hi.
      pose proof (check_inits_rules s ivs0 s 0) as K. rewrite Eci in K. rewrite Forall_forall in K. exact (K i Hi Hrule). }
  cbv zeta in Hspec.
  destruct (vs_issues (analyse_asts s ivs0 es0)) as [|i1 ir1] eqn:Ei.
  2:{ inversion Hspec as [[Hres Hh]]. rewrite Hres in Hi. cbn [invalid_result r_issues] in Hi.
      pose proof (analyse_asts_rules s ivs0 es0) as K. rewrite Ei in K. rewrite Forall_forall in K. exact (K i Hi Hrule). }
  destruct (asts_facts s ivs0 es0 Eb Ei) as (Uok & Ulen & Uplain & Ukept & Uvoi). cbv zeta in *.
  set (U := vs_ivs (analyse_asts s ivs0 es0)) in *. set (voi := vs_voi (analyse_asts s ivs0 es0)) in *.
  set (f := eff s ivs0 U marks) in *.
  destruct (build_spec _ _ _ Eb) as (B1 & B2 & B3).
  assert (Hok2 : ivs_ok s (remark f 0 U)) by (apply remark_ivs_ok; exact Uok).
  assert (Heq2 : Forall (eq_inv (remark f 0 U)) es0).
  { eapply Forall_impl; [|exact B2]. intros e He. eapply eq_ok_eq_inv. rewrite remark_length, Ulen. exact He. }
  unfold tail_x, tail_y in Hspec.
  destruct (rescue_ok s state_rescue_fix _ _ Hok2 Heq2) as (Hok2R & Heq2R).
  set (ivsR := map (state_rescue state_rescue_fix) (remark f 0 U)) in *.
  destruct (loop s (loop_fuel es0) 1 false (mkCs ivsR 0 0) es0) as [[st es1]|] eqn:El; [|discriminate].
  inversion Hspec as [[Hres Hh]]. clear Hspec Hh.
  destruct (loop_inv _ _ _ _ _ _ _ _ El Heq2R) as (L1 & L2). cbn [cs_ivs] in *.
  pose proof (loop_ext_known _ _ _ _ _ _ _ _ El Heq2R (or_introl eq_refl)) as Hknown. cbn [cs_ivs] in *.
  unfold finish in Hres.
  destruct (validate_vars (cs_ivs st) (cs_vidx st)) as [[ivs1 vidx1] iss1] eqn:Ev.
  destruct iss1 as [|j1 jr1].
  - (* no issue from the variables: nothing else reports an unused variable *)
    destruct (fold_left requalify_step (nla_group ivs1 (map (nla_ext_deps nla_dep_fix (cs_ivs st)) es1)) (ivs1, [], [], [])) as [[[ivsF esF] ov] iss2] eqn:Er.
    pose proof (requalify_fold_rules _ _ _ _ _ _ _ _ _ Er (Forall_nil _)) as K.
    destruct iss2 as [|j2 jr2].
    + destruct (model_type voi ivsF esF); subst r; cbn in Hi; destruct Hi.
    + subst r. cbn [invalid_result r_issues] in Hi. rewrite Forall_forall in K. exact (K i Hi Hrule).
  - subst r. cbn [invalid_result r_issues] in Hi.
    destruct (validate_vars_unused _ _ _ _ _ i Ev Hi Hrule) as (v & Hv & Htype & Hitem).
    apply In_nth with (d := divar) in Hv. destruct Hv as (q & Hq & Hnth). fold (geti (cs_ivs st) q) in Hnth. subst v.
    pose proof L1 as Hev0. destruct L1 as (Llen & Lstep). unfold ivsR in Llen. rewrite map_length, remark_length in Llen.
    assert (HqU : q < length U) by lia.
    assert (Hq2 : q < length (remark f 0 U)) by (rewrite remark_length; exact HqU).
    assert (HqR : q < length ivsR) by (unfold ivsR; rewrite map_length; exact Hq2).
    destruct (Lstep q HqR) as (C1 & X1 & _ & V1 & T1).
    destruct (rescue_geti_keeps state_rescue_fix (remark f 0 U) q Hq2) as (RC & RX & RT). fold ivsR in RC, RX, RT.
    rewrite RC in C1. rewrite RX in X1.
    (* not external, since an external variable is never left unknown *)
    assert (Hnx : iv_external (geti (remark f 0 U) q) = false).
    { destruct (iv_external (geti (remark f 0 U) q)) eqn:E; [|reflexivity]. exfalso.
      apply (Hknown q); [congruence|exact Htype]. }
    assert (Hf : f q = None).
    { destruct (f q) eqn:E; [|reflexivity]. exfalso.
      assert (K : iv_external (geti (remark f 0 U) q) = true) by (apply remark_external; [exact Uplain|exact HqU|congruence]).
      congruence. }
    (* not the variable of integration either: that one keeps its type *)
    unfold f, eff in Hf. destruct (vtype_eqb (iv_type (geti U q)) VVoi) eqn:Et.
    { apply vtype_eqb_eq in Et.
      assert (EtR : iv_type (geti ivsR q) = VVoi).
      { destruct RT as [K|(K & _)]; rewrite remark_geti in K by exact HqU; rewrite apply_mark_type in K; [congruence|congruence]. }
      destruct T1 as (_ & T2 & _). destruct (T2 EtR) as [K|K]; rewrite K in Htype; discriminate. }
    (* so no mark lands on it *)
    apply marked_classes_In in Hmarked. destruct Hmarked as (m & r0 & M1 & M2 & M3).
    assert (Hrange : in_range s r0 = true).
    { unfold marks_in_range in Hr. rewrite Forall_forall in Hr. specialize (Hr m M1). rewrite M2 in Hr. exact Hr. }
    destruct (key_position s ivs0 r0 B1 B3 Hrange) as (K1 & K2 & _).
    apply (first_mark_none _ _ _ _ Hf m r0 M1 M2).
    apply (cls_pos_unique ivs0 _ _ (proj1 B1) K1); [lia|].
    rewrite K2, M3, Hitem.
    (* the class of the item is the class of the internal variable *)
    assert (Hokst : ivs_ok s (cs_ivs st)) by (eapply evolves_ivs_ok; [exact Hok2R|exact Hev0]).
    destruct (ivs_ok_geti s (cs_ivs st) q Hokst Hq) as (_ & J & _). rewrite J, C1.
    rewrite remark_geti by exact HqU. rewrite apply_mark_cls. destruct Ukept as (_ & Uk). destruct (Uk q) as (Kc & _).
    exact Kc.
Qed.

(* ------------------------------------------------------------------ the messages *)

Lemma vref_eqb_eq : forall a b, vref_eqb a b = true <-> a = b.
Proof.
  intros [a1 a2] [b1 b2]. unfold vref_eqb. cbn. rewrite andb_true_iff, !Nat.eqb_eq. split; [intros (A & B); congruence|intro H; inversion H; auto].
Qed.

(* the variable that the analyser holds for the class of r when the marks are read (mVariable of its internal variable) *)
Definition primary_at_marking (s : system) (r : vref) : vref :=
  match build s with Some (ivs0, _) => iv_var (geti ivs0 (ivar_of s ivs0 r)) | None => r end.

Section Messages.
Variable s : system.
Variable marks : list xmark.
Variables (ivs0 : list ivar) (es0 : list ieq).
Hypothesis Hres : resolvable s = true.
Hypothesis Eb : build s = Some (ivs0, es0).
Hypothesis Eci : check_inits s ivs0 0 s = [].
Hypothesis Ei : vs_issues (analyse_asts s ivs0 es0) = [].
Hypothesis Hr : marks_in_range s marks.

Lemma foreign_message : forall m k, In m marks -> xm_var m = XForeign k ->
  In (mkXissue XDifferentModel (XForeign k)) (xr_messages (analyse_x true s marks)).
Proof.
  intros m k Hm Hv. rewrite (analyse_x_messages s marks ivs0 es0 Hres Eb Eci Ei). apply in_or_app. left.
  unfold foreign_messages. clear - Hm Hv. induction marks as [|m0 t IH]; [destruct Hm|].
  cbn [filter_map]. destruct Hm as [->|Hm].
  - rewrite Hv. left. reflexivity.
  - destruct (xm_var m0); [|right]; apply IH; exact Hm.
Qed.

Lemma local_mark_entry : forall m r, In m marks -> xm_var m = XLocal r ->
  let key := iv_var (geti ivs0 (ivar_of s ivs0 r)) in
  let U := vs_ivs (analyse_asts s ivs0 es0) in
  cls_of s key = cls_of s r /\ ivar_of s U key = ivar_of s ivs0 r /\ ivar_of s ivs0 r < length ivs0 /\
  exists vs, In (key, vs) (pev_of s ivs0 marks []).
Proof.
  intros m r Hm Hv. cbv zeta.
  destruct (build_spec _ _ _ Eb) as (B1 & B2 & B3).
  assert (Hrange : in_range s r = true).
  { unfold marks_in_range in Hr. rewrite Forall_forall in Hr. specialize (Hr m Hm). rewrite Hv in Hr. exact Hr. }
  destruct (key_position s ivs0 r B1 B3 Hrange) as (K1 & K2 & K3).
  destruct (ivs_ok_geti s ivs0 _ B1 K1) as (_ & J & _).
  split; [congruence|]. split.
  - rewrite (ivar_of_cls_eq s _ ivs0 _ (kept_cls _ _ (analyse_asts_kept s ivs0 es0))). exact K3.
  - split; [exact K1|]. pose proof (pev_of_keys s ivs0 marks [] m r Hm Hv) as Hk.
    apply in_map_iff in Hk. destruct Hk as ([k vs] & E & Hin). cbn in E. subst k. exists vs. exact Hin.
Qed.

Lemma voi_message : forall m r, In m marks -> xm_var m = XLocal r -> is_voi_mark s m = true ->
  exists key, cls_of s key = cls_of s r /\ In (mkXissue XVoi (XLocal key)) (xr_messages (analyse_x true s marks)).
Proof.
  intros m r Hm Hv Hvoi.
  destruct (local_mark_entry m r Hm Hv) as (Kc & Kp & Kl & vs & Hen). cbv zeta in *.
  set (key := iv_var (geti ivs0 (ivar_of s ivs0 r))) in *. exists key. split; [exact Kc|].
  rewrite (analyse_x_messages s marks ivs0 es0 Hres Eb Eci Ei). apply in_or_app. right.
  apply in_flat_map. exists (key, vs). split; [exact Hen|]. unfold entry_msg. rewrite Kp.
  destruct (asts_facts s ivs0 es0 Eb Ei) as (Uok & Ulen & Uplain & Ukept & Uvoi). cbv zeta in *.
  unfold is_voi_mark, model_voi in Hvoi. rewrite Hv, Eb in Hvoi.
  destruct (vs_voi (analyse_asts s ivs0 es0)) as [v|] eqn:Ev; [|discriminate]. apply Nat.eqb_eq in Hvoi.
  destruct (build_spec _ _ _ Eb) as (B1 & B2 & B3).
  assert (Hrange : in_range s r = true).
  { unfold marks_in_range in Hr. rewrite Forall_forall in Hr. specialize (Hr m Hm). rewrite Hv in Hr. exact Hr. }
  destruct (key_position s ivs0 r B1 B3 Hrange) as (_ & K2 & _).
  assert (Ht : iv_type (geti (vs_ivs (analyse_asts s ivs0 es0)) (ivar_of s ivs0 r)) = VVoi).
  { apply Uvoi; [lia|]. exists v. split; [reflexivity|]. destruct Ukept as (_ & Uk). destruct (Uk (ivar_of s ivs0 r)) as (C & _). congruence. }
  rewrite Ht. cbn. left. reflexivity.
Qed.

Lemma non_primary_message : forall m r, In m marks -> xm_var m = XLocal r ->
  (forall m' r', In m' marks -> xm_var m' = XLocal r' -> cls_of s r' = cls_of s r -> r' <> primary_at_marking s r) ->
  exists key rule, cls_of s key = cls_of s r /\ (rule = XVoi \/ rule = XUsePrimary) /\
                   In (mkXissue rule (XLocal key)) (xr_messages (analyse_x true s marks)).
Proof.
  intros m r Hm Hv Hnone.
  destruct (local_mark_entry m r Hm Hv) as (Kc & Kp & Kl & vs & Hen). cbv zeta in *.
  unfold primary_at_marking in Hnone. rewrite Eb in Hnone.
  set (key := iv_var (geti ivs0 (ivar_of s ivs0 r))) in *.
  assert (Hnp : existsb (vref_eqb key) vs = false).
  { apply Bool.not_true_is_false. intro K. apply existsb_exists in K. destruct K as (x & Hx & Ex). apply vref_eqb_eq in Ex. subst x.
    destruct (pev_of_members s ivs0 marks [] key vs key Hen Hx) as [(vs0 & [] & _)|(m1 & A & B & C)].
    apply (Hnone m1 key A B); [|reflexivity].
    destruct (local_mark_entry m1 key A B) as (Kc1 & _). cbv zeta in Kc1. rewrite C in Kc1. congruence. }
  exists key. exists (if vtype_eqb (iv_type (geti (vs_ivs (analyse_asts s ivs0 es0)) (ivar_of s (vs_ivs (analyse_asts s ivs0 es0)) key))) VVoi then XVoi else XUsePrimary).
  split; [exact Kc|]. split; [destruct (vtype_eqb _ VVoi); auto|].
  rewrite (analyse_x_messages s marks ivs0 es0 Hres Eb Eci Ei). apply in_or_app. right.
  apply in_flat_map. exists (key, vs). split; [exact Hen|]. unfold entry_msg. rewrite Hnp. cbn [negb]. rewrite !orb_true_r. left. reflexivity.
Qed.

End Messages.

(* ------------------------------------------------------------------ the code before the repair is C05's analyse_ext *)

Lemma check_fold_unfixed : forall s voi pe ivs xi, fst (fold_left (check_step false s voi) pe (ivs, xi)) = ivs.
Proof.
  intros s voi pe. induction pe as [|[key vs] t IH]; intros ivs xi; cbn [fold_left]; [reflexivity|].
  unfold check_step at 2. cbn [andb]. apply IH.
Qed.

Lemma nla_ext_deps_off : forall ivs es, map (nla_ext_deps false ivs) es = es.
Proof. intros ivs es. induction es as [|e t IH]; cbn; [reflexivity|]. rewrite IH. reflexivity. Qed.

Theorem analyse_x_unfixed : forall s marks, xr_outcome (analyse_x false s marks) = analyse_ext s (local_marks marks).
Proof.
  intros s marks. unfold analyse_x, analyse_xg, analyse_ext. cbn [andb].
  destruct (negb (resolvable s)); [reflexivity|].
  destruct (build s) as [[ivs0 es0]|]; [|reflexivity].
  destruct (check_inits s ivs0 0 s) as [|i0 ir0]; [|reflexivity].
  pose proof (mark_step_local s marks ivs0 [] []) as Hm.
  destruct (fold_left (mark_step s) marks (ivs0, [], [])) as [[ivs1 pe] xi1] eqn:Em. cbn [fst] in Hm. rewrite <- Hm.
  destruct (vs_issues (analyse_asts s ivs1 es0)) as [|i1 ir1]; [|reflexivity].
  pose proof (check_fold_unfixed s (vs_voi (analyse_asts s ivs1 es0)) pe (vs_ivs (analyse_asts s ivs1 es0)) []) as Hc.
  destruct (fold_left (check_step false s (vs_voi (analyse_asts s ivs1 es0))) pe (vs_ivs (analyse_asts s ivs1 es0), [])) as [ivs2 xi2] eqn:Ec.
  cbn [fst] in Hc. subst ivs2. rewrite state_rescue_off.
  destruct (loop s (loop_fuel es0) 1 false (mkCs (vs_ivs (analyse_asts s ivs1 es0)) 0 0) es0) as [[st es1]|]; [|reflexivity].
  cbn [xr_outcome]. rewrite nla_ext_deps_off. reflexivity.
Qed.

(* without marks both codes are the analysis of C05 *)
Lemma nla_ext_deps_noext : forall dfx ivs es, Forall (fun v => iv_external v = false) ivs -> map (nla_ext_deps dfx ivs) es = es.
Proof.
  intros dfx ivs es H. induction es as [|e t IH]; cbn [map]; [reflexivity|]. rewrite IH. f_equal.
  unfold nla_ext_deps. destruct (dfx && is_nla e); [|reflexivity].
  assert (F : filter (fun p => iv_external (geti ivs p)) (ie_unknown e) = []).
  { induction (ie_unknown e) as [|p r IHr]; cbn; [reflexivity|]. rewrite (noext_geti ivs p H). exact IHr. }
  rewrite F. cbn [map]. rewrite app_nil_r. destruct e; reflexivity.
Qed.

Corollary analyse_x_no_marks : forall fixed s, xr_outcome (analyse_x fixed s []) = analyse s.
Proof.
  intros fixed s. unfold analyse_x, analyse_xg, analyse, analyse_ext.
  destruct (negb (resolvable s)); [reflexivity|].
  destruct (build s) as [[ivs0 es0]|] eqn:Eb; [|reflexivity].
  destruct (check_inits s ivs0 0 s) as [|i0 ir0]; [|reflexivity]. cbn [fold_left].
  destruct (vs_issues (analyse_asts s ivs0 es0)) as [|i1 ir1] eqn:Ei; [|reflexivity]. cbn [fold_left].
  destruct (build_spec _ _ _ Eb) as (B1 & B2 & B3).
  pose proof (analyse_asts_plain s ivs0 es0 (build_plain _ _ _ Eb)) as HU.
  assert (Hne : Forall (fun v => iv_external v = false) (vs_ivs (analyse_asts s ivs0 es0))).
  { eapply Forall_impl; [|exact HU]. intros v (A & _). exact A. }
  rewrite (state_rescue_noext _ _ Hne).
  destruct (loop s (loop_fuel es0) 1 false (mkCs (vs_ivs (analyse_asts s ivs0 es0)) 0 0) es0) as [[st es1]|] eqn:El; [|reflexivity].
  cbn [xr_outcome]. rewrite nla_ext_deps_noext; [reflexivity|].
  assert (Heq : Forall (eq_inv (vs_ivs (analyse_asts s ivs0 es0))) es0).
  { destruct (analyse_asts_kept s ivs0 es0) as (L & _).
    eapply Forall_impl; [|exact B2]. intros e He. eapply eq_ok_eq_inv. rewrite L. exact He. }
  destruct (loop_inv _ _ _ _ _ _ _ _ El Heq) as (L1 & _). cbn [cs_ivs] in L1.
  eapply noext_evolves; eassumption.
Qed.

(* ------------------------------------------------------------------ equations of a result have distinct positions *)

Lemma filter_map_pos : forall (f : nat -> option aeq) l,
  (forall j a, f j = Some a -> ae_pos a = j) ->
  map ae_pos (filter_map f l) = filter (fun j => match f j with Some _ => true | None => false end) l.
Proof.
  intros f l H. induction l as [|j t IH]; cbn [filter_map filter map]; [reflexivity|].
  destruct (f j) as [a|] eqn:E; [|exact IH]. cbn [map]. rewrite (H j a E), IH. reflexivity.
Qed.

Lemma package_pos_nodup : forall s ty voi ivs es, NoDup (all_pos (package s ty voi ivs es)).
Proof.
  intros s ty voi ivs es. unfold all_pos, package. cbn [r_eqs].
  rewrite map_map. cbn [clean_deps ae_pos].
  match goal with |- NoDup (map _ (filter_map ?f ?l)) => change (NoDup (map ae_pos (filter_map f l))); rewrite (filter_map_pos f l) end.
  - apply NoDup_filter. apply seq_NoDup.
  - intros j a Hj. unfold make_aeq in Hj.
    match type of Hj with match ?t with _ => _ end = _ => destruct t; [|discriminate] end.
    inversion Hj; subst. reflexivity.
Qed.

Lemma finish_pos_nodup : forall s voi ivs es vidx, NoDup (all_pos (finish s voi ivs es vidx)).
Proof.
  intros s voi ivs es vidx. unfold finish.
  destruct (validate_vars ivs vidx) as [[ivs1 vidx1] iss1]. destruct iss1; [|constructor].
  destruct (fold_left requalify_step (nla_group ivs1 es) (ivs1, [], [], [])) as [[[ivs2 es2] ov] iss2].
  destruct iss2; [|constructor].
  destruct (model_type voi ivs2 es2); try apply package_pos_nodup. constructor.
Qed.

Theorem analysis_pos_nodup : forall fixed s marks r, xr_outcome (analyse_x fixed s marks) = Done r -> NoDup (all_pos r).
Proof.
  intros fixed s marks r H. unfold analyse_x, analyse_xg in H.
  destruct (negb (resolvable s)); [discriminate|].
  destruct (build s) as [[ivs0 es0]|]; [|discriminate].
  destruct (check_inits s ivs0 0 s) as [|i0 ir0]; [|inversion H; subst; constructor].
  destruct (fold_left (mark_step s) marks (ivs0, [], [])) as [[ivs1 pe] xi1].
  destruct (vs_issues (analyse_asts s ivs1 es0)) as [|i1 ir1]; [|inversion H; subst; constructor].
  destruct (fold_left (check_step fixed s (vs_voi (analyse_asts s ivs1 es0))) pe (vs_ivs (analyse_asts s ivs1 es0), [])) as [ivs2 xi2].
  destruct (loop s (loop_fuel es0) 1 false _ es0) as [[st es1]|]; [|discriminate].
  inversion H; subst. apply finish_pos_nodup.
Qed.
