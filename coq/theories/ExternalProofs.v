(** ExternalProofs.v — consequences of the characterisation ExternalMarkProofs.analyse_x_spec: which variables become
    external, which marks do not matter, and that a marked variable is never reported as unused. *)
From Coq Require Import List Bool Arith PeanoNat Lia.
From LC Require Import AnalysisDefs AnalysisSpec AnalysisProofs AnalysisWfProofs AnalysisOwnProofs ExternalDefs ExternalMarkProofs.
Import ListNotations.
Local Open Scope bool_scope.

(* ------------------------------------------------------------------ what the second half of analyseModel keeps *)

(* only mType / mIndex may differ *)
Definition tkeeps (a b : list ivar) : Prop :=
  length b = length a /\
  forall p, iv_cls (geti b p) = iv_cls (geti a p) /\ iv_external (geti b p) = iv_external (geti a p) /\
            iv_var (geti b p) = iv_var (geti a p).

Lemma tkeeps_refl : forall a, tkeeps a a.
Proof. intro a. split; [reflexivity|]. intro p. repeat split; reflexivity. Qed.

Lemma tkeeps_trans : forall a b c, tkeeps a b -> tkeeps b c -> tkeeps a c.
Proof.
  intros a b c (L1 & H1) (L2 & H2). split; [congruence|]. intro p.
  destruct (H1 p) as (A1 & A2 & A3). destruct (H2 p) as (B1 & B2 & B3). repeat split; congruence.
Qed.

Lemma tkeeps_set_type : forall a p t, tkeeps a (upd a p (set_type (geti a p) t)).
Proof.
  intros a p t. split; [apply upd_length|]. intro q. rewrite geti_upd.
  destruct ((q =? p) && (p <? length a)) eqn:E; [|repeat split; reflexivity].
  apply andb_true_iff in E. destruct E as (E & _). apply Nat.eqb_eq in E. subst q. repeat split; reflexivity.
Qed.

Lemma over_fold_keeps : forall l l0 o i,
  tkeeps l0 (fst (fst (fold_left (fun a p => let '(l, o, i) := a in
                                if mem_nat p o then a
                                else (upd l p (set_type (geti l p) VOverconstrained), o ++ [p],
                                      i ++ [mkIssue RComputedTwice (iv_var (geti l p))]))
                    l (l0, o, i)))).
Proof.
  intros l. induction l as [|p t IH]; intros l0 o i; cbn [fold_left]; [apply tkeeps_refl|].
  destruct (mem_nat p o); [apply IH|]. eapply tkeeps_trans; [|apply IH]. apply tkeeps_set_type.
Qed.

Lemma requalify_step_keeps : forall ivs done over iss e ivs' done' over' iss',
  requalify_step (ivs, done, over, iss) e = (ivs', done', over', iss') -> tkeeps ivs ivs'.
Proof.
  intros ivs done over iss e ivs' done' over' iss' H. unfold requalify_step in H.
  destruct (ie_type e); try (inversion H; subst; apply tkeeps_refl).
  - (* variable-based constant *)
    destruct (existsb _ (ie_all e)); inversion H; subst; [apply tkeeps_set_type|apply tkeeps_refl].
  - (* NLA *)
    destruct (length (ie_unknown e) <? length (ie_sibs e) + 1); [|inversion H; subst; apply tkeeps_refl].
    pose proof (over_fold_keeps (ie_unknown e) ivs over iss) as G.
    destruct (fold_left _ (ie_unknown e) (ivs, over, iss)) as [[ivs1 over1] iss1]. inversion H; subst. exact G.
Qed.

Lemma requalify_fold_keeps : forall es ivs done over iss ivs' done' over' iss',
  fold_left requalify_step es (ivs, done, over, iss) = (ivs', done', over', iss') -> tkeeps ivs ivs'.
Proof.
  intros es. induction es as [|e t IH]; intros ivs done over iss ivs' done' over' iss' H; cbn [fold_left] in H.
  - inversion H; subst. apply tkeeps_refl.
  - destruct (requalify_step (ivs, done, over, iss) e) as [[[ivs1 done1] over1] iss1] eqn:E.
    eapply tkeeps_trans; [eapply requalify_step_keeps; exact E|eapply IH; exact H].
Qed.

Lemma evolves_tkeeps_ok : forall s a b, ivs_ok s a -> evolves s a b ->
  length b = length a /\ ivs_ok s b /\
  forall p, p < length a -> iv_cls (geti b p) = iv_cls (geti a p) /\ iv_external (geti b p) = iv_external (geti a p).
Proof.
  intros s a b Hok Hev. split; [apply Hev|]. split; [eapply evolves_ivs_ok; eassumption|].
  intros p Hp. destruct (evolves_geti _ _ _ _ Hev Hp) as (A & B & _). split; assumption.
Qed.

(* the API variables with the internal variable each comes from *)
Lemma make_avars_from : forall es ivs p si vi x, In x (make_avars es ivs p si vi) ->
  exists v, In v ivs /\ atype_of v = Some (av_type (snd x)) /\ av_var (snd x) = iv_var v.
Proof.
  intros es ivs. induction ivs as [|v r IH]; intros p si vi x H; cbn [make_avars] in H; [destruct H|].
  destruct (atype_of v) as [t|] eqn:E.
  - destruct t; destruct H as [<-|H];
      try (exists v; split; [left; reflexivity|]; split; [exact E|reflexivity]);
      destruct (IH _ _ _ _ H) as (w & W1 & W2 & W3); exists w; (split; [right; exact W1|]); split; assumption.
  - destruct (IH _ _ _ _ H) as (w & W1 & W2 & W3). exists w. split; [right; exact W1|]. split; assumption.
Qed.

Lemma make_avars_all : forall es ivs p si vi v t, In v ivs -> atype_of v = Some t ->
  exists x, In x (make_avars es ivs p si vi) /\ av_type (snd x) = t /\ av_var (snd x) = iv_var v.
Proof.
  intros es ivs. induction ivs as [|w r IH]; intros p si vi v t Hin Ht; [destruct Hin|].
  cbn [make_avars]. destruct Hin as [->|Hin].
  - rewrite Ht. destruct t; eexists; (split; [left; reflexivity|]); split; reflexivity.
  - destruct (atype_of w) as [tw|].
    + destruct tw;
        [destruct (IH (S p) (S si) vi v t Hin Ht) as (x & X1 & X2 & X3)
        |destruct (IH (S p) si (S vi) v t Hin Ht) as (x & X1 & X2 & X3)
        |destruct (IH (S p) si (S vi) v t Hin Ht) as (x & X1 & X2 & X3)
        |destruct (IH (S p) si (S vi) v t Hin Ht) as (x & X1 & X2 & X3)
        |destruct (IH (S p) si (S vi) v t Hin Ht) as (x & X1 & X2 & X3)];
        exists x; (split; [right; exact X1|]); split; assumption.
    + destruct (IH (S p) si vi v t Hin Ht) as (x & X1 & X2 & X3). exists x. split; [exact X1|]. split; assumption.
Qed.

Lemma atype_external : forall v, atype_of v = Some AExternal <-> iv_external v = true.
Proof.
  intro v. unfold atype_of. destruct (iv_external v); [split; reflexivity|].
  split; [|discriminate]. destruct (iv_type v); discriminate.
Qed.

Lemma all_avars_package : forall s ty voi ivs es a,
  In a (all_avars (package s ty voi ivs es)) <->
  exists es3, In a (map snd (make_avars es3 ivs 0 0 0)) /\ es3 = es ++ map (new_var_eq ivs) (filter (fun p => vtype_eqb (iv_type (geti ivs p)) VConstant) (seq 0 (length ivs))).
Proof.
  intros s ty voi ivs es a. unfold package, all_avars. cbn [r_states r_vars].
  set (es3 := es ++ _). set (avs := make_avars es3 ivs 0 0 0). split.
  - intro H. exists es3. split; [|reflexivity]. apply in_app_or in H.
    destruct H as [H|H]; apply in_map_iff in H; destruct H as (x & <- & Hx); apply filter_In in Hx; apply in_map; apply Hx.
  - intros (es3' & H & ->). fold es3 in H. fold avs in H. apply in_map_iff in H. destruct H as (x & <- & Hx).
    apply in_or_app. destruct (atype_eqb (av_type (snd x)) AState) eqn:E.
    + left. apply in_map. apply filter_In. split; assumption.
    + right. apply in_map. apply filter_In. split; [assumption|]. rewrite E. reflexivity.
Qed.

Lemma package_vars : forall s ty voi ivs es,
  r_voi (package s ty voi ivs es) = voi /\
  (forall a, In a (all_avars (package s ty voi ivs es)) ->
     exists v, In v ivs /\ atype_of v = Some (av_type a) /\ av_var a = iv_var v) /\
  (forall v t, In v ivs -> atype_of v = Some t ->
     exists a, In a (all_avars (package s ty voi ivs es)) /\ av_type a = t /\ av_var a = iv_var v).
Proof.
  intros s ty voi ivs es. split; [reflexivity|]. split.
  - intros a Ha. apply all_avars_package in Ha. destruct Ha as (es3 & Ha & _).
    apply in_map_iff in Ha. destruct Ha as (x & <- & Hx). eapply make_avars_from. exact Hx.
  - intros v t Hv Ht.
    set (es3 := es ++ map (new_var_eq ivs) (filter (fun p => vtype_eqb (iv_type (geti ivs p)) VConstant) (seq 0 (length ivs)))).
    destruct (make_avars_all es3 ivs 0 0 0 v t Hv Ht) as (x & X1 & X2 & X3).
    exists (snd x). split; [|split; assumption]. apply all_avars_package. exists es3. split; [apply in_map; exact X1|reflexivity].
Qed.

(** The API variables of a valid result, read off the internal variables with which the loop was entered. *)
Lemma tail_variables : forall s es0 voi ivs2 r h,
  ivs_ok s ivs2 -> Forall (eq_inv ivs2) es0 ->
  tail_x s es0 voi ivs2 = (Done r, h) -> valid_type (r_type r) = true ->
  r_voi r = voi /\
  (forall a, In a (all_avars r) ->
     exists p, p < length ivs2 /\ iv_cls (geti ivs2 p) = cls_of s (av_var a) /\
               (av_type a = AExternal <-> iv_external (geti ivs2 p) = true)) /\
  (forall p, p < length ivs2 -> iv_external (geti ivs2 p) = true ->
     exists a, In a (all_avars r) /\ av_type a = AExternal /\ cls_of s (av_var a) = iv_cls (geti ivs2 p)).
Proof.
  intros s es0 voi ivs2 r h Hok Heq H Hvalid. unfold tail_x in H.
  destruct (loop s (loop_fuel es0) 1 false (mkCs ivs2 0 0) es0) as [[st es1]|] eqn:El; [|discriminate].
  inversion H; subst r. clear H.
  destruct (loop_inv _ _ _ _ _ _ _ _ El Heq) as (L1 & L2). cbn [cs_ivs] in *.
  unfold finish in *.
  destruct (validate_vars (cs_ivs st) (cs_vidx st)) as [[ivs1 vidx1] iss1] eqn:Ev.
  destruct (validate_vars_spec s _ _ _ _ _ Ev) as (V1 & V2).
  destruct iss1 as [|i1 ir1].
  2:{ cbn in Hvalid. destruct (existsb _ ivs1); [destruct (existsb _ ivs1)|]; discriminate. }
  pose proof (Forall2_evolves _ _ _ V1) as Hev1.
  pose proof (evolves_trans _ _ _ _ L1 Hev1) as Hev.
  destruct (evolves_tkeeps_ok s ivs2 ivs1 Hok Hev) as (Len1 & Hok1 & K1).
  destruct (fold_left requalify_step (nla_group ivs1 es1) (ivs1, [], [], [])) as [[[ivsF esF] ov] iss2] eqn:Er.
  destruct iss2 as [|i2 ir2]; [|discriminate].
  destruct (requalify_fold_keeps _ _ _ _ _ _ _ _ _ Er) as (LenF & KF).
  assert (Hpack : forall ty,
    r_voi (package s ty voi ivsF esF) = voi /\
    (forall a, In a (all_avars (package s ty voi ivsF esF)) ->
       exists p, p < length ivs2 /\ iv_cls (geti ivs2 p) = cls_of s (av_var a) /\
                 (av_type a = AExternal <-> iv_external (geti ivs2 p) = true)) /\
    (forall p, p < length ivs2 -> iv_external (geti ivs2 p) = true ->
       exists a, In a (all_avars (package s ty voi ivsF esF)) /\ av_type a = AExternal /\ cls_of s (av_var a) = iv_cls (geti ivs2 p))).
  { intro ty. destruct (package_vars s ty voi ivsF esF) as (P1 & P2 & P3). split; [exact P1|]. split.
    - intros a Ha. destruct (P2 a Ha) as (v & Hv & Ht & Hvar).
      apply In_nth with (d := divar) in Hv. destruct Hv as (p & Hp & Hnth). fold (geti ivsF p) in Hnth. subst v.
      assert (Hp2 : p < length ivs2) by lia.
      destruct (K1 p Hp2) as (C1 & X1). destruct (KF p) as (C2 & X2 & W2).
      exists p. split; [exact Hp2|]. split.
      + rewrite Hvar, W2. destruct (ivs_ok_geti s ivs1 p Hok1) as (_ & J & _); [lia|]. rewrite J. exact C1.
      + rewrite <- X1, <- X2. rewrite <- atype_external. split; [intro E; rewrite <- E; exact Ht|intro E; rewrite E in Ht; inversion Ht; reflexivity].
    - intros p Hp Hx. destruct (K1 p Hp) as (C1 & X1). destruct (KF p) as (C2 & X2 & W2).
      assert (HpF : p < length ivsF) by lia.
      assert (Hext : atype_of (geti ivsF p) = Some AExternal) by (apply atype_external; congruence).
      destruct (P3 (geti ivsF p) AExternal (geti_In _ _ HpF) Hext) as (a & A1 & A2 & A3).
      exists a. split; [exact A1|]. split; [exact A2|].
      rewrite A3, W2. destruct (ivs_ok_geti s ivs1 p Hok1) as (_ & J & _); [lia|]. rewrite J. exact C1. }
  destruct (model_type voi ivsF esF); try discriminate Hvalid; apply Hpack.
Qed.
