(** EquivRound5Proofs.v — C18, proof depth round 5: structural laws of the memo cache of
    AnalyserModel::areEquivalentVariables (KeyDefs.query / run) that hold for EVERY key function (injective or
    not), every memoised function and every starting cache - they are about std::map with find-before-emplace:

    - composition: a history of queries cut anywhere is the first part followed by the second part run on the
      cache the first part left (so "one AnalyserModel, many bursts of questions" is one run);
    - an entry once stored is never changed or shadowed, whatever is asked afterwards (the cache only grows);
    - keys stay pairwise distinct (the association list is a map) and at most one entry is added per query. *)
From Coq Require Import List Arith Bool NArith Lia.
From LC Require Import KeyDefs KeyProofs.
Import ListNotations.

Section CacheLaws.
  Variables V K R : Type.
  Variable keqb : K -> K -> bool.
  Hypothesis keqb_spec : forall k k', keqb k k' = true <-> k = k'.
  Variable key : V -> V -> K.
  Variable compute : V -> V -> R.

  (** composition over arbitrary query lists; no hypothesis at all on key / compute / keqb *)
  Theorem run_app : forall (qs1 qs2 : list (V * V)) (c : cache K R),
    run keqb key compute c (qs1 ++ qs2) =
    (fst (run keqb key compute c qs1) ++ fst (run keqb key compute (snd (run keqb key compute c qs1)) qs2),
     snd (run keqb key compute (snd (run keqb key compute c qs1)) qs2)).
  Proof.
    induction qs1 as [|[a b] t IH]; intros qs2 c.
    - cbn [app run fst snd]. destruct (run keqb key compute c qs2); reflexivity.
    - cbn [app run]. destruct (query keqb key compute c a b) as [r c1].
      rewrite IH. destruct (run keqb key compute c1 t) as [rs c2]. cbn [fst snd app]. reflexivity.
  Qed.

  Lemma lookup_none_notin : forall k (c : cache K R), lookup keqb k c = None -> ~ In k (map fst c).
  Proof.
    intros k c. induction c as [|[k' r'] t IH]; intros H; cbn [lookup map fst In] in *.
    - tauto.
    - destruct (keqb k k') eqn:E; [discriminate|].
      intros [F | F]; [|exact (IH H F)].
      subst. assert (T : keqb k k = true) by (apply keqb_spec; reflexivity). congruence.
  Qed.

  Lemma query_stable : forall c a b k r,
    lookup keqb k c = Some r -> lookup keqb k (snd (query keqb key compute c a b)) = Some r.
  Proof.
    intros c a b k r H. unfold query.
    destruct (lookup keqb (key a b) c) eqn:E; cbn [snd]; [exact H|].
    cbn [lookup]. destruct (keqb k (key a b)) eqn:F; [|exact H].
    apply keqb_spec in F. subst. congruence.
  Qed.

  (** an entry, once in the cache, answers the same for ever: no later query overwrites or shadows it *)
  Theorem run_entries_stable : forall (qs : list (V * V)) (c : cache K R) k r,
    lookup keqb k c = Some r -> lookup keqb k (snd (run keqb key compute c qs)) = Some r.
  Proof.
    induction qs as [|[a b] t IH]; intros c k r H; cbn [run].
    - exact H.
    - pose proof (query_stable c a b k r H) as H1.
      destruct (query keqb key compute c a b) as [r1 c1]. cbn [snd] in H1.
      specialize (IH c1 k r H1). destruct (run keqb key compute c1 t) as [rs c2]. cbn [snd] in *. exact IH.
  Qed.

  (** the association list stays a map (no key twice) and grows by at most one entry per query *)
  Theorem run_keys_nodup : forall (qs : list (V * V)) (c : cache K R),
    NoDup (map fst c) ->
    NoDup (map fst (snd (run keqb key compute c qs))) /\
    length c <= length (snd (run keqb key compute c qs)) <= length c + length qs.
  Proof.
    induction qs as [|[a b] t IH]; intros c H; cbn [run].
    - cbn [snd length]. split; [exact H | lia].
    - assert (Hq : NoDup (map fst (snd (query keqb key compute c a b))) /\
                   length c <= length (snd (query keqb key compute c a b)) <= length c + 1).
      { unfold query. destruct (lookup keqb (key a b) c) eqn:E; cbn [snd].
        - split; [exact H | lia].
        - cbn [map fst length]. split; [|lia]. constructor; [|exact H].
          apply lookup_none_notin. exact E. }
      destruct (query keqb key compute c a b) as [r1 c1]. cbn [snd] in Hq. destruct Hq as [Hn Hl].
      destruct (IH c1 Hn) as [Hn2 Hl2].
      destruct (run keqb key compute c1 t) as [rs c2]. cbn [snd length] in *. split; [exact Hn2 | lia].
  Qed.
End CacheLaws.
