(** Properties_C08.v — statements only (stub while the proofs are being built). *)
From Coq Require Import String List Bool ZArith QArith.
From LC Require Import UnitsDefs UnitsProofs.
Example C08_stub : is_std_name "metre" = true.
Proof. reflexivity. Qed.
Print Assumptions C08_stub.
