(** Properties_C08.v — statements only.  Each theorem is closed by [exact <lemma of UnitsProofs>] and followed by
    Print Assumptions.  C08: unit compatibility and scaling obey the algebra of units.

    Model: UnitsDefs.v (units.cpp: isBaseUnitWithHistory, performTestWithHistory, updateUnitsMap, defineUnitsMap,
    Units::compatible, updateUnitMultiplier, Units::scalingFactor, Units::equivalent; validator.cpp: unitsAreEquivalent,
    updateBaseUnitCount; analyser.cpp: updateUnitsMap, updateUnitsMultiplier) over Q, multipliers as exact powers of ten
    (their log10 is the rational carried by the model), fuelled recursion, tables regenerated from /repo/src.
    [fx : fixes] selects, per repair (fx_import 64d2ee4, fx_std 40ad4ac, fx_pop 94d567f), the code before or after it
    ([unfixed] = before all three, [all_fixed] = /repo now); theorems quantify over [fx] where they hold for every setting,
    name the switch they need otherwise, and the [_refuted] witnesses are stated for [unfixed].  A scaling factor is [FPow q] = 10^q or [FZero] = 0.0. *)
From Coq Require Import String List Bool ZArith QArith Permutation Relations.
From LC Require Import UnitsDefs UnitsSpec UnitsProofs UnitsFuelProofs UnitsRound5Proofs.
From LCGen Require Import UnitTables PrefixTable.
Import ListNotations.
Local Open Scope string_scope.
Local Open Scope Q_scope.

(** ** Tables (regenerated from utilities.h / utilities.cpp / units.cpp on every run) *)

(** Every standard unit decomposes over base units only; the multiplier list has the same keys; the base units are the 8 of
    CellML and are what Units::isBaseUnit(name) tests; the 31 standard units have the dimensions and scales of the
    hand-written SI reference table; the prefixes are exactly the 20 SI prefixes with their powers. *)
Theorem C08_tables_ok : tables_check = true.
Proof. exact UnitsProofs.tables_ok. Qed.
Print Assumptions C08_tables_ok.

Theorem C08_std_units_over_base : forall n k e, In (k, e) (std_components n) -> In k base_units_list.
Proof. exact UnitsProofs.std_components_over_base. Qed.
Print Assumptions C08_std_units_over_base.

(** ** compatible is an equivalence relation on defined units *)

Theorem C08_compatible_refl : forall fx f w a, is_defined fx f w (fst a) (snd a) = Ok true ->
  compatible fx f w (Some a) (Some a) = Ok true.
Proof. exact UnitsProofs.compatible_refl. Qed.
Print Assumptions C08_compatible_refl.

Theorem C08_compatible_sym : forall fx f w a b, compatible fx f w a b = Ok true -> compatible fx f w b a = Ok true.
Proof. exact UnitsProofs.compatible_sym. Qed.
Print Assumptions C08_compatible_sym.

Theorem C08_compatible_trans : forall fx f w a b c,
  compatible fx f w a b = Ok true -> compatible fx f w b c = Ok true -> compatible fx f w a c = Ok true.
Proof. exact UnitsProofs.compatible_trans. Qed.
Print Assumptions C08_compatible_trans.

(** ... and it only ever holds between two non-null, defined units. *)
Theorem C08_compatible_true_defined : forall fx f w a b, compatible fx f w a b = Ok true ->
  exists a' b', a = Some a' /\ b = Some b' /\ is_defined fx f w (fst a') (snd a') = Ok true /\ is_defined fx f w (fst b') (snd b') = Ok true.
Proof. exact UnitsProofs.compatible_true_defined. Qed.
Print Assumptions C08_compatible_true_defined.

(** A defined units always has an exponent map (the gate in Units::compatible excludes every null dereference and the
    fuel that sufficed for isDefined suffices for the map). *)
Theorem C08_defined_map_ok : forall fx f w u, is_defined fx f w (fst u) (snd u) = Ok true ->
  exists m, define_units_map fx f w u = Ok m.
Proof. exact UnitsProofs.defined_map_ok. Qed.
Print Assumptions C08_defined_map_ok.

(** ** compatible holds exactly when the two units reduce to the same exponents of base units *)

(** The comparison of Units::compatible (sizes, then entry by entry) decides extensional equality of the two maps
    returned by defineUnitsMap, from which zero exponents and "dimensionless" have been erased. *)
Theorem C08_compatible_iff_same_maps : forall fx f w a b ma mb,
  is_defined fx f w (fst a) (snd a) = Ok true -> is_defined fx f w (fst b) (snd b) = Ok true ->
  define_units_map fx f w a = Ok ma -> define_units_map fx f w b = Ok mb ->
  (compatible fx f w (Some a) (Some b) = Ok true <-> forall k, get ma k == get mb k).
Proof. exact UnitsProofs.compatible_iff_same_maps. Qed.
Print Assumptions C08_compatible_iff_same_maps.

(** With the import exponent passed on (F6), or in a world without imports, that map is the dimension [dim] of the units
    (UnitsSpec.v: product of children, child = referenced units ^ exponent, an import is the imported units). *)
Theorem C08_map_is_dimension : forall fx f w u, fx_import fx = true \/ import_free w ->
  is_defined fx f w (fst u) (snd u) = Ok true ->
  exists m, define_units_map fx f w u = Ok m /\ forall k, k <> "dimensionless" -> get m k == dim f w (fst u) (snd u) k.
Proof. exact UnitsProofs.map_is_dimension. Qed.
Print Assumptions C08_map_is_dimension.

Theorem C08_compatible_iff_same_exponents : forall fx f w a b, fx_import fx = true \/ import_free w ->
  is_defined fx f w (fst a) (snd a) = Ok true -> is_defined fx f w (fst b) (snd b) = Ok true ->
  (compatible fx f w (Some a) (Some b) = Ok true <->
   forall k, k <> "dimensionless" -> dim f w (fst a) (snd a) k == dim f w (fst b) (snd b) k).
Proof. exact UnitsProofs.compatible_iff_same_exponents. Qed.
Print Assumptions C08_compatible_iff_same_exponents.

(** The code as it is violates it: I2 = (imported I)^2, I = metre, against metre^2 (DESIGN row 23; finding
    C08-import-exponent-dropped). *)
Theorem C08_compatible_iff_same_exponents_refuted :
  exists f w a b,
    is_defined unfixed f w (fst a) (snd a) = Ok true /\ is_defined unfixed f w (fst b) (snd b) = Ok true /\
    (forall k, k <> "dimensionless" -> dim f w (fst a) (snd a) k == dim f w (fst b) (snd b) k) /\
    compatible unfixed f w (Some a) (Some b) = Ok false.
Proof. exact UnitsProofs.compatible_iff_same_exponents_refuted. Qed.
Print Assumptions C08_compatible_iff_same_exponents_refuted.

(** ** independent of the order of unit children *)

(** Permuting the unit children of any units of the world changes no units' exponent map. *)
Theorem C08_map_perm_invariant : forall fx f w mi0 n0 l l' u m,
  lookup w mi0 n0 = Some (Defs l) -> Permutation l l' ->
  define_units_map fx f w u = Ok m ->
  exists m', define_units_map fx f (set_units w mi0 n0 (Defs l')) u = Ok m' /\ forall k, get m k == get m' k.
Proof. exact UnitsProofs.map_perm_invariant. Qed.
Print Assumptions C08_map_perm_invariant.

(** Hence compatible is unchanged too.  Since 94d567f (fx_pop) this holds outright: *)
Theorem C08_compatible_perm_invariant : forall fx f w w' a b, fx_pop fx = true -> perm_world w w' ->
  (compatible fx f w a b = Ok true <-> compatible fx f w' a b = Ok true).
Proof. exact UnitsProofs.compatible_perm_invariant. Qed.
Print Assumptions C08_compatible_perm_invariant.

Theorem C08_compatible_perm_set_units : forall fx f w mi0 n0 l l' a b, fx_pop fx = true ->
  lookup w mi0 n0 = Some (Defs l) -> Permutation l l' ->
  (compatible fx f w a b = Ok true <-> compatible fx f (set_units w mi0 n0 (Defs l')) a b = Ok true).
Proof. exact UnitsProofs.compatible_perm_set_units. Qed.
Print Assumptions C08_compatible_perm_set_units.

(** For every setting of the switches it holds as long as Units::isDefined() still answers true in the permuted world ... *)
Theorem C08_compatible_perm_partial : forall fx f w w' a b, perm_world w w' ->
  compatible fx f w (Some a) (Some b) = Ok true ->
  is_defined fx f w' (fst a) (snd a) = Ok true -> is_defined fx f w' (fst b) (snd b) = Ok true ->
  compatible fx f w' (Some a) (Some b) = Ok true.
Proof. exact UnitsProofs.compatible_perm_partial. Qed.
Print Assumptions C08_compatible_perm_partial.

(** ... which, before 94d567f, it did not always: the import history of performTestWithHistory was never popped, so after an
    import of an import a later imported child looked like an import cycle: u = A.B "undefined", u = B.A defined
    (finding C08-import-history-false-cycle, fixed). *)
Theorem C08_compatible_perm_refuted :
  exists f w mi n l l' u,
    lookup w mi n = Some (Defs l) /\ Permutation l l' /\
    compatible unfixed f (set_units w mi n (Defs l')) (Some u) (Some u) = Ok true /\
    compatible unfixed f w (Some u) (Some u) = Ok false /\
    defined_sem f w (fst u) (snd u) = Ok true.
Proof. exact UnitsProofs.compatible_perm_refuted. Qed.
Print Assumptions C08_compatible_perm_refuted.

(** isDefined() is sound w.r.t. "every reference resolves" (defined_sem) for every setting; since 94d567f it is also complete
    (hence exactly defined_sem) whenever the models import from one another along a DAG — mutual imports between models are
    refused by the url-based cycle detection (C08_is_defined_needs_model_dag), as CellML demands; before, it was complete only
    without imports (C08_is_defined_complete_partial / _refuted). *)
Theorem C08_is_defined_sound : forall fx f w mi name, is_defined fx f w mi name = Ok true -> defined_sem f w mi name = Ok true.
Proof. exact UnitsProofs.is_defined_sound. Qed.
Print Assumptions C08_is_defined_sound.

Theorem C08_is_defined_complete_partial : forall fx f w mi n, import_free w ->
  defined_sem f w mi n = Ok true -> is_defined fx f w mi n = Ok true.
Proof. exact UnitsProofs.is_defined_complete_partial. Qed.
Print Assumptions C08_is_defined_complete_partial.

Theorem C08_is_defined_complete : forall fx f w mi n, fx_pop fx = true -> model_dag w ->
  defined_sem f w mi n = Ok true -> is_defined fx f w mi n = Ok true.
Proof. exact UnitsProofs.is_defined_complete. Qed.
Print Assumptions C08_is_defined_complete.

Theorem C08_is_defined_iff : forall fx f w mi n, fx_pop fx = true -> model_dag w ->
  (is_defined fx f w mi n = Ok true <-> defined_sem f w mi n = Ok true).
Proof. exact UnitsProofs.is_defined_iff. Qed.
Print Assumptions C08_is_defined_iff.

Example C08_is_defined_needs_model_dag :
  defined_sem 6 w_mutual 0 "u" = Ok true /\ is_defined all_fixed 6 w_mutual 0 "u" = Ok false.
Proof. exact UnitsProofs.is_defined_needs_model_dag. Qed.
Print Assumptions C08_is_defined_needs_model_dag.

Theorem C08_is_defined_complete_refuted :
  exists f w mi n, defined_sem f w mi n = Ok true /\ is_defined unfixed f w mi n = Ok false.
Proof. exact UnitsProofs.is_defined_complete_refuted. Qed.
Print Assumptions C08_is_defined_complete_refuted.

(** ** independent of indirection through intermediate units *)

(** [C08_map_is_dimension] above says the map of a units is [dim]; [dim] depends on a referenced units only through that
    units' own [dim]: a reference contributes exponent x dimension of what is referenced, be it a standard unit, another
    units of the model, or an imported units (which is the units it imports). *)
Theorem C08_dim_compound : forall f' w mi n l k, lookup w mi n = Some (Defs l) -> is_base (S f') w mi n = Ok false ->
  Nat.eqb (length l) 0 && is_std_name n = false ->
  dim (S f') w mi n k = sumq (map (fun c => uc_exp c * (if is_std_name (uc_ref c) then std_dim (uc_ref c) k
                                                       else dim f' w mi (uc_ref c) k)) l).
Proof. exact UnitsProofs.dim_compound. Qed.
Print Assumptions C08_dim_compound.

Theorem C08_dim_import : forall f' w mi n mj r k, lookup w mi n = Some (Import mj r) -> is_base (S f') w mi n = Ok false ->
  is_std_name n = false -> dim (S f') w mi n k = dim f' w mj r k.
Proof. exact UnitsProofs.dim_import. Qed.
Print Assumptions C08_dim_import.

(** The code as it is: the map of I2 = (imported I)^2 has metre^1, its dimension is metre^2. *)
Theorem C08_map_indirection_refuted :
  exists f w u m, is_defined unfixed f w (fst u) (snd u) = Ok true /\ define_units_map unfixed f w u = Ok m /\
                  ~ get m "metre" == dim f w (fst u) (snd u) "metre".
Proof. exact UnitsProofs.map_indirection_refuted. Qed.
Print Assumptions C08_map_indirection_refuted.
(* NOT PROVED: a syntactic inlining theorem (replace a unit child referencing v by v's children with exponents multiplied);
   it is a consequence of C08_map_is_dimension + C08_dim_compound that is not stated separately.
   (Independence of [dim] and of the reducers from surplus fuel: C08_dim_fuel_independent, C08_fuel_independent below.) *)

(** ** scalingFactor *)

Theorem C08_factor_antisym : forall fx f w a b q, scaling_factor fx f w a b = Ok (FPow q) ->
  exists q', scaling_factor fx f w b a = Ok (FPow q') /\ q + q' == 0.
Proof. exact UnitsProofs.factor_antisym. Qed.
Print Assumptions C08_factor_antisym.

Theorem C08_factor_cocycle : forall fx f w a b c q1 q2,
  scaling_factor fx f w a b = Ok (FPow q1) -> scaling_factor fx f w b c = Ok (FPow q2) ->
  exists q3, scaling_factor fx f w a c = Ok (FPow q3) /\ q3 == q1 + q2.
Proof. exact UnitsProofs.factor_cocycle. Qed.
Print Assumptions C08_factor_cocycle.

(** 0 exactly for incompatible (hence also undefined or null) units — or when a prefix is not convertible to an int. *)
Theorem C08_factor_zero_iff : forall fx f w a b,
  scaling_factor fx f w a b = Ok FZero <->
  compatible fx f w a b = Ok false \/
  (compatible fx f w a b = Ok true /\ exists a' b' r1 r2, a = Some a' /\ b = Some b' /\
     mult_go fx f w (fst a') (snd a') = Ok r1 /\ mult_go fx f w (fst b') (snd b') = Ok r2 /\ (r1 = None \/ r2 = None)).
Proof. exact UnitsProofs.factor_zero_iff. Qed.
Print Assumptions C08_factor_zero_iff.

Theorem C08_factor_zero_null : forall fx f w a b, a = None \/ b = None -> scaling_factor fx f w a b = Ok FZero.
Proof. exact UnitsProofs.factor_zero_null. Qed.
Print Assumptions C08_factor_zero_null.

Theorem C08_factor_zero_undefined : forall fx f w a b,
  is_defined fx f w (fst a) (snd a) = Ok false \/
  (is_defined fx f w (fst a) (snd a) = Ok true /\ is_defined fx f w (fst b) (snd b) = Ok false) ->
  scaling_factor fx f w (Some a) (Some b) = Ok FZero.
Proof. exact UnitsProofs.factor_zero_undefined. Qed.
Print Assumptions C08_factor_zero_undefined.

(** positive (a power of ten) for compatible units whose prefixes convert, and then the difference of the two scales *)
Theorem C08_factor_pos_compatible : forall fx f w a b l1 l2,
  compatible fx f w (Some a) (Some b) = Ok true ->
  mult_go fx f w (fst a) (snd a) = Ok (Some l1) -> mult_go fx f w (fst b) (snd b) = Ok (Some l2) ->
  exists q, scaling_factor fx f w (Some a) (Some b) = Ok (FPow q) /\ q == l2 - l1.
Proof. exact UnitsProofs.factor_pos_compatible. Qed.
Print Assumptions C08_factor_pos_compatible.

(** the ratio of the SI scales, under the property's own condition [si_cond] (prefixes and multipliers sit on unit children
    of exponent 1), for both readings of a unit child ([inside]), provided no failure of the recursive call is swallowed by
    the import branch ([imports_scale_ok]) and — on the code as it is — no units object is a bare gram / litre. *)
Theorem C08_factor_is_si_ratio_partial : forall fx f w (inside : bool) a b q,
  fx_std fx = true \/ no_bare_std_scaled w ->
  si_cond f w (fst a) (snd a) = true -> si_cond f w (fst b) (snd b) = true ->
  imports_scale_ok fx f w (fst a) (snd a) = true -> imports_scale_ok fx f w (fst b) (snd b) = true ->
  scaling_factor fx f w (Some a) (Some b) = Ok (FPow q) ->
  q == si_log inside f w (fst b) (snd b) - si_log inside f w (fst a) (snd a).
Proof. exact UnitsProofs.factor_is_si_ratio_partial. Qed.
Print Assumptions C08_factor_is_si_ratio_partial.

(** outside the condition: (milli metre)^2 against metre^2 (also with both repairs) *)
Theorem C08_factor_is_si_ratio_refuted :
  exists fx f w a b q, si_cond f w (fst a) (snd a) = false /\
    scaling_factor fx f w (Some a) (Some b) = Ok (FPow q) /\
    ~ q == si_log false f w (fst b) (snd b) - si_log false f w (fst a) (snd a) /\
    ~ q == si_log true f w (fst b) (snd b) - si_log true f w (fst a) (snd a).
Proof. exact UnitsProofs.factor_is_si_ratio_refuted. Qed.
Print Assumptions C08_factor_is_si_ratio_refuted.

(** inside the condition, on the code as it is: a bare "litre" against metre^3 gives 10^0 (finding C08-bare-standard-unit-scale) *)
Theorem C08_factor_is_si_ratio_bare_std_refuted :
  exists f w a b q, si_cond f w (fst a) (snd a) = true /\ si_cond f w (fst b) (snd b) = true /\
    imports_scale_ok unfixed f w (fst a) (snd a) = true /\ imports_scale_ok unfixed f w (fst b) (snd b) = true /\
    scaling_factor unfixed f w (Some a) (Some b) = Ok (FPow q) /\
    ~ q == si_log false f w (fst b) (snd b) - si_log false f w (fst a) (snd a).
Proof. exact UnitsProofs.factor_is_si_ratio_bare_std_refuted. Qed.
Print Assumptions C08_factor_is_si_ratio_bare_std_refuted.

(** ** equivalent = compatible with factor 1 *)
Theorem C08_equivalent_iff : forall fx f w a b,
  equivalent fx f w a b = Ok true <->
  compatible fx f w a b = Ok true /\ exists q, scaling_factor fx f w a b = Ok (FPow q) /\ q == 0.
Proof. exact UnitsProofs.equivalent_iff. Qed.
Print Assumptions C08_equivalent_iff.

(** Units::equivalent is a partial equivalence relation (every world, fuel and setting of the switches), reflexive on a defined
    units whose scale is computable, and scalingFactor is a congruence for it (UnitsRound5Proofs.v). *)
Theorem C08_equivalent_sym : forall fx f w a b, equivalent fx f w a b = Ok true -> equivalent fx f w b a = Ok true.
Proof. exact UnitsRound5Proofs.equivalent_sym. Qed.
Print Assumptions C08_equivalent_sym.

Theorem C08_equivalent_trans : forall fx f w a b c,
  equivalent fx f w a b = Ok true -> equivalent fx f w b c = Ok true -> equivalent fx f w a c = Ok true.
Proof. exact UnitsRound5Proofs.equivalent_trans. Qed.
Print Assumptions C08_equivalent_trans.

Theorem C08_equivalent_refl : forall fx f w a l, is_defined fx f w (fst a) (snd a) = Ok true ->
  mult_go fx f w (fst a) (snd a) = Ok (Some l) -> equivalent fx f w (Some a) (Some a) = Ok true.
Proof. exact UnitsRound5Proofs.equivalent_refl. Qed.
Print Assumptions C08_equivalent_refl.

Theorem C08_factor_equivalent_congr : forall fx f w a a' b b' q,
  equivalent fx f w a a' = Ok true -> equivalent fx f w b b' = Ok true ->
  scaling_factor fx f w a b = Ok (FPow q) ->
  exists q', scaling_factor fx f w a' b' = Ok (FPow q') /\ q' == q.
Proof. exact UnitsRound5Proofs.factor_equivalent_congr. Qed.
Print Assumptions C08_factor_equivalent_congr.

(** ** the validator's and the analyser's own reductions *)

(** On the fragment [agree_cond] (non-standard names, no imports, every exponent 1, valid prefixes, a prefix/multiplier only
    on a reference to a standard or base unit) the three log10 scales are equal. *)
Theorem C08_three_agree_partial : forall fx f w mi n, agree_cond f w mi n = true ->
  exists u v a, mult_go fx f w mi n = Ok (Some u) /\ val_scale f w mi n = Ok v /\ ana_scale f w mi n = Ok a /\
                v == u /\ a == u.
Proof. exact UnitsProofs.three_agree_partial. Qed.
Print Assumptions C08_three_agree_partial.

(** Outside it they differ (finding C08-three-formulas-disagree; DESIGN row 24): (milli metre)^2 ... *)
Theorem C08_three_disagree_refuted :
  exists fx f w mi n u v a, mult_go fx f w mi n = Ok (Some u) /\ val_scale f w mi n = Ok v /\ ana_scale f w mi n = Ok a /\
                            ~ v == u /\ ~ a == u.
Proof. exact UnitsProofs.three_disagree_refuted. Qed.
Print Assumptions C08_three_disagree_refuted.

(** ... and, with every exponent 1, kilo (metre.second): Units 10^3, validator and analyser 10^6. *)
Theorem C08_three_disagree_exponent_one_refuted :
  exists fx f w mi n u v a, mult_go fx f w mi n = Ok (Some u) /\ val_scale f w mi n = Ok v /\ ana_scale f w mi n = Ok a /\
                            u == 3 # 1 /\ v == 6 # 1 /\ a == 6 # 1.
Proof. exact UnitsProofs.three_disagree_exponent_one_refuted. Qed.
Print Assumptions C08_three_disagree_exponent_one_refuted.

(** The validator's verdict (status of unitsAreEquivalent) for two defined units of a model is Units::compatible, in a world
    without imports (the validator does not look into imported units) whose units are not named after standard units. *)
Theorem C08_val_verdict_agrees_partial : forall fx f w mi n1 n2, import_free w -> nonstd_names w ->
  is_defined fx f w mi n1 = Ok true -> is_defined fx f w mi n2 = Ok true ->
  exists st q, val_equiv f w mi n1 n2 = Ok (st, q) /\
               (st = true <-> compatible fx f w (Some (mi, n1)) (Some (mi, n2)) = Ok true).
Proof. exact UnitsProofs.val_verdict_agrees_partial. Qed.
Print Assumptions C08_val_verdict_agrees_partial.

(** The analyser's verdict for "x = y" (areSameUnitsMaps and areSameUnitsMultipliers: no units warning) is Units::equivalent
    on the fragment where the three formulas agree, in a world without imports and without units named after standard units.
    (Outside [agree_cond] the analyser's multiplier differs from Units' — C08_three_disagree_refuted — and so does its verdict.) *)
Theorem C08_ana_verdict_agrees_partial : forall fx f w mi n1 n2, import_free w -> nonstd_names w ->
  agree_cond f w mi n1 = true -> agree_cond f w mi n2 = true ->
  is_defined fx f w mi n1 = Ok true -> is_defined fx f w mi n2 = Ok true ->
  exists b, ana_equiv f w mi n1 n2 = Ok b /\
            (b = true <-> equivalent fx f w (Some (mi, n1)) (Some (mi, n2)) = Ok true).
Proof. exact UnitsProofs.ana_verdict_agrees_partial. Qed.
Print Assumptions C08_ana_verdict_agrees_partial.

(** ** termination *)

(** Cyclic units make the real reducers recurse until the stack is exhausted (known family K3).  On an acyclic world, fuel
    above the number of units objects is never exhausted. *)
Theorem C08_reducers_terminate : forall fx f w, acyclic w -> (world_size w < f)%nat ->
  (forall a b, compatible fx f w a b <> OutOfFuel /\ scaling_factor fx f w a b <> OutOfFuel /\ equivalent fx f w a b <> OutOfFuel) /\
  (forall mi n1 n2, val_equiv f w mi n1 n2 <> OutOfFuel /\ ana_equiv f w mi n1 n2 <> OutOfFuel) /\
  (forall mi n, is_base f w mi n <> OutOfFuel /\ is_defined fx f w mi n <> OutOfFuel /\
                define_units_map fx f w (mi, n) <> OutOfFuel /\ mult_go fx f w mi n <> OutOfFuel).
Proof. exact UnitsProofs.reducers_terminate. Qed.
Print Assumptions C08_reducers_terminate.

(** ** fuel independence *)

(** fuel_monotone: once a reducer answers (anything but OutOfFuel) with fuel f, it gives the same answer with every f' >= f. *)
Theorem C08_fuel_monotone : forall fx w f f' a b, (f <= f')%nat ->
  (compatible fx f w a b <> OutOfFuel -> compatible fx f' w a b = compatible fx f w a b) /\
  (scaling_factor fx f w a b <> OutOfFuel -> scaling_factor fx f' w a b = scaling_factor fx f w a b) /\
  (equivalent fx f w a b <> OutOfFuel -> equivalent fx f' w a b = equivalent fx f w a b).
Proof.
  intros fx w f f' a b Hle. split; [|split].
  - exact (UnitsProofs.compatible_mono fx w f f' a b Hle).
  - exact (UnitsProofs.scaling_factor_mono fx w f f' a b Hle).
  - exact (UnitsProofs.equivalent_mono fx w f f' a b Hle).
Qed.
Print Assumptions C08_fuel_monotone.

Theorem C08_fuel_monotone_units : forall fx w f f' mi n, (f <= f')%nat ->
  (is_base f w mi n <> OutOfFuel -> is_base f' w mi n = is_base f w mi n) /\
  (is_defined fx f w mi n <> OutOfFuel -> is_defined fx f' w mi n = is_defined fx f w mi n) /\
  (define_units_map fx f w (mi, n) <> OutOfFuel -> define_units_map fx f' w (mi, n) = define_units_map fx f w (mi, n)) /\
  (mult_go fx f w mi n <> OutOfFuel -> mult_go fx f' w mi n = mult_go fx f w mi n).
Proof.
  intros fx w f f' mi n Hle. split; [|split; [|split]].
  - exact (UnitsProofs.is_base_mono w f f' mi n Hle).
  - exact (UnitsProofs.is_defined_mono fx w f f' mi n Hle).
  - exact (UnitsProofs.define_units_map_mono fx w f f' (mi, n) Hle).
  - exact (UnitsProofs.mult_go_mono fx w f f' mi n Hle).
Qed.
Print Assumptions C08_fuel_monotone_units.

(** The dimension of a fully defined units does not depend on the fuel beyond what definedness needed. *)
Theorem C08_dim_fuel_independent : forall w f f' mi n k, (f <= f')%nat ->
  defined_sem f w mi n = Ok true -> dim f' w mi n k = dim f w mi n k.
Proof. exact UnitsProofs.dim_fuel_independent. Qed.
Print Assumptions C08_dim_fuel_independent.

(** fuel_sufficient (C08_reducers_terminate) + fuel_monotone: on an acyclic world every fuel above the number of units
    objects gives the same, non-OutOfFuel, answer as the fuel the drivers use (fuel_for w = S (world_size w)); so every theorem
    above, read at the drivers' fuel, holds at every larger fuel. *)
Theorem C08_fuel_independent : forall fx w f, acyclic w -> (world_size w < f)%nat ->
  (forall a b, compatible fx f w a b = compatible fx (fuel_for w) w a b /\ compatible fx f w a b <> OutOfFuel) /\
  (forall a b, scaling_factor fx f w a b = scaling_factor fx (fuel_for w) w a b /\ scaling_factor fx f w a b <> OutOfFuel) /\
  (forall a b, equivalent fx f w a b = equivalent fx (fuel_for w) w a b /\ equivalent fx f w a b <> OutOfFuel) /\
  (forall mi n, is_defined fx f w mi n = is_defined fx (fuel_for w) w mi n /\
                define_units_map fx f w (mi, n) = define_units_map fx (fuel_for w) w (mi, n) /\
                mult_go fx f w mi n = mult_go fx (fuel_for w) w mi n) /\
  (forall mi n k, defined_sem (fuel_for w) w mi n = Ok true -> dim f w mi n k = dim (fuel_for w) w mi n k).
Proof. exact UnitsProofs.fuel_independent. Qed.
Print Assumptions C08_fuel_independent.

Example C08_fuel_nonvacuous :
  acyclic w_mm /\ fuel_for w_mm = 5%nat /\
  defined_sem (fuel_for w_mm) w_mm 0 "mm_sq" = Ok true /\
  scaling_factor unfixed 50 w_mm (Some (0%nat, "mm_sq")) (Some (0%nat, "m2")) = Ok (FPow (6 # 1)) /\
  dim 50 w_mm 0 "mm_sq" "metre" == 2 # 1.
Proof. exact UnitsProofs.fuel_nonvacuous. Qed.
Print Assumptions C08_fuel_nonvacuous.

(** The same for the validator's and the analyser's own reducers (UnitsFuelProofs.v). *)
Theorem C08_fuel_monotone_val_ana : forall w f f' mi n1 n2, (f <= f')%nat ->
  (val_equiv f w mi n1 n2 <> OutOfFuel -> val_equiv f' w mi n1 n2 = val_equiv f w mi n1 n2) /\
  (val_scale f w mi n1 <> OutOfFuel -> val_scale f' w mi n1 = val_scale f w mi n1) /\
  (ana_map f w mi n1 <> OutOfFuel -> ana_map f' w mi n1 = ana_map f w mi n1) /\
  (ana_scale f w mi n1 <> OutOfFuel -> ana_scale f' w mi n1 = ana_scale f w mi n1) /\
  (forall b, ana_equiv f w mi n1 n2 = Ok b -> ana_equiv f' w mi n1 n2 = Ok b).
Proof.
  intros w f f' mi n1 n2 Hle. split; [|split; [|split; [|split]]].
  - exact (UnitsFuelProofs.val_equiv_mono w f f' mi n1 n2 Hle).
  - exact (UnitsFuelProofs.val_scale_mono w f f' mi n1 Hle).
  - exact (UnitsFuelProofs.ana_map_mono w f f' mi n1 Hle).
  - exact (UnitsFuelProofs.ana_scale_mono w f f' mi n1 Hle).
  - intros b. exact (UnitsFuelProofs.ana_equiv_mono w f f' mi n1 n2 b Hle).
Qed.
Print Assumptions C08_fuel_monotone_val_ana.

Theorem C08_fuel_independent_val_ana : forall w f, acyclic w -> (world_size w < f)%nat ->
  (forall mi n1 n2, val_equiv f w mi n1 n2 = val_equiv (fuel_for w) w mi n1 n2 /\ val_equiv f w mi n1 n2 <> OutOfFuel) /\
  (forall mi n, val_scale f w mi n = val_scale (fuel_for w) w mi n) /\
  (forall mi n, ana_map f w mi n = ana_map (fuel_for w) w mi n /\ ana_scale f w mi n = ana_scale (fuel_for w) w mi n) /\
  (forall mi n1 n2, ana_equiv f w mi n1 n2 = ana_equiv (fuel_for w) w mi n1 n2 /\ ana_equiv f w mi n1 n2 <> OutOfFuel).
Proof. exact UnitsFuelProofs.fuel_independent_val_ana. Qed.
Print Assumptions C08_fuel_independent_val_ana.

(** The agreement of the three scale formulas inside [agree_cond], at every fuel from the one at which [agree_cond] holds. *)
Theorem C08_three_agree_every_fuel : forall fx f f' w mi n, agree_cond f w mi n = true -> (f <= f')%nat ->
  exists u v a, mult_go fx f' w mi n = Ok (Some u) /\ val_scale f' w mi n = Ok v /\ ana_scale f' w mi n = Ok a /\
                v == u /\ a == u /\
                mult_go fx f' w mi n = mult_go fx f w mi n /\ val_scale f' w mi n = val_scale f w mi n /\
                ana_scale f' w mi n = ana_scale f w mi n.
Proof. exact UnitsFuelProofs.three_agree_every_fuel. Qed.
Print Assumptions C08_three_agree_every_fuel.

Example C08_fuel_val_ana_nonvacuous :
  acyclic w_mm /\ (world_size w_mm < 40)%nat /\ agree_cond 5 w_mm 0 "mm" = true /\
  val_equiv 40 w_mm 0 "mm2" "m2" = Ok (true, -6 # 1) /\ ana_scale 40 w_mm 0 "mm_sq" = Ok (-6 # 1) /\
  ana_equiv 40 w_mm 0 "mm" "mm" = Ok true.
Proof. exact UnitsFuelProofs.fuel_val_ana_nonvacuous. Qed.
Print Assumptions C08_fuel_val_ana_nonvacuous.

(** ** non-vacuity of the hypotheses used above *)
Example C08_nonvacuous :
  compatible unfixed 5 w_mm (Some (0%nat, "mm_sq")) (Some (0%nat, "m2")) = Ok true /\
  scaling_factor unfixed 5 w_mm (Some (0%nat, "mm_sq")) (Some (0%nat, "m2")) = Ok (FPow (6 # 1)) /\
  equivalent unfixed 5 w_mm (Some (0%nat, "mm2")) (Some (0%nat, "mm2")) = Ok true /\
  agree_cond 5 w_mm 0 "mm" = true /\ si_cond 5 w_mm 0 "mm" = true /\ imports_scale_ok unfixed 5 w_mm 0 "mm" = true /\
  acyclic w_mm /\ (world_size w_mm < 5)%nat /\ import_free w_mm /\ no_bare_std_scaled w_mm /\
  is_defined unfixed 5 w_import 0 "I2" = Ok true.
Proof. exact UnitsProofs.nonvacuous. Qed.
Print Assumptions C08_nonvacuous.

Example C08_nonvacuous_pop :
  model_dag (w_order false) /\ fx_pop all_fixed = true /\
  defined_sem 6 (w_order false) 0 "u" = Ok true /\ is_defined all_fixed 6 (w_order false) 0 "u" = Ok true /\
  is_defined unfixed 6 (w_order false) 0 "u" = Ok false.
Proof. exact UnitsProofs.nonvacuous_pop. Qed.
Print Assumptions C08_nonvacuous_pop.
