(** GlobalHistoryProofs.v — C12: history independence of a service instance at full strength.

    For EVERY sequence of top-level calls on one service object, the result of EVERY call of the sequence equals the result
    of the same call on a freshly created object.  The premise is decidable and is computed from the regenerated table
    LCGen.GlobalSites.instance_members: every member variable of the service's implementation class is per-call scratch that
    is (re)initialised unconditionally at the head of the call, or fixed (constructor / API setters only), or a cache keyed by
    its inputs.  The two facts about the code of a call that the earlier statement (same_instance_history_irrelevant)
    assumed — it does not write fixed members, caches are transparent — are discharged here by construction for the
    bodies that see the object through its member table ([scoped_body]). *)
From Coq Require Import String Ascii List Bool Arith Lia.
From LC Require Import GlobalDefs GlobalProofs.
From LCGen Require GlobalSites.
Import ListNotations.
Local Open Scope string_scope.
Local Open Scope bool_scope.

(** the members of one implementation class, from the regenerated table *)
Definition members_of (table : list (string * string * bool)) (c : string) : list string :=
  map (fun e : string * string * bool => let '(_, m, _) := e in m)
      (filter (fun e : string * string * bool => let '(c', _, _) := e in String.eqb c' c) table).

Definition mem (m : string) (l : list string) : bool := existsb (String.eqb m) l.

(** classification of the members of class [c]; a name that is not a member of the class is no state at all *)
Definition service_cls (table : list (string * string * bool)) (c : string) (m : string) : mclass :=
  if mem m (members_of table c) then classify c m else MConst.

(** the decidable premise, per class: every member is scratch / fixed / cache, and every scratch member is reset at the head *)
Definition class_ok (table : list (string * string * bool)) (c : string) : bool :=
  forallb (fun e : string * string * bool =>
             let '(c', m, r) := e in
             if String.eqb c' c
             then (is_reset (classify c m) || is_fixed (classify c m) || is_cache (classify c m))
                  && (if is_reset (classify c m) then r else true)
             else true) table.

Lemma class_ok_classified : forall table c, class_ok table c = true ->
  forall m, is_reset (service_cls table c m) || is_fixed (service_cls table c m) || is_cache (service_cls table c m) = true.
Proof.
  intros table c H m. unfold service_cls. destruct (mem m (members_of table c)) eqn:E; [|reflexivity].
  unfold mem, members_of in E. apply existsb_exists in E. destruct E as [m' [Hin Heq]].
  apply String.eqb_eq in Heq. subst m'. apply in_map_iff in Hin. destruct Hin as [[[c' m'] r] [Hm Hf]]. subst m'.
  apply filter_In in Hf. destruct Hf as [Hin Hc]. apply String.eqb_eq in Hc. subst c'.
  unfold class_ok in H. rewrite forallb_forall in H. specialize (H _ Hin). cbn in H. rewrite String.eqb_refl in H.
  apply andb_prop in H. tauto.
Qed.

Section History.
  Variables (A R : Type).
  Variable cls : string -> mclass.
  Variable init : istate.
  Variable body : A -> istate -> R * istate.
  Hypothesis untouched : forall a s m, is_fixed (cls m) = true -> snd (body a s) m = s m.
  Hypothesis transparent : forall a s1 s2, (forall m, is_cache (cls m) = false -> s1 m = s2 m) -> fst (body a s1) = fst (body a s2).
  Hypothesis classified : forall m, is_reset (cls m) || is_fixed (cls m) || is_cache (cls m) = true.

  (** the results of all the calls of a history, in order *)
  Fixpoint results (s : istate) (h : list A) : list R :=
    match h with
    | [] => []
    | a :: r => fst (call A R cls init body a s) :: results (snd (call A R cls init body a s)) r
    end.

  Definition fresh_result (x : A) : R := fst (call A R cls init body x init).

  Lemma results_from_any_reachable_state : forall h s,
    (forall m, is_fixed (cls m) = true -> s m = init m) -> results s h = map fresh_result h.
  Proof.
    induction h as [|a r IH]; intros s Inv; [reflexivity|].
    cbn [results map]. f_equal.
    - unfold fresh_result, call. apply transparent. intros m Hc. unfold head.
      destruct (is_reset (cls m)) eqn:E; [reflexivity|].
      apply Inv. pose proof (classified m) as K. rewrite E, Hc in K. rewrite orb_false_r in K. exact K.
    - apply IH. intros m Hm. unfold call. rewrite untouched by exact Hm. unfold head.
      destruct (is_reset (cls m)) eqn:E; [destruct (cls m); discriminate|]. apply Inv. exact Hm.
  Qed.

  Theorem all_results_history_independent : forall h, results init h = map fresh_result h.
  Proof. intros h. apply results_from_any_reachable_state. reflexivity. Qed.

  (** call number k of any history *)
  Theorem result_k_history_independent : forall h k x,
    nth_error h k = Some x -> nth_error (results init h) k = Some (fresh_result x).
  Proof. intros h k x H. rewrite all_results_history_independent. apply map_nth_error. exact H. Qed.
End History.

(** ** bodies that see the object through its member table: the two code facts hold by construction *)
Section Scoped.
  Variables (A R : Type).
  Variable members : list string.
  Variable cls : string -> mclass.
  (** what the code of a call computes: from the argument and the values of the members it may rely on (a cache is read
      through [cache_view]: a hit must equal the value it would compute, so the call sees the same thing either way),
      the result and the new values of the members it writes *)
  Variable code : A -> list nat -> R * list (string * nat).

  Definition view (s : istate) : list nat := map (fun m => if is_cache (cls m) then 0 else s m) members.
  Fixpoint written (ws : list (string * nat)) (m : string) : option nat :=
    match ws with [] => None | (n, v) :: r => if String.eqb n m then Some v else written r m end.
  Definition scoped_body (a : A) (s : istate) : R * istate :=
    let '(r, ws) := code a (view s) in
    (r, fun m => if is_fixed (cls m) then s m else match written ws m with Some v => v | None => s m end).

  Lemma scoped_untouched : forall a s m, is_fixed (cls m) = true -> snd (scoped_body a s) m = s m.
  Proof. intros a s m H. unfold scoped_body. destruct (code a (view s)) as [r ws]. cbn [snd]. rewrite H. reflexivity. Qed.

  Lemma scoped_transparent : forall a s1 s2,
    (forall m, is_cache (cls m) = false -> s1 m = s2 m) -> fst (scoped_body a s1) = fst (scoped_body a s2).
  Proof.
    intros a s1 s2 H. unfold scoped_body.
    assert (V : view s1 = view s2).
    { unfold view. apply map_ext. intros m. destruct (is_cache (cls m)) eqn:E; [reflexivity|apply H; exact E]. }
    rewrite V. destruct (code a (view s2)) as [r ws]. reflexivity.
  Qed.
End Scoped.

(** ** the theorem for the services of the library: premise computed on the regenerated table *)
Definition pure_service_classes : list string :=
  ["Logger::LoggerImpl"; "Parser::ParserImpl"; "Validator::ValidatorImpl"; "Analyser::AnalyserImpl";
   "Generator::GeneratorImpl"; "Printer::PrinterImpl"; "Importer::ImporterImpl"; "Strict::StrictImpl"].

Theorem table_premise_holds : forallb (class_ok GlobalSites.instance_members) pure_service_classes = true.
Proof. vm_compute. reflexivity. Qed.

Theorem result_history_independent :
  forall (c : string), In c pure_service_classes ->
  forall (A R : Type) (init : istate) (code : A -> list nat -> R * list (string * nat)),
    let cls := service_cls GlobalSites.instance_members c in
    let body := scoped_body A R (members_of GlobalSites.instance_members c) cls code in
    forall (h : list A),
      results A R cls init body init h = map (fresh_result A R cls init body) h.
Proof.
  intros c Hc A R init code cls body h.
  apply all_results_history_independent.
  - apply scoped_untouched.
  - apply scoped_transparent.
  - apply class_ok_classified. pose proof table_premise_holds as T. rewrite forallb_forall in T. apply T. exact Hc.
Qed.

(** non-vacuity, and the seeded regression as a refutation: the Parser with a call that stays in "1.x mode".
    code: the result is the argument plus the current mode; a 1.x document (argument 1) switches the mode on and NOTHING
    switches it off (the assignment is conditional).  With the member reset at the head (the real table) every call of
    every history gives the fresh result; with the same member not reset, a 2.0 document parsed after a 1.x one does not. *)
Definition sticky_parser_code (a : nat) (v : list nat) : nat * list (string * nat) :=
  let mode := nth 1 v 0 in    (* members_of ... "Parser::ParserImpl" = [mParser; mParsing1XVersion; mParsing20Version] *)
  let mode' := if Nat.eqb a 1 then 1 else mode in
  (a + 10 * mode', [("mParsing1XVersion", mode')]).

Example history_independence_nonvacuous :
  results nat nat (service_cls GlobalSites.instance_members "Parser::ParserImpl") (fun _ => 0)
          (scoped_body nat nat (members_of GlobalSites.instance_members "Parser::ParserImpl")
                       (service_cls GlobalSites.instance_members "Parser::ParserImpl") sticky_parser_code)
          (fun _ => 0) [1; 0; 1; 0]
  = [11; 0; 11; 0].
Proof. vm_compute. reflexivity. Qed.

Theorem unreset_member_refuted :
  let cls := fun m : string => if String.eqb m "mParsing1XVersion" then MUnknown else MConst in
  let body := scoped_body nat nat ["mParser"; "mParsing1XVersion"; "mParsing20Version"] cls sticky_parser_code in
  results nat nat cls (fun _ => 0) body (fun _ => 0) [1; 0] <> map (fresh_result nat nat cls (fun _ => 0) body) [1; 0].
Proof. vm_compute. discriminate. Qed.
