(** RoundtripEncProofs.v — stage 3 of the C02 plan: encapsulation.  loadEncapsulation / loadComponentRef take the
    flat components out of the model by NAME and re-nest them; with non-empty, model-wide unique component names the
    hierarchy that was printed is rebuilt exactly (child order kept, encapsulation ids kept); the top-level
    components that head a hierarchy move behind those that do not. *)
From Coq Require Import String Ascii List Bool ZArith Arith Lia Permutation.
From LC Require Import Common NumDefs XmlDefs EntTreeDefs PrintDefs LoadDefs RoundtripSpec XmlTextProofs
     RoundtripReadProofs RoundtripLoadProofs RoundtripFlatProofs.
Import ListNotations.
Local Open Scope string_scope.
Local Open Scope bool_scope.
Local Open Scope list_scope.

Opaque str_ok num_ok order_ok math_ok.

(** * the children loop of loadComponentRef as a function of its own *)
Fixpoint cref_kids (l : list xml) (parent : option component) (st : enc_st) : option component * enc_st :=
  match l with
  | [] => (parent, st)
  | k :: r =>
    if is_cellml20 "component_ref" k then
      match load_cref k st with
      | (Some child, st') =>
        match parent with
        | Some p => cref_kids r (Some (add_kid p child)) st'
        | None => cref_kids r None {| es_comps := es_comps st' ++ [child]; es_used := es_used st'; es_issues := es_issues st' |}
        end
      | (None, st') => cref_kids r parent st'
      end
    else cref_kids r parent (es_issue st (stray_child "COMPONENT_REF_CHILD" k))
  end.

Lemma load_cref_unfold : forall ns nm attrs ks st,
  load_cref (Elem ns nm attrs ks) st =
    let a := fold_left load_cref_attr attrs {| ca_parent := None; ca_name := ""; ca_encid := ""; ca_st := st |} in
    let st1 := match ca_parent a with
               | None => if nonempty (ca_name a) then ca_st a
                         else es_issue (ca_st a) [err "COMPONENT_REF_COMPONENT_ATTRIBUTE"]
               | Some _ => ca_st a
               end in
    let parent1 := option_map (fun p => set_encid p (ca_encid a)) (ca_parent a) in
    cref_kids ks parent1 st1.
Proof. intros. reflexivity. Qed.

(** * lists of components addressed by name *)
Definition in_names (ns : list string) (x : component) : bool := existsb (String.eqb (cname x)) ns.
Definition remove_names (ns : list string) (F : list component) : list component := filter (fun x => negb (in_names ns x)) F.

Lemma in_names_iff : forall ns x, in_names ns x = true <-> In (cname x) ns.
Proof.
  intros. unfold in_names. rewrite existsb_exists. split.
  - intros (n & Hn & He). apply String.eqb_eq in He. now subst.
  - intros H. exists (cname x). split; [exact H | apply String.eqb_refl].
Qed.

Lemma remove_names_keep : forall ns F, (forall x, In x F -> ~ In (cname x) ns) -> remove_names ns F = F.
Proof.
  intros ns. induction F as [|c F IH]; intros H; [reflexivity|]. unfold remove_names in *. cbn [filter].
  destruct (in_names ns c) eqn:Ei.
  - apply in_names_iff in Ei. exfalso. exact (H c (or_introl eq_refl) Ei).
  - cbn [negb]. rewrite IH; [reflexivity|]. intros x Hx. apply H. now right.
Qed.

Lemma remove_names_app : forall a b F, remove_names (a ++ b) F = remove_names b (remove_names a F).
Proof.
  intros a b. induction F as [|c F IH]; [reflexivity|]. unfold remove_names in *. cbn [filter].
  unfold in_names at 1. rewrite existsb_app. fold (in_names a c). fold (in_names b c).
  destruct (in_names a c); cbn [negb orb filter]; [exact IH|].
  destruct (in_names b c); cbn [negb]; rewrite IH; reflexivity.
Qed.

Lemma remove_names_In : forall ns F x, In x (remove_names ns F) <-> In x F /\ ~ In (cname x) ns.
Proof.
  intros. unfold remove_names. rewrite filter_In. rewrite negb_true_iff. split; intros [H1 H2]; split; try exact H1.
  - intros Hc. apply in_names_iff in Hc. congruence.
  - destruct (in_names ns x) eqn:Ei; [|reflexivity]. apply in_names_iff in Ei. contradiction.
Qed.

Lemma NoDup_map_filter : forall {A B} (f : A -> B) (P : A -> bool) l, NoDup (map f l) -> NoDup (map f (filter P l)).
Proof.
  induction l as [|x l IH]; intros H; [constructor|]. cbn [map] in H. inversion H as [|? ? Hn Hl]; subst.
  cbn [filter]. destruct (P x); [|now apply IH]. cbn [map]. constructor; [|now apply IH].
  intros Hc. apply Hn. apply in_map_iff in Hc. destruct Hc as (y & Hy & Hyin). apply filter_In in Hyin.
  apply in_map_iff. exists y. tauto.
Qed.

Lemma NoDup_app_disjoint : forall {A} (a b : list A) x, NoDup (a ++ b) -> In x a -> In x b -> False.
Proof.
  induction a as [|y a IH]; intros b x H Ha Hb; [contradiction|].
  cbn [app] in H. inversion H as [|? ? Hn Hr]; subst. destruct Ha as [->|Ha].
  - apply Hn. apply in_or_app. now right.
  - eapply IH; eassumption.
Qed.

Lemma NoDup_app_l : forall {A} (a b : list A), NoDup (a ++ b) -> NoDup a.
Proof.
  induction a as [|y a IH]; intros b H; [constructor|]. cbn [app] in H. inversion H as [|? ? Hn Hr]; subst.
  constructor; [intros Hc; apply Hn; apply in_or_app; now left | eapply IH; eassumption].
Qed.

Lemma NoDup_app_r : forall {A} (a b : list A), NoDup (a ++ b) -> NoDup b.
Proof. induction a as [|y a IH]; intros b H; [exact H|]. cbn [app] in H. inversion H; subst. now apply IH. Qed.

Lemma take_direct_found : forall n F x, NoDup (map cname F) -> In x F -> cname x = n ->
  take_direct n F = Some (x, remove_names [n] F).
Proof.
  intros n. induction F as [|c F IH]; intros x Hnd Hin Hn; [contradiction|].
  cbn [map] in Hnd. inversion Hnd as [|? ? Hc Hr]; subst. cbn [take_direct].
  destruct (String.eqb (cname c) (cname x)) eqn:Ec.
  - apply String.eqb_eq in Ec.
    assert (x = c).
    { destruct Hin as [->|Hin]; [reflexivity|]. exfalso. apply Hc. rewrite Ec. now apply in_map. }
    subst x. unfold remove_names. cbn [filter]. unfold in_names at 1. cbn [existsb]. rewrite String.eqb_refl. cbn [orb negb].
    fold (remove_names [cname c] F). rewrite remove_names_keep; [reflexivity|].
    intros y Hy [Hyc|[]]. apply Hc. rewrite Hyc. now apply in_map.
  - destruct Hin as [->|Hin]; [rewrite String.eqb_refl in Ec; discriminate|].
    rewrite (IH x Hr Hin eq_refl). unfold remove_names. cbn [filter]. unfold in_names at 2. cbn [existsb]. rewrite Ec. reflexivity.
Qed.

Lemma take_comp_found : forall n F x, NoDup (map cname F) -> In x F -> cname x = n ->
  take_comp n F = Some (x, remove_names [n] F).
Proof. intros. unfold take_comp. rewrite (take_direct_found n F x) by assumption. reflexivity. Qed.

(** * the traversal order of the printer, without paths *)
Fixpoint dfs (c : component) : list component :=
  match c with Comp _ ks => c :: (fix go (l : list component) : list component := match l with [] => [] | k :: r => dfs k ++ go r end) ks end.

Lemma dfs_unfold : forall s ks, dfs (Comp s ks) = Comp s ks :: flat_map dfs ks.
Proof. intros. reflexivity. Qed.

Lemma flat_c_dfs : forall c p, map snd (flat_c p c) = dfs c.
Proof.
  induction c as [s ks IH] using comp_ind'. intros p. rewrite flat_c_unfold, dfs_unfold. cbn [map snd]. f_equal.
  generalize 0. induction ks as [|k r IHr]; intros j; [reflexivity|].
  inversion IH as [|? ? Pk Pr]; subst. cbn [flat_cs flat_map]. rewrite map_app, Pk, (IHr Pr). reflexivity.
Qed.

Lemma all_comps_dfs : forall cs p j, map snd (flat_cs p j cs) = flat_map dfs cs.
Proof.
  induction cs as [|c cs IH]; intros p j; [reflexivity|]. cbn [flat_cs flat_map]. rewrite map_app, flat_c_dfs, IH. reflexivity.
Qed.

Section Enc.
Variable E : env.

(** what loadComponent leaves at the top level for a component of the hierarchy *)
Definition leaf (c : component) : component := Comp (strip_encid (canon_shell E (shell c))) [].

Lemma cname_leaf : forall c, cname (leaf c) = cname c.
Proof. intros [s ks]. reflexivity. Qed.

Lemma cname_canon : forall c, cname (canon_comp E c) = cname c.
Proof. intros [s ks]. reflexivity. Qed.

Definition mk_st (F : list component) (used : list string) (is : list issue) : enc_st :=
  {| es_comps := F; es_used := used; es_issues := is |}.

Definition names (l : list component) : list string := map cname l.

(** the conditions under which a list of component_ref subtrees is rebuilt from the forest F *)
Record conds (ds : list component) (F : list component) (used : list string) : Prop := {
  c_present : forall d, In d ds -> In (leaf d) F;
  c_nodupF : NoDup (names F);
  c_fresh : forall d, In d ds -> ~ In (cname d) used;
  c_nodup : NoDup (names ds);
  c_named : forall d, In d ds -> nonempty (cname d) = true
}.

Lemma existsb_not_in : forall n l, ~ In n l -> existsb (String.eqb n) l = false.
Proof.
  intros n l H. destruct (existsb (String.eqb n) l) eqn:Ee; [|reflexivity].
  apply existsb_exists in Ee. destruct Ee as (x & Hx & He). apply String.eqb_eq in He. subst. contradiction.
Qed.

(** the attribute loop of loadComponentRef on a printed component_ref *)
Lemma cref_attrs : forall s ks F used is,
  nonempty (c_name s) = true -> ~ In (c_name s) used -> NoDup (names F) -> In (leaf (Comp s ks)) F ->
  fold_left load_cref_attr (opt_attr ident "component" (c_name s) ++ opt_attr ident "id" (c_encid s))
            {| ca_parent := None; ca_name := ""; ca_encid := ""; ca_st := mk_st F used is |}
  = {| ca_parent := Some (leaf (Comp s ks)); ca_name := c_name s; ca_encid := c_encid s;
       ca_st := mk_st (remove_names [c_name s] F) (used ++ [c_name s]) is |}.
Proof.
  intros s ks F used is Hn Hu Hnd Hin. unfold opt_attr, ident. rewrite Hn. rewrite fold_left_app. cbn [fold_left].
  unfold load_cref_attr at 2. replace (attr_is "component" (at_ "component" (c_name s))) with true by reflexivity.
  cbn [a_val at_ ca_st mk_st es_used es_comps es_issues].
  rewrite (existsb_not_in _ _ Hu). cbn [es_comps es_used es_issues ca_parent ca_name ca_encid ca_st].
  rewrite (take_comp_found (c_name s) F (leaf (Comp s ks)) Hnd Hin eq_refl).
  destruct (nonempty (c_encid s)) eqn:Ee; [|apply nonempty_false in Ee; rewrite Ee]; reflexivity.
Qed.

Definition add_kids (p : component) (l : list component) : component := match p with Comp s ks => Comp s (ks ++ l) end.

Lemma add_kid_kids : forall p k l, add_kids (add_kid p k) l = add_kids p (k :: l).
Proof. intros [s ks] k l. cbn. rewrite <- app_assoc. reflexivity. Qed.

Lemma is_cref_print : forall c, is_cellml20 "component_ref" (print_encapsulation ident c) = true.
Proof. intros [s ks]. reflexivity. Qed.

Lemma conds_tail : forall a b F used,
  conds (a ++ b) F used -> conds b (remove_names (names a) F) (used ++ names a).
Proof.
  intros a b F used [Hp Hnf Hfr Hnd Hnm]. unfold names in *. rewrite map_app in Hnd.
  constructor.
  - intros d Hd. apply remove_names_In. split; [apply Hp; apply in_or_app; now right|].
    rewrite cname_leaf. intros Hc. apply in_map_iff in Hc. destruct Hc as (d' & Hn' & Hd').
    eapply (NoDup_app_disjoint _ _ (cname d) Hnd); [rewrite <- Hn'; now apply in_map | now apply in_map].
  - unfold remove_names. now apply NoDup_map_filter.
  - intros d Hd Hc. apply in_app_or in Hc. destruct Hc as [Hc|Hc].
    + apply (Hfr d); [apply in_or_app; now right | exact Hc].
    + eapply (NoDup_app_disjoint _ _ (cname d) Hnd); [exact Hc | now apply in_map].
  - now apply NoDup_app_r in Hnd.
  - intros d Hd. apply Hnm. apply in_or_app. now right.
Qed.

Lemma conds_head : forall a b F used, conds (a ++ b) F used -> conds a F used.
Proof.
  intros a b F used [Hp Hnf Hfr Hnd Hnm]. unfold names in *. rewrite map_app in Hnd. constructor.
  - intros d Hd. apply Hp. apply in_or_app. now left.
  - exact Hnf.
  - intros d Hd. apply Hfr. apply in_or_app. now left.
  - now apply NoDup_app_l in Hnd.
  - intros d Hd. apply Hnm. apply in_or_app. now left.
Qed.

(** the subtree under a component_ref is rebuilt *)
Definition cref_spec (c : component) : Prop :=
  forall F used is, conds (dfs c) F used ->
    load_cref (print_encapsulation ident c) (mk_st F used is)
    = (Some (canon_comp E c), mk_st (remove_names (names (dfs c)) F) (used ++ names (dfs c)) is).

Lemma cref_kids_ok : forall ks, Forall cref_spec ks -> forall p F used is, conds (flat_map dfs ks) F used ->
  cref_kids (map (print_encapsulation ident) ks) (Some p) (mk_st F used is)
  = (Some (add_kids p (map (canon_comp E) ks)),
     mk_st (remove_names (names (flat_map dfs ks)) F) (used ++ names (flat_map dfs ks)) is).
Proof.
  induction ks as [|k r IH]; intros Hall p F used is Hc.
  - cbn [map cref_kids flat_map names]. rewrite app_nil_r. rewrite remove_names_keep by (intros ? ? []).
    destruct p; cbn; rewrite app_nil_r; reflexivity.
  - inversion Hall as [|? ? Hk Hr]; subst. cbn [map cref_kids flat_map] in *.
    rewrite is_cref_print. rewrite (Hk F used is (conds_head _ _ _ _ Hc)).
    change (mk_st (remove_names (names (dfs k)) F) (used ++ names (dfs k)) is) with (mk_st (remove_names (names (dfs k)) F) (used ++ names (dfs k)) is).
    rewrite (IH Hr (add_kid p (canon_comp E k)) _ _ is (conds_tail _ _ _ _ Hc)).
    rewrite add_kid_kids. unfold names. rewrite map_app, remove_names_app, <- app_assoc. reflexivity.
Qed.

Theorem cref_ok : forall c, cref_spec c.
Proof.
  induction c as [s ks IH] using comp_ind'. intros F used is Hc.
  rewrite print_encapsulation_unfold. unfold el. rewrite load_cref_unfold.
  rewrite dfs_unfold in *.
  assert (Hin : In (Comp s ks) (Comp s ks :: flat_map dfs ks)) by now left.
  rewrite (cref_attrs s ks F used is (c_named _ _ _ Hc _ Hin) (c_fresh _ _ _ Hc _ Hin) (c_nodupF _ _ _ Hc) (c_present _ _ _ Hc _ Hin)).
  cbv zeta. cbn [ca_parent ca_name ca_encid ca_st option_map].
  change (Comp s ks :: flat_map dfs ks) with ([Comp s ks] ++ flat_map dfs ks) in Hc.
  pose proof (conds_tail _ _ _ _ Hc) as Hc2. cbn [names map cname shell] in Hc2.
  rewrite (cref_kids_ok ks IH _ _ _ is Hc2).
  apply f_equal2.
  - apply f_equal. unfold leaf, set_encid, strip_encid, canon_shell. cbn. reflexivity.
  - unfold names, mk_st. cbn [map]. apply f_equal3; [| |reflexivity].
    + change (cname (Comp s ks) :: map cname (flat_map dfs ks)) with ([cname (Comp s ks)] ++ map cname (flat_map dfs ks)).
      rewrite remove_names_app. reflexivity.
    + rewrite <- app_assoc. reflexivity.
Qed.

(** * loadEncapsulation: the component_refs of the top-level components that have children *)
Fixpoint enc_result (X : list component) (roots : list component) : list component :=
  match roots with
  | [] => X
  | r :: rest => enc_result (remove_names (names (dfs r)) X ++ [canon_comp E r]) rest
  end.

Lemma kids_canon_nonempty : forall c, (match kids c with [] => false | _ => true end) = true ->
  match kids (canon_comp E c) with [] => false | _ => true end = true.
Proof. intros [s [|k ks]] H; [discriminate | reflexivity]. Qed.

Lemma conds_after_root : forall r rest X used,
  conds (dfs r ++ flat_map dfs rest) X used ->
  conds (flat_map dfs rest) (remove_names (names (dfs r)) X ++ [canon_comp E r]) (used ++ names (dfs r)).
Proof.
  intros r rest X used Hc. pose proof (conds_tail _ _ _ _ Hc) as [Hp Hnf Hfr Hnd Hnm]. constructor; try assumption.
  - intros d Hd. apply in_or_app. left. now apply Hp.
  - unfold names in *. rewrite map_app. cbn [map].
    assert (Hx : ~ In (cname (canon_comp E r)) (map cname (remove_names (map cname (dfs r)) X))).
    { intros Hin. apply in_map_iff in Hin. destruct Hin as (y & Hy & Hyin). apply remove_names_In in Hyin.
      destruct Hyin as [_ Hn]. apply Hn. rewrite Hy, cname_canon. destruct r as [s ks]. rewrite dfs_unfold. now left. }
    clear - Hnf Hx. induction (map cname (remove_names (map cname (dfs r)) X)) as [|a l IH].
    + constructor; [intros [] | constructor].
    + inversion Hnf as [|? ? Ha Hl]; subst. cbn [app]. constructor.
      * intros Hin. apply in_app_or in Hin. destruct Hin as [Hin|[Hin|[]]]; [contradiction|]. apply Hx. left. now symmetry.
      * apply IH; [exact Hl|]. intros Hin. apply Hx. now right.
Qed.

Lemma enc_fold : forall roots X used is,
  forallb (fun c => match kids c with [] => false | _ => true end) roots = true ->
  conds (flat_map dfs roots) X used ->
  fold_left load_encapsulation_kid (map (print_encapsulation ident) roots) (mk_st X used is)
  = mk_st (enc_result X roots) (used ++ names (flat_map dfs roots)) is.
Proof.
  induction roots as [|r rest IH]; intros X used is Hk Hc.
  - cbn. rewrite app_nil_r. reflexivity.
  - cbn [forallb] in Hk. apply andb_true_iff in Hk. destruct Hk as [Hkr Hkrest].
    cbn [map fold_left flat_map enc_result] in *. unfold load_encapsulation_kid at 2.
    rewrite is_cref_print. rewrite (cref_ok r X used is (conds_head _ _ _ _ Hc)).
    cbn [mk_st es_comps es_used es_issues].
    pose proof (kids_canon_nonempty r Hkr) as Hkc. destruct (kids (canon_comp E r)) eqn:Ek; [discriminate|].
    change {| es_comps := remove_names (names (dfs r)) X ++ [canon_comp E r]; es_used := used ++ names (dfs r); es_issues := is |}
      with (mk_st (remove_names (names (dfs r)) X ++ [canon_comp E r]) (used ++ names (dfs r)) is).
    rewrite (IH _ _ is Hkrest (conds_after_root _ _ _ _ Hc)).
    unfold names. rewrite map_app, <- app_assoc. reflexivity.
Qed.

(** ** the result of loadEncapsulation in closed form *)
Lemma remove_names_snoc : forall ns A x, ~ In (cname x) ns -> remove_names ns (A ++ [x]) = remove_names ns A ++ [x].
Proof.
  intros ns A x H. unfold remove_names. rewrite filter_app. cbn [filter].
  destruct (in_names ns x) eqn:Ei; [apply in_names_iff in Ei; contradiction | reflexivity].
Qed.

Lemma enc_result_eq : forall roots X, NoDup (names (flat_map dfs roots)) ->
  enc_result X roots = remove_names (names (flat_map dfs roots)) X ++ map (canon_comp E) roots.
Proof.
  induction roots as [|r rest IH]; intros X Hnd.
  - cbn. rewrite app_nil_r. symmetry. apply remove_names_keep. intros ? ? [].
  - cbn [enc_result flat_map map]. cbn [flat_map] in Hnd. unfold names in *. rewrite map_app in Hnd.
    rewrite IH by (now apply NoDup_app_r in Hnd).
    rewrite remove_names_snoc.
    + rewrite map_app, remove_names_app, <- app_assoc. reflexivity.
    + rewrite cname_canon. intros Hin. eapply (NoDup_app_disjoint _ _ (cname r) Hnd); [|exact Hin].
      destruct r as [s ks]. rewrite dfs_unfold. now left.
Qed.

Definition haskids (c : component) : bool := match kids c with [] => false | _ => true end.

Lemma remove_all : forall ns A, (forall x, In x A -> In (cname x) ns) -> remove_names ns A = [].
Proof.
  intros ns. induction A as [|a A IH]; intros H; [reflexivity|]. unfold remove_names in *. cbn [filter].
  assert (Ha : in_names ns a = true) by (apply in_names_iff; apply H; now left). rewrite Ha. cbn [negb].
  apply IH. intros x Hx. apply H. now right.
Qed.

Lemma map_leaf_names : forall l, names (map leaf l) = names l.
Proof. intros. unfold names. rewrite map_map. apply map_ext. intros. apply cname_leaf. Qed.

Lemma filter_flat_map_names_incl : forall P cs n, In n (names (flat_map dfs (filter P cs))) -> In n (names (flat_map dfs cs)).
Proof.
  intros P. induction cs as [|c cs IH]; intros n H; [exact H|]. cbn [filter] in H. cbn [flat_map]. unfold names in *. rewrite map_app.
  apply in_or_app. destruct (P c).
  - cbn [flat_map] in H. rewrite map_app in H. apply in_app_or in H. destruct H as [H|H]; [now left | right; now apply IH].
  - right. now apply IH.
Qed.

(** the leaves that loadEncapsulation does not touch: the top-level components without children, in order *)
Lemma untouched_leaves : forall cs, NoDup (names (flat_map dfs cs)) ->
  remove_names (names (flat_map dfs (filter haskids cs))) (map leaf (flat_map dfs cs))
  = map leaf (filter (fun c => negb (haskids c)) cs).
Proof.
  induction cs as [|c cs IH]; intros Hnd; [reflexivity|].
  cbn [flat_map] in Hnd. unfold names in Hnd. rewrite map_app in Hnd.
  pose proof (NoDup_app_r _ _ Hnd) as Hnd2. fold (names (flat_map dfs cs)) in Hnd2.
  cbn [filter flat_map]. rewrite map_app. unfold remove_names. rewrite filter_app. fold (remove_names (names (flat_map dfs (if haskids c then c :: filter haskids cs else filter haskids cs))) (map leaf (dfs c))).
  destruct (haskids c) eqn:Ek; cbn [negb].
  - (* c heads a hierarchy: all of its leaves are taken *)
    cbn [flat_map]. unfold names at 1 2. rewrite map_app. fold (names (dfs c)). fold (names (flat_map dfs (filter haskids cs))).
    rewrite remove_all.
    + cbn [app]. fold (remove_names (names (dfs c) ++ names (flat_map dfs (filter haskids cs))) (map leaf (flat_map dfs cs))).
      rewrite remove_names_app. rewrite (remove_names_keep (names (dfs c))); [now apply IH|].
      intros x Hx Hin. apply in_map_iff in Hx. destruct Hx as (d & <- & Hd). rewrite cname_leaf in Hin.
      eapply (NoDup_app_disjoint _ _ (cname d) Hnd); [exact Hin | now apply in_map].
    + intros x Hx. apply in_map_iff in Hx. destruct Hx as (d & <- & Hd). rewrite cname_leaf. apply in_or_app. left. now apply in_map.
  - (* c has no children: dfs c = [c], and its leaf stays *)
    destruct c as [s ks]. unfold haskids in Ek. cbn [kids] in Ek. destruct ks; [|discriminate].
    rewrite dfs_unfold. cbn [flat_map map app].
    fold (remove_names (names (flat_map dfs (filter haskids cs))) (map leaf (flat_map dfs cs))).
    rewrite IH by exact Hnd2.
    unfold remove_names. cbn [filter].
    destruct (in_names (names (flat_map dfs (filter haskids cs))) (leaf (Comp s []))) eqn:Ei; [|reflexivity].
    exfalso. apply in_names_iff in Ei. rewrite cname_leaf in Ei. apply filter_flat_map_names_incl in Ei.
    eapply (NoDup_app_disjoint _ _ (cname (Comp s [])) Hnd); [rewrite dfs_unfold; now left | exact Ei].
Qed.

(** ** loadModel's children loop over a printed hierarchy: every component, at any depth, arrives flat *)
Variable fx : bool.

Lemma comp_fold_h : forall us0 c, comp_ok E true us0 c = true -> forallb (fun d => negb (is_import_comp d)) (dfs c) = true ->
  forall us cs n e encs conns is,
  fold_left (load_model_kid E) (print_component E ident ident c) (ma_of us cs n e encs conns is)
  = ma_of us (cs ++ map leaf (dfs c)) n e encs conns is.
Proof.
  intros us0. induction c as [s ks IH] using comp_ind'. intros Hok Hni us cs n e encs conns is.
  rewrite comp_ok_unfold in Hok. apply andb_true_iff in Hok. destruct Hok as [Hs Hk].
  rewrite dfs_unfold in *. cbn [forallb] in Hni. apply andb_true_iff in Hni. destruct Hni as [Hni1 Hni2].
  assert (Hsrc : c_src s = None).
  { unfold is_import_comp in Hni1. cbn [shell] in Hni1. destruct (c_src s); [discriminate | reflexivity]. }
  rewrite print_component_unfold, Hsrc, fold_left_app. cbn [fold_left].
  rewrite (kid_shell E us0) by assumption. cbn [map]. change (Comp (strip_encid (canon_shell E s)) []) with (leaf (Comp s ks)).
  assert (Hgen : forall cs0, fold_left (load_model_kid E) (flat_map (print_component E ident ident) ks) (ma_of us cs0 n e encs conns is)
                            = ma_of us (cs0 ++ map leaf (flat_map dfs ks)) n e encs conns is).
  { clear Hs Hni1. induction ks as [|k r IHr]; intros cs0; [cbn; rewrite app_nil_r; reflexivity|].
    inversion IH as [|? ? Pk Pr]; subst. cbn [forallb] in Hk. apply andb_true_iff in Hk. destruct Hk as [Hk1 Hk2].
    cbn [flat_map] in *. rewrite forallb_app in Hni2. apply andb_true_iff in Hni2. destruct Hni2 as [Hn1 Hn2].
    rewrite fold_left_app, (Pk Hk1 Hn1), (IHr Pr Hk2 Hn2), map_app, <- app_assoc. reflexivity. }
  rewrite Hgen, <- app_assoc. reflexivity.
Qed.

Lemma model_comps_fold_h : forall us0 l us cs n e encs conns is,
  forallb (comp_ok E true us0) l = true -> forallb (fun d => negb (is_import_comp d)) (flat_map dfs l) = true ->
  fold_left (load_model_kid E) (flat_map (print_component E ident ident) l) (ma_of us cs n e encs conns is)
  = ma_of us (cs ++ map leaf (flat_map dfs l)) n e encs conns is.
Proof.
  intros us0. induction l as [|c l IH]; intros us cs n e encs conns is H Hni; [cbn; rewrite app_nil_r; reflexivity|].
  cbn [forallb] in H. apply andb_true_iff in H. destruct H as [Hc Hl]. cbn [flat_map] in *.
  rewrite forallb_app in Hni. apply andb_true_iff in Hni. destruct Hni as [Hn1 Hn2].
  rewrite fold_left_app, (comp_fold_h us0 c Hc Hn1), (IH _ _ _ _ _ _ _ Hl Hn2), map_app, <- app_assoc. reflexivity.
Qed.

Lemma enc_list_roots : forall (f : component -> xml) cs,
  flat_map (fun c => match kids c with [] => [] | _ => [f c] end) cs = map f (filter haskids cs).
Proof.
  induction cs as [|c cs IH]; [reflexivity|]. cbn [flat_map filter]. unfold haskids at 1. destruct (kids c); cbn; rewrite IH; reflexivity.
Qed.

Lemma names_distinct_NoDup : forall l, names_distinct l = true -> NoDup l.
Proof.
  induction l as [|x l IH]; intros H; [constructor|]. cbn [names_distinct] in H. apply andb_true_iff in H. destruct H as [Hx Hl].
  constructor; [|now apply IH]. intros Hin. apply negb_true_iff in Hx.
  assert (existsb (String.eqb x) l = true) by (apply existsb_exists; exists x; split; [exact Hin | apply String.eqb_refl]). congruence.
Qed.

Lemma dfs_ok : forall us c d, comp_ok E true us c = true -> In d (dfs c) -> comp_ok E true us d = true.
Proof.
  intros us c d H Hin. rewrite <- (flat_c_dfs c []) in Hin. apply in_map_iff in Hin. destruct Hin as ((q & d') & Hd & Hin).
  cbn [snd] in Hd. subst d'. eapply flat_c_ok; eassumption.
Qed.

Lemma dfs_list_ok : forall us cs d, forallb (comp_ok E true us) cs = true -> In d (flat_map dfs cs) -> comp_ok E true us d = true.
Proof.
  intros us cs d H Hin. apply in_flat_map in Hin. destruct Hin as (c & Hc & Hd). eapply dfs_ok; [|exact Hd].
  rewrite forallb_forall in H. now apply H.
Qed.

Lemma dfs_canon : forall c, dfs (canon_comp E c) = map (canon_comp E) (dfs c).
Proof.
  induction c as [s ks IH] using comp_ind'. cbn [canon_comp]. rewrite !dfs_unfold. cbn [map]. f_equal.
  induction ks as [|k r IHr]; [reflexivity|]. inversion IH as [|? ? Pk Pr]; subst. cbn [map flat_map]. rewrite map_app, Pk, (IHr Pr). reflexivity.
Qed.

(** linking units raises nothing on a forest of canonical images of ok, non-imported components *)
Lemma link_units_ok : forall us G, (forall g, In g (flat_map dfs G) -> exists d, g = canon_comp E d /\ comp_ok E true us d = true /\ is_import_comp d = false) ->
  link_units_issues (map (canon_units E) us) G = [].
Proof.
  intros us G H. unfold link_units_issues. apply flat_map_nil. intros pc Hpc.
  assert (Hin : In (snd pc) (flat_map dfs G)).
  { unfold all_comps in Hpc. rewrite <- (all_comps_dfs G [] 0). now apply in_map. }
  destruct (H _ Hin) as (d & Hd & Hok & Hni). rewrite Hd. destruct d as [s ks]. cbn [canon_comp shell canon_shell c_vars].
  rewrite comp_ok_unfold in Hok. apply andb_true_iff in Hok. destruct Hok as [Hs _]. unfold shell_ok in Hs.
  unfold is_import_comp in Hni. cbn [shell] in Hni. destruct (c_src s); [discriminate|]. bsplit_all.
  apply flat_map_nil. intros v Hv.
  match goal with Hvs : forallb (variable_ok true us) (c_vars s) = true |- _ => rewrite forallb_forall in Hvs; specialize (Hvs v Hv); unfold variable_ok in Hvs end.
  bsplit_all. destruct (v_units v) as [u|]; [|reflexivity]. bsplit_all. rewrite has_units_named_canon.
  match goal with Ho : _ || _ = true |- _ => rewrite Ho end. reflexivity.
Qed.

(** ** stage 3: models with an encapsulation hierarchy (no imports, no connections) *)

(** the order in which the re-parsed model lists its top-level components *)
Definition enc_order (cs : list component) : list component := filter (fun c => negb (haskids c)) cs ++ filter haskids cs.

Lemma enc_order_perm : forall cs, Permutation (enc_order cs) cs.
Proof.
  induction cs as [|c cs IH]; [constructor|]. unfold enc_order in *. cbn [filter].
  destruct (haskids c); cbn [negb].
  - apply Permutation_sym. apply Permutation_cons_app. now apply Permutation_sym.
  - now constructor.
Qed.

Lemma shell_ok_named : forall us s, shell_ok E true us s = true -> nonempty (c_name s) = true.
Proof. intros us s H. unfold shell_ok in H. bsplit_all. assumption. Qed.

Lemma incl_filter_dfs : forall P cs d, In d (flat_map dfs (filter P cs)) -> In d (flat_map dfs cs).
Proof.
  intros P cs d H. apply in_flat_map in H. destruct H as (c & Hc & Hd). apply filter_In in Hc. apply in_flat_map. exists c. tauto.
Qed.

Lemma NoDup_names_filter : forall P cs, NoDup (names (flat_map dfs cs)) -> NoDup (names (flat_map dfs (filter P cs))).
Proof.
  intros P. induction cs as [|c cs IH]; intros H; [exact H|]. cbn [flat_map] in H. unfold names in *. rewrite map_app in H.
  cbn [filter]. destruct (P c); [|apply IH; now apply NoDup_app_r in H].
  cbn [flat_map]. rewrite map_app.
  pose proof (NoDup_app_l _ _ H) as H1. pose proof (IH (NoDup_app_r _ _ H)) as H2.
  clear IH. revert H1 H2 H. generalize (map cname (dfs c)) as a. intros a Ha Hb Hab.
  induction a as [|x a IHa]; [exact Hb|]. cbn [app] in *. inversion Ha; subst. inversion Hab as [|? ? Hx Hr]; subst.
  constructor; [|now apply IHa]. intros Hin. apply Hx. apply in_or_app. apply in_app_or in Hin. destruct Hin as [Hin|Hin]; [now left|].
  right. fold (names (flat_map dfs (filter P cs))) in Hin. apply filter_flat_map_names_incl in Hin. exact Hin.
Qed.

Lemma no_roots_no_kids : forall cs, filter haskids cs = [] ->
  existsb (fun c => match kids c with [] => false | _ => true end) cs = false.
Proof.
  induction cs as [|c cs IH]; intros H; [reflexivity|]. cbn [filter] in H. cbn [existsb]. unfold haskids in H at 1.
  destruct (kids c); [|discriminate]. cbn [orb]. now apply IH.
Qed.

Lemma kid_encapsulation : forall us cs0 n encid k ks conns is,
  load_model_kid E (ma_of us cs0 n "" [] conns is) (el "encapsulation" (opt_attr ident "id" encid) (k :: ks))
  = ma_of us cs0 n encid [el "encapsulation" (opt_attr ident "id" encid) (k :: ks)] conns is.
Proof.
  intros. unfold load_model_kid.
  replace (is_cellml20 "component" (el "encapsulation" (opt_attr ident "id" encid) (k :: ks))) with false by reflexivity.
  replace (is_cellml20 "units" (el "encapsulation" (opt_attr ident "id" encid) (k :: ks))) with false by reflexivity.
  replace (is_cellml20 "import" (el "encapsulation" (opt_attr ident "id" encid) (k :: ks))) with false by reflexivity.
  replace (is_cellml20 "encapsulation" (el "encapsulation" (opt_attr ident "id" encid) (k :: ks))) with true by reflexivity.
  unfold el at 1 2. unfold xml_attrs, xml_kids, ma_of.
  cbn [ma_units ma_comps ma_imports ma_encid ma_encs ma_conns ma_issues].
  unfold opt_attr, ident. destruct (nonempty encid) eqn:Ee; [|apply nonempty_false in Ee; rewrite Ee]; cbn; rewrite ?app_nil_r; reflexivity.
Qed.

Theorem load_print_tree_enc : forall m, printable E true m -> no_imports m = true -> no_connections m = true ->
  load E fx true (print_tree E m)
  = ({| m_name := m_name m; m_id := m_id m; m_encid := m_encid m; m_units := map (canon_units E) (m_units m);
        m_comps := map (canon_comp E) (enc_order (m_comps m)); m_eqv := [] |}, []).
Proof.
  intros m H Hni Hnc.
  assert (Hclean : clean (print_tree E m) = true).
  { unfold printable, printableb in H. bsplit_all. apply clean_print_tree. assumption. }
  pose proof (clean_no_namespace_issues (print_tree E m) Hclean) as Hns.
  unfold printable, printableb in H. bsplit_all.
  set (cs := m_comps m) in *. set (roots := filter haskids cs).
  set (L := map leaf (flat_map dfs cs)).
  (* facts *)
  assert (Henc : forallb (fun c => match kids c with [] => negb (nonempty (c_encid (shell c))) | _ => true end) cs = true
                 /\ existsb (fun c => match kids c with [] => false | _ => true end) cs || negb (nonempty (m_encid m)) = true).
  { match goal with He : enc_ids_representable m = true |- _ => unfold enc_ids_representable in He; apply andb_true_iff in He; exact He end. }
  destruct Henc as [Henc1 Henc2].
  assert (Hnd : NoDup (names (flat_map dfs cs))).
  { match goal with Hd : names_distinct _ = true |- _ => apply names_distinct_NoDup in Hd; rewrite <- map_map in Hd end.
    unfold all_comps in *. rewrite all_comps_dfs in *. assumption. }
  assert (Hnimp : forallb (fun d => negb (is_import_comp d)) (flat_map dfs cs) = true).
  { unfold no_imports in Hni. apply andb_true_iff in Hni. destruct Hni as [_ Hc]. unfold all_comps in Hc.
    rewrite <- (all_comps_dfs cs [] 0), forallb_map. exact Hc. }
  assert (Hniu : forallb (fun u => negb (is_import_units u)) (m_units m) = true).
  { unfold no_imports in Hni. apply andb_true_iff in Hni. tauto. }
  assert (Heqv : m_eqv m = []) by (unfold no_connections in Hnc; destruct (m_eqv m); [reflexivity | discriminate]).
  assert (Hconds : conds (flat_map dfs roots) L []).
  { constructor.
    - intros d Hd. apply in_map. eapply incl_filter_dfs. exact Hd.
    - unfold L. rewrite map_leaf_names. exact Hnd.
    - intros d _ [].
    - apply NoDup_names_filter. exact Hnd.
    - intros d Hd. apply incl_filter_dfs in Hd.
      match goal with Hc : forallb (comp_ok E true (m_units m)) cs = true |- _ => pose proof (dfs_list_ok _ _ _ Hc Hd) as Hok end.
      destruct d as [s ks]. rewrite comp_ok_unfold in Hok. apply andb_true_iff in Hok. destruct Hok as [Hs _].
      eapply shell_ok_named. exact Hs. }
  (* the tree *)
  assert (Htree : print_tree E m = el "model" (opt_attr ident "name" (m_name m) ++ opt_attr ident "id" (m_id m))
                    (flat_map (print_units E ident) (m_units m) ++ flat_map (print_component E ident ident) cs
                     ++ match map (print_encapsulation ident) roots with
                        | [] => []
                        | _ => [el "encapsulation" (opt_attr ident "id" (m_encid m)) (map (print_encapsulation ident) roots)]
                        end)).
  { unfold print_tree, print_gen. rewrite no_imports_print_imports by assumption.
    rewrite build_maps_no_connections by assumption. rewrite enc_list_roots. cbn [print_connections app]. reflexivity. }
  rewrite Htree in *. rewrite load_el_model. cbv zeta. rewrite Hns.
  rewrite !fold_left_app.
  rewrite (model_units_fold E (m_units m)) by assumption.
  rewrite (model_comps_fold_h (m_units m) cs) by assumption. cbn [app]. fold L.
  rewrite model_attrs by assumption.
  (* final forest in closed form, whichever way *)
  assert (Hfinal : remove_names (names (flat_map dfs roots)) L ++ map (canon_comp E) roots = map (canon_comp E) (enc_order cs)).
  { unfold L, roots. rewrite untouched_leaves by exact Hnd. unfold enc_order. rewrite map_app. f_equal.
    clear - Henc1. induction cs as [|c cs0 IH]; [reflexivity|].
    cbn [forallb] in Henc1. apply andb_true_iff in Henc1. destruct Henc1 as [Hc Hcs]. cbn [filter].
    unfold haskids at 1. destruct c as [s ks]. cbn [kids] in *. destruct ks; cbn [negb map]; [|now apply IH].
    rewrite IH by exact Hcs. f_equal. unfold leaf. cbn [shell canon_comp map]. f_equal.
    apply negb_true_iff in Hc. apply nonempty_false in Hc. cbn [shell] in Hc.
    unfold strip_encid. cbn. unfold canon_shell. rewrite Hc. reflexivity. }
  assert (Hk : forallb (fun c => match kids c with [] => false | _ => true end) roots = true).
  { unfold roots. apply forallb_forall. intros c Hc. apply filter_In in Hc. destruct Hc as [_ Hc]. exact Hc. }
  destruct roots as [|r0 rs] eqn:Eroots.
  - (* no hierarchy at all: no encapsulation element *)
    cbn [map fold_left]. unfold ma_of.
    cbn [ma_units ma_comps ma_imports ma_encid ma_encs ma_conns ma_issues na_name na_id na_has_name na_issues
         fst snd app fold_left cs_comps cs_eqv cs_used cs_issues].
    cbn [flat_map names map] in Hfinal. rewrite remove_names_keep in Hfinal by (intros ? ? []). rewrite app_nil_r in Hfinal.
    rewrite Hfinal.
    assert (Hencid : m_encid m = "").
    { assert (Hex : existsb (fun c => match kids c with [] => false | _ => true end) cs = false) by exact (no_roots_no_kids cs Eroots).
      rewrite Hex in Henc2. cbn [orb] in Henc2. apply negb_true_iff in Henc2. now apply nonempty_false. }
    rewrite link_units_ok.
    + rewrite Hencid. reflexivity.
    + intros g Hg.
      assert (Hg2 : In g (map (canon_comp E) (flat_map dfs (enc_order cs)))).
      { clear - Hg. induction (enc_order cs) as [|c l IH]; [exact Hg|]. cbn [map flat_map] in *. rewrite map_app. apply in_or_app.
        apply in_app_or in Hg. destruct Hg as [Hg|Hg]; [left; rewrite <- dfs_canon; exact Hg | right; now apply IH]. }
      apply in_map_iff in Hg2. destruct Hg2 as (d & <- & Hd). exists d. split; [reflexivity|].
      assert (Hd2 : In d (flat_map dfs cs)).
      { apply in_flat_map in Hd. destruct Hd as (c & Hc & Hdc). apply in_flat_map. exists c. split; [|exact Hdc].
        eapply Permutation_in; [apply enc_order_perm | exact Hc]. }
      split; [eapply dfs_list_ok; eassumption|].
      rewrite forallb_forall in Hnimp. specialize (Hnimp d Hd2). now apply negb_true_iff in Hnimp.
  - (* the encapsulation element *)
    cbn [map fold_left].
    change (ma_of (map (canon_units E) (m_units m)) L 0 "" [] [] []) with (ma_of (map (canon_units E) (m_units m)) L 0 "" [] [] []).
    rewrite kid_encapsulation. unfold ma_of.
    cbn [ma_units ma_comps ma_imports ma_encid ma_encs ma_conns ma_issues na_name na_id na_has_name na_issues
         fst snd app fold_left cs_comps cs_eqv cs_used cs_issues].
    unfold load_encapsulation, el, xml_kids.
    change {| es_comps := L; es_used := []; es_issues := [] |} with (mk_st L [] []).
    change (print_encapsulation ident r0 :: map (print_encapsulation ident) rs) with (map (print_encapsulation ident) (r0 :: rs)).
    rewrite (enc_fold (r0 :: rs) L [] [] Hk Hconds).
    cbn [mk_st es_comps es_used es_issues fst snd app].
    rewrite enc_result_eq by (apply (c_nodup _ _ _ Hconds)). rewrite Hfinal.
    rewrite link_units_ok.
    + reflexivity.
    + intros g Hg.
      assert (Hg2 : In g (map (canon_comp E) (flat_map dfs (enc_order cs)))).
      { clear - Hg. induction (enc_order cs) as [|c l IH]; [exact Hg|]. cbn [map flat_map] in *. rewrite map_app. apply in_or_app.
        apply in_app_or in Hg. destruct Hg as [Hg|Hg]; [left; rewrite <- dfs_canon; exact Hg | right; now apply IH]. }
      apply in_map_iff in Hg2. destruct Hg2 as (d & <- & Hd). exists d. split; [reflexivity|].
      assert (Hd2 : In d (flat_map dfs cs)).
      { apply in_flat_map in Hd. destruct Hd as (c & Hc & Hdc). apply in_flat_map. exists c. split; [|exact Hdc].
        eapply Permutation_in; [apply enc_order_perm | exact Hc]. }
      split; [eapply dfs_list_ok; eassumption|].
      rewrite forallb_forall in Hnimp. specialize (Hnimp d Hd2). now apply negb_true_iff in Hnimp.
Qed.

(** ** content up to child order *)
Lemma src_eq_refl : forall a, src_eq a a.
Proof. intros [i|]; simpl; auto. Qed.

Lemma shell_eq_refl : forall s, shell_eq s s.
Proof. intros s. unfold shell_eq. repeat split; auto using src_eq_refl, Permutation_refl. Qed.

Lemma comp_eq_refl : forall c, comp_eq c c.
Proof.
  induction c as [s ks IH] using comp_ind'. apply (CompEq s s ks ks ks); [apply shell_eq_refl | apply Permutation_refl|].
  induction ks as [|k r IHr]; [constructor|]. inversion IH; subst. constructor; auto.
Qed.

Lemma Forall2_refl : forall {A} (R : A -> A -> Prop) l, (forall x, R x x) -> Forall2 R l l.
Proof. induction l; intros; constructor; auto. Qed.

Lemma units_eq_refl : forall u, units_eq u u.
Proof. intros u. unfold units_eq. repeat split; auto using src_eq_refl, Permutation_refl. Qed.

Lemma content_eq_refl : forall m, content_eq m m.
Proof.
  intros m. unfold content_eq. repeat split; auto.
  - exists (m_units m). split; [apply Permutation_refl | apply Forall2_refl; apply units_eq_refl].
  - exists (m_comps m). split; [apply Permutation_refl | apply Forall2_refl; apply comp_eq_refl].
Qed.

(** stage 3 as a statement about content *)
Theorem roundtrip_enc : forall m, printable E true m -> no_imports m = true -> no_connections m = true ->
  exists m', print_model E true m = Some (print_tree E m) /\ load E fx true (print_tree E m) = (m', [])
             /\ content_eq m' (canon E m).
Proof.
  intros m H Hni Hnc. eexists. split; [now apply print_model_printable|]. split; [now apply load_print_tree_enc|].
  unfold content_eq, canon. cbn [m_name m_id m_encid m_units m_comps m_eqv].
  assert (Heqv : m_eqv m = []) by (unfold no_connections in Hnc; destruct (m_eqv m); [reflexivity | discriminate]).
  rewrite Heqv. repeat split; auto.
  - exists (map (canon_units E) (m_units m)). split; [apply Permutation_refl | apply Forall2_refl; apply units_eq_refl].
  - exists (map (canon_comp E) (enc_order (m_comps m))). split.
    + apply Permutation_map. apply Permutation_sym. apply enc_order_perm.
    + apply Forall2_refl. apply comp_eq_refl.
Qed.

End Enc.
