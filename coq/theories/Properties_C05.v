(** Properties_C05.v — statements only.  Each theorem is closed by [exact <lemma>] and followed by Print Assumptions.
    C05: analysis classifies every model and variable correctly and consistently.
    Model: AnalysisDefs.v (faithful transcription of the classification core of src/analyser.cpp);
    executable specification: AnalysisSpec.v (the same predicate is evaluated on the real AnalyserModel). *)
From Coq Require Import List Bool Arith Permutation.
From LC Require Import AnalysisDefs AnalysisSpec AnalysisProofs AnalysisWfProofs AnalysisWitness.
Import ListNotations.

(** ** Termination of the do/while over mInternalEquations *)

(** A sweep that reports progress gives a type to at least one equation that had none, a sweep that reports none
    types nothing: the number of untyped equations is the loop's measure. *)
Theorem C05_productive_sweep_types_an_equation : forall s nla es st st' es' b,
  sweep s nla st es = (st', es', b) ->
  length es' = length es /\
  (b = true -> count_unknown es' < count_unknown es) /\
  (b = false -> count_unknown es' = count_unknown es) /\
  count_unknown es' <= count_unknown es.
Proof. exact AnalysisProofs.sweep_count. Qed.
Print Assumptions C05_productive_sweep_types_an_equation.

(** Hence (number of untyped equations) + (passes left) sweeps always suffice, from any state, in any pass. *)
Theorem C05_loop_terminates : forall s fuel loopn nla st es,
  count_unknown es + budget loopn <= fuel -> loop s fuel loopn nla st es <> None.
Proof. exact AnalysisProofs.loop_total. Qed.
Print Assumptions C05_loop_terminates.

(** The analysis never stops for lack of fuel, and more fuel never changes a result. *)
Theorem C05_analysis_total : forall s x, analyse_ext s x <> OutOfFuel.
Proof. exact AnalysisProofs.analyse_ext_terminates. Qed.
Print Assumptions C05_analysis_total.

Theorem C05_fuel_irrelevant : forall s fuel loopn nla st es r,
  loop s fuel loopn nla st es = Some r -> forall k, loop s (fuel + k) loopn nla st es = Some r.
Proof. exact AnalysisProofs.loop_fuel_monotone. Qed.
Print Assumptions C05_fuel_irrelevant.

(** ** Well-formedness of valid results *)

(** Every class of connected variables appears exactly once (variable of integration, states, variables), and
    every primary / initialising variable listed is a variable of the model, of that class. *)
Theorem C05_result_wf_classes : forall s r,
  analyse s = Done r -> valid_type (r_type r) = true -> wf_classes s r = true.
Proof. exact AnalysisWfProofs.wf_classes_analyse. Qed.
Print Assumptions C05_result_wf_classes.

(** State indices are 0..n-1 in order, variable indices likewise (dense and unique; entry i is variable i). *)
Theorem C05_result_wf_indices : forall s r, analyse s = Done r -> wf_indices r = true.
Proof. exact AnalysisWfProofs.wf_indices_analyse. Qed.
Print Assumptions C05_result_wf_indices.

(** "Every state and every computed variable is computed by exactly one equation or by the equations of exactly
    one NLA system" is FALSE in the faithful model (and in the library): NLA grouping is not transitive. *)
Theorem C05_result_wf_definers_refuted :
  exists s r, analyse s = Done r /\ valid_type (r_type r) = true /\ wf_definers r = false.
Proof. exists split_sys. exact AnalysisWitness.split_witness. Qed.
Print Assumptions C05_result_wf_definers_refuted.

(** "Each equation depends on the equations computing the non-constant variables it reads" is FALSE as well: the
    dependency is lost when the variable read is later re-targeted to another component. *)
Theorem C05_result_wf_dependencies_refuted :
  exists s r, analyse s = Done r /\ valid_type (r_type r) = true /\ wf_deps_complete s r = false.
Proof. exists deps_sys. exact AnalysisWitness.deps_witness. Qed.
Print Assumptions C05_result_wf_dependencies_refuted.

(** ** Invariance *)

(** The classification is NOT invariant under re-ordering of the equations (second pass is greedy)... *)
Theorem C05_classification_perm_invariant_refuted :
  exists s s', same_system_reordered s s' /\
    type_of (analyse s) = Some MNla /\ type_of (analyse s') = Some MOverconstrained.
Proof. exists order_a, order_b. exact AnalysisWitness.order_witness. Qed.
Print Assumptions C05_classification_perm_invariant_refuted.

(** ... nor under a consistent renaming of the variables of one component (the isolation test compares names). *)
Theorem C05_classification_rename_invariant_refuted :
  exists s s', forallb names_distinct s = true /\ forallb names_distinct s' = true /\
    map (fun c => map v_cls (c_vars c)) s = map (fun c => map v_cls (c_vars c)) s' /\
    type_of (analyse s) = Some MNla /\ type_of (analyse s') = Some MOverconstrained.
Proof. exists rename_a, rename_b. exact AnalysisWitness.rename_witness. Qed.
Print Assumptions C05_classification_rename_invariant_refuted.

(** Non-vacuity: a two-component ODE model is analysed as ODE and satisfies every clause. *)
Example C05_nonvacuous : exists r, analyse good_sys = Done r /\ r_type r = MOde /\ wf good_sys r = true /\ wf_failures good_sys r = [].
Proof. exact AnalysisWitness.good_witness. Qed.
Print Assumptions C05_nonvacuous.
