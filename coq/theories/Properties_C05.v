(** Properties_C05.v — statements only.  Each theorem is closed by [exact <lemma>] and followed by Print Assumptions.
    C05: analysis classifies every model and variable correctly and consistently.
    Model: AnalysisDefs.v (faithful transcription of the classification core of src/analyser.cpp);
    executable specification: AnalysisSpec.v (the same predicate is evaluated on the real AnalyserModel). *)
From Coq Require Import List Bool Arith Permutation.
From LC Require Import AnalysisDefs AnalysisSpec AnalysisProofs AnalysisWfProofs AnalysisOwnProofs AnalysisRenameProofs AnalysisConfluenceProofs AnalysisDefinerProofs AnalysisDepProofs AnalysisTopoProofs AnalysisEqVarsProofs AnalysisWitness AnalysisOrderWitness AnalysisScopeProofs AnalysisRound7Proofs.
Import ListNotations.

(** ** Termination of the do/while over mInternalEquations *)

(** A sweep that reports progress gives a type to at least one equation that had none, a sweep that reports none
    types nothing: the number of untyped equations is the loop's measure. *)
Theorem C05_productive_sweep_types_an_equation : forall s nla es st st' es' b,
  sweep s nla st es = (st', es', b) ->
  length es' = length es /\
  (b = true -> count_unknown es' < count_unknown es) /\
  (b = false -> count_unknown es' = count_unknown es) /\
  count_unknown es' <= count_unknown es.
Proof. exact AnalysisProofs.sweep_count. Qed.
Print Assumptions C05_productive_sweep_types_an_equation.

(** Hence (number of untyped equations) + (passes left) sweeps always suffice, from any state, in any pass. *)
Theorem C05_loop_terminates : forall s fuel loopn nla st es,
  count_unknown es + budget loopn <= fuel -> loop s fuel loopn nla st es <> None.
Proof. exact AnalysisProofs.loop_total. Qed.
Print Assumptions C05_loop_terminates.

(** The analysis never stops for lack of fuel, and more fuel never changes a result. *)
Theorem C05_analysis_total : forall s x, analyse_ext s x <> OutOfFuel.
Proof. exact AnalysisProofs.analyse_ext_terminates. Qed.
Print Assumptions C05_analysis_total.

Theorem C05_fuel_irrelevant : forall s fuel loopn nla st es r,
  loop s fuel loopn nla st es = Some r -> forall k, loop s (fuel + k) loopn nla st es = Some r.
Proof. exact AnalysisProofs.loop_fuel_monotone. Qed.
Print Assumptions C05_fuel_irrelevant.

(** Round 7: any two amounts of fuel on which the loop returns give the same result (no ordering of the fuels). *)
Theorem C05_fuel_deterministic : forall s f1 f2 loopn nla st es r1 r2,
  loop s f1 loopn nla st es = Some r1 -> loop s f2 loopn nla st es = Some r2 -> r1 = r2.
Proof. exact AnalysisRound7Proofs.loop_fuel_deterministic. Qed.
Print Assumptions C05_fuel_deterministic.

(** Round 7: one sweep over a concatenated equation list is the sweep over the first part followed by the sweep
    over the second part from the state the first leaves; results concatenate, progress flags are or-ed. *)
Theorem C05_sweep_app : forall s nla es1 es2 st,
  sweep s nla st (es1 ++ es2) =
  let '(st1, r1, b1) := sweep s nla st es1 in
  let '(st2, r2, b2) := sweep s nla st1 es2 in
  (st2, r1 ++ r2, b1 || b2).
Proof. exact AnalysisRound7Proofs.sweep_app. Qed.
Print Assumptions C05_sweep_app.

(** ** Well-formedness of valid results *)

(** Every class of connected variables appears exactly once (variable of integration, states, variables), and
    every primary / initialising variable listed is a variable of the model, of that class. *)
Theorem C05_result_wf_classes : forall s r,
  analyse s = Done r -> valid_type (r_type r) = true -> wf_classes s r = true.
Proof. exact AnalysisWfProofs.wf_classes_analyse. Qed.
Print Assumptions C05_result_wf_classes.

(** State indices are 0..n-1 in order, variable indices likewise (dense and unique; entry i is variable i). *)
Theorem C05_result_wf_indices : forall s r, analyse s = Done r -> wf_indices r = true.
Proof. exact AnalysisWfProofs.wf_indices_analyse. Qed.
Print Assumptions C05_result_wf_indices.

(** One definer, as far as it is true (the _partial of the refuted clause below): when the do/while loop stops,
    every internal variable that was given a direct type (computed constant, algebraic, or a state that received
    its index) is listed in mUnknownVariables of EXACTLY ONE equation, which lists nothing else and whose type
    matches; a variable turned into an NLA unknown (INITIALISED_ALGEBRAIC) is listed only by NLA equations; every
    other variable by none.  (Stated on the internal state after the loop; the result-level statement is
    C05_result_wf_one_definer below.) *)
Theorem C05_one_definer_partial : forall s ivs0 es0 st es1,
  build s = Some (ivs0, es0) -> vs_issues (analyse_asts s ivs0 es0) = [] ->
  loop s (loop_fuel es0) 1 false (mkCs (vs_ivs (analyse_asts s ivs0 es0)) 0 0) es0 = Some (st, es1) ->
  forall p, p < length (cs_ivs st) ->
    let v := geti (cs_ivs st) p in
    ((comp_type (iv_type v) = true \/ (iv_type v = VState /\ has_index v = true)) ->
       exists e, filter (fun x => mem_nat p (ie_unknown x)) es1 = [e] /\ ie_unknown e = [p] /\ agree (iv_type v) (ie_type e) = true) /\
    (iv_type v = VInitAlgebraic -> forall e, In e es1 -> mem_nat p (ie_unknown e) = true -> ie_type e = ENla) /\
    ((pre_type (iv_type v) = true \/ (iv_type v = VState /\ has_index v = false)) ->
       forall e, In e es1 -> mem_nat p (ie_unknown e) = false).
Proof. exact AnalysisOwnProofs.loop_definers_spelled. Qed.
Print Assumptions C05_one_definer_partial.

(** "Every state and every computed variable is computed by exactly one equation or by the equations of exactly
    one NLA system" is FALSE in the faithful model (and in the library): NLA grouping is not transitive. *)
Theorem C05_result_wf_definers_refuted :
  exists s r, analyse s = Done r /\ valid_type (r_type r) = true /\ wf_definers r = false.
Proof. exists split_sys. exact AnalysisWitness.split_witness. Qed.
Print Assumptions C05_result_wf_definers_refuted.

(** ... and a valid model can have states computed by NO equation: an equation in which two states are still
    without index never gets a type, raises no issue and is discarded. *)
Theorem C05_result_wf_definers_refuted_states :
  exists s r, analyse s = Done r /\ r_type r = MOde /\ length (r_states r) = 2 /\ r_eqs r = [] /\ wf_definers r = false.
Proof. exists two_states_sys. exact AnalysisWitness.two_states_witness. Qed.
Print Assumptions C05_result_wf_definers_refuted_states.

(** result_wf_one_definer (the _partial of the two refutations above, at the level of the RESULT): in a valid
    result every state and every computed variable is computed by exactly one equation, which computes nothing else
    and has the matching type, or by NLA equations only, each of which lists it and carries a system index
    ([wf_definers_weak]) -- provided every state received its index in the loop ([states_have_odes], which is exactly
    what fails in C05-state-without-equation).  If moreover the NLA equations computing one variable carry one system
    index ([nla_index_consistent], exactly what fails in C05-nla-system-split) the full clause [wf_definers] holds. *)
Theorem C05_result_wf_one_definer_weak : forall s r,
  analyse s = Done r -> valid_type (r_type r) = true -> states_have_odes s -> wf_definers_weak r = true.
Proof. exact AnalysisDefinerProofs.result_wf_definers_weak. Qed.
Print Assumptions C05_result_wf_one_definer_weak.

Theorem C05_result_wf_one_definer : forall s r,
  analyse s = Done r -> valid_type (r_type r) = true ->
  states_have_odes s -> nla_index_consistent r = true -> wf_definers r = true.
Proof. exact AnalysisDefinerProofs.result_wf_definers. Qed.
Print Assumptions C05_result_wf_one_definer.

(** Clause 31 (W3b), for EVERY input (no hypothesis: invalid results have no equations): in the result of the
    analysis the positions of the equations are distinct; every equation lists at least one variable; each variable
    it lists is a variable of the result whose equations() contains the equation; an equation that is not of type
    NLA has no NLA system index (the index is None until the grouping, which gives one to NLA equations only). *)
Theorem C05_result_wf_equation_vars : forall s r, analyse s = Done r -> wf_equation_vars r = true.
Proof. exact AnalysisEqVarsProofs.result_wf_equation_vars_31. Qed.
Print Assumptions C05_result_wf_equation_vars.

(** ... and vice versa: every equation of the result that a variable lists in equations() lists that variable
    (vars_list_back r := forall a j e, In a (all_avars r) -> In j (av_eqs a) -> find_aeq r j = Some e ->
    In (av_var a) (ae_vars e)).  A constant lists its dummy equation, which is not an equation of the result. *)
Theorem C05_result_variables_listed_back : forall s r, analyse s = Done r -> vars_list_back r.
Proof. exact AnalysisEqVarsProofs.result_vars_list_back. Qed.
Print Assumptions C05_result_variables_listed_back.

(** non-vacuity of the two: the two-component ODE model has a valid result with at least two equations, whose first
    variable lists an equation of the result, which lists it back. *)
Example C05_equation_vars_nonvacuous : lists_back_sample good_sys = true.
Proof. exact AnalysisEqVarsProofs.eqvars_nonvacuous. Qed.
Print Assumptions C05_equation_vars_nonvacuous.

(** "Each equation depends on the equations computing the non-constant variables it reads" is FALSE as well: the
    dependency is lost when the variable read is later re-targeted to another component. *)
Theorem C05_result_wf_dependencies_refuted : dependency_fix = false ->
  exists s r, analyse s = Done r /\ valid_type (r_type r) = true /\ wf_deps_complete s r = false.
Proof. intro H. exists deps_sys. exact (AnalysisWitness.deps_witness H). Qed.
Print Assumptions C05_result_wf_dependencies_refuted.

(** With the repair fixes/C05-dependency-retarget.diff (dependency_fix = true: dependencies compared and looked up
    through the equivalence class; committed in the library) the witness is well formed in every clause ... *)
Theorem C05_result_wf_dependencies_fixed_witness : dependency_fix = true ->
  exists r, analyse deps_sys = Done r /\ wf deps_sys r = true.
Proof. exact AnalysisWitness.deps_witness_fixed. Qed.
Print Assumptions C05_result_wf_dependencies_fixed_witness.

(** ... and in general (clauses 4 and 41 of AnalysisSpec.wf_failures): in every valid result, each equation's
    dependency list contains every class that its document equation reads and does not compute itself
    (wf_deps_complete), and contains nothing else - only classes the document equation reads, never a class the
    equation computes, only classes of variables of the result (wf_deps_sound).
    Hypotheses: [dependency_fix = true] (without the repair the statement is false,
    C05_result_wf_dependencies_refuted); [unique_ids s], the abstract system gives different ids to
    different equations (the specification looks a document equation up by id; the generator and the importer number
    equations consecutively).  No hypothesis on the states: the clauses hold as well for the results with a state
    that no equation computes (C05-state-without-equation). *)
Theorem C05_result_wf_dependencies_complete : forall s r,
  analyse s = Done r -> valid_type (r_type r) = true -> dependency_fix = true -> unique_ids s ->
  wf_deps_complete s r = true.
Proof. exact AnalysisDepProofs.result_wf_deps_complete. Qed.
Print Assumptions C05_result_wf_dependencies_complete.

Theorem C05_result_wf_dependencies_sound : forall s r,
  analyse s = Done r -> valid_type (r_type r) = true -> dependency_fix = true -> unique_ids s ->
  wf_deps_sound s r = true.
Proof. exact AnalysisDepProofs.result_wf_deps_sound. Qed.
Print Assumptions C05_result_wf_dependencies_sound.

(** direct_equations_topological_order (clause 5): in every valid result the equations that are solved directly
    (all the equations that are not part of an NLA system) can be ordered so that each comes after the direct,
    non-ODE equations it depends on; the order in which check() typed the variables they compute is such an order
    (AnalysisTopoProofs: the rank is attached to the computed variable, check() gives a fresh maximal rank to the
    variable it types, and nothing depended on a variable while it was unknown).
    What is and is not an ordering constraint (AnalysisSpec.order_edges): a dependency on an equation of type ODE
    is none - states are inputs of the computation, so ODE systems may be cyclic through their states (x' = y,
    y' = x); a dependency on a variable computed by an NLA system is none for this clause.
    Hypotheses as for the dependency clauses ([dependency_fix = true] is what excludes an equation depending on
    the variable it computes itself).
    NOT PROVED, and false on the library: the same with NLA equations as nodes (wf_topological true, clause 51 of
    wf_failures; see design_notes/C05.md). *)
Theorem C05_direct_equations_topological_order : forall s r,
  analyse s = Done r -> valid_type (r_type r) = true -> dependency_fix = true -> unique_ids s ->
  wf_topological false r = true.
Proof. exact AnalysisTopoProofs.result_wf_topological. Qed.
Print Assumptions C05_direct_equations_topological_order.

(** ** Invariance *)

(** Consistent renaming: class identifiers and variable names are only ever compared for equality, so renaming
    both through injective maps gives EXACTLY the same result (results mention variables by position and equations
    by id).  The maps keep identifier 0, which is the filler of the model's total accessors. *)
Theorem C05_rename_invariant : forall (f g : nat -> nat),
  (forall a b, f a = f b -> a = b) -> (forall a b, g a = g b -> a = b) -> f 0 = 0 -> g 0 = 0 ->
  forall s, analyse (rn_sys f g s) = analyse s.
Proof. exact AnalysisRenameProofs.analyse_rename. Qed.
Print Assumptions C05_rename_invariant.

(** pass1_confluent: the first pass (sweeps with checkNlaSystems = false until nothing changes) is confluent: from
    the state in which the analyser enters the loop, whatever the order in which mInternalEquations is swept, the
    pass ends with the same variables known (typed) and the same variables indexed.  (Which equation computes a
    variable, and hence its exact type, may still differ when two equations compete for it: witness below.) *)
Theorem C05_pass1_confluent : forall s ivs0 es0 es' fuel fuel' stA esA stB esB,
  build s = Some (ivs0, es0) -> Permutation es0 es' ->
  let ivs := vs_ivs (analyse_asts s ivs0 es0) in
  loop s fuel 0 false (mkCs ivs 0 0) es0 = Some (stA, esA) ->
  loop s fuel' 0 false (mkCs ivs 0 0) es' = Some (stB, esB) ->
  forall p, is_known (cs_ivs stA) p = is_known (cs_ivs stB) p /\
            has_index (geti (cs_ivs stA) p) = has_index (geti (cs_ivs stB) p).
Proof. exact AnalysisConfluenceProofs.pass1_confluent_analysis. Qed.
Print Assumptions C05_pass1_confluent.

(** ... the types given by the first pass are NOT order independent ("pass1_confluent with equal types" of the
    design is refuted): same system, equations swapped, x is a true constant or a variable-based constant. *)
Theorem C05_pass1_types_refuted :
  same_system_reordered order_a order_b /\
  types_after_first_pass order_a = Some [VCompTrue; VInitialised] /\
  types_after_first_pass order_b = Some [VCompVarBased; VInitialised].
Proof. split; [exact (proj1 AnalysisWitness.order_witness)|exact AnalysisWitness.pass1_types_witness]. Qed.
Print Assumptions C05_pass1_types_refuted.

(** The classification is NOT invariant under re-ordering of the equations (second pass is greedy)... *)
Theorem C05_classification_perm_invariant_refuted :
  exists s s', same_system_reordered s s' /\
    type_of (analyse s) = Some MNla /\ type_of (analyse s') = Some MOverconstrained.
Proof. exists order_a, order_b. exact AnalysisWitness.order_witness. Qed.
Print Assumptions C05_classification_perm_invariant_refuted.

(** ... the requalification of variable-based constants is one sweep in document order, not a fixpoint: a computed
    constant that reads a variable requalified later in the list keeps its role. *)
Theorem C05_requalification_order_refuted :
  same_system_reordered requal_a requal_b /\
  classification_of requal_a = Some (MNla, [(2, RoCompConst); (1, RoAlgebraic); (0, RoAlgebraic)]) /\
  classification_of requal_b = Some (MNla, [(1, RoAlgebraic); (0, RoAlgebraic); (2, RoAlgebraic)]).
Proof. exact AnalysisWitness.requal_witness. Qed.
Print Assumptions C05_requalification_order_refuted.

(** ... and with two equivalent variables in one component, the ORDER OF THE VARIABLES decides between ALGEBRAIC
    and NLA (check() re-targets to the first equivalent variable of the component, then compares names). *)
Theorem C05_variable_order_refuted :
  Forall2 (fun c c' => Permutation (c_vars c) (c_vars c') /\ c_eqs c = c_eqs c') twin_a twin_b /\
  classification_of twin_a = Some (MAlgebraic, [(0, RoCompConst)]) /\
  classification_of twin_b = Some (MNla, [(0, RoCompConst)]).
Proof. exact AnalysisWitness.twin_witness. Qed.
Print Assumptions C05_variable_order_refuted.

(** What the _partial can claim at most.  Read literally ("the same classification" = equal results) it is refuted
    even when the first pass is complete in both orders: the roles agree, the variable list is permuted, because
    the internal variables are created in the order in which the equations mention them ... *)
Theorem C05_classification_perm_invariant_partial_as_lists_refuted :
  same_system_reordered plain_a plain_b /\
  first_pass_complete plain_a = Some true /\ first_pass_complete plain_b = Some true /\
  classification_of plain_a = Some (MAlgebraic, [(1, RoCompConst); (0, RoCompConst)]) /\
  classification_of plain_b = Some (MAlgebraic, [(0, RoCompConst); (1, RoCompConst)]).
Proof. exact AnalysisOrderWitness.plain_witness. Qed.
Print Assumptions C05_classification_perm_invariant_partial_as_lists_refuted.

(** ... and its hypothesis is itself order dependent: with two equivalent variables in one component, whether the
    first pass is complete depends on the order of the equations (here the roles still agree). *)
Theorem C05_first_pass_completeness_order_dependent :
  same_system_reordered held_a held_b /\
  first_pass_complete held_a = Some true /\ first_pass_complete held_b = Some false /\
  classification_of held_a = Some (MAlgebraic, [(0, RoCompConst); (1, RoCompConst)]) /\
  classification_of held_b = Some (MAlgebraic, [(1, RoCompConst); (0, RoCompConst)]).
Proof. exact AnalysisOrderWitness.held_witness. Qed.
Print Assumptions C05_first_pass_completeness_order_dependent.

(** classification_perm_invariant_partial on a small scope, checked by the kernel (exhaustive, vm_compute): for every
    one-component system with 3 variables (each with or without an initial value) and at most 3 equations of the
    shapes a = c, a = b + c, a + b = c, a * a = c (scope_k 3 3: 6528 systems), if the analysis solves the system
    without NLA detection (valid, type ALGEBRAIC - wider than "first pass complete": whatever the passes did), every
    re-ordering of the equations (perms enumerates exactly permutations: AnalysisScopeProofs.perms_perm) has the
    same model type and the same role for every class.  The four refuting findings lie outside: they need an NLA /
    OVERCONSTRAINED outcome, two components, or two equivalent variables in one component. *)
Theorem C05_classification_perm_invariant_small_scope : forall ini qs,
  In (ini, qs) (scope_k 3 3) -> solved_directly (sys_of ini qs) = true ->
  forall qs', In qs' (perms qs) ->
  same_cls (classification_of (sys_of ini qs)) (classification_of (sys_of ini qs')) = true.
Proof. exact AnalysisScopeProofs.small_scope_perm_invariant. Qed.
Print Assumptions C05_classification_perm_invariant_small_scope.

(** non-vacuity: 50 systems of the scope are solved without NLA detection; x = c, y = x + c, z = y + c is one, and its
    reversal is among the re-orderings and has a differently ordered (equal as a set) classification. *)
Example C05_small_scope_nonvacuous :
  scope_count (scope_k 3 3) = (6528, 50) /\
  let qs := [mkEqn 1001 (EVar 0) ECn; mkEqn 1002 (EVar 1) (EOp (EVar 0) ECn); mkEqn 1003 (EVar 2) (EOp (EVar 1) ECn)] in
  let qs' := [mkEqn 1003 (EVar 2) (EOp (EVar 1) ECn); mkEqn 1002 (EVar 1) (EOp (EVar 0) ECn); mkEqn 1001 (EVar 0) ECn] in
  existsb (fun iq => match iq with (ini, q) => forallb2_eqn q qs && forallb (fun i => match i with INone => true | _ => false end) ini end) (scope_k 3 3) = true /\
  solved_directly (sys_of [INone; INone; INone] qs) = true /\
  existsb (forallb2_eqn qs') (perms qs) = true /\
  classification_of (sys_of [INone; INone; INone] qs) <> classification_of (sys_of [INone; INone; INone] qs').
Proof. exact AnalysisScopeProofs.scope_nonvacuous. Qed.
Print Assumptions C05_small_scope_nonvacuous.

(* NOT PROVED IN GENERAL (classification_perm_invariant_partial, the _partial of the refutation above; proved only on the small scope above): if the first pass alone
   gives a type to every equation (first_pass_complete s = Some true) then every re-ordering of the equations has
   the same classification UP TO THE ORDER OF THE VARIABLE LIST (same model type, same role for every class).
   Why it is not a corollary of C05_pass1_confluent: (i) analyseComponent creates the internal variables in the
   order in which the equations first mention them, so a re-ordered system has its internal variables, and hence
   the positions held by every internal equation and the order of the result's variable list, permuted - the
   statement needs a bijection on positions carried through build, analyse_asts, the loop and the packaging, and
   "same classification" is "the same role for every class", not equal lists; (ii) C05_pass1_confluent gives the
   same KNOWN variables, not the same types: one needs that under completeness the pairing equation <-> computed
   variable is forced (the first firing that deviates from the complete run would compute a variable whose own
   equation has not fired, which leaves that equation with no unknown and the run incomplete) and that the
   true-constant / variable-based-constant flags then agree; (iii) with two equivalent variables in one component
   the variable held by the internal variable (first mention) and therefore the name test variableOnLhsRhs depend
   on the order, so the first pass of the re-ordered system need not be complete and the equation is then typed by
   the second pass instead.  None of the three is done.
   Evidence: exhaustive over all one-component systems with <= 4 classes and <= 3 equations / <= 3 classes and <= 4
   equations drawn from 5 shapes (ocaml/analysis/driver.ml: search; 0 counter-examples among 8202 + 1630 order-dependent
   systems), and every generated group of every run (checks/c05.py). *)

(** ... nor under a renaming of the variables of ONE component, although that is a consistent renaming of the
    document (the isolation test variableOnLhsRhs compares names across components). *)
Theorem C05_classification_rename_invariant_refuted :
  exists s s', forallb names_distinct s = true /\ forallb names_distinct s' = true /\
    map (fun c => map v_cls (c_vars c)) s = map (fun c => map v_cls (c_vars c)) s' /\
    type_of (analyse s) = Some MNla /\ type_of (analyse s') = Some MOverconstrained.
Proof. exists rename_a, rename_b. exact AnalysisWitness.rename_witness. Qed.
Print Assumptions C05_classification_rename_invariant_refuted.

(** Non-vacuity: a two-component ODE model is analysed as ODE and satisfies every clause. *)
Example C05_nonvacuous : exists r, analyse good_sys = Done r /\ r_type r = MOde /\ wf good_sys r = true /\ wf_failures good_sys r = [].
Proof. exact AnalysisWitness.good_witness. Qed.
Print Assumptions C05_nonvacuous.
