(** XmlTextProofs.v — the attribute-value text layer: what the repaired printer writes is read back unchanged;
    what the unrepaired printer writes is not (C02). *)
From Coq Require Import String Ascii List Bool Arith Lia.
From LC Require Import XmlDefs PrintDefs.
Import ListNotations.
Local Open Scope string_scope.

Lemma length_app : forall a b : string, String.length (a ++ b) = String.length a + String.length b.
Proof. induction a; simpl; intros; [reflexivity | now rewrite IHa]. Qed.

Lemma escape_char_length : forall c, 1 <= String.length (escape_char c).
Proof.
  intros c. unfold escape_char.
  destruct (nat_of_ascii c) as [|[|[|[|[|[|[|[|[|[|[|[|[|[|[|[|[|[|[|[|[|[|[|[|[|[|[|[|[|[|[|[|[|[|[|[|[|[|[|n]]]]]]]]]]]]]]]]]]]]]]]]]]]]]]]]]]]]]]];
    simpl; try lia.
  do 24 (destruct n as [|n]; simpl; try lia).
Qed.

(** one character of the original text = one step of the reader over its escaped form *)
Lemma decode_escape_char :
  forall c t n, is_ctrl c = false ->
    decode_fuel (S n) (escape_char c ++ t) = option_map (String c) (decode_fuel n t).
Proof.
  intros c t n Hc.
  destruct c as [[] [] [] [] [] [] [] []]; try discriminate Hc; reflexivity.
Qed.

Lemma decode_escape_fuel :
  forall s n, String.length (escape_attr s) <= n -> no_ctrl s = true -> decode_fuel n (escape_attr s) = Some s.
Proof.
  induction s as [|c s IH]; intros n Hn Hs.
  - destruct n; reflexivity.
  - simpl in Hs. apply andb_true_iff in Hs. destruct Hs as [Hc Hs].
    apply negb_true_iff in Hc.
    simpl in Hn. rewrite length_app in Hn.
    pose proof (escape_char_length c) as Hl.
    destruct n as [|n]; [lia|].
    simpl escape_attr. rewrite decode_escape_char by exact Hc.
    rewrite IH; [reflexivity | lia | exact Hs].
Qed.

(** the repaired printer: every string of XML characters comes back as it was *)
Theorem decode_escape : forall s, no_ctrl s = true -> decode_attr (escape_attr s) = Some s.
Proof. intros s Hs. unfold decode_attr. apply decode_escape_fuel; [lia | exact Hs]. Qed.

(** a control character cannot be written at all (escaped or not) *)
Theorem decode_ctrl_fails :
  decode_attr (escape_attr (String (chr 1) "z")) = None /\ decode_attr (String (chr 1) "z") = None.
Proof. split; reflexivity. Qed.

(** the unrepaired printer (raw text): refused, or silently changed *)
Theorem decode_raw_refuted :
  decode_attr "a<b" = None /\ decode_attr "m?a=1&b=2" = None /\ decode_attr (String c_quot "") = None
  /\ decode_attr "a&amp;b" = Some "a&b" /\ decode_attr (String c_tab "x") = Some " x"
  /\ decode_attr (String c_cr (String c_lf "x")) = Some " x".
Proof. repeat split; reflexivity. Qed.

(** * Source trees *)

Lemma map_opt_read_escape :
  forall attrs, forallb (fun a => no_ctrl (a_val a)) attrs = true ->
    map_opt read_attr (map (fun a => mkAttr (a_ns a) (a_name a) (escape_attr (a_val a))) attrs) = Some attrs.
Proof.
  induction attrs as [|a r IH]; intros H; [reflexivity|].
  simpl in H. apply andb_true_iff in H. destruct H as [Ha Hr].
  simpl. unfold read_attr at 1. simpl. rewrite decode_escape by exact Ha. simpl.
  rewrite IH by exact Hr. destruct a; reflexivity.
Qed.
