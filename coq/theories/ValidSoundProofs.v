(** ValidSoundProofs.v — C04 proofs: SOUNDNESS WITHOUT ANY HYPOTHESIS ON THE WORLD.  For every world — import sources with
    or without models (components and units), any import graph, cyclic or not —, if Validator::validateModel is silent then
    every rule of the specification except the acyclicity of the units reference graph holds: "rejects every rule violation"
    for all inputs (the units-cycle rule is the one whose proof needs the units imports of model 0 to be unresolved:
    C04_units_pass / C04_unit_cycle_detector_total). *)
From Coq Require Import String Ascii List Bool Arith Lia.
From LC Require Import Common NumDefs MathDefs ValidDefs ValidSpec ValidLeaf ValidMathProofs ValidCompProofs ValidConnProofs
  ValidUnitsProofs ValidProofs ValidImportProofs.
Import ListNotations.
Local Open Scope string_scope.
Local Open Scope list_scope.
Local Open Scope nat_scope.

(** the local rules of one units hold whenever its top-level validation is silent — whatever its import resolves to *)
Lemma units_local_general : forall f W u, In u (m_units (model_at W 0)) ->
  validate_units (S f) W 0 true [] u ORIGIN = [] -> units_local_ok (model_at W 0) u.
Proof.
  intros f W u Hu H. cbn [validate_units local_cycle existsb] in H. set (m := model_at W 0) in *.
  unfold units_local_ok, cnt_imp, cnt_name. fold m.
  assert (Hdup : forall (A : Type) (b : bool) (x : A), (if b then [x] else []) = [] <-> b = false)
    by (intros A [] x; split; intro H0; try reflexivity; discriminate H0).
  rewrite !app_nil_iff in H. destruct H as [Himp [Hname [Hnv [Hid Hitems]]]].
  apply Hdup in Hname. apply leb1_false in Hname. apply plains_nil in Hnv. apply plains_nil in Hid.
  apply (if_nil_iff (is_xml_name (u_id u)) V_XML_ID_ATTRIBUTE) in Hid.
  assert (Hn2 : is_ident (u_name u) = true /\ is_std_unit (u_name u) = false).
  { destruct (is_ident (u_name u)); cbn [negb] in Hnv; [|discriminate Hnv]. destruct (is_std_unit (u_name u)); [discriminate Hnv | split; reflexivity]. }
  destruct Hn2 as [Hn2 Hn3].
  assert (Hit : Forall (fun it => item_local m it = []) (u_items u)).
  { rewrite flat_map_nil_iff in Hitems. rewrite Forall_forall in *. intros it Hin. specialize (Hitems it Hin).
    rewrite !app_nil_iff, !plains_nil in Hitems. destruct Hitems as [A [B C]]. unfold item_local, has_units. rewrite !app_nil_iff. split; [|split; assumption].
    destruct (is_ident (ui_ref it)); [|discriminate A]. destruct (is_std_unit (ui_ref it)); [reflexivity|].
    destruct (find_units (m_units m) (ui_ref it)); [reflexivity | discriminate A]. }
  split; [|split; [exact Hname | split; [exact Hn2 | split; [exact Hn3 | split; [exact Hid | exact Hit]]]]].
  destruct (u_imp u) as [[s r]|]; [|exact I].
  rewrite !app_nil_iff in Himp. destruct Himp as [H12 [Hd _]]. apply plains_nil in H12. rewrite H12 in Hd.
  apply app_nil_iff in H12. destruct H12 as [H1 H2]. apply (if_nil_iff (is_ident r) V_IMPORT_UNITS_UNITS_REFERENCE_VALUE) in H1.
  split; [exact H1 | split; [exact H2|]]. apply Hdup in Hd. apply leb1_false in Hd. exact Hd.
Qed.

Section Sound.
  Variable fx : fixes.
  Variable ueq : world -> string -> string -> option bool.

  (** every rule but units acyclicity *)
  Record Rules (W : world) : Prop := mkRules {
    r_model_name : IsIdent (m_name (model_at W 0));
    r_model_id : XmlName (m_id (model_at W 0));
    r_comps : Forall (fun c => CompOK (fx_math_qual fx) W 0 (c_info c)) (model_comps (model_at W 0));
    r_import_targets : Forall (fun c => ImportTargetOK fx W (c_info c)) (model_comps (model_at W 0));
    r_comp_names : NoDup (map (fun c => c_name (c_info c)) (model_comps (model_at W 0)));
    r_units : Forall (UnitsOK (model_at W 0)) (m_units (model_at W 0));
    r_units_names : NoDup (map u_name (m_units (model_at W 0)));
    r_imports_distinct : ImportsDistinct (model_at W 0);
    r_connections : ConnectionsOK ueq W;
    r_ids : IdsOK fx W;
    r_orders : OrdersOK fx W
  }.

  Theorem validate_sound_general : forall W, Repr (model_at W 0) -> validate fx ueq false W = [] -> Rules W.
  Proof.
    intros W HR H. apply validate_nil_raw in H. unfold validate_raw in H. cbv zeta in H.
    rewrite !app_nil_iff, !plains_nil in H. destruct H as [H1 [H2 [H3 [H4 [H5 [H6 H7]]]]]].
    apply (if_nil_iff (is_ident (m_name (model_at W 0))) V_MODEL_NAME_VALUE) in H1. apply is_ident_iff in H1.
    apply (if_nil_iff (is_xml_name (m_id (model_at W 0))) V_XML_ID_ATTRIBUTE) in H2.
    set (m := model_at W 0) in *. set (q := fx_math_qual fx) in *.
    (* components *)
    apply validate_trees_nil in H3. unfold tree_ok in H3. fold (model_comps m) in H3. destruct H3 as [T1 [T2 _]].
    assert (Hch : Forall (fun c => Checked q W 0 [] (c_info c)) (model_comps m)).
    { rewrite Forall_forall in *. intros c Hc. apply (checked_of_nil q W (comp_fuel W)). apply T1. exact Hc. }
    assert (Hnames : nenames (model_comps m) = map cname (model_comps m)).
    { apply (nenames_all (fun c => Checked q W 0 [] (c_info c))); [|exact Hch].
      intros c Hc. inversion Hc as [mi hist c' [Hid _] _]; subst. apply IsIdent_nonempty. exact Hid. }
    rewrite Hnames in T2.
    assert (Hboth : forall c, In c (model_comps m) -> CompOK q W 0 (c_info c) /\ ImportTargetOK fx W (c_info c)).
    { intros c Hc. apply (checked_top_iff fx ueq W c HR T2 Hc). rewrite Forall_forall in Hch. apply Hch. exact Hc. }
    assert (HC : Forall (fun c => CompOK q W 0 (c_info c)) (model_comps m)) by (rewrite Forall_forall; intros c Hc; apply (Hboth c Hc)).
    (* units *)
    assert (HU : forall u, In u (m_units m) -> units_local_ok m u).
    { intros u Hu. rewrite flat_map_nil_iff, Forall_forall in H4. pose proof (units_fuel_enough W) as Hf.
      destruct (units_fuel W) as [|f] eqn:E; [lia|]. apply (units_local_general f W u Hu). apply H4. exact Hu. }
    apply units_local_all in HU. destruct HU as [U1 [U2 U3]].
    (* connections *)
    apply (validate_connections_nil ueq W (ifaces_valid fx W HC)) in H5.
    constructor; try assumption.
    rewrite Forall_forall. intros c Hc. apply (Hboth c Hc).
  Qed.
End Sound.
