(** MathDefs.v — executable model of the MathML contract between the validator and the analyser
    (C01; the xml type and the validator's arity table are meant to be reused by C04).  No proofs here.

    Transcribed, as the code is now:
      src/xmlnode.cpp     XmlNode::firstChild / next / isMathmlElement / convertToStrippedString / attribute
      src/utilities.cpp   mathmlChildCount, mathmlChildNode, nonCommentChildCount, nonCommentChildNode,
                          validateCellmlIdentifier / isCellmlIdentifier
      src/validator.cpp   ValidatorImpl::validateMath (the three tree passes; the W3C DTD pass in between is NOT
                          modelled), validateMathMLElement(s), validateAndCleanMathCiCnNodes / CnNode / CiNode,
                          validateCnUnits, has*Mathml*Sibling(s)/Child(ren), isFirst/isSecondMathmlSibling,
                          hasFirstMathmlSiblingWithName, validateMathMLElementsChildrenAndSiblings
      src/analyser.cpp    AnalyserImpl::analyseNode, analyseComponent (the loop over the children of <math> and the
                          "not an equality statement" branch that calls expression())
    Every pointer dereference of analyseNode / mathmlChildNode that the C++ performs without a test is explicit:
    the model returns [Crash site] where the real code would call a member function on a null pointer. *)
From Coq Require Import String Ascii List Bool Arith ZArith.
From LC Require Import Common NumDefs NumPosDefs.
From LCGen Require Import MathTables AstTypes.
Import ListNotations.
Local Open Scope string_scope.
Local Open Scope list_scope.
Local Open Scope nat_scope.
Infix "+++" := String.append (at level 60, right associativity).

(* ------------------------------------------------------------------------------------------------ xml trees *)

Definition MATHML_NS : string := "http://www.w3.org/1998/Math/MathML".
Definition CELLML_2_0_NS : string := "http://www.cellml.org/cellml/2.0#".

(** attribute = (namespace uri, local name, value); libxml2's text -> tree step is not modelled *)
Definition attr : Type := (string * string * string)%type.

Inductive xml : Type :=
| Elem (ns name : string) (attrs : list attr) (kids : list xml)
| Text (s : string)
| Comment (s : string).

Definition kids_of (x : xml) : list xml := match x with Elem _ _ _ k => k | _ => [] end.
Definition attrs_of (x : xml) : list attr := match x with Elem _ _ a _ => a | _ => [] end.
(* XmlNode::name(): libxml2 names text nodes "text" and comments "comment" *)
Definition name_of (x : xml) : string :=
  match x with Elem _ n _ _ => n | Text _ => "text" | Comment _ => "comment" end.

(* XmlNode::isMathmlElement(nullptr) *)
Definition is_mathml (x : xml) : bool :=
  match x with Elem ns _ _ _ => String.eqb ns MATHML_NS | _ => false end.
(* XmlNode::isMathmlElement(name) *)
Definition is_mathml_el (n : string) (x : xml) : bool :=
  match x with Elem ns m _ _ => String.eqb ns MATHML_NS && String.eqb m n | _ => false end.
Definition is_comment (x : xml) : bool := match x with Comment _ => true | _ => false end.
Definition is_text (x : xml) : bool := match x with Text _ => true | _ => false end.
Definition is_blank_text (x : xml) : bool :=
  match x with Text s => str_is_empty (strip s) | _ => false end.

Definition in_list (s : string) (l : list string) : bool := existsb (String.eqb s) l.

(** XmlNode::firstChild(): skips leading text nodes that are blank once stripped; when every child is such a
    text node the handle of the LAST one is returned (the loop leaves [childHandle] set); null only when there is
    no child at all.  The result is the cursor "this node and its following siblings" (XmlNode::next() is raw). *)
Fixpoint first_child (kids : list xml) : option (list xml) :=
  match kids with
  | [] => None
  | k :: rest =>
      if is_blank_text k then match rest with [] => Some [k] | _ => first_child rest end
      else Some (k :: rest)
  end.
Definition visible (kids : list xml) : list xml :=
  match first_child kids with Some c => c | None => [] end.

(** utilities.cpp: mathmlChildCount — counts MathML elements from firstChild() along next() *)
Definition mkids (kids : list xml) : list xml := filter is_mathml kids.
Definition mathml_child_count (kids : list xml) : nat := length (mkids kids).

(** XmlNode::convertToString, approximated: text is returned as is (entity escaping ignored), comments and
    elements are rendered with their mark-up (attributes and prefixes omitted).  Only used for "is the stripped
    string empty", for the name looked up by <ci> and for the value text of <cn>; any rendering that starts
    with '<' behaves the same there. *)
Fixpoint xml_to_string (x : xml) : string :=
  match x with
  | Text s => s
  | Comment s => "<!--" +++ s +++ "-->"
  | Elem _ n _ kids =>
      match kids with
      | [] => "<" +++ n +++ "/>"
      | _ => "<" +++ n +++ ">" +++ (fix cat (ks : list xml) : string :=
                                   match ks with [] => "" | k :: r => xml_to_string k +++ cat r end) kids
             +++ "</" +++ n +++ ">"
      end
  end.
(* XmlNode::convertToStrippedString *)
Definition stripped (x : xml) : string := strip (xml_to_string x).

(** XmlNode::attribute(name): xmlHasProp / xmlGetProp look the attribute up by local name, whatever its namespace *)
Fixpoint attribute (n : string) (attrs : list attr) : string :=
  match attrs with
  | [] => ""
  | (_, m, v) :: r => if String.eqb m n then v else attribute n r
  end.

(* utilities.cpp: validateCellmlIdentifier == UNDEFINED *)
Definition is_ident_char (c : ascii) : bool :=
  let n := nat_of_ascii c in
  (((97 <=? n) && (n <=? 122)) || ((65 <=? n) && (n <=? 90)) || ((48 <=? n) && (n <=? 57)) || (n =? 95))%nat.
Fixpoint all_ident_chars (s : string) : bool :=
  match s with EmptyString => true | String c r => is_ident_char c && all_ident_chars r end.
Definition is_cellml_identifier (s : string) : bool :=
  match s with
  | EmptyString => false
  | String c _ => negb (is_digit c) && all_ident_chars s
  end.

(* ------------------------------------------------------------------------------------------------ validator *)

(** reference rule of an issue; [V_NULL_DEREF] is not an issue: it marks a place where the validator itself
    would call through a null handle (MathProofs.val_null_safe shows it never appears) *)
Inductive rule :=
| R_MATH_ELEMENT | R_MATH_CHILD | R_MATH_MATHML | R_MATH_CI_VARIABLE_REFERENCE | R_MATH_CN_BASE10 | R_MATH_CN_FORMAT
| R_MATH_CN_UNITS_ATTRIBUTE | R_MATH_CN_UNITS_ATTRIBUTE_REFERENCE | V_NULL_DEREF.

Definition rule_name (r : rule) : string :=
  match r with
  | R_MATH_ELEMENT => "MATH_ELEMENT" | R_MATH_CHILD => "MATH_CHILD" | R_MATH_MATHML => "MATH_MATHML"
  | R_MATH_CI_VARIABLE_REFERENCE => "MATH_CI_VARIABLE_REFERENCE" | R_MATH_CN_BASE10 => "MATH_CN_BASE10"
  | R_MATH_CN_FORMAT => "MATH_CN_FORMAT" | R_MATH_CN_UNITS_ATTRIBUTE => "MATH_CN_UNITS_ATTRIBUTE"
  | R_MATH_CN_UNITS_ATTRIBUTE_REFERENCE => "MATH_CN_UNITS_ATTRIBUTE_REFERENCE" | V_NULL_DEREF => "NULL_DEREF"
  end.

(** pass 1 — validateMathMLElement / validateMathMLElements: every element below <math> (document order:
    node, its children, then its following siblings) must be a supported MathML element.  Text and comment nodes
    raise nothing, so walking all children equals walking firstChild()/next(). *)
Definition is_supported (x : xml) : bool :=
  match x with Elem ns n _ _ => String.eqb ns MATHML_NS && in_list n supported_mathml_elements | _ => true end.
Fixpoint val_supported (x : xml) : list rule :=
  match x with
  | Elem _ _ _ kids =>
      (if is_supported x then [] else [R_MATH_CHILD])
      ++ (fix go (ks : list xml) : list rule :=
            match ks with [] => [] | k :: r => val_supported k ++ go r end) kids
  | _ => []
  end.

(** pass 2 — validateAndCleanMathCiCnNodes.  [vars]: names of the component's variables; [units]: names for which
    model->hasUnits(name) or isStandardUnitName(name) holds (both look-ups are parameters of the model). *)
(* validateAndCleanCnNode: attribute loop; returns (last cellml:units value, issues) *)
Fixpoint cn_attr_scan (attrs : list attr) (units_name : string) : string * list rule :=
  match attrs with
  | [] => (units_name, [])
  | (ns, n, v) :: r =>
      if str_is_empty v then cn_attr_scan r units_name
      else if String.eqb ns CELLML_2_0_NS && String.eqb n "units" then cn_attr_scan r v
      else if String.eqb ns CELLML_2_0_NS then
             let '(u, is) := cn_attr_scan r units_name in (u, R_MATH_MATHML :: is)
      else cn_attr_scan r units_name
  end.
Definition val_cn_units (units : list string) (attrs : list attr) : list rule :=
  let '(u, is) := cn_attr_scan attrs "" in
  is ++ (if is_cellml_identifier u
         then (if in_list u units then [] else [R_MATH_CN_UNITS_ATTRIBUTE_REFERENCE])
         else [R_MATH_CN_UNITS_ATTRIBUTE]).
(* validator.cpp: text(node): the stripped text if the node is a text node, else "" *)
Definition text_of (c : option (list xml)) : string :=
  match c with Some (Text s :: _) => strip s | _ => "" end.
Definition val_ci_name (vars : list string) (kids : list xml) : list rule :=
  let t := text_of (first_child kids) in
  if str_is_empty t then [] else if in_list t vars then [] else [R_MATH_CI_VARIABLE_REFERENCE].
Fixpoint val_cicn (vars units : list string) (x : xml) : list rule :=
  match x with
  | Elem _ _ attrs kids =>
      (if is_mathml_el "cn" x then val_cn_units units attrs
       else if is_mathml_el "ci" x then val_ci_name vars kids else [])
      ++ (fix go (ks : list xml) : list rule :=
            match ks with [] => [] | k :: r => val_cicn vars units k ++ go r end) kids
  | _ => []
  end.

(** pass 4 — validateMathMLElementsChildrenAndSiblings: THE ARITY / SIBLING TABLE.
    [vclass_of] groups the element names exactly as the if/else-if chain does. *)
Inductive vclass :=
| VApply
| VTwoSiblingsFirst        (* eq neq lt leq gt geq divide power *)
| VAtLeastTwoSiblingsFirst (* and or xor times *)
| VOneSiblingFirst         (* not abs exp ln ceiling floor and the 24 trigonometric operators *)
| VAtLeastOneSiblingFirst  (* plus *)
| VOneOrTwoSiblingsFirst   (* minus *)
| VRoot | VLog
| VNoRule                  (* min max rem: empty branches *)
| VDiff | VPiecewise | VPiece | VOtherwise | VCi | VCn | VDegree | VLogbase | VBvar
| VOther.                  (* sep, constants, anything else: no branch *)

Definition one_sibling_first_names : list string :=
  ["not"; "abs"; "exp"; "ln"; "ceiling"; "floor";
   "sin"; "cos"; "tan"; "sec"; "csc"; "cot"; "sinh"; "cosh"; "tanh"; "sech"; "csch"; "coth";
   "arcsin"; "arccos"; "arctan"; "arcsec"; "arccsc"; "arccot";
   "arcsinh"; "arccosh"; "arctanh"; "arcsech"; "arccsch"; "arccoth"].

Definition vclass_of (n : string) : vclass :=
  if String.eqb n "apply" then VApply
  else if in_list n ["eq"; "neq"; "lt"; "leq"; "gt"; "geq"; "divide"; "power"] then VTwoSiblingsFirst
  else if in_list n ["and"; "or"; "xor"; "times"] then VAtLeastTwoSiblingsFirst
  else if in_list n one_sibling_first_names then VOneSiblingFirst
  else if String.eqb n "plus" then VAtLeastOneSiblingFirst
  else if String.eqb n "minus" then VOneOrTwoSiblingsFirst
  else if String.eqb n "root" then VRoot
  else if String.eqb n "log" then VLog
  else if in_list n ["min"; "max"; "rem"] then VNoRule
  else if String.eqb n "diff" then VDiff
  else if String.eqb n "piecewise" then VPiecewise
  else if String.eqb n "piece" then VPiece
  else if String.eqb n "otherwise" then VOtherwise
  else if String.eqb n "ci" then VCi
  else if String.eqb n "cn" then VCn
  else if String.eqb n "degree" then VDegree
  else if String.eqb n "logbase" then VLogbase
  else if String.eqb n "bvar" then VBvar
  else VOther.

(* one "has...() && is...()" link: the first failing test raises its issue and stops the chain *)
Definition chk (ok : bool) (r : rule) (k : list rule) : list rule := if ok then k else [r].
Definition mm (ok : bool) (k : list rule) : list rule := chk ok R_MATH_MATHML k.

(** hasFirstMathmlSiblingWithName(parent, node, name): child 0 of the parent, or child 1 when child 0 is the
    node itself; [childNode->name()] is called without a null test *)
Definition first_sibling_named (pk : list xml) (idx : nat) (n : string) (k : list rule) : list rule :=
  match nth_error pk (if idx =? 0 then 1 else 0) with
  | None => [V_NULL_DEREF]
  | Some c => mm (String.eqb (name_of c) n) k
  end.
(** isFirst/isSecondMathmlSibling: mathmlChildNode(parent, i)->equals(node), no null test *)
Definition is_nth_sibling (pk : list xml) (idx i : nat) (k : list rule) : list rule :=
  match nth_error pk i with
  | None => [V_NULL_DEREF]
  | Some _ => mm (idx =? i) k
  end.

(* nonCommentChildCount / nonCommentChildNode over firstChild()/next() *)
Definition non_comment_kids (kids : list xml) : list xml := filter (fun k => negb (is_comment k)) (visible kids).
(* XmlNode::isBasicReal: canConvertToBasicDouble(stripped); the range test of stringToDouble is not modelled *)
Definition node_is_basic_real (x : xml) : bool := is_basic_real (stripped x).
(* XmlNode::isInteger: convertToInt(stripped) succeeds *)
Definition node_is_integer (x : xml) : bool :=
  match to_int (stripped x) with Value _ => true | _ => false end.

Definition val_ci_struct (kids : list xml) : list rule :=
  match non_comment_kids kids with
  | [c] => chk (negb (str_is_empty (stripped c))) R_MATH_CI_VARIABLE_REFERENCE []
  | _ => [R_MATH_CI_VARIABLE_REFERENCE]
  end.
Definition val_cn_struct (attrs : list attr) (kids : list xml) : list rule :=
  let base := attribute "base" attrs in
  if negb (str_is_empty base) && negb (String.eqb base "10") then [R_MATH_CN_BASE10]
  else
    let ty := attribute "type" attrs in
    if str_is_empty ty || String.eqb ty "real" then
      match non_comment_kids kids with
      | [c] => chk (node_is_basic_real c) R_MATH_CN_FORMAT []
      | _ => [R_MATH_CN_FORMAT]
      end
    else if String.eqb ty "e-notation" then
      match non_comment_kids kids with
      | [a; b; c] => chk (node_is_basic_real a && is_mathml_el "sep" b && node_is_integer c) R_MATH_CN_FORMAT []
      | _ => [R_MATH_CN_FORMAT]
      end
    else [R_MATH_CN_FORMAT].

(** [fx]: false = the code as it is now; true = with the repair fixes/C01-mathml-arity.diff (arity rules for min / max /
    rem).  The drivers use [arity_fix_committed].
    The branch of the if/else-if chain for an element named [n]: [pk] the MathML children of the parent, [idx] the
    position of the node among them, [kids] its own children, [sub] the issues of the recursion over its own MathML
    children (only apply / piecewise / piece / otherwise recurse) *)
Definition val_node (fx : bool) (pk : list xml) (idx : nat) (n : string) (attrs : list attr) (kids : list xml) (sub : list rule) : list rule :=
  let mk := mkids kids in
  let cnt := length pk in
  match vclass_of n with
  | VApply => chk (1 <=? length mk) R_MATH_MATHML sub
  | VTwoSiblingsFirst => mm (cnt =? 3) (is_nth_sibling pk idx 0 [])
  | VAtLeastTwoSiblingsFirst => mm (3 <=? cnt) (is_nth_sibling pk idx 0 [])
  | VOneSiblingFirst => mm (cnt =? 2) (is_nth_sibling pk idx 0 [])
  | VAtLeastOneSiblingFirst => mm (2 <=? cnt) (is_nth_sibling pk idx 0 [])
  | VOneOrTwoSiblingsFirst => mm ((cnt =? 2) || (cnt =? 3)) (is_nth_sibling pk idx 0 [])
  | VRoot =>
      mm ((cnt =? 2) || (cnt =? 3))
         (is_nth_sibling pk idx 0 (if cnt =? 3 then first_sibling_named pk idx "degree" [] else []))
  | VLog =>
      mm ((cnt =? 2) || (cnt =? 3))
         (is_nth_sibling pk idx 0 (if cnt =? 3 then first_sibling_named pk idx "logbase" [] else []))
  | VNoRule =>            (* min max rem: empty branches; with fixes/C01-mathml-arity.diff: rem as divide, min/max as times *)
      if fx then
        (if String.eqb n "rem" then mm (cnt =? 3) (is_nth_sibling pk idx 0 [])
         else mm (3 <=? cnt) (is_nth_sibling pk idx 0 []))
      else []
  | VDiff => mm (cnt =? 3) (is_nth_sibling pk idx 0 (first_sibling_named pk idx "bvar" []))
  | VPiecewise => sub       (* an empty piecewise raises nothing; the test-suite pins that (Validator.invalidMathMLElementsChildrenOrSiblings) *)
  | VPiece => mm (length mk =? 2) sub
  | VOtherwise => mm (length mk =? 1) sub
  | VCi => val_ci_struct kids
  | VCn => val_cn_struct attrs kids
  | VDegree =>
      if cnt =? 2 then is_nth_sibling pk idx 1 (mm (length mk =? 1) [])
      else if cnt =? 3 then first_sibling_named pk idx "root" (is_nth_sibling pk idx 1 (mm (length mk =? 1) []))
      else [R_MATH_MATHML]
  | VLogbase =>
      mm (cnt =? 3) (first_sibling_named pk idx "log" (is_nth_sibling pk idx 1 (mm (length mk =? 1) [])))
  | VBvar =>
      mm (cnt =? 3) (first_sibling_named pk idx "diff"
                       (is_nth_sibling pk idx 1 (mm ((length mk =? 1) || (length mk =? 2)) [])))
  | VOther => []
  end.

(** [q]: false = the code as it is now; true = with the repair fixes/C04-mathml-qualifier-children.diff, which makes the
    arity pass descend into the MathML children of degree / logbase / bvar once the qualifier's own checks pass. *)
Definition is_qualifier (n : string) : bool :=
  match vclass_of n with VDegree | VLogbase | VBvar => true | _ => false end.
Definition qwrap (q : bool) (n : string) (r sub : list rule) : list rule :=
  if q && is_qualifier n then match r with [] => sub | _ => r end else r.

Fixpoint val_struct_q (q fx : bool) (pk : list xml) (idx : nat) (x : xml) {struct x} : list rule :=
  match x with
  | Elem ns n attrs kids =>
      if negb (String.eqb ns MATHML_NS) then [] else
      let sub := (fix go (ks : list xml) (i : nat) {struct ks} : list rule :=
                    match ks with
                    | [] => []
                    | k :: r => if is_mathml k then val_struct_q q fx (mkids kids) i k ++ go r (S i) else go r i
                    end) kids 0 in
      qwrap q n (val_node fx pk idx n attrs kids sub) sub
  | _ => []
  end.

Fixpoint val_struct_kids_q (q fx : bool) (mk : list xml) (ks : list xml) (i : nat) : list rule :=
  match ks with
  | [] => []
  | k :: r => if is_mathml k then val_struct_q q fx mk i k ++ val_struct_kids_q q fx mk r (S i) else val_struct_kids_q q fx mk r i
  end.

(** flipped to true by the orchestrator when fixes/C04-mathml-qualifier-children.diff is committed to /repo *)
Definition qualifier_fix_committed : bool := true.
Definition val_struct (fx : bool) : list xml -> nat -> xml -> list rule := val_struct_q qualifier_fix_committed fx.
Definition val_struct_kids (fx : bool) : list xml -> list xml -> nat -> list rule := val_struct_kids_q qualifier_fix_committed fx.

(** validateMath on one <math> document (the DTD pass between pass 2 and pass 4 is not modelled) *)
Definition val_math_env_gen2 (q fx : bool) (vars units : list string) (root : xml) : list rule :=
  if negb (is_mathml_el "math" root) then [R_MATH_ELEMENT]
  else
    (fix go (ks : list xml) : list rule := match ks with [] => [] | k :: r => val_supported k ++ go r end) (kids_of root)
    ++ val_cicn vars units root
    ++ val_struct_kids_q q fx (mkids (kids_of root)) (kids_of root) 0.
Definition val_math_env_gen (fx : bool) : list string -> list string -> xml -> list rule :=
  val_math_env_gen2 qualifier_fix_committed fx.

(** flipped to true by the orchestrator when fixes/C01-mathml-arity.diff is committed to /repo *)
Definition arity_fix_committed : bool := true.

(** Later repairs of the validator, behind two more switches.  The definitions above are kept as they were (C04 reasons
    about them); [val_cicn_gen false] = [val_cicn] and [val_struct_d false] = [val_struct_q] by construction.
    [cf]: commit 064d865 — validateAndCleanCiNode skips comments before it reads the name
          ("while ((childNode != nullptr) && childNode->isComment()) childNode = childNode->next();").
    [df]: fixes/C01-diff-operand-ci.diff — once the three tests of the diff branch pass, the second sibling
          (mathmlChildNode(parentNode, 2)) must be a ci. *)
Fixpoint first_non_comment (l : list xml) : option xml :=
  match l with [] => None | x :: r => if is_comment x then first_non_comment r else Some x end.
Definition val_ci_name_gen (cf : bool) (vars : list string) (kids : list xml) : list rule :=
  if cf then
    let t := match first_non_comment (visible kids) with Some (Text s) => strip s | _ => "" end in
    if str_is_empty t then [] else if in_list t vars then [] else [R_MATH_CI_VARIABLE_REFERENCE]
  else val_ci_name vars kids.
Fixpoint val_cicn_gen (cf : bool) (vars units : list string) (x : xml) : list rule :=
  match x with
  | Elem _ _ attrs kids =>
      (if is_mathml_el "cn" x then val_cn_units units attrs
       else if is_mathml_el "ci" x then val_ci_name_gen cf vars kids else [])
      ++ (fix go (ks : list xml) : list rule :=
            match ks with [] => [] | k :: r => val_cicn_gen cf vars units k ++ go r end) kids
  | _ => []
  end.

Definition dwrap (df : bool) (pk : list xml) (n : string) (r : list rule) : list rule :=
  if df && String.eqb n "diff" then
    match r with
    | [] => match nth_error pk 2 with
            | Some c => mm (is_mathml_el "ci" c) []
            | None => [V_NULL_DEREF]          (* mathmlChildNode(parentNode, 2)-> without a null test *)
            end
    | _ => r
    end
  else r.

Fixpoint val_struct_d (df q fx : bool) (pk : list xml) (idx : nat) (x : xml) {struct x} : list rule :=
  match x with
  | Elem ns n attrs kids =>
      if negb (String.eqb ns MATHML_NS) then [] else
      let sub := (fix go (ks : list xml) (i : nat) {struct ks} : list rule :=
                    match ks with
                    | [] => []
                    | k :: r => if is_mathml k then val_struct_d df q fx (mkids kids) i k ++ go r (S i) else go r i
                    end) kids 0 in
      dwrap df pk n (qwrap q n (val_node fx pk idx n attrs kids sub) sub)
  | _ => []
  end.
Fixpoint val_struct_kids_d (df q fx : bool) (mk : list xml) (ks : list xml) (i : nat) : list rule :=
  match ks with
  | [] => []
  | k :: r => if is_mathml k then val_struct_d df q fx mk i k ++ val_struct_kids_d df q fx mk r (S i)
              else val_struct_kids_d df q fx mk r i
  end.

Definition val_math_env_gen3 (cf df q fx : bool) (vars units : list string) (root : xml) : list rule :=
  if negb (is_mathml_el "math" root) then [R_MATH_ELEMENT]
  else
    (fix go (ks : list xml) : list rule := match ks with [] => [] | k :: r => val_supported k ++ go r end) (kids_of root)
    ++ val_cicn_gen cf vars units root
    ++ val_struct_kids_d df q fx (mkids (kids_of root)) (kids_of root) 0.

(** 064d865 is in /repo *)
Definition ci_comment_fix_committed : bool := true.
(** flipped to true by the orchestrator when fixes/C01-diff-operand-ci.diff is committed to /repo *)
Definition diff_ci_fix_committed : bool := true.

(** the validator as it is in /repo now: what the drivers run *)
Definition val_math_env_head : list string -> list string -> xml -> list rule :=
  val_math_env_gen3 ci_comment_fix_committed diff_ci_fix_committed qualifier_fix_committed arity_fix_committed.
(** kept for C04's tie lemma (ValidMathProofs.val_math_env_q_c01): the validator WITHOUT the two later switches, i.e. as it
    was before 064d865; new code should use [val_math_env_head] / [val_math_env_gen3] *)
Definition val_math_env : list string -> list string -> xml -> list rule := val_math_env_gen arity_fix_committed.

(** the environment used by the drivers and by the closed statements: variables t x y z, units "dimensionless" *)
Definition std_vars : list string := ["t"; "x"; "y"; "z"].
Definition std_units : list string := ["dimensionless"].
Definition val_math (root : xml) : list rule := val_math_env_head std_vars std_units root.

(* ------------------------------------------------------------------------------------------------ analyser *)

(** where analyseNode (or the code right behind it) goes through a null pointer *)
Inductive site :=
| S_ChildNodeOfEmpty   (* mathmlChildNode(node, i): node->firstChild() is null, res->isMathmlElement() *)
| S_NodeNull           (* analyseNode(mathmlChildNode(node, i), ...) with no such child: node->isMathmlElement("apply") *)
| S_CiNoChild          (* <ci/>: node->firstChild()->convertToStrippedString() *)
| S_CiNoVariable       (* component->variable(name) == nullptr, used by internalVariable()/variable->units() *)
| S_CnNoChild          (* <cn/>: node->firstChild()->convertToStrippedString() *)
| S_CnSepChain         (* e-notation: node->firstChild()->next()->next()->convertToStrippedString() *)
| S_ExprNotPrintable   (* analyseComponent: not an equality -> expression(ast) -> Generator::generateCode reads a missing
                          operand (or ast->parent() of a root CI): the process dies while wording the issue *)
| S_EqnNotPrintable    (* an equality whose AST lacks an operand generateCode reads: dies as soon as a later stage prints
                          it (units issue text, code generation) *)
| S_DiffNotCi.         (* AnalyserInternalEquation::variableOnLhsRhs: astChild->rightChild()->variable()->name() for a DIFF
                          on either side of the equality whose operand is not a ci *)

Definition site_name (s : site) : string :=
  match s with
  | S_ChildNodeOfEmpty => "child-of-empty" | S_NodeNull => "missing-child" | S_CiNoChild => "ci-empty"
  | S_CiNoVariable => "ci-unknown-variable" | S_CnNoChild => "cn-empty" | S_CnSepChain => "cn-sep-chain"
  | S_ExprNotPrintable => "expression-unprintable" | S_EqnNotPrintable => "equation-unprintable"
  | S_DiffNotCi => "diff-of-non-ci"
  end.

(** does the site always kill the process (inside analyseNode / analyseComponent), or only when a later stage reads
    the malformed AST? *)
Definition site_certain (s : site) : bool :=
  match s with S_EqnNotPrintable | S_DiffNotCi => false | _ => true end.

Inductive res (A : Type) := Ok (a : A) | Crash (s : site).
Arguments Ok {A} a.
Arguments Crash {A} s.
Definition bind {A B} (r : res A) (f : A -> res B) : res B :=
  match r with Ok a => f a | Crash s => Crash s end.
Notation "x <- r ;; k" := (bind r (fun x => k)) (at level 61, r at next level, right associativity).

(** AnalyserEquationAst: type, value (cn), variable name (ci), owned left / right child.  Parent pointers are
    implicit in the tree.  A default-constructed AST has type EQUALITY. *)
Inductive ast := Ast (t : ty) (value : string) (var : option string) (l r : option ast).
Definition ast_new : ast := Ast EQUALITY "" None None None.
Definition ast_ty (a : ast) : ty := match a with Ast t _ _ _ _ => t end.
Definition ast_left (a : ast) : option ast := match a with Ast _ _ _ l _ => l end.
Definition ast_right (a : ast) : option ast := match a with Ast _ _ _ _ r => r end.
Definition get (into : option ast) : ast := match into with Some a => a | None => ast_new end.  (* "if (ast == nullptr) ast.reset(new ...)" *)
(* the three populate() overloads: they overwrite type (and value / variable) and keep the owned children *)
Definition populate (a : ast) (t : ty) : ast := match a with Ast _ v x l r => Ast t v x l r end.
Definition populate_value (a : ast) (t : ty) (v : string) : ast := match a with Ast _ _ x l r => Ast t v x l r end.
Definition populate_var (a : ast) (t : ty) (x : string) : ast := match a with Ast _ v _ l r => Ast t v (Some x) l r end.
Definition set_left (a : ast) (c : ast) : ast := match a with Ast t v x _ r => Ast t v x (Some c) r end.
Definition set_right (a : ast) (c : ast) : ast := match a with Ast t v x l _ => Ast t v x l (Some c) end.

(** elements whose branch is just populate(Type::T, astParent) *)
Definition simple_elements : list (string * ty) :=
  [("neq", NEQ); ("lt", LT); ("leq", LEQ); ("gt", GT); ("geq", GEQ); ("and", AND); ("or", OR); ("xor", XOR); ("not", NOT);
   ("plus", PLUS); ("minus", MINUS); ("times", TIMES); ("divide", DIVIDE); ("power", POWER); ("root", ROOT);
   ("abs", ABS); ("exp", EXP); ("ln", LN); ("log", LOG); ("ceiling", CEILING); ("floor", FLOOR);
   ("min", MIN); ("max", MAX); ("rem", REM); ("diff", DIFF);
   ("sin", SIN); ("cos", COS); ("tan", TAN); ("sec", SEC); ("csc", CSC); ("cot", COT);
   ("sinh", SINH); ("cosh", COSH); ("tanh", TANH); ("sech", SECH); ("csch", CSCH); ("coth", COTH);
   ("arcsin", ASIN); ("arccos", ACOS); ("arctan", ATAN); ("arcsec", ASEC); ("arccsc", ACSC); ("arccot", ACOT);
   ("arcsinh", ASINH); ("arccosh", ACOSH); ("arctanh", ATANH); ("arcsech", ASECH); ("arccsch", ACSCH); ("arccoth", ACOTH);
   ("true", TRUE); ("false", FALSE); ("exponentiale", E); ("pi", PI); ("infinity", INF)].
Fixpoint lookup_simple (n : string) (l : list (string * ty)) : option ty :=
  match l with [] => None | (m, t) :: r => if String.eqb m n then Some t else lookup_simple n r end.

(** One analysed child = the continuation "analyse this child into the given AST slot". *)
Definition kont : Type := option ast -> res ast.

(** mathmlChildNode(node, i) followed by analyseNode(that, slot, ...):
    [kids] the raw children of node, [ks] the continuations of its MathML children *)
Definition ana_child (kids : list xml) (ks : list kont) (i : nat) (slot : option ast) : res ast :=
  match kids with
  | [] => Crash S_ChildNodeOfEmpty
  | _ => match nth_error ks i with
         | None => Crash S_NodeNull
         | Some k => k slot
         end
  end.

(** the "for (i = childCount - 2; i > 1; --i)" loop of the apply branch; [n] counts the iterations left,
    the child analysed is number n + 1 *)
Fixpoint apply_chain (kids : list xml) (ks : list kont) (n : nat) (right : ast) : res ast :=
  match n with
  | O => Ok right
  | S m =>
      t <- ana_child kids ks 0 (Some ast_new) ;;
      tl <- ana_child kids ks (S n) (ast_left t) ;;
      apply_chain kids ks m (set_right (set_left t tl) right)
  end.
(** the "for (i = childCount - 2; i > 0; --i)" loop of the piecewise branch; child analysed is number n *)
Fixpoint piecewise_chain (kids : list xml) (ks : list kont) (n : nat) (right : ast) : res ast :=
  match n with
  | O => Ok right
  | S m =>
      let t := populate ast_new PIECEWISE in
      tl <- ana_child kids ks n None ;;
      piecewise_chain kids ks m (set_right (set_left t tl) right)
  end.

(* the raw sibling chain used by the e-notation branch of <cn> *)
Definition next (c : option (list xml)) : option (list xml) :=
  match c with Some (_ :: (n :: r)) => Some (n :: r) | _ => None end.
Definition cur (c : option (list xml)) : option xml := match c with Some (x :: _) => Some x | _ => None end.

(** repairs on the analyser / generator side:
    [af_ci_comment]: commit 064d865 — the ci branch reads nonCommentChildNode(node, 0) instead of node->firstChild();
    [af_guards]: fixes/C01-analyser-optional-children.diff — the apply branch analyses child 1 only "if (childCount >= 2)",
                 the piecewise branch child 0 only "if (childCount >= 1)";
    [af_gen_null]: fixes/C01-generator-null-operand.diff — generateCode(nullptr) returns "" and a CI without parent is
                 printed as a plain variable: nothing the generator reads can be missing any more. *)
Record afix := { af_ci_comment : bool; af_guards : bool; af_gen_null : bool }.
Definition afix_none : afix := {| af_ci_comment := false; af_guards := false; af_gen_null := false |}.

(** the branches of analyseNode for a MathML element named [n] with raw children [kids], whose MathML children are
    analysed by the continuations [ks]; [a] is the AST slot after "if (ast == nullptr) ast.reset(...)";
    [gp_is_math]: node->parent()->parent()->isMathmlElement("math"); [vars]: the component's variable names *)
Definition ana_body (F : afix) (vars : list string) (gp_is_math : bool) (n : string) (kids : list xml) (ks : list kont) (a : ast) : res ast :=
  let cnt := length ks in
  if String.eqb n "apply" then
    a0 <- ana_child kids ks 0 (Some a) ;;
    a1 <- (if af_guards F && negb (2 <=? cnt) then Ok a0
           else l <- ana_child kids ks 1 (ast_left a0) ;; Ok (set_left a0 l)) ;;
    if 3 <=? cnt then
      rc <- ana_child kids ks (cnt - 1) None ;;
      rc' <- apply_chain kids ks (cnt - 3) rc ;;
      Ok (set_right a1 rc')
    else Ok a1
  else if String.eqb n "eq" then
    if gp_is_math then Ok a else Ok (populate a EQ)
  else if String.eqb n "piecewise" then
    let a0 := populate a PIECEWISE in
    a1 <- (if af_guards F && negb (1 <=? cnt) then Ok a0
           else l <- ana_child kids ks 0 (ast_left a0) ;; Ok (set_left a0 l)) ;;
    if 2 <=? cnt then
      rc <- ana_child kids ks (cnt - 1) None ;;
      rc' <- piecewise_chain kids ks (cnt - 2) rc ;;
      Ok (set_right a1 rc')
    else Ok a1
  else if String.eqb n "piece" then
    let a0 := populate a PIECE in
    l <- ana_child kids ks 0 (ast_left a0) ;;
    r <- ana_child kids ks 1 (ast_right a0) ;;
    Ok (set_right (set_left a0 l) r)
  else if String.eqb n "otherwise" then
    let a0 := populate a OTHERWISE in
    l <- ana_child kids ks 0 (ast_left a0) ;; Ok (set_left a0 l)
  else if String.eqb n "ci" then
    (* nonCommentChildNode(node, 0): node->firstChild() then next() until a non-comment; no null test on the way *)
    match (if af_ci_comment F then first_non_comment (visible kids) else cur (first_child kids)) with
    | None => Crash S_CiNoChild
    | Some c =>
        let name := stripped c in
        if in_list name vars then Ok (populate_var a CI name) else Crash S_CiNoVariable
    end
  else if String.eqb n "cn" then
    if cnt =? 1 then
      let c0 := first_child kids in
      match cur c0, cur (next c0), cur (next (next c0)) with
      | Some f, Some _, Some e => Ok (populate_value a CN (stripped f +++ "e" +++ stripped e))
      | _, _, _ => Crash S_CnSepChain
      end
    else
      match cur (first_child kids) with
      | None => Crash S_CnNoChild
      | Some c => Ok (populate_value a CN (stripped c))
      end
  else if String.eqb n "degree" then
    let a0 := populate a DEGREE in
    l <- ana_child kids ks 0 (ast_left a0) ;; Ok (set_left a0 l)
  else if String.eqb n "logbase" then
    let a0 := populate a LOGBASE in
    l <- ana_child kids ks 0 (ast_left a0) ;; Ok (set_left a0 l)
  else if String.eqb n "bvar" then
    let a0 := populate a BVAR in
    l <- ana_child kids ks 0 (ast_left a0) ;;
    let a1 := set_left a0 l in
    match nth_error ks 1 with      (* rightNode = mathmlChildNode(node, 1); if (rightNode != nullptr) ... *)
    | None => Ok a1
    | Some k => r <- k (ast_right a1) ;; Ok (set_right a1 r)
    end
  else
    match lookup_simple n simple_elements with
    | Some t => Ok (populate a t)
    | None => Ok (populate a NAN)      (* "we have checked for everything, so ... we have a NaN" *)
    end.

(** the continuations of the MathML children of a node (the nested fix inside [ana_node] computes exactly this list;
    MathProofs.ana_node_unfold) *)
Fixpoint konts (f : xml -> kont) (l : list xml) : list kont :=
  match l with
  | [] => []
  | k :: r => if is_mathml k then f k :: konts f r else konts f r
  end.

(** analyseNode.  [parent]: the parent element; [into]: the AST slot handed in (nullptr = None). *)
Fixpoint ana_node (F : afix) (vars : list string) (parent : xml) (gp_is_math : bool) (x : xml) (into : option ast) {struct x} : res ast :=
  match x with
  | Elem ns n attrs kids =>
      if negb (String.eqb ns MATHML_NS) then Ok (populate (get into) NAN) else
      ana_body F vars gp_is_math n kids
        ((fix go (l : list xml) : list kont :=
            match l with
            | [] => []
            | k :: r => if is_mathml k then (fun slot => ana_node F vars x (is_mathml_el "math" parent) k slot) :: go r
                        else go r
            end) kids)
        (get into)
  | _ => Ok (populate (get into) NAN)   (* not reachable: only MathML elements are handed to analyseNode *)
  end.

(** What Generator::GeneratorImpl::generateCode (generator.cpp) reads of an AST without testing for null: the operands
    each node type is printed with, and ast->parent() for a CI.  Transcribed from the switch of generateCode,
    generateOperatorCode, generateOne/TwoParameterFunctionCode, generateMinusUnaryCode (mModel == nullptr, as in
    Analyser::expression; the profile flags only choose between forms that read the same operands).
    Approximation: for ROOT with a degree the shortcut "degree prints as 2.0 -> sqrt" is ignored, so the degree
    operand is always required to have a left child (exact whenever the first operand is a <degree> element). *)
Inductive gclass := GBinary | GUnary | GOneOrTwo | GRootLike | GCi | GLeaf.
Definition gclass_of (t : ty) : gclass :=
  match t with
  | EQUALITY | EQ | NEQ | LT | LEQ | GT | GEQ | AND | OR | XOR | TIMES | DIVIDE | POWER | MIN | MAX | REM | DIFF | PIECE => GBinary
  | PLUS | MINUS | LOG | PIECEWISE => GOneOrTwo
  | ROOT => GRootLike
  | CI => GCi
  | CN | TRUE | FALSE | E | PI | INF | NAN => GLeaf
  | _ => GUnary   (* NOT ABS EXP LN CEILING FLOOR, the trigonometric operators, OTHERWISE DEGREE LOGBASE BVAR *)
  end.
Fixpoint printable (has_parent : bool) (a : ast) {struct a} : bool :=
  match a with
  | Ast t _ _ l r =>
      let pl := match l with Some c => printable true c | None => false end in
      let pr := match r with Some c => printable true c | None => false end in
      match gclass_of t with
      | GBinary => pl && pr
      | GUnary => pl
      | GOneOrTwo => match r with Some _ => pl && pr | None => pl end
      | GRootLike =>
          match r with
          | Some _ => pl && pr && match l with Some (Ast _ _ _ (Some _) _) => true | _ => false end
          | None => pl
          end
      | GCi => has_parent
      | GLeaf => true
      end
  end.

(* analyser.cpp: AnalyserInternalEquation::variableOnLhsRhs on one side of the equality *)
Definition side_ok (c : option ast) : bool :=
  match c with
  | Some (Ast DIFF _ _ _ (Some (Ast CI _ (Some _) _ _))) => true
  | Some (Ast DIFF _ _ _ _) => false
  | _ => true
  end.

(** analyseComponent, one child of <math>: analyseNode into a fresh (EQUALITY) AST.  When the result is not an
    equality an issue is raised whose text is built by expression(ast) -> Generator::equationCode(ast), which prints
    the whole AST.  Equalities are printed later (units issues, code generation) and inspected by
    AnalyserInternalEquation::check -> variableOnLhsOrRhs. *)
Definition printable_gen (gf : bool) (has_parent : bool) (a : ast) : bool := gf || printable has_parent a.
Definition ana_equation (F : afix) (vars : list string) (root : xml) (x : xml) : res ast :=
  a <- ana_node F vars root false x (Some ast_new) ;;
  match ast_ty a with
  | EQUALITY =>
      if negb (printable_gen (af_gen_null F) false a) then Crash S_EqnNotPrintable
      else if side_ok (ast_left a) && side_ok (ast_right a) then Ok a else Crash S_DiffNotCi
  | _ => if printable_gen (af_gen_null F) false a then Ok a else Crash S_ExprNotPrintable
  end.

Fixpoint ana_math_kids (F : afix) (vars : list string) (root : xml) (ks : list xml) : res (list ast) :=
  match ks with
  | [] => Ok []
  | k :: r =>
      if is_mathml k then
        a <- ana_equation F vars root k ;;
        rest <- ana_math_kids F vars root r ;;
        Ok (a :: rest)
      else ana_math_kids F vars root r
  end.

(** all equations of one <math> document *)
Definition ana_math_env_gen (F : afix) (vars : list string) (root : xml) : res (list ast) :=
  ana_math_kids F vars root (visible (kids_of root)).

(** the analyser / generator as they are in /repo now (064d865 is in; the other two flags are flipped by the orchestrator
    when fixes/C01-analyser-optional-children.diff / fixes/C01-generator-null-operand.diff are committed) *)
Definition analyser_guards_fix_committed : bool := true.
Definition generator_null_fix_committed : bool := true.
Definition afix_committed : afix :=
  {| af_ci_comment := ci_comment_fix_committed; af_guards := analyser_guards_fix_committed;
     af_gen_null := generator_null_fix_committed |}.
Definition ana_math_env (vars : list string) (root : xml) : res (list ast) := ana_math_env_gen afix_committed vars root.
Definition ana_math (root : xml) : res (list ast) := ana_math_env std_vars root.
Definition ana_math_gen (F : afix) (root : xml) : res (list ast) := ana_math_env_gen F std_vars root.

Definition ana_gen (F : afix) (root : xml) : option (list ast) :=
  match ana_math_gen F root with Ok l => Some l | Crash _ => None end.
Definition ana_node_opt (vars : list string) (root : xml) : option (list ast) :=
  match ana_math_env vars root with Ok l => Some l | Crash _ => None end.
(** [ana_node] of the property text: the analyser's consumption of one <math> document; None = the process would have
    dereferenced a null pointer *)
Definition ana (root : xml) : option (list ast) := ana_node_opt std_vars root.

(* ------------------------------------------------------------------------------------------------ power exponents *)

(** std::stod (A-libc): invalid_argument iff strtod converts nothing; out_of_range on ERANGE.  The range side is only
    decided where it is beyond doubt: |v| >= 1e309 overflows, 0 < |v| < 1e-324 underflows to zero. *)
Inductive stod_result := StodValue | StodInvalidArgument | StodOutOfRange.
Definition z_digits (m : Z) : Z := Z.of_nat (String.length (z_to_string (Z.abs m))).
Definition surely_out_of_range (m e : Z) : bool :=
  (negb (m =? 0)%Z && ((309 <? z_digits m + e)%Z || (z_digits m + e <? -323)%Z)).
Definition stod (s : string) : stod_result :=
  if negb (strtod_converts s) then StodInvalidArgument
  else match real_parts s with
       | Some (_, m, e) => if surely_out_of_range m e then StodOutOfRange else StodValue
       | None => StodValue
       end.

(** validator.cpp: validateVariable — an initial_value is accepted when it is a CellML real or names a variable
    of the same component; nothing checks that the real fits a double *)
Definition initial_value_accepted (vars : list string) (s : string) : bool := is_real s || in_list s vars.

(** analyser.cpp: AnalyserImpl::powerValue — evaluation of the exponent of a POWER / ROOT during the units analysis.
    [avail] is powerData.mExponentValueAvailable (once false, stays false).  The arithmetic itself cannot fail;
    what matters is which std::stod calls are reached.  [ivs]: variable name -> initial_value text. *)
Inductive pv := PvDone (avail : bool) | PvThrow (r : stod_result).
Fixpoint lookup_iv (n : string) (ivs : list (string * string)) : string :=
  match ivs with [] => "" | (m, v) :: r => if String.eqb m n then v else lookup_iv n r end.
Definition pv_unavailable_type (t : ty) : bool :=
  match t with EQUALITY | DIFF | BVAR | PIECEWISE | PIECE | OTHERWISE => true | _ => false end.
(** [sf]: commit 82725c7 — convertToDouble(text, value) instead of std::stod(text): false unless isCellMLReal(text),
    std::out_of_range caught; a text that does not convert makes the exponent value "not available". *)
Definition number_of (sf : bool) (s : string) : pv :=
  if sf then
    (if is_real s then match stod s with
                       | StodValue => PvDone true
                       | StodOutOfRange => PvDone false
                       | StodInvalidArgument => PvThrow StodInvalidArgument     (* not caught by stringToDouble *)
                       end
     else PvDone false)
  else match stod s with StodValue => PvDone true | e => PvThrow e end.
Fixpoint power_value_a (sf : bool) (ivs : list (string * string)) (a : ast) (avail : bool) {struct a} : pv :=
  match a with
  | Ast t v x l r =>
      match (match l with Some c => power_value_a sf ivs c avail | None => PvDone avail end) with
      | PvThrow e => PvThrow e
      | PvDone false => PvDone false
      | PvDone true =>
          match (match r with Some c => power_value_a sf ivs c true | None => PvDone true end) with
          | PvThrow e => PvThrow e
          | PvDone false => PvDone false
          | PvDone true =>
              match t with
              | CI => let iv := lookup_iv (match x with Some n => n | None => "" end) ivs in
                      if str_is_empty iv then PvDone false else number_of sf iv
              | CN => number_of sf v
              | _ => if pv_unavailable_type t then PvDone false else PvDone true
              end
          end
      end
  end.
Definition power_value (sf : bool) (ivs : list (string * string)) (a : option ast) (avail : bool) : pv :=
  match a with None => PvDone avail (* if (ast == nullptr) return NAN *) | Some c => power_value_a sf ivs c avail end.

(** analyseEquationUnits: every POWER node evaluates its right operand, every ROOT whose left child is a DEGREE
    evaluates that — when the exponent is dimensionless (assumed here: the drivers use dimensionless variables; on
    other documents the prediction is "may").  Post-order, left to right, as the units analysis walks the AST. *)
Fixpoint units_pass_a (sf : bool) (ivs : list (string * string)) (a : ast) {struct a} : option stod_result :=
  match a with
  | Ast t v x l r =>
      match (match l with Some c => units_pass_a sf ivs c | None => None end) with
      | Some e => Some e
      | None =>
          match (match r with Some c => units_pass_a sf ivs c | None => None end) with
          | Some e => Some e
          | None =>
              match t with
              | POWER => match power_value sf ivs r true with PvThrow e => Some e | _ => None end
              | ROOT => match l with
                        | Some (Ast DEGREE _ _ _ _) => match power_value sf ivs l true with PvThrow e => Some e | _ => None end
                        | _ => None
                        end
              | _ => None
              end
          end
      end
  end.
Fixpoint units_pass_all (sf : bool) (ivs : list (string * string)) (eqs : list ast) : option stod_result :=
  match eqs with
  | [] => None
  | a :: r => match units_pass_a sf ivs a with Some e => Some e | None => units_pass_all sf ivs r end
  end.
(** the uncaught exception Analyser::analyseModel would end with on this <math> document, if any *)
Definition pow_math_env_gen (F : afix) (sf : bool) (vars : list string) (ivs : list (string * string)) (root : xml) : option stod_result :=
  match ana_math_env_gen F vars root with
  | Ok eqs => units_pass_all sf ivs eqs
  | Crash _ => None
  end.
(** 82725c7 is in /repo *)
Definition stod_fix_committed : bool := true.
Definition pow_math_env : list string -> list (string * string) -> xml -> option stod_result :=
  pow_math_env_gen afix_committed stod_fix_committed.
(** trigger condition of a separate analyser defect (family Kunits-exponent-unavailable, observed, not modelled
    further): some POWER / ROOT-with-DEGREE exponent whose value is "not available" (a ci without initial_value, a
    piecewise, ...) leaves powerData.mExponentValueAvailable false, and analyseEquationUnits later reads
    ast->right->right of an unrelated node. *)
Fixpoint exponent_unavailable_a (ivs : list (string * string)) (a : ast) {struct a} : bool :=
  match a with
  | Ast t v x l r =>
      (match l with Some c => exponent_unavailable_a ivs c | None => false end)
      || (match r with Some c => exponent_unavailable_a ivs c | None => false end)
      || match t with
         | POWER => match power_value stod_fix_committed ivs r true with PvDone false => true | _ => false end
         | ROOT => match l with
                   | Some (Ast DEGREE _ _ _ _) => match power_value stod_fix_committed ivs l true with PvDone false => true | _ => false end
                   | _ => false
                   end
         | _ => false
         end
  end.
Definition exponent_unavailable (vars : list string) (ivs : list (string * string)) (root : xml) : bool :=
  match ana_math_env vars root with
  | Ok eqs => existsb (exponent_unavailable_a ivs) eqs
  | Crash _ => false
  end.

Definition stod_result_name (r : stod_result) : string :=
  match r with StodValue => "value" | StodInvalidArgument => "invalid_argument" | StodOutOfRange => "out_of_range" end.

(* ------------------------------------------------------------------------------------------------ builders *)

Definition m_el (n : string) (kids : list xml) : xml := Elem MATHML_NS n [] kids.
Definition m_leaf (n : string) : xml := m_el n [].
Definition m_ci (v : string) : xml := m_el "ci" [Text v].
Definition m_cn (v : string) : xml := Elem MATHML_NS "cn" [(CELLML_2_0_NS, "units", "dimensionless")] [Text v].
Definition m_cn_e (m e : string) : xml :=
  Elem MATHML_NS "cn" [(CELLML_2_0_NS, "units", "dimensionless"); ("", "type", "e-notation")] [Text m; m_leaf "sep"; Text e].
Definition m_apply (op : string) (args : list xml) : xml := m_el "apply" (m_leaf op :: args).
Definition m_math (kids : list xml) : xml := m_el "math" kids.
Definition m_eqn (lhs rhs : xml) : xml := m_apply "eq" [lhs; rhs].

(* ------------------------------------------------------------------------------------------------ enumeration *)

(** all lists of length <= n over xs (shortest first) *)
Fixpoint lists_upto {A} (n : nat) (xs : list A) : list (list A) :=
  match n with
  | O => [[]]
  | S m => [] :: flat_map (fun l => map (fun x => x :: l) xs) (lists_upto m xs)
  end.
Definition dedup_nil {A} (ls : list (list A)) : list (list A) :=
  [] :: filter (fun l => match l with [] => false | _ => true end) ls.

Definition container_names : list string := ["apply"; "piecewise"; "piece"; "otherwise"; "degree"; "logbase"; "bvar"; "ci"; "cn"].

(** depth-0 alphabet: one representative of every branch of the two tables, plus the token shapes *)
Definition leaf_alphabet : list xml :=
  [m_ci "x"; m_ci "t"; m_cn "1"; m_el "ci" [Comment "c"; Text "y"]; m_el "ci" []; m_el "cn" []; m_cn_e "1" "2";
   m_leaf "true"; m_leaf "sep";
   m_leaf "eq"; m_leaf "and"; m_leaf "not"; m_leaf "plus"; m_leaf "minus"; m_leaf "root"; m_leaf "log";
   m_leaf "min"; m_leaf "diff";
   m_leaf "apply"; m_leaf "piecewise"; m_leaf "piece"; m_leaf "otherwise"; m_leaf "degree"; m_leaf "logbase"; m_leaf "bvar"].

(** the same, ordered by how much they matter for the deeper levels (a prefix is used there) *)
Definition leaf_priority : list xml :=
  [m_ci "x"; m_leaf "min"; m_cn "1"; m_leaf "plus"; m_leaf "piecewise"; m_leaf "eq"; m_leaf "diff"; m_leaf "root";
   m_leaf "degree"; m_leaf "bvar"; m_leaf "not"; m_leaf "log"; m_leaf "logbase"; m_leaf "minus"; m_leaf "and";
   m_el "ci" [Comment "c"; Text "y"]; m_leaf "apply"; m_leaf "piece"; m_leaf "otherwise"; m_leaf "sep"; m_leaf "true"].

Definition container_tags : list string := ["apply"; "piecewise"; "piece"; "otherwise"; "degree"; "logbase"; "bvar"].

Definition containers_over (maxlen : nat) (xs : list xml) : list xml :=
  flat_map (fun ks => map (fun n => m_el n ks) container_tags) (dedup_nil (lists_upto maxlen xs)).

(** trees of depth <= d over the given leaves with at most [maxlen] children per container *)
Fixpoint trees_over (leaves : list xml) (d maxlen : nat) : list xml :=
  match d with
  | O => leaves
  | S e => leaves ++ containers_over maxlen (trees_over leaves e maxlen)
  end.
Definition trees (d maxlen : nat) : list xml := trees_over leaf_alphabet d maxlen.

(** all ways of putting [s] at one position of a list of leaves of length < maxlen *)
Fixpoint insert_everywhere (s : xml) (l : list xml) : list (list xml) :=
  match l with
  | [] => [[s]]
  | x :: r => (s :: l) :: map (fun t => x :: t) (insert_everywhere s r)
  end.
(** containers one of whose children is taken from [subs], the others from [leaves]: one level deeper than [subs] *)
Definition grow (leaves subs : list xml) (maxlen : nat) : list xml :=
  flat_map (fun l => flat_map (fun s => flat_map (fun ks => map (fun n => m_el n ks) container_tags) (insert_everywhere s l)) subs)
           (dedup_nil (lists_upto (pred maxlen) leaves)).

(** the two contexts in which a tree is placed: alone under <math>, and as right-hand side of x = ... *)
Definition in_contexts (e : xml) : list xml := [m_math [e]; m_math [m_eqn (m_ci "x") e]].

(** the enumerations run by the check: depth <= 1 exhaustively over the full alphabet; depth 2 and 3 with one deep
    child per level over a prefix of [leaf_priority] *)
Definition enum_d1 : list xml := flat_map in_contexts (trees 1 3).
Definition enum_d2 (nleaves : nat) : list xml :=
  let lv := firstn nleaves leaf_priority in
  flat_map in_contexts (grow lv (containers_over 3 lv) 3).
Definition enum_d3 (nleaves : nat) : list xml :=
  let lv := firstn nleaves leaf_priority in
  flat_map in_contexts (grow lv (grow lv (containers_over 2 lv) 3) 2).

(** the arity table row by row: every supported element name (regenerated table) as operator with 0..4 operands,
    as an equation, as a bare child of math, and in a position that is not the first *)
Definition arity_sweep : list xml :=
  flat_map (fun n =>
    flat_map (fun k =>
      let args := repeat (m_ci "y") k in
      [m_math [m_eqn (m_ci "x") (m_apply n args)];
       m_math [m_apply n args];
       m_math [m_eqn (m_ci "x") (m_el "apply" (m_leaf "plus" :: m_leaf n :: args))];
       m_math [m_eqn (m_ci "x") (m_el n args)]])
      [0; 1; 2; 3; 4])
    supported_mathml_elements.

Definition is_gap (root : xml) : bool :=
  match val_math root, ana root with [], None => true | _, _ => false end.
