(** Common.v — small shared executable utilities (no proofs). *)
From Coq Require Import String Ascii List ZArith NArith DecimalString DecimalZ DecimalN.
Import ListNotations.

Definition z_to_string (z : Z) : string := NilZero.string_of_int (Z.to_int z).
Definition n_to_string (n : N) : string := NilZero.string_of_uint (N.to_uint n).
Definition nat_to_string (n : nat) : string := NilZero.string_of_uint (Nat.to_uint n).

Fixpoint str_concat (sep : string) (l : list string) : string :=
  match l with
  | [] => EmptyString
  | [x] => x
  | x :: r => (x ++ sep ++ str_concat sep r)%string
  end.
