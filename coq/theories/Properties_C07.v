(** Properties_C07.v — statements only (work in progress). *)
From Coq Require Import String Ascii List Bool.
From LC Require Import ImportDefs ImportProofs.
Theorem C07_placeholder : True.
Proof. exact ImportProofs.placeholder_true. Qed.
Print Assumptions C07_placeholder.
