(** Properties_C07.v — statements only.  Each theorem is closed by [exact <lemma of ImportProofs>] and followed
    by Print Assumptions.
    C07: import resolution terminates, succeeds exactly when possible, reports failures.

    Model: ImportDefs.v (Importer::resolveImports, fetchUnits, fetchComponent, fetchModel, the history epochs
    and cycle predicate, the library cache, Model::hasUnresolvedImports, the pre-flatten scan of flattenModel).
    Specifications: ImportSpec.v ([Resolvable] = every transitive import can be satisfied; [CodeResolvable] =
    what the importer's own traversal demands; the hypotheses [NoErrs], [Shallow], [AcyclicFiles], [NoTwin]). *)
From Coq Require Import String Ascii List Bool.
From LC Require Import ImportDefs ImportSpec ImportProofs ImportGuard ImportPost ImportLayout ImportRound5Proofs.
Import ListNotations.
Local Open Scope string_scope.

(** 1. Termination.  On EVERY file system (cyclic import graphs, self imports, missing and malformed files
    included), from EVERY importer state (any stale library), resolveImports returns: the history test cuts
    every import path after at most 2·(number of files + library entries) + 1 hops. *)
Theorem C07_resolve_terminates : forall strict fs st m0 fuel,
  fuel_bound fs st <= fuel ->
  exists b st', resolve_imports fuel strict fs st m0 = Ok (b, st').
Proof. exact ImportProofs.resolve_terminates. Qed.
Print Assumptions C07_resolve_terminates.

(** 2. Failure is reported: resolveImports = false leaves at least one issue, and an issue is attached to a
    top-level importing units / component of the model whose fetch failed. *)
Theorem C07_resolve_false_issue : forall fuel strict fs st m0 st',
  resolve_imports fuel strict fs st m0 = Ok (false, st') ->
  issues_rev st' <> [] /\
  exists i, In i (issues_rev st') /\
    ((exists u s1 s2, In u (imported_units m0) /\ i_item i = ItUnits None (uname u) /\
                      fetch_units fuel strict fs m0 s1 None [] u = Ok (false, s2))
     \/ (exists c s1 s2, In c (imported_comps m0) /\ i_item i = ItComp None (cname c) /\
                         fetch_comp fuel strict fs m0 s1 None [] c = Ok (false, s2))).
Proof. exact ImportProofs.resolve_false_issue. Qed.
Print Assumptions C07_resolve_false_issue.

(** 3. resolveImports = true, exactly.  On an importer whose library caches (part of) the file system — a new
    Importer, or any importer after removeAllModels — and when no file carries parser errors, the answer is
    true iff the importer's own demands are met ([CodeResolvable]: the import closure as fetchUnits /
    fetchComponent traverse it, with the cycle rule of checkForImportCycles). *)
Theorem C07_resolve_true_iff_code : forall fs strict st m0 fuel,
  NoErrs fs -> cons fs st -> fuel_bound fs st <= fuel ->
  exists b st', resolve_imports fuel strict fs st m0 = Ok (b, st') /\ (b = true <-> CodeResolvable fs m0).
Proof. exact ImportProofs.resolve_true_iff_code. Qed.
Print Assumptions C07_resolve_true_iff_code.

(** The importer's demands against the property's notion.  [Shallow] (finding C07-unexamined-dependencies as a
    hypothesis) makes the demands sufficient; [AcyclicFiles] and [NoTwin] (the property's exclusion: files that
    import from each other; and a file equal to the model being resolved) make them necessary. *)
Theorem C07_code_resolvable_resolvable : forall fs m0,
  Shallow fs -> CodeResolvable fs m0 -> Resolvable fs m0.
Proof. exact ImportProofs.code_resolvable_resolvable. Qed.
Print Assumptions C07_code_resolvable_resolvable.

Theorem C07_resolvable_code_resolvable : forall fs m0 (rank : string -> nat),
  (forall k sm url, fs_model fs k = Some sm -> In url (import_urls sm) -> rank (key_of (Some k) url) < rank k) ->
  NoTwin fs m0 -> KeysOK fs -> Resolvable fs m0 -> CodeResolvable fs m0.
Proof. exact ImportProofs.resolvable_code_resolvable. Qed.
Print Assumptions C07_resolvable_code_resolvable.

(** 3'. The property's statement, with the hypotheses the code needs stated:
    resolveImports = true  <->  every transitive import can be satisfied. *)
Theorem C07_resolve_true_iff_partial : forall fs strict st m0 fuel,
  NoErrs fs -> Shallow fs -> AcyclicFiles fs -> NoTwin fs m0 -> KeysOK fs ->
  cons fs st -> fuel_bound fs st <= fuel ->
  exists b st', resolve_imports fuel strict fs st m0 = Ok (b, st') /\ (b = true <-> Resolvable fs m0).
Proof. exact ImportProofs.resolve_true_iff_partial. Qed.
Print Assumptions C07_resolve_true_iff_partial.

(** … and without [Shallow] it is false (finding C07-unexamined-dependencies): an import behind two local
    units is never fetched; resolveImports answers true, without an issue, although the file is missing. *)
Theorem C07_resolve_true_iff_refuted :
  exists fs m0 st', NoErrs fs /\ resolve_imports (fuel_bound fs empty_state) true fs empty_state m0 = Ok (true, st') /\
                    issues_rev st' = [] /\ ~ Resolvable fs m0.
Proof. exact ImportProofs.resolve_true_iff_refuted. Qed.
Print Assumptions C07_resolve_true_iff_refuted.

(** 4. A failure leaves the importer usable.  removeAllModels gives exactly a fresh importer's resolution … *)
Theorem C07_resolve_after_clear : forall fuel strict fs st m0,
  resolve_imports fuel strict fs (remove_all_models st) m0 = resolve_imports fuel strict fs empty_state m0.
Proof. exact ImportProofs.resolve_after_clear. Qed.
Print Assumptions C07_resolve_after_clear.

(** … so after the fault is repaired, a resolution after removeAllModels (from ANY importer state, whatever it
    has seen) or on a new Importer succeeds. *)
Theorem C07_retry_after_repair : forall fs' strict st m0 fuel,
  NoErrs fs' -> Shallow fs' -> AcyclicFiles fs' -> NoTwin fs' m0 -> KeysOK fs' -> Resolvable fs' m0 ->
  fuel_bound fs' empty_state <= fuel ->
  exists st', resolve_imports fuel strict fs' (remove_all_models st) m0 = Ok (true, st').
Proof. exact ImportProofs.retry_after_repair. Qed.
Print Assumptions C07_retry_after_repair.

(** Without removeAllModels the same importer keeps the stale library entry (DESIGN row 32: not a finding, the
    reading of "fresh resolution" is library cleared / new importer). *)
Theorem C07_retry_same_importer_refuted :
  exists bad good m0 st1 st2 st3,
    Resolvable good m0 /\
    resolve_imports (fuel_bound bad empty_state) true bad empty_state m0 = Ok (false, st1) /\
    resolve_imports (fuel_bound good st1) true good st1 m0 = Ok (false, st2) /\
    resolve_imports (fuel_bound good empty_state) true good (remove_all_models st2) m0 = Ok (true, st3).
Proof. exact ImportProofs.retry_same_importer_refuted. Qed.
Print Assumptions C07_retry_same_importer_refuted.

(** K35: parser errors of an imported file are only seen by the call that loads it: the same call repeated on
    the same importer and the same files answers false, then true with no issue. *)
Theorem C07_resolve_repeatable_refuted :
  exists fs m0 st1 st2,
    resolve_imports (fuel_bound fs empty_state) true fs empty_state m0 = Ok (false, st1) /\
    resolve_imports (fuel_bound fs st1) true fs st1 m0 = Ok (true, st2) /\ issues_rev st2 = [].
Proof. exact ImportProofs.resolve_repeatable_refuted. Qed.
Print Assumptions C07_resolve_repeatable_refuted.

(** 5. "after which hasUnresolvedImports() is false" does not hold for the code as it is:
    (a) finding C07-units-history-not-popped — a diamond below a local units: every import can be satisfied,
        resolveImports = true, and hasUnresolvedImports() = true; false once the history is popped (fx_pop);
    (b) finding C07-unexamined-dependencies — the import the importer never fetched stays unresolved;
    (c) finding C07-null-deref-dangling-units-ref — without any import, hasUnresolvedImports() and the
        pre-flatten scan dereference null ([Crash]); fine with the null test (fx_nullref). *)
Theorem C07_resolve_true_post_refuted :
  exists fs m0 st', Resolvable fs m0 /\
    resolve_imports (fuel_bound fs empty_state) true fs empty_state m0 = Ok (true, st') /\
    has_unresolved_imports no_fixes (scan_fuel fs st' m0) st' m0 = Ok true /\
    has_unresolved_imports {| fx_pop := true; fx_nullref := false; fx_placeholder_children := false; fx_cycle_guard := false |} (scan_fuel fs st' m0) st' m0 = Ok false.
Proof. exact ImportProofs.resolve_true_post_refuted. Qed.
Print Assumptions C07_resolve_true_post_refuted.

Theorem C07_resolve_true_post_refuted_unexamined :
  exists fs m0 st', Resolvable fs m0 /\
    resolve_imports (fuel_bound fs empty_state) true fs empty_state m0 = Ok (true, st') /\
    has_unresolved_imports no_fixes (scan_fuel fs st' m0) st' m0 = Ok true.
Proof. exact ImportProofs.resolve_true_post_refuted_unexamined. Qed.
Print Assumptions C07_resolve_true_post_refuted_unexamined.

Theorem C07_unresolved_test_crash_refuted :
  exists m0 st', resolve_imports (fuel_bound [] empty_state) true [] empty_state m0 = Ok (true, st') /\
                 has_unresolved_imports no_fixes (scan_fuel [] st' m0) st' m0 = Crash /\
                 flatten_precheck no_fixes (scan_fuel [] st' m0) st' m0 = Crash /\
                 has_unresolved_imports {| fx_pop := false; fx_nullref := true; fx_placeholder_children := false; fx_cycle_guard := false |} (scan_fuel [] st' m0) st' m0 = Ok false.
Proof. exact ImportProofs.unresolved_test_crash_refuted. Qed.
Print Assumptions C07_unresolved_test_crash_refuted.

(** The post-condition, with everything it needs stated.  With the history of Units::performTestWithHistory popped
    (fx_pop; fixes/C07-units-history-pop.diff), for files that are Shallow, ranked (no file imports in a circle),
    pairwise different and different from the origin model, whose import URLs are not the marker ":this:", and an
    origin model whose own local units are used shallowly: from a library that caches the file system,
      resolveImports = true  ->  hasUnresolvedImports() = false   (for every sufficient fuel).
    Each hypothesis is needed: fx_pop by C07_resolve_true_post_refuted, Shallow by …_refuted_unexamined, the local
    conditions by C07_unresolved_test_crash_refuted / the K3 witness. *)
Theorem C07_resolve_true_post_partial : forall fs strict m0 fx (rank urank : string -> nat),
  fx_pop fx = true ->
  Shallow fs ->
  (forall k sm url, fs_model fs k = Some sm -> In url (import_urls sm) -> rank (key_of (Some k) url) < rank k) ->
  NoTwin fs m0 -> NoTwinFiles fs ->
  (forall url, In url (import_urls m0) -> url <> origin_ref) ->
  (forall k sm url, fs_model fs k = Some sm -> In url (import_urls sm) -> url <> origin_ref) ->
  (* performTestWithHistory compares URLs as written: along every import path they must differ; here: a rank on URL
     texts that decreases from the URL a file was imported through to the URLs written in that file *)
  (forall o cm url sm url', octx fs m0 o cm -> In url (import_urls cm) ->
     fs_model fs (key_of o url) = Some sm -> In url' (import_urls sm) -> urank url' < urank url) ->
  OriginShallow m0 ->
  forall fuel st st', cons fs st -> resolve_imports fuel strict fs st m0 = Ok (true, st') ->
  exists N, forall fuel', N <= fuel' -> has_unresolved_imports fx fuel' st' m0 = Ok false.
Proof. exact ImportPost.resolve_true_post_partial. Qed.
Print Assumptions C07_resolve_true_post_partial.

(** 85ba0d4: the guard hasUnitsCycle (fx_cycle_guard) answers false on every resolved units — [TU] is the inductive
    "resolved" predicate that a successful resolution establishes (ImportPost); its derivation is well-founded, the path
    kept by unitsCycleFrom consists of ancestors, and (pigeonhole) is never longer than the number of units, so the walk
    neither meets a units again nor runs out of fuel.  This is what removes the guard from the post-condition above:
    no hypothesis about the guard is left there. *)
Theorem C07_guard_silent_on_resolved : forall st m0 fx o cm u,
  TU st o cm u -> content st m0 o = Some cm -> In u (m_units cm) -> guarded fx st m0 o cm u = false.
Proof. exact ImportGuard.TU_guard_silent. Qed.
Print Assumptions C07_guard_silent_on_resolved.

Example C07_resolve_true_post_nonvacuous :
  exists fx (rank urank : string -> nat) st',
    fx_pop fx = true /\ Shallow ex_fs /\
    (forall k sm url, fs_model ex_fs k = Some sm -> In url (import_urls sm) -> rank (key_of (Some k) url) < rank k) /\
    NoTwin ex_fs ex_m0 /\ NoTwinFiles ex_fs /\
    (forall url, In url (import_urls ex_m0) -> url <> origin_ref) /\
    (forall k sm url, fs_model ex_fs k = Some sm -> In url (import_urls sm) -> url <> origin_ref) /\
    (forall o cm url sm url', octx ex_fs ex_m0 o cm -> In url (import_urls cm) ->
       fs_model ex_fs (key_of o url) = Some sm -> In url' (import_urls sm) -> urank url' < urank url) /\
    OriginShallow ex_m0 /\ cons ex_fs empty_state /\
    resolve_imports (fuel_bound ex_fs empty_state) true ex_fs empty_state ex_m0 = Ok (true, st') /\
    fx_cycle_guard fx = true /\ GuardSilent ex_fs fx st' ex_m0.
Proof. exact ImportPost.post_nonvacuous. Qed.
Print Assumptions C07_resolve_true_post_nonvacuous.

(** For the code as it is (history not popped), what does hold after resolveImports = true: every import source of
    the model has its model (the first thing isResolved() tests). *)
Theorem C07_resolve_true_links_partial : forall fuel strict fs st m0 st',
  resolve_imports fuel strict fs st m0 = Ok (true, st') ->
  (forall u, In u (imported_units m0) -> units_linked st' u) /\
  (forall c, In c (imported_comps m0) -> comp_linked st' c).
Proof. exact ImportProofs.resolve_true_links. Qed.
Print Assumptions C07_resolve_true_links_partial.

(** 6. K3: cyclic LOCAL units inside an imported file: resolveImports = true without an issue, and the
    pre-flatten scan of flattenModel (ImporterImpl::checkUnitsForCycles, which 85ba0d4 does not guard) never returns —
    out of fuel for EVERY fuel (stack exhaustion) and for EVERY variant of the code, HEAD included.  What 85ba0d4
    changes: hasUnresolvedImports() was out of fuel too and now answers true (cyclic units count as unresolved). *)
Theorem C07_flatten_precheck_cyclic_units_refuted :
  exists fs m0 st', resolve_imports (fuel_bound fs empty_state) true fs empty_state m0 = Ok (true, st') /\
                    issues_rev st' = [] /\
                    (forall fx fuel, flatten_precheck fx fuel st' m0 = OutOfFuel) /\
                    has_unresolved_imports no_fixes (scan_fuel fs st' m0) st' m0 = OutOfFuel /\
                    has_unresolved_imports head_fixes (scan_fuel fs st' m0) st' m0 = Ok true.
Proof. exact ImportProofs.flatten_precheck_cyclic_units_refuted. Qed.
Print Assumptions C07_flatten_precheck_cyclic_units_refuted.

(** 85ba0d4 (hasUnitsCycle guard, fx_cycle_guard) on cyclic local units of the model itself (no import at all): before,
    hasUnresolvedImports and flattenModel's pre-checks do not return; with the guard hasUnresolvedImports() = true
    and flattenModel returns null with the issue IMPORTER_UNRESOLVED_IMPORTS attached to the model. *)
Theorem C07_cycle_guard_witness :
  exists m0 st', resolve_imports (fuel_bound [] empty_state) true [] empty_state m0 = Ok (true, st') /\
    has_unresolved_imports (no_fixes) (scan_fuel [] st' m0) st' m0 = OutOfFuel /\
    flatten_precheck no_fixes (scan_fuel [] st' m0) st' m0 = OutOfFuel /\
    has_unresolved_imports head_fixes (scan_fuel [] st' m0) st' m0 = Ok true /\
    exists st'', flatten_precheck head_fixes (scan_fuel [] st' m0) st' m0 = Ok (false, st'') /\
                 issues_rev st'' = [{| i_rule := R_UNRESOLVED_IMPORTS; i_item := ItModel |}].
Proof. exact ImportProofs.cycle_guard_witness. Qed.
Print Assumptions C07_cycle_guard_witness.

(** … and on models in which no units and no component depends on itself the pre-checks of flattenModel
    (checkUnitsForCycles, checkComponentForCycles, hasUnresolvedImports, isDefined) always return — with a value, or
    with the null dereference of finding C07-null-deref-dangling-units-ref — for every fuel >= Bu + Bc.
    (Acyclic LOCAL units alone are not enough: finding C07-resolved-test-unbounded-on-import-cycle.) *)
Theorem C07_flatten_precheck_total : forall fx st m0 urank crank Bu Bc,
  NoSelfDependence st m0 urank crank Bu Bc ->
  forall fuel, Bu + Bc <= fuel -> flatten_precheck fx fuel st m0 <> OutOfFuel.
Proof. exact ImportProofs.flatten_precheck_total_spec. Qed.
Print Assumptions C07_flatten_precheck_total.

Example C07_flatten_precheck_total_nonvacuous :
  exists urank crank Bu Bc, NoSelfDependence ex_st ex_m0 urank crank Bu Bc /\
    flatten_precheck no_fixes (Bu + Bc) ex_st ex_m0 = Ok (true, clear_issues ex_st).
Proof. exact ImportProofs.total_nonvacuous. Qed.
Print Assumptions C07_flatten_precheck_total_nonvacuous.

(** The flat reading of URLs: for a normalised directory and a plain file name the code's string functions
    (transcribed in ImportDefs, compared with importer.cpp on every run) give directory ++ name as library key and
    leave the base path unchanged. *)
Theorem C07_resolve_path_flat : forall dir name,
  norm_sep dir = dir -> ends_with_slash dir = true -> no_sep name = true ->
  import_key name dir = String.append dir name /\ new_base name dir = dir /\ normalise_path dir = dir.
Proof. exact ImportProofs.resolve_path_flat. Qed.
Print Assumptions C07_resolve_path_flat.

(** Directories.  Library keys are the code's: base directory of the importing file ++ URL as written
    ([key_of], never normalised).  The base path the code threads through fetchUnits / fetchComponent
    (newBase = baseFile + pathFromUrl(url)) is the directory of the key under which the imported model was stored --
    what the model derives from the owner ([base_of]); and for plain names in one directory the keys are the flat ones. *)
Theorem C07_new_base_dir : forall base url, good_base base ->
  new_base url base = base_of (Some (import_key url base)) /\ good_base (new_base url base).
Proof. exact ImportProofs.new_base_dir. Qed.
Print Assumptions C07_new_base_dir.

Theorem C07_key_of_flat : forall url, no_sep url = true ->
  key_of None url = mk_key url /\ forall u', no_sep u' = true -> key_of (Some (mk_key u')) url = mk_key url.
Proof. exact ImportProofs.key_of_flat. Qed.
Print Assumptions C07_key_of_flat.

(** Resolution does not depend on how the files are spread over directories nor on how the URLs are spelled:
    [LayoutSim] says that two worlds hold the same graph -- a relation R between their files (None = the origin model)
    such that related files hold the same model up to URLs, and corresponding URLs reach related files (or no model,
    in both worlds).  Then "every transitive import can be satisfied" carries over, and under the hypotheses of
    C07_resolve_true_iff_partial for each world resolveImports gives the same answer in both. *)
Theorem C07_resolvable_layout_invariant : forall fs1 fs2 m1 m2 R,
  LayoutSim fs1 fs2 m1 m2 R -> Resolvable fs1 m1 -> Resolvable fs2 m2.
Proof. exact ImportLayout.resolvable_layout. Qed.
Print Assumptions C07_resolvable_layout_invariant.

Theorem C07_resolve_layout_invariant_partial : forall fs1 fs2 m1 m2 R R' strict st1 st2 fuel1 fuel2,
  LayoutSim fs1 fs2 m1 m2 R -> LayoutSim fs2 fs1 m2 m1 R' ->
  NoErrs fs1 -> Shallow fs1 -> AcyclicFiles fs1 -> NoTwin fs1 m1 -> KeysOK fs1 -> cons fs1 st1 -> fuel_bound fs1 st1 <= fuel1 ->
  NoErrs fs2 -> Shallow fs2 -> AcyclicFiles fs2 -> NoTwin fs2 m2 -> KeysOK fs2 -> cons fs2 st2 -> fuel_bound fs2 st2 <= fuel2 ->
  exists b s1 s2, resolve_imports fuel1 strict fs1 st1 m1 = Ok (b, s1) /\ resolve_imports fuel2 strict fs2 st2 m2 = Ok (b, s2).
Proof. exact ImportLayout.resolve_layout_invariant_partial. Qed.
Print Assumptions C07_resolve_layout_invariant_partial.

Example C07_layout_nonvacuous :
  LayoutSim ex_fs lay_fs ex_m0 lay_m0 lay_R /\ LayoutSim lay_fs ex_fs lay_m0 ex_m0 lay_R' /\
  (exists s1, resolve_imports (fuel_bound ex_fs empty_state) true ex_fs empty_state ex_m0 = Ok (true, s1)) /\
  (exists s2, resolve_imports (fuel_bound lay_fs empty_state) true lay_fs empty_state lay_m0 = Ok (true, s2)).
Proof. exact ImportLayout.layout_nonvacuous. Qed.
Print Assumptions C07_layout_nonvacuous.

(** Non-vacuity: a file system that satisfies every hypothesis above, is resolvable, and resolves. *)
Example C07_nonvacuous :
  NoErrs ex_fs /\ Shallow ex_fs /\ AcyclicFiles ex_fs /\ NoTwin ex_fs ex_m0 /\ Resolvable ex_fs ex_m0 /\
  exists st', resolve_imports (fuel_bound ex_fs empty_state) true ex_fs empty_state ex_m0 = Ok (true, st').
Proof. exact ImportProofs.nonvacuous. Qed.
Print Assumptions C07_nonvacuous.

(** Proof depth round 5.  The answer of resolveImports depends on nothing but the files and the model: not on the
    strict flag, not on the fuel, not on which library state (any two that cache the file system) the importer is in. *)
Theorem C07_resolve_answer_independent : forall fs m0 strict1 strict2 st1 st2 fuel1 fuel2,
  NoErrs fs -> cons fs st1 -> cons fs st2 ->
  fuel_bound fs st1 <= fuel1 -> fuel_bound fs st2 <= fuel2 ->
  exists b s1 s2, resolve_imports fuel1 strict1 fs st1 m0 = Ok (b, s1) /\
                  resolve_imports fuel2 strict2 fs st2 m0 = Ok (b, s2).
Proof. exact ImportRound5Proofs.resolve_answer_independent. Qed.
Print Assumptions C07_resolve_answer_independent.

(** After removeAllModels the exact characterisation holds from EVERY importer state: no hypothesis on the library. *)
Theorem C07_resolve_after_clear_iff_code : forall fs strict st m0 fuel,
  NoErrs fs -> fuel_bound fs empty_state <= fuel ->
  exists b st', resolve_imports fuel strict fs (remove_all_models st) m0 = Ok (b, st') /\
                (b = true <-> CodeResolvable fs m0).
Proof. exact ImportRound5Proofs.resolve_after_clear_iff_code. Qed.
Print Assumptions C07_resolve_after_clear_iff_code.

(** The verdict is exact AND reported (2 and 3' composed): satisfiable -> true; not satisfiable -> false, with an
    issue attached to a top-level importing entity whose fetch failed. *)
Theorem C07_resolve_verdict_reported_partial : forall fs strict st m0 fuel,
  NoErrs fs -> Shallow fs -> AcyclicFiles fs -> NoTwin fs m0 -> KeysOK fs ->
  cons fs st -> fuel_bound fs st <= fuel ->
  (Resolvable fs m0 -> exists st', resolve_imports fuel strict fs st m0 = Ok (true, st')) /\
  (~ Resolvable fs m0 ->
     exists st', resolve_imports fuel strict fs st m0 = Ok (false, st') /\
       issues_rev st' <> [] /\
       exists i, In i (issues_rev st') /\
         ((exists u s1 s2, In u (imported_units m0) /\ i_item i = ItUnits None (uname u) /\
                           fetch_units fuel strict fs m0 s1 None [] u = Ok (false, s2))
          \/ (exists c s1 s2, In c (imported_comps m0) /\ i_item i = ItComp None (cname c) /\
                              fetch_comp fuel strict fs m0 s1 None [] c = Ok (false, s2)))).
Proof. exact ImportRound5Proofs.resolve_verdict_reported. Qed.
Print Assumptions C07_resolve_verdict_reported_partial.
