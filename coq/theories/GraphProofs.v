(** GraphProofs.v — C18: the graph search of Variable::hasEquivalentVariable is reachability, for every
    graph, every history of addEquivalence / variable destruction, every query order (model in GraphDefs.v). *)
From Coq Require Import List Arith Bool NArith Lia ZifyBool Relations.
From LC Require Import KeyDefs GraphDefs EquivSpec KeyProofs.
Import ListNotations.

(** ** Basic facts about the vocabulary of EquivSpec.v *)

Lemma edge_iff : forall g x y, edge g x y <-> In y (wadj g x) /\ alive g y = true.
Proof. intros g x y. unfold edge, eqv. apply filter_In. Qed.

Lemma mem_spec : forall x l, mem x l = true <-> In x l.
Proof.
  intros x l. unfold mem. rewrite existsb_exists. split.
  - intros [y [H1 H2]]. apply Nat.eqb_eq in H2. subst. exact H1.
  - intros H. exists x. split; [exact H | apply Nat.eqb_refl].
Qed.

Lemma mem_false : forall x l, mem x l = false <-> ~ In x l.
Proof.
  intros x l. rewrite <- mem_spec. destruct (mem x l); split; intros H; try discriminate; auto.
  exfalso. apply H. reflexivity.
Qed.

Lemma reach_sym : forall g, symmetric g -> forall x y, reach g x y -> reach g y x.
Proof.
  intros g Hs x y H. induction H as [x y H | x | x y z _ IH1 _ IH2].
  - apply rt_step. apply Hs. exact H.
  - apply rt_refl.
  - eapply rt_trans; eauto.
Qed.

Lemma connected_reach : forall g, symmetric g -> forall x y, connected g x y <-> reach g x y.
Proof.
  intros g Hs x y. split.
  - intros H. induction H as [x y H | x | x y _ IH | x y z _ IH1 _ IH2].
    + apply rt_step. exact H.
    + apply rt_refl.
    + apply reach_sym; assumption.
    + eapply rt_trans; eauto.
  - intros H. induction H as [x y H | x | x y z _ IH1 _ IH2].
    + apply rst_step. exact H.
    + apply rst_refl.
    + eapply rst_trans; eauto.
Qed.

(** ** Partial correctness of the search, for every amount of fuel that produced a result *)
Section Search.
  Variable g : graph.
  Variable t : nat.    (* the target: the receiver of hasEquivalentVariable *)

  (** what a call that returned [b] with the vector [T'] guarantees, given the vector [T] at entry *)
  Definition closed_new (T T' : list nat) : Prop :=
    forall v, In v T' -> ~ In v T -> v <> t /\ forall w, edge g v w -> In w T'.

  Definition call_post (cur : nat) (T : list nat) (b : bool) (T' : list nat) : Prop :=
    incl T T' /\
    (b = true -> reach g cur t) /\
    (b = false -> In cur T' /\ closed_new T T').

  Definition loop_post (ns : list nat) (T : list nat) (b : bool) (T' : list nat) : Prop :=
    incl T T' /\
    (b = true -> exists e, In e ns /\ reach g e t) /\
    (b = false -> (forall e, In e ns -> In e T') /\ closed_new T T').

  Lemma loop_inv :
    forall rec : nat -> list nat -> option (bool * list nat),
      (forall cur T b T', rec cur T = Some (b, T') -> call_post cur T b T') ->
      forall ns T b T', dfs_loop rec ns T = Some (b, T') -> loop_post ns T b T'.
  Proof.
    intros rec Hrec ns. induction ns as [|e r IH]; intros T b T' H; cbn [dfs_loop] in H.
    - inversion H; subst. split; [apply incl_refl|]. split; [discriminate|].
      intros _. split.
      + intros e [].
      + intros v Hv Hn. contradiction.
    - destruct (mem e T) eqn:Em.
      + (* already tested: skipped *)
        apply mem_spec in Em. destruct (IH _ _ _ H) as [Hi [Ht Hf]].
        split; [exact Hi|]. split.
        * intros Hb. destruct (Ht Hb) as [e' [He' Hr]]. exists e'. split; [right; exact He' | exact Hr].
        * intros Hb. destruct (Hf Hb) as [Hns Hcl]. split; [|exact Hcl].
          intros e' [He' | He']; [subst; apply Hi; exact Em | apply Hns; exact He'].
      + destruct (rec e T) as [[b1 T1]|] eqn:Er; [|discriminate].
        destruct (Hrec _ _ _ _ Er) as [Hi1 [Ht1 Hf1]].
        destruct b1.
        * (* found below e: the loop returns at once *)
          inversion H; subst. split; [exact Hi1|]. split; [|discriminate].
          intros _. exists e. split; [left; reflexivity | apply Ht1; reflexivity].
        * destruct (Hf1 eq_refl) as [He1 Hcl1].
          destruct (IH _ _ _ H) as [Hi [Ht Hf]].
          split; [eapply incl_tran; eauto|]. split.
          -- intros Hb. destruct (Ht Hb) as [e' [He' Hr]]. exists e'. split; [right; exact He' | exact Hr].
          -- intros Hb. destruct (Hf Hb) as [Hns Hcl]. split.
             ++ intros e' [He' | He']; [subst; apply Hi; exact He1 | apply Hns; exact He'].
             ++ intros v Hv Hn.
                destruct (in_dec Nat.eq_dec v T1) as [Hin | Hnin].
                ** destruct (Hcl1 v Hin Hn) as [Hne Hw]. split; [exact Hne|].
                   intros w Hvw. apply Hi. apply Hw. exact Hvw.
                ** apply Hcl; assumption.
  Qed.

  Lemma dfs_inv : forall fuel cur T b T', dfs fuel g t cur T = Some (b, T') -> call_post cur T b T'.
  Proof.
    induction fuel as [|f IH]; intros cur T b T' H; cbn [dfs] in H; [discriminate|].
    destruct (t =? cur) eqn:E.
    - apply Nat.eqb_eq in E. inversion H; subst.
      split; [apply incl_refl|]. split; [|discriminate]. intros _. apply rt_refl.
    - apply Nat.eqb_neq in E.
      destruct (loop_inv (dfs f g t) IH _ _ _ _ H) as [Hi [Ht Hf]].
      split; [intros x Hx; apply Hi; right; exact Hx|]. split.
      + intros Hb. destruct (Ht Hb) as [e [He Hr]].
        eapply rt_trans; [apply rt_step; exact He | exact Hr].
      + intros Hb. destruct (Hf Hb) as [Hns Hcl]. split; [apply Hi; left; reflexivity|].
        intros v Hv Hn. destruct (Nat.eq_dec v cur) as [-> | Hne].
        * split; [intros Heq; apply E; symmetry; exact Heq|]. intros w Hw. apply Hns. exact Hw.
        * apply Hcl; [exact Hv|]. intros [Hc | Hc]; [apply Hne; symmetry; exact Hc | apply Hn; exact Hc].
  Qed.

  Theorem dfs_sound : forall fuel cur T T', dfs fuel g t cur T = Some (true, T') -> reach g cur t.
  Proof. intros fuel cur T T' H. apply (dfs_inv _ _ _ _ _ H). reflexivity. Qed.

  Theorem dfs_complete : forall fuel cur T', dfs fuel g t cur [] = Some (false, T') -> ~ reach g cur t.
  Proof.
    intros fuel cur T' H Hr.
    destruct (dfs_inv _ _ _ _ _ H) as [_ [_ Hf]]. destruct (Hf eq_refl) as [Hc Hcl].
    assert (Hall : forall x y, reach g x y -> In x T' -> In y T').
    { intros x y Hxy. induction Hxy as [x y Hxy | x | x y z _ IH1 _ IH2]; intros Hx.
      - destruct (Hcl x Hx (fun F => F)) as [_ Hw]. apply Hw. exact Hxy.
      - exact Hx.
      - auto. }
    destruct (Hcl t (Hall _ _ Hr Hc) (fun F => F)) as [Hne _]. apply Hne. reflexivity.
  Qed.

  (** ** Fuel: as many units as there are vertices are enough *)
  Variable n : nat.
  Hypothesis Hb : bounded g n.

  Definition below (T : list nat) : Prop := forall x, In x T -> x < n.

  Lemma nodup_below_length : forall T, NoDup T -> below T -> length T <= n.
  Proof.
    intros T Hnd Hbl. rewrite <- (seq_length n 0).
    apply NoDup_incl_length; [exact Hnd|].
    intros x Hx. apply in_seq. specialize (Hbl x Hx). lia.
  Qed.

  Definition total_at (f : nat) : Prop :=
    forall cur T, NoDup T -> below T -> cur < n -> ~ In cur T -> n - length T <= f ->
      exists b T', dfs f g t cur T = Some (b, T') /\ NoDup T' /\ below T'.

  Lemma loop_total :
    forall f, total_at f ->
      forall ns T, (forall e, In e ns -> e < n) -> NoDup T -> below T -> n - length T <= f ->
        exists b T', dfs_loop (dfs f g t) ns T = Some (b, T') /\ NoDup T' /\ below T'.
  Proof.
    intros f Hf ns. induction ns as [|e r IH]; intros T Hns Hnd Hbl Hlen; cbn [dfs_loop].
    - exists false, T. auto.
    - assert (Hr : forall e', In e' r -> e' < n) by (intros e' He'; apply Hns; right; exact He').
      destruct (mem e T) eqn:Em.
      + apply IH; assumption.
      + apply mem_false in Em.
        destruct (Hf e T Hnd Hbl (Hns e (or_introl eq_refl)) Em Hlen) as [b1 [T1 [E1 [Hnd1 Hbl1]]]].
        rewrite E1. destruct b1.
        * exists true, T1. auto.
        * apply IH; try assumption.
          destruct (dfs_inv _ _ _ _ _ E1) as [Hi _].
          pose proof (NoDup_incl_length Hnd Hi). lia.
  Qed.

  Lemma dfs_total : forall f, total_at f.
  Proof.
    induction f as [|f IH]; intros cur T Hnd Hbl Hc Hnin Hlen.
    - exfalso.
      assert (Hnd' : NoDup (cur :: T)) by (constructor; assumption).
      assert (Hbl' : below (cur :: T)) by (intros x [Hx | Hx]; [subst; exact Hc | apply Hbl; exact Hx]).
      pose proof (nodup_below_length _ Hnd' Hbl') as Hl. cbn [length] in Hl. lia.
    - cbn [dfs]. destruct (t =? cur).
      + exists true, T. auto.
      + apply loop_total.
        * exact IH.
        * intros e He. exact (Hb cur e He).
        * constructor; assumption.
        * intros x [Hx | Hx]; [subst; exact Hc | apply Hbl; exact Hx].
        * cbn [length]. lia.
  Qed.

  Theorem dfs_fuel_enough :
    forall fuel cur, cur < n -> n <= fuel -> exists b T', dfs fuel g t cur [] = Some (b, T').
  Proof.
    intros fuel cur Hc Hf.
    destruct (dfs_total fuel cur [] (NoDup_nil _) (fun x F => match F with end) Hc (fun F => F)) as [b [T' [E _]]].
    - cbn [length]. lia.
    - exists b, T'. exact E.
  Qed.

  (** The search decides reachability from the argument to the receiver. *)
  Theorem dfs_correct :
    forall fuel cur, cur < n -> n <= fuel ->
      exists b T', dfs fuel g t cur [] = Some (b, T') /\ (b = true <-> reach g cur t).
  Proof.
    intros fuel cur Hc Hf. destruct (dfs_fuel_enough fuel cur Hc Hf) as [b [T' E]].
    exists b, T'. split; [exact E|]. destruct b.
    - split; [intros _; eapply dfs_sound; eauto | reflexivity].
    - split; [discriminate|]. intros Hr. exfalso. eapply dfs_complete; eauto.
  Qed.
End Search.

(** ** The three query functions *)

Lemma find_equivalent_pred : forall g b e, optnat_eqb (Some b) (lock g e) = true <-> e = b /\ alive g e = true.
Proof.
  intros g b e. unfold lock. destruct (alive g e); cbn [optnat_eqb].
  - rewrite Nat.eqb_eq. split; [intros H; split; congruence | intros [H _]; congruence].
  - split; [discriminate | intros [_ H]; discriminate].
Qed.

(** hasEquivalentVariable(v, false) is membership in the list returned by equivalentVariable(i). *)
Theorem has_direct_iff : forall g a b, has_direct g a (Some b) = true <-> edge g a b.
Proof.
  intros g a b. unfold has_direct, find_equivalent. rewrite edge_iff.
  destruct (find (fun e => optnat_eqb (Some b) (lock g e)) (wadj g a)) as [e|] eqn:E.
  - apply find_some in E. destruct E as [Hin Hp]. apply find_equivalent_pred in Hp. destruct Hp as [-> Hal].
    rewrite Hal. split; auto.
  - split; [discriminate|]. intros [Hin Hal]. exfalso.
    pose proof (find_none _ _ E b Hin) as Hn.
    assert (Hy : optnat_eqb (Some b) (lock g b) = true) by (apply find_equivalent_pred; auto).
    congruence.
Qed.

Theorem has_direct_null : forall g a, has_direct g a None = false.
Proof.
  intros g a. unfold has_direct, find_equivalent.
  destruct (find (fun e => optnat_eqb None (lock g e)) (wadj g a)) as [e|] eqn:E; [|reflexivity].
  apply find_some in E. destruct E as [_ Hp]. unfold lock in Hp. destruct (alive g e); [discriminate | reflexivity].
Qed.

Theorem has_indirect_correct :
  forall g n fuel a b, bounded g n -> b < n -> n <= fuel ->
    exists r, has_indirect fuel g a (Some b) = Some r /\ (r = true <-> a <> b /\ reach g b a).
Proof.
  intros g n fuel a b Hbd Hb Hf. unfold has_indirect.
  destruct (a =? b) eqn:E.
  - apply Nat.eqb_eq in E. exists false. split; [reflexivity|]. split; [discriminate | intros [H _]; contradiction].
  - apply Nat.eqb_neq in E.
    destruct (dfs_correct g a n Hbd fuel b Hb Hf) as [r [T' [Ed Hr]]].
    rewrite Ed. exists r. split; [reflexivity|]. rewrite Hr. tauto.
Qed.

(** Variable::hasEquivalentVariable(v, true): true exactly for a different variable linked by a chain. *)
Theorem has_equiv_iff_connected :
  forall g n fuel a b, symmetric g -> bounded g n -> b < n -> n <= fuel ->
    exists r, has_equivalent fuel g a (Some b) true = Some r /\ (r = true <-> a <> b /\ connected g a b).
Proof.
  intros g n fuel a b Hs Hbd Hb Hf. unfold has_equivalent.
  destruct (has_indirect_correct g n fuel a b Hbd Hb Hf) as [r [E Hr]].
  exists r. split; [exact E|]. rewrite Hr, (connected_reach g Hs). split.
  - intros [H1 H2]. split; [exact H1 | apply reach_sym; assumption].
  - intros [H1 H2]. split; [exact H1 | apply reach_sym; assumption].
Qed.

(** utilities.cpp areEquivalentVariables: the same variable, or linked by a chain. *)
Theorem are_equiv_iff_same_or_connected :
  forall g n fuel a b, symmetric g -> bounded g n -> b < n -> n <= fuel ->
    exists r, are_equivalent fuel g a b = Some r /\ (r = true <-> a = b \/ connected g a b).
Proof.
  intros g n fuel a b Hs Hbd Hb Hf. unfold are_equivalent.
  destruct (a =? b) eqn:E.
  - apply Nat.eqb_eq in E. exists true. split; [reflexivity|]. split; auto.
  - apply Nat.eqb_neq in E.
    destruct (has_equiv_iff_connected g n fuel a b Hs Hbd Hb Hf) as [r [Er Hr]].
    exists r. split; [exact Er|]. rewrite Hr. split.
    + intros [_ H]. right. exact H.
    + intros [H | H]; [contradiction | split; assumption].
Qed.

(** The answer does not depend on the amount of fuel once there is enough of it. *)
Corollary are_equivalent_fuel_irrelevant :
  forall g n f1 f2 a b, symmetric g -> bounded g n -> b < n -> n <= f1 -> n <= f2 ->
    are_equivalent f1 g a b = are_equivalent f2 g a b.
Proof.
  intros g n f1 f2 a b Hs Hbd Hb H1 H2.
  destruct (are_equiv_iff_same_or_connected g n f1 a b Hs Hbd Hb H1) as [r1 [E1 R1]].
  destruct (are_equiv_iff_same_or_connected g n f2 a b Hs Hbd Hb H2) as [r2 [E2 R2]].
  rewrite E1, E2. f_equal.
  destruct r1, r2; try reflexivity.
  - symmetry. apply R2. apply R1. reflexivity.
  - apply R1. apply R2. reflexivity.
Qed.

Lemma are_equivalent_sym :
  forall g n fuel a b, symmetric g -> bounded g n -> a < n -> b < n -> n <= fuel ->
    are_equivalent fuel g a b = are_equivalent fuel g b a.
Proof.
  intros g n fuel a b Hs Hbd Ha Hb Hf.
  destruct (are_equiv_iff_same_or_connected g n fuel a b Hs Hbd Hb Hf) as [r1 [E1 R1]].
  destruct (are_equiv_iff_same_or_connected g n fuel b a Hs Hbd Ha Hf) as [r2 [E2 R2]].
  rewrite E1, E2. f_equal.
  assert (X : (a = b \/ connected g a b) <-> (b = a \/ connected g b a)).
  { split; (intros [H | H]; [left; congruence | right; apply rst_sym; exact H]). }
  destruct r1, r2; try reflexivity.
  - symmetry. apply R2. apply X. apply R1. reflexivity.
  - apply R1. apply X. apply R2. reflexivity.
Qed.

(** ** AnalyserModel::areEquivalentVariables: every history of queries is answered by connectivity *)

(** The cache theorem asks for symmetry of the memoised function on *all* arguments; the library
    function is symmetric on the variables of the model, so it is restricted to them first. *)
Definition clamp (n fuel : nat) (g : graph) (a b : nat) : option bool :=
  if (a <? n) && (b <? n) then are_equivalent fuel g a b else None.

Lemma clamp_sym : forall g n fuel, symmetric g -> bounded g n -> n <= fuel ->
  forall a b, clamp n fuel g a b = clamp n fuel g b a.
Proof.
  intros g n fuel Hs Hbd Hf a b. unfold clamp.
  destruct (a <? n) eqn:Ea; destruct (b <? n) eqn:Eb; cbn [andb]; try reflexivity.
  apply Nat.ltb_lt in Ea. apply Nat.ltb_lt in Eb.
  eapply are_equivalent_sym; eauto.
Qed.

Lemma run_ext :
  forall (V K R : Type) (keqb : K -> K -> bool) (key : V -> V -> K) (f1 f2 : V -> V -> R) qs c,
    (forall a b, In (a, b) qs -> f1 a b = f2 a b) ->
    run keqb key f1 c qs = run keqb key f2 c qs.
Proof.
  intros V K R keqb key f1 f2 qs. induction qs as [|[a b] t IH]; intros c H; cbn [run]; [reflexivity|].
  assert (Eq : query keqb key f1 c a b = query keqb key f2 c a b).
  { unfold query. destruct (lookup keqb (key a b) c); [reflexivity|].
    rewrite (H a b (or_introl eq_refl)). reflexivity. }
  rewrite Eq. destruct (query keqb key f2 c a b) as [r c1].
  rewrite (IH c1); [reflexivity|]. intros a' b' Hin. apply H. right. exact Hin.
Qed.

Theorem model_queries_correct :
  forall (addr : nat -> N) g n fuel qs,
    (forall x y, addr x = addr y -> x = y) ->
    symmetric g -> bounded g n -> n <= fuel -> in_range n qs ->
    model_queries addr fuel g qs = map (fun q => are_equivalent fuel g (fst q) (snd q)) qs.
Proof.
  intros addr g n fuel qs Hinj Hs Hbd Hf Hr. unfold model_queries, model_key, answers.
  rewrite (run_ext nat (N * N) (option bool) pair_eqb _ (are_equivalent fuel g) (clamp n fuel g) qs []).
  - pose proof (cache_correct nat (option bool) (N * N) addr Hinj pairkey pairkey_injective
                  (clamp n fuel g) (clamp_sym g n fuel Hs Hbd Hf) pair_eqb pair_eqb_spec qs []
                  (cache_inv_nil _ _ _ _ _)) as H.
    unfold answers in H. rewrite H.
    apply map_ext_in. intros [a b] Hin. cbn [fst snd]. unfold clamp.
    destruct (Hr a b Hin) as [Ha Hb]. apply Nat.ltb_lt in Ha. apply Nat.ltb_lt in Hb. rewrite Ha, Hb. reflexivity.
  - intros a b Hin. unfold clamp.
    destruct (Hr a b Hin) as [Ha Hb]. apply Nat.ltb_lt in Ha. apply Nat.ltb_lt in Hb. rewrite Ha, Hb. reflexivity.
Qed.

(** Each answer of the history is "same variable or connected", whatever came before. *)
Corollary model_queries_connected :
  forall (addr : nat -> N) g n fuel qs,
    (forall x y, addr x = addr y -> x = y) ->
    symmetric g -> bounded g n -> n <= fuel -> in_range n qs ->
    forall i a b, nth_error qs i = Some (a, b) ->
      exists r, nth_error (model_queries addr fuel g qs) i = Some (Some r) /\
                (r = true <-> a = b \/ connected g a b).
Proof.
  intros addr g n fuel qs Hinj Hs Hbd Hf Hr i a b Hi.
  rewrite (model_queries_correct addr g n fuel qs Hinj Hs Hbd Hf Hr).
  rewrite nth_error_map, Hi. cbn [option_map fst snd].
  destruct (Hr a b (nth_error_In _ _ Hi)) as [_ Hb].
  destruct (are_equiv_iff_same_or_connected g n fuel a b Hs Hbd Hb Hf) as [r [E R]].
  exists r. rewrite E. auto.
Qed.

Lemma heap_addr_inj : forall x y, heap_addr x = heap_addr y -> x = y.
Proof. intros x y H. unfold heap_addr in H. lia. Qed.

(** With the 64-bit Cantor key of the old code the same history can be answered wrongly: the four
    witness addresses, variables 0~1 equivalent, 2 and 3 unrelated; asking (0,1) then (2,3). *)
Definition w_addr (v : nat) : N :=
  match v with 0 => w_a | 1 => w_b | 2 => w_c | 3 => w_d | _ => N.of_nat v end.
Definition w_graph : graph := build [AddEq 0 1].

Theorem key64_cache_refuted :
  model_queries_key64 w_addr 4 w_graph [(0, 1); (2, 3)] = [Some true; Some true] /\
  are_equivalent 4 w_graph 2 3 = Some false /\
  model_queries w_addr 4 w_graph [(0, 1); (2, 3)] = [Some true; Some false].
Proof. repeat split; vm_compute; reflexivity. Qed.

(** ** Edits through the API keep the weak lists well-formed, and change the edges as [spec_edge] says *)

Lemma upd_same : forall (A : Type) (f : nat -> A) k x, upd f k x k = x.
Proof. intros A f k x. unfold upd. rewrite Nat.eqb_refl. reflexivity. Qed.

Lemma upd_other : forall (A : Type) (f : nat -> A) k x j, j <> k -> upd f k x j = f j.
Proof. intros A f k x j H. unfold upd. apply Nat.eqb_neq in H. rewrite H. reflexivity. Qed.

Lemma filter_all : forall (f : nat -> bool) l, (forall x, In x l -> f x = true) -> filter f l = l.
Proof.
  intros f l. induction l as [|x t IH]; intros H; cbn [filter]; [reflexivity|].
  rewrite (H x (or_introl eq_refl)). f_equal. apply IH. intros y Hy. apply H. right. exact Hy.
Qed.

Lemma eqv_alive : forall g x y, In y (eqv g x) -> alive g y = true.
Proof. intros g x y H. apply filter_In in H. apply H. Qed.

Lemma eqv_set_wadj : forall g a l x, eqv (set_wadj g a l) x = if x =? a then filter (alive g) l else eqv g x.
Proof.
  intros g a l x. unfold eqv, set_wadj. cbn [wadj alive]. unfold upd. destruct (x =? a); reflexivity.
Qed.

Lemma eqv_clean : forall g a x, eqv (clean_expired g a) x = eqv g x.
Proof.
  intros g a x. unfold clean_expired. rewrite eqv_set_wadj.
  destruct (x =? a) eqn:E; [|reflexivity]. apply Nat.eqb_eq in E. subst.
  apply filter_all. intros y Hy. apply filter_In in Hy. apply Hy.
Qed.

Lemma edge_clean : forall g a x y, edge (clean_expired g a) x y <-> edge g x y.
Proof. intros g a x y. unfold edge. rewrite eqv_clean. tauto. Qed.

Lemma wadj_clean_same : forall g a, wadj (clean_expired g a) a = eqv g a.
Proof. intros g a. unfold clean_expired, set_wadj. cbn [wadj]. apply upd_same. Qed.

(** setEquivalentTo appends the entry exactly when it is not already a live entry. *)
Lemma set_equivalent_to_eqv : forall g a b g' can,
  set_equivalent_to g a b = (g', can) ->
  alive g' = alive g /\
  (can = true <-> ~ edge g a b) /\
  (forall x, eqv g' x = if (x =? a) && can && alive g b then eqv g a ++ [b] else eqv g x).
Proof.
  intros g a b g' can H. unfold set_equivalent_to in H.
  destruct (has_direct (clean_expired g a) a (Some b)) eqn:E.
  - inversion H; subst. apply has_direct_iff in E. rewrite edge_clean in E.
    split; [reflexivity|]. split; [split; [discriminate | intros F; contradiction]|].
    intros x. rewrite andb_false_r. cbn [andb]. apply eqv_clean.
  - inversion H; subst. clear H.
    assert (Hn : ~ edge g a b).
    { intros F. rewrite <- (edge_clean g a) in F. apply has_direct_iff in F. congruence. }
    split; [reflexivity|]. split; [split; auto|].
    intros x. rewrite eqv_set_wadj. try rewrite wadj_clean_same. try rewrite upd_same. fold (eqv g a). rewrite andb_true_r.
    destruct (x =? a) eqn:Ex; cbn [andb]; [|apply eqv_clean].
    apply Nat.eqb_eq in Ex. subst x.
    change (alive (clean_expired g a)) with (alive g).
    rewrite filter_app. rewrite (filter_all (alive g) (eqv g a)) by (intros y Hy; eapply eqv_alive; eauto).
    cbn [filter]. destruct (alive g b); [reflexivity | apply app_nil_r].
Qed.

Lemma in_remove_first : forall f l y, In y (remove_first f l) -> In y l.
Proof.
  intros f l y. induction l as [|x t IH]; cbn [remove_first]; [auto|].
  destruct (f x); [intros H; right; exact H|]. intros [H | H]; [left; exact H | right; apply IH; exact H].
Qed.

Lemma in_remove_first_other : forall f l y, In y l -> f y = false -> In y (remove_first f l).
Proof.
  intros f l y. induction l as [|x t IH]; cbn [remove_first]; [auto|].
  intros [-> | H] Hf.
  - rewrite Hf. left. reflexivity.
  - destruct (f x); [exact H | right; apply IH; assumption].
Qed.

Lemma remove_first_ext : forall f h l, (forall x, In x l -> f x = h x) -> remove_first f l = remove_first h l.
Proof.
  intros f h l. induction l as [|x t IH]; intros H; cbn [remove_first]; [reflexivity|].
  rewrite <- (H x (or_introl eq_refl)). destruct (f x); [reflexivity|].
  f_equal. apply IH. intros y Hy. apply H. right. exact Hy.
Qed.

Lemma remove_first_none : forall f l, (forall x, In x l -> f x = false) -> remove_first f l = l.
Proof.
  intros f l. induction l as [|x t IH]; intros H; cbn [remove_first]; [reflexivity|].
  rewrite (H x (or_introl eq_refl)). f_equal. apply IH. intros y Hy. apply H. right. exact Hy.
Qed.

Lemma remove_first_app_last : forall f l b, (forall x, In x l -> f x = false) -> f b = true -> remove_first f (l ++ [b]) = l.
Proof.
  intros f l b. induction l as [|x t IH]; intros H Hb; cbn [remove_first app].
  - rewrite Hb. reflexivity.
  - rewrite (H x (or_introl eq_refl)). f_equal. apply IH; [|exact Hb]. intros y Hy. apply H. right. exact Hy.
Qed.

Lemma remove_first_nodup : forall f l, NoDup l -> NoDup (remove_first f l).
Proof.
  intros f l H. induction H as [|x t Hx Hnd IH]; cbn [remove_first]; [constructor|].
  destruct (f x); [exact Hnd|]. constructor; [|exact IH]. intros F. apply Hx. eapply in_remove_first; eauto.
Qed.

Lemma remove_first_not_in : forall b l, NoDup l -> ~ In b (remove_first (Nat.eqb b) l).
Proof.
  intros b l H. induction H as [|x t Hx Hnd IH]; cbn [remove_first]; [auto|].
  destruct (b =? x) eqn:E.
  - apply Nat.eqb_eq in E. subst. exact Hx.
  - apply Nat.eqb_neq in E. intros [F | F]; [apply E; symmetry; exact F | apply IH; exact F].
Qed.

Lemma in_remove_first_iff : forall b l y, NoDup l -> (In y (remove_first (Nat.eqb b) l) <-> In y l /\ y <> b).
Proof.
  intros b l y Hnd. split.
  - intros H. split; [eapply in_remove_first; eauto|]. intros ->. eapply remove_first_not_in; eauto.
  - intros [H Hne]. apply in_remove_first_other; [exact H|]. apply Nat.eqb_neq. intros F. apply Hne. symmetry. exact F.
Qed.

(** unsetEquivalentTo erases the first live entry that is [b] from the list of [a]. *)
Lemma unset_eqv : forall g a b x,
  eqv (unset_equivalent_to g a b) x = if x =? a then remove_first (Nat.eqb b) (eqv g a) else eqv g x.
Proof.
  intros g a b x. unfold unset_equivalent_to. rewrite eqv_set_wadj. rewrite wadj_clean_same.
  destruct (x =? a); [|apply eqv_clean].
  change (alive (clean_expired g a)) with (alive g).
  rewrite (remove_first_ext _ (Nat.eqb b) (eqv g a)).
  - apply filter_all. intros y Hy. apply in_remove_first in Hy. eapply eqv_alive; eauto.
  - intros e He. unfold lock. change (alive (clean_expired g a) e) with (alive g e).
    rewrite (eqv_alive _ _ _ He). reflexivity.
Qed.

Lemma alive_unset : forall g a b, alive (unset_equivalent_to g a b) = alive g.
Proof. reflexivity. Qed.

Lemma unset_found_iff : forall g a b, unset_found g a b = true <-> edge g a b.
Proof.
  intros g a b. rewrite <- (edge_clean g a), <- has_direct_iff. unfold unset_found, has_direct.
  destruct (find_equivalent (clean_expired g a) a (Some b)) as [e|] eqn:E; [|tauto].
  unfold find_equivalent in E. apply find_some in E. destruct E as [_ Hp].
  apply find_equivalent_pred in Hp. destruct Hp as [_ Hal]. rewrite Hal. tauto.
Qed.

Lemma dead_empty_set_wadj : forall g a l, alive g a = true -> dead_empty g -> dead_empty (set_wadj g a l).
Proof.
  intros g a l Ha Hd x Hx. cbn [set_wadj wadj alive] in *.
  destruct (Nat.eq_dec x a) as [-> | Hne]; [congruence|].
  rewrite upd_other by exact Hne. apply Hd. exact Hx.
Qed.

Lemma dead_empty_clean : forall g a, alive g a = true -> dead_empty g -> dead_empty (clean_expired g a).
Proof. intros g a Ha Hd. unfold clean_expired. apply dead_empty_set_wadj; assumption. Qed.

Lemma dead_empty_unset : forall g a b, alive g a = true -> dead_empty g -> dead_empty (unset_equivalent_to g a b).
Proof.
  intros g a b Ha Hd. unfold unset_equivalent_to. apply dead_empty_set_wadj; [exact Ha|]. apply dead_empty_clean; assumption.
Qed.

Lemma dead_empty_set_equivalent_to : forall g a b g' can,
  set_equivalent_to g a b = (g', can) -> alive g a = true -> dead_empty g -> dead_empty g'.
Proof.
  intros g a b g' can H Ha Hd. unfold set_equivalent_to in H.
  destruct (has_direct (clean_expired g a) a (Some b)); inversion H; subst.
  - apply dead_empty_clean; assumption.
  - apply dead_empty_set_wadj; [exact Ha|]. apply dead_empty_clean; assumption.
Qed.

Lemma bool_eq_iff : forall b1 b2 : bool, (b1 = true <-> b2 = true) -> b1 = b2.
Proof. intros [] [] H; try reflexivity; [symmetry; apply H; reflexivity | apply H; reflexivity]. Qed.

(** *** addEquivalence *)
Lemma add_equivalence_eqv : forall g a b, wf g -> alive g a = true -> alive g b = true ->
  alive (add_equivalence g a b) = alive g /\
  dead_empty (add_equivalence g a b) /\
  (forall x, eqv (add_equivalence g a b) x =
     if (a =? b) || has_direct g a (Some b) then eqv g x
     else if x =? a then eqv g a ++ [b] else if x =? b then eqv g b ++ [a] else eqv g x).
Proof.
  intros g a b [Hd [Hs [Hnd Hir]]] Ha Hb. unfold add_equivalence. rewrite Ha, Hb. cbn [andb].
  destruct (set_equivalent_to g a b) as [g1 can1] eqn:E1.
  destruct (set_equivalent_to g1 b a) as [g2 can2] eqn:E2.
  pose proof (set_equivalent_to_eqv _ _ _ _ _ E1) as [A1 [C1 L1]].
  pose proof (set_equivalent_to_eqv _ _ _ _ _ E2) as [A2 [C2 L2]].
  pose proof (dead_empty_set_equivalent_to _ _ _ _ _ E1 Ha Hd) as Hd1.
  assert (Hb1 : alive g1 b = true) by (rewrite A1; exact Hb).
  assert (Ha1 : alive g1 a = true) by (rewrite A1; exact Ha).
  pose proof (dead_empty_set_equivalent_to _ _ _ _ _ E2 Hb1 Hd1) as Hd2.
  rewrite Hb in L1. rewrite Ha1 in L2.
  destruct (Nat.eq_dec a b) as [Heq | Hab]; [subst b|].
  - (* addEquivalence(v, v): appended, found by the second call, erased again *)
    rewrite Nat.eqb_refl. cbn [orb].
    assert (Hc1 : can1 = true) by (apply C1; apply Hir).
    subst can1.
    assert (Ea : eqv g1 a = eqv g a ++ [a]) by (rewrite L1, Nat.eqb_refl; reflexivity).
    assert (Hc2 : can2 = false).
    { destruct can2; [|reflexivity]. exfalso. apply (proj1 C2 eq_refl). unfold edge. rewrite Ea.
      apply in_or_app. right. left. reflexivity. }
    subst can2. cbn [andb negb].
    split; [rewrite alive_unset, A2, A1; reflexivity|].
    split; [apply dead_empty_unset; [rewrite A2; exact Ha1 | exact Hd2]|].
    intros x. rewrite unset_eqv. rewrite !L2. rewrite andb_false_r. cbn [andb].
    destruct (x =? a) eqn:Ex.
    + apply Nat.eqb_eq in Ex. subst x. rewrite Ea. apply remove_first_app_last.
      * intros y Hy. apply Nat.eqb_neq. intros F. subst y. apply (Hir a). exact Hy.
      * apply Nat.eqb_refl.
    + cbn [andb]. rewrite L1, Ex. cbn [andb]. reflexivity.
  - assert (Eab : (a =? b) = false) by (apply Nat.eqb_neq; exact Hab).
    assert (Eba : (b =? a) = false) by (apply Nat.eqb_neq; intros F; apply Hab; symmetry; exact F).
    rewrite Eab. cbn [orb].
    assert (Hcan : can1 = can2).
    { apply bool_eq_iff. rewrite C1, C2. unfold edge at 2. rewrite L1, Eba. cbn [andb]. fold (edge g b a).
      split; intros Hn F; apply Hn; apply Hs; exact F. }
    subst can2. rewrite andb_negb_r.
    assert (Hhd : has_direct g a (Some b) = negb can1).
    { apply bool_eq_iff. rewrite has_direct_iff. destruct can1; cbn [negb].
      - split; [intros F; exfalso; apply (proj1 C1 eq_refl); exact F | discriminate].
      - split; [reflexivity|]. intros _. destruct (has_direct g a (Some b)) eqn:Ed; [apply has_direct_iff; exact Ed|].
        exfalso. assert (Y : false = true); [|discriminate]. apply C1. intros F. apply has_direct_iff in F. congruence. }
    split; [rewrite A2, A1; reflexivity|]. split; [exact Hd2|].
    intros x. rewrite Hhd. rewrite L2, !L1. rewrite Eba. cbn [andb]. rewrite !andb_true_r.
    destruct can1; cbn [negb andb].
    + destruct (x =? a) eqn:Exa; destruct (x =? b) eqn:Exb; cbn [andb]; try reflexivity.
      apply Nat.eqb_eq in Exa. apply Nat.eqb_eq in Exb. subst. contradiction.
    + rewrite !andb_false_r. reflexivity.
Qed.

Lemma in_app_single : forall (l : list nat) b y, In y (l ++ [b]) <-> In y l \/ y = b.
Proof.
  intros l b y. rewrite in_app_iff. cbn [In]. split; [intros [H | [H | []]]; auto | intros [H | H]; auto].
Qed.

Lemma nodup_app_single : forall (l : list nat) b, NoDup l -> ~ In b l -> NoDup (l ++ [b]).
Proof.
  intros l b H Hn. induction H as [|x t Hx Hnd IH]; cbn [app].
  - constructor; [intros [] | constructor].
  - constructor.
    + rewrite in_app_single. intros [F | F]; [contradiction | subst; apply Hn; left; reflexivity].
    + apply IH. intros F. apply Hn. right. exact F.
Qed.

Lemma add_equivalence_wf : forall g a b, wf g ->
  wf (add_equivalence g a b) /\ (forall x y, edge (add_equivalence g a b) x y <-> spec_edge g (AddEq a b) x y).
Proof.
  intros g a b Hwf. pose proof Hwf as [Hd [Hs [Hnd Hir]]]. cbn [spec_edge].
  destruct (alive g a) eqn:Ha; [destruct (alive g b) eqn:Hb|].
  2,3: (unfold add_equivalence; rewrite Ha; try rewrite Hb; cbn [andb]; split; [exact Hwf|];
        intros x y; split; [auto | intros [H | [H1 [H2 _]]]; [exact H | discriminate]]).
  destruct (add_equivalence_eqv g a b Hwf Ha Hb) as [Hal [Hde L]].
  destruct (Nat.eq_dec a b) as [Heq | Hab]; [subst b|].
  - (* nothing changes *)
    assert (L' : forall x, eqv (add_equivalence g a a) x = eqv g x) by (intros x; rewrite L, Nat.eqb_refl; reflexivity).
    assert (E : forall x y, edge (add_equivalence g a a) x y <-> edge g x y) by (intros x y; unfold edge; rewrite L'; tauto).
    split.
    + split; [exact Hde|]. split; [intros x y H; apply E; apply Hs; apply E; exact H|].
      split; [intros x; rewrite L'; apply Hnd | intros x H; apply (Hir x); apply E; exact H].
    + intros x y. rewrite E. split; [auto | intros [H | [_ [_ [F _]]]]; [exact H | contradiction]].
  - assert (Eab : (a =? b) = false) by (apply Nat.eqb_neq; exact Hab).
    rewrite Eab in L. cbn [orb] in L.
    destruct (has_direct g a (Some b)) eqn:Ed.
    + (* already equivalent: nothing changes *)
      apply has_direct_iff in Ed.
      assert (E : forall x y, edge (add_equivalence g a b) x y <-> edge g x y) by (intros x y; unfold edge; rewrite L; tauto).
      split.
      * split; [exact Hde|]. split; [intros x y H; apply E; apply Hs; apply E; exact H|].
        split; [intros x; rewrite L; apply Hnd | intros x H; apply (Hir x); apply E; exact H].
      * intros x y. rewrite E. split; [auto|].
        intros [H | [_ [_ [_ [[-> ->] | [-> ->]]]]]]; [exact H | exact Ed | apply Hs; exact Ed].
    + assert (Hn : ~ edge g a b) by (intros F; apply has_direct_iff in F; congruence).
      assert (Hn' : ~ edge g b a) by (intros F; apply Hn; apply Hs; exact F).
      assert (E : forall x y, edge (add_equivalence g a b) x y <-> edge g x y \/ (x = a /\ y = b) \/ (x = b /\ y = a)).
      { intros x y. unfold edge. rewrite L.
        destruct (x =? a) eqn:Exa; [|destruct (x =? b) eqn:Exb].
        - apply Nat.eqb_eq in Exa. subst x. rewrite in_app_single. split.
          + intros [H | H]; auto.
          + intros [H | [[_ H] | [F _]]]; auto. contradiction.
        - apply Nat.eqb_eq in Exb. subst x. rewrite in_app_single. split.
          + intros [H | H]; auto.
          + intros [H | [[F _] | [_ H]]]; auto. exfalso. apply Hab. symmetry. exact F.
        - apply Nat.eqb_neq in Exa. apply Nat.eqb_neq in Exb. split; [auto|].
          intros [H | [[F _] | [F _]]]; [exact H | contradiction | contradiction]. }
      split.
      * split; [exact Hde|]. split.
        -- intros x y H. apply E in H. apply E. destruct H as [H | [[-> ->] | [-> ->]]]; auto.
        -- split.
           ++ intros x. rewrite L. destruct (x =? a) eqn:Exa; [|destruct (x =? b) eqn:Exb].
              ** apply Nat.eqb_eq in Exa. subst. apply nodup_app_single; [apply Hnd | exact Hn].
              ** apply Nat.eqb_eq in Exb. subst. apply nodup_app_single; [apply Hnd | exact Hn'].
              ** apply Hnd.
           ++ intros x H. apply E in H. destruct H as [H | [[-> F] | [-> F]]]; [apply (Hir x); exact H | apply Hab; exact F | apply Hab; symmetry; exact F].
      * intros x y. rewrite E. split.
        -- intros [H | H]; [left; exact H | right; auto].
        -- intros [H | [_ [_ [_ H]]]]; auto.
Qed.

(** *** destruction of a variable *)
Lemma expire_eqv : forall g a x, eqv (expire g a) x = if x =? a then [] else filter (fun y => negb (y =? a)) (eqv g x).
Proof.
  intros g a x. unfold eqv, expire. cbn [wadj alive]. unfold upd at 2.
  destruct (x =? a); [reflexivity|].
  induction (wadj g x) as [|y t IH]; cbn [filter]; [reflexivity|].
  unfold upd at 1. destruct (y =? a) eqn:E.
  - rewrite IH. destruct (alive g y); cbn [filter]; [rewrite E; reflexivity | reflexivity].
  - rewrite IH. destruct (alive g y); cbn [filter]; [rewrite E; reflexivity | reflexivity].
Qed.

Lemma expire_wf : forall g a, wf g ->
  wf (expire g a) /\ (forall x y, edge (expire g a) x y <-> spec_edge g (Expire a) x y).
Proof.
  intros g a [Hd [Hs [Hnd Hir]]]. cbn [spec_edge].
  assert (E : forall x y, edge (expire g a) x y <-> edge g x y /\ x <> a /\ y <> a).
  { intros x y. unfold edge. rewrite expire_eqv. destruct (x =? a) eqn:Ex.
    - apply Nat.eqb_eq in Ex. split; [intros [] | intros [_ [F _]]; contradiction].
    - apply Nat.eqb_neq in Ex. rewrite filter_In, negb_true_iff, Nat.eqb_neq. tauto. }
  split; [|exact E]. split; [|split; [|split]].
  - intros x Hx. unfold expire in *. cbn [wadj alive] in *.
    destruct (Nat.eq_dec x a) as [-> | Hne]; [apply upd_same|].
    rewrite upd_other in * by exact Hne. apply Hd. exact Hx.
  - intros x y H. apply E in H. apply E. destruct H as [H [H1 H2]]. auto.
  - intros x. rewrite expire_eqv. destruct (x =? a); [constructor | apply NoDup_filter; apply Hnd].
  - intros x H. apply E in H. apply (Hir x). apply H.
Qed.

(** *** removeEquivalence *)
Lemma remove_equivalence_wf : forall g a b, wf g ->
  wf (remove_equivalence g a b) /\ (forall x y, edge (remove_equivalence g a b) x y <-> spec_edge g (RemEq a b) x y).
Proof.
  intros g a b Hwf. pose proof Hwf as [Hd [Hs [Hnd Hir]]]. cbn [spec_edge]. unfold remove_equivalence.
  assert (Hsame : forall g', (forall x, eqv g' x = eqv g x) -> dead_empty g' -> ~ edge g a b ->
            wf g' /\ (forall x y, edge g' x y <-> edge g x y /\ ~ ((x = a /\ y = b) \/ (x = b /\ y = a)))).
  { intros g' L Hd' Hn.
    assert (E : forall x y, edge g' x y <-> edge g x y) by (intros x y; unfold edge; rewrite L; tauto).
    split.
    - split; [exact Hd'|]. split; [intros x y H; apply E; apply Hs; apply E; exact H|].
      split; [intros x; rewrite L; apply Hnd | intros x H; apply (Hir x); apply E; exact H].
    - intros x y. rewrite E. split; [|tauto]. intros H. split; [exact H|].
      intros [[-> ->] | [-> ->]]; [apply Hn; exact H | apply Hn; apply Hs; exact H]. }
  destruct (alive g a) eqn:Ha; [destruct (alive g b) eqn:Hb|]; cbn [andb].
  - destruct (unset_found g a b) eqn:Ef.
    + apply unset_found_iff in Ef.
      set (g1 := unset_equivalent_to g a b).
      assert (L : forall x, eqv (unset_equivalent_to g1 b a) x =
                   if x =? b then remove_first (Nat.eqb a) (eqv g1 b) else eqv g1 x) by (intros x; apply unset_eqv).
      assert (L1 : forall x, eqv g1 x = if x =? a then remove_first (Nat.eqb b) (eqv g a) else eqv g x) by (intros x; apply unset_eqv).
      assert (Hab : a <> b) by (intros ->; apply (Hir b); exact Ef).
      assert (Eba : (b =? a) = false) by (apply Nat.eqb_neq; intros F; apply Hab; symmetry; exact F).
      assert (E : forall x y, edge (unset_equivalent_to g1 b a) x y <-> edge g x y /\ ~ ((x = a /\ y = b) \/ (x = b /\ y = a))).
      { intros x y. unfold edge. rewrite L. destruct (x =? b) eqn:Exb.
        - apply Nat.eqb_eq in Exb. subst x. rewrite L1, Eba. rewrite in_remove_first_iff by apply Hnd.
          split; [intros [H Hy]; split; [exact H|]; intros [[F _] | [_ F]]; [apply Hab; symmetry; exact F | contradiction]
                 | intros [H Hn]; split; [exact H|]; intros ->; apply Hn; right; auto].
        - apply Nat.eqb_neq in Exb. rewrite L1. destruct (x =? a) eqn:Exa.
          + apply Nat.eqb_eq in Exa. subst x. rewrite in_remove_first_iff by apply Hnd.
            split; [intros [H Hy]; split; [exact H|]; intros [[_ F] | [F _]]; contradiction
                   | intros [H Hn]; split; [exact H|]; intros ->; apply Hn; left; auto].
          + apply Nat.eqb_neq in Exa. split; [intros H; split; [exact H|]; intros [[F _] | [F _]]; contradiction | tauto]. }
      split; [|exact E]. split; [|split; [|split]].
      * apply dead_empty_unset; [exact Hb|]. apply dead_empty_unset; assumption.
      * intros x y H. apply E in H. apply E. destruct H as [H Hn]. split; [apply Hs; exact H | tauto].
      * intros x. rewrite L. destruct (x =? b).
        -- apply remove_first_nodup. rewrite L1, Eba. apply Hnd.
        -- rewrite L1. destruct (x =? a); [apply remove_first_nodup|]; apply Hnd.
      * intros x H. apply E in H. apply (Hir x). apply H.
    + apply Hsame.
      * intros x. apply eqv_clean.
      * apply dead_empty_clean; assumption.
      * intros F. apply unset_found_iff in F. congruence.
  - apply Hsame; [reflexivity | exact Hd|]. intros F. apply eqv_alive in F. congruence.
  - apply Hsame; [reflexivity | exact Hd|]. intros F. apply Hs in F. apply eqv_alive in F. congruence.
Qed.

(** *** removeAllEquivalences *)
Lemma fold_unset_eqv : forall a L g, NoDup L ->
  forall x, eqv (fold_left (fun h e => unset_equivalent_to h e a) L g) x =
            if mem x L then remove_first (Nat.eqb a) (eqv g x) else eqv g x.
Proof.
  intros a L. induction L as [|e r IH]; intros g Hnd x; cbn [fold_left]; [reflexivity|].
  inversion Hnd as [|? ? He Hr]; subst.
  rewrite (IH _ Hr). rewrite unset_eqv. unfold mem. cbn [existsb]. fold (mem x r).
  destruct (x =? e) eqn:Exe; cbn [orb].
  - apply Nat.eqb_eq in Exe. subst x.
    assert (Hm : mem e r = false) by (apply mem_false; exact He). rewrite Hm. reflexivity.
  - reflexivity.
Qed.

Lemma fold_unset_alive : forall a L g, alive (fold_left (fun h e => unset_equivalent_to h e a) L g) = alive g.
Proof. intros a L. induction L as [|e r IH]; intros g; cbn [fold_left]; [reflexivity|]. rewrite IH. reflexivity. Qed.

Lemma fold_unset_dead_empty : forall a L g, (forall e, In e L -> alive g e = true) -> dead_empty g ->
  dead_empty (fold_left (fun h e => unset_equivalent_to h e a) L g).
Proof.
  intros a L. induction L as [|e r IH]; intros g HL Hd; cbn [fold_left]; [exact Hd|].
  apply IH.
  - intros e' He'. rewrite alive_unset. apply HL. right. exact He'.
  - apply dead_empty_unset; [apply HL; left; reflexivity | exact Hd].
Qed.

Lemma remove_all_wf : forall g a, wf g ->
  wf (remove_all_equivalences g a) /\ (forall x y, edge (remove_all_equivalences g a) x y <-> spec_edge g (RemAll a) x y).
Proof.
  intros g a Hwf. pose proof Hwf as [Hd [Hs [Hnd Hir]]]. cbn [spec_edge]. unfold remove_all_equivalences.
  destruct (alive g a) eqn:Ha.
  - set (g1 := fold_left (fun h e => unset_equivalent_to h e a) (eqv g a) g).
    assert (L1 : forall x, eqv g1 x = if mem x (eqv g a) then remove_first (Nat.eqb a) (eqv g x) else eqv g x)
      by (intros x; apply fold_unset_eqv; apply Hnd).
    assert (A1 : alive g1 = alive g) by apply fold_unset_alive.
    assert (L : forall x, eqv (set_wadj g1 a []) x = if x =? a then [] else eqv g1 x)
      by (intros x; rewrite eqv_set_wadj; reflexivity).
    assert (E : forall x y, edge (set_wadj g1 a []) x y <-> edge g x y /\ x <> a /\ y <> a).
    { intros x y. unfold edge. rewrite L. destruct (x =? a) eqn:Exa.
      - apply Nat.eqb_eq in Exa. split; [intros [] | intros [_ [F _]]; contradiction].
      - apply Nat.eqb_neq in Exa. rewrite L1. destruct (mem x (eqv g a)) eqn:Em.
        + rewrite in_remove_first_iff by apply Hnd. tauto.
        + apply mem_false in Em. split; [|tauto]. intros H. split; [exact H|]. split; [exact Exa|].
          intros ->. apply Em. apply Hs. exact H. }
    split; [|exact E]. split; [|split; [|split]].
    + apply dead_empty_set_wadj; [rewrite A1; exact Ha|].
      apply fold_unset_dead_empty; [intros e He; eapply eqv_alive; eauto | exact Hd].
    + intros x y H. apply E in H. apply E. destruct H as [H [H1 H2]]. auto.
    + intros x. rewrite L. destruct (x =? a); [constructor|]. rewrite L1.
      destruct (mem x (eqv g a)); [apply remove_first_nodup|]; apply Hnd.
    + intros x H. apply E in H. apply (Hir x). apply H.
  - split; [exact Hwf|]. intros x y. split; [|tauto]. intros H. split; [exact H|]. split.
    + intros ->. assert (F : wadj g a = []) by (apply Hd; exact Ha). unfold edge, eqv in H. rewrite F in H. destruct H.
    + intros ->. apply eqv_alive in H. congruence.
Qed.

(** Every edit keeps the lists well-formed and changes the connection graph as [spec_edge] says. *)
Theorem step_wf : forall g o, wf g ->
  wf (step g o) /\ (forall x y, edge (step g o) x y <-> spec_edge g o x y).
Proof.
  intros g [a b | a | a b | a | a b | a b |] H; cbn [step].
  - apply add_equivalence_wf; exact H.
  - apply expire_wf; exact H.
  - apply remove_equivalence_wf; exact H.
  - apply remove_all_wf; exact H.
  - apply (add_equivalence_wf g a b H).
  - split; [exact H | intros x y; cbn [spec_edge]; tauto].
  - split; [exact H | intros x y; cbn [spec_edge]; tauto].
Qed.

Lemma alive_add_equivalence : forall g a b, alive (add_equivalence g a b) = alive g.
Proof.
  intros g a b. unfold add_equivalence. destruct (alive g a && alive g b); [|reflexivity].
  destruct (set_equivalent_to g a b) as [g1 c1] eqn:E1. destruct (set_equivalent_to g1 b a) as [g2 c2] eqn:E2.
  pose proof (set_equivalent_to_eqv _ _ _ _ _ E1) as [A1 _]. pose proof (set_equivalent_to_eqv _ _ _ _ _ E2) as [A2 _].
  destruct (c1 && negb c2); [rewrite alive_unset|]; rewrite A2, A1; reflexivity.
Qed.

(** Only destruction changes which objects exist. *)
Lemma alive_step : forall g o x,
  alive (step g o) x = match o with Expire a => if x =? a then false else alive g x | _ => alive g x end.
Proof.
  intros g [a b | a | a b | a | a b | a b |] x; cbn [step].
  - rewrite alive_add_equivalence. reflexivity.
  - unfold expire. cbn [alive]. unfold upd. reflexivity.
  - unfold remove_equivalence. destruct (alive g a && alive g b); [|reflexivity]. destruct (unset_found g a b); reflexivity.
  - unfold remove_all_equivalences. destruct (alive g a); [|reflexivity]. cbn [set_wadj alive]. rewrite fold_unset_alive. reflexivity.
  - rewrite alive_add_equivalence. reflexivity.
  - reflexivity.
  - reflexivity.
Qed.

Lemma spec_edge_bounded : forall n g o, bounded g n -> op_below n o ->
  forall x y, spec_edge g o x y -> y < n.
Proof.
  intros n g [a b | a | a b | a | a b | a b |] Hbd Ho x y H; cbn [spec_edge op_below] in *.
  - destruct H as [H | [_ [_ [_ [[_ ->] | [_ ->]]]]]]; [eapply Hbd; eauto | lia | lia].
  - destruct H as [H _]. eapply Hbd; eauto.
  - destruct H as [H _]. eapply Hbd; eauto.
  - destruct H as [H _]. eapply Hbd; eauto.
  - destruct H as [H | [_ [_ [_ [[_ ->] | [_ ->]]]]]]; [eapply Hbd; eauto | lia | lia].
  - eapply Hbd; eauto.
  - eapply Hbd; eauto.
Qed.

Lemma step_inv : forall n g o, wf g -> bounded g n -> op_below n o -> wf (step g o) /\ bounded (step g o) n.
Proof.
  intros n g o Hwf Hbd Ho. destruct (step_wf g o Hwf) as [Hwf' E]. split; [exact Hwf'|].
  intros v w H. apply E in H. eapply spec_edge_bounded; eauto.
Qed.

Lemma wf_empty : wf empty_graph.
Proof.
  split; [intros x H; discriminate|]. split; [intros x y []|]. split; [intros x; constructor | intros x []].
Qed.

Theorem build_wf : forall n ops, Forall (op_below n) ops -> wf (build ops) /\ bounded (build ops) n.
Proof.
  intros n ops H. unfold build.
  assert (G : forall g, wf g -> bounded g n -> wf (fold_left step ops g) /\ bounded (fold_left step ops g) n).
  { induction H as [|o t Ho _ IH]; intros g Hi Hbd; cbn [fold_left]; [auto|].
    destruct (step_inv n g o Hi Hbd Ho) as [Hi' Hbd']. apply IH; assumption. }
  apply G; [apply wf_empty | intros v w []].
Qed.

Corollary build_inv : forall n ops, Forall (op_below n) ops ->
  (dead_empty (build ops) /\ symmetric (build ops)) /\ bounded (build ops) n.
Proof.
  intros n ops H. destruct (build_wf n ops H) as [[Hd [Hs _]] Hbd]. auto.
Qed.

(** The table form used by the drivers is the same graph. *)
Lemma nth_map_seq : forall (A : Type) (f : nat -> A) n v d, v < n -> nth v (map f (seq 0 n)) d = f v.
Proof.
  intros A f n v d H. rewrite (nth_indep _ d (f 0)) by (rewrite map_length, seq_length; exact H).
  rewrite map_nth. rewrite seq_nth by exact H. reflexivity.
Qed.

Lemma alive_freeze : forall n g y, alive (freeze n g) y = if y <? n then alive g y else false.
Proof.
  intros n g y. unfold freeze. cbn [alive]. destruct (y <? n) eqn:E.
  - apply Nat.ltb_lt in E. apply nth_map_seq. exact E.
  - apply Nat.ltb_ge in E. apply nth_overflow. rewrite map_length, seq_length. exact E.
Qed.

Lemma wadj_freeze : forall n g x, wadj (freeze n g) x = if x <? n then wadj g x else [].
Proof.
  intros n g x. unfold freeze. cbn [wadj]. destruct (x <? n) eqn:E.
  - apply Nat.ltb_lt in E. apply nth_map_seq. exact E.
  - apply Nat.ltb_ge in E. apply nth_overflow. rewrite map_length, seq_length. exact E.
Qed.

Lemma freeze_eqv : forall n g, bounded g n -> forall x, eqv (freeze n g) x = if x <? n then eqv g x else [].
Proof.
  intros n g Hbd x. unfold eqv at 1. rewrite wadj_freeze. destruct (x <? n); [|reflexivity].
  unfold eqv. apply filter_ext_in. intros y Hy. rewrite alive_freeze.
  destruct (y <? n) eqn:E; [reflexivity|]. apply Nat.ltb_ge in E.
  destruct (alive g y) eqn:Ea; [|reflexivity]. exfalso.
  assert (y < n); [|lia]. apply (Hbd x y). apply edge_iff. auto.
Qed.

Lemma edge_freeze : forall n g, bounded g n -> forall x y, edge (freeze n g) x y <-> edge g x y /\ x < n.
Proof.
  intros n g Hbd x y. unfold edge. rewrite (freeze_eqv n g Hbd). destruct (x <? n) eqn:E.
  - apply Nat.ltb_lt in E. tauto.
  - apply Nat.ltb_ge in E. split; [intros [] | intros [_ F]; lia].
Qed.

Lemma edge_freeze_sym : forall n g, symmetric g -> bounded g n -> forall x y, edge (freeze n g) x y <-> edge g x y.
Proof.
  intros n g Hs Hbd x y. rewrite (edge_freeze n g Hbd). split; [tauto|]. intros H. split; [exact H|].
  apply (Hbd y x). apply Hs. exact H.
Qed.

Theorem freeze_inv : forall n g, symmetric g -> bounded g n -> symmetric (freeze n g) /\ bounded (freeze n g) n.
Proof.
  intros n g Hs Hbd. split.
  - intros x y H. apply (edge_freeze_sym n g Hs Hbd) in H. apply (edge_freeze_sym n g Hs Hbd). apply Hs. exact H.
  - intros v w H. apply (edge_freeze n g Hbd) in H. destruct H as [H _]. eapply Hbd; eauto.
Qed.

Lemma freeze_wf : forall n g, wf g -> bounded g n -> wf (freeze n g) /\ bounded (freeze n g) n.
Proof.
  intros n g [Hd [Hs [Hnd Hir]]] Hbd. destruct (freeze_inv n g Hs Hbd) as [Hs' Hbd']. split; [|exact Hbd'].
  split; [|split; [exact Hs'|split]].
  - intros x Hx. rewrite wadj_freeze. rewrite alive_freeze in Hx. destruct (x <? n); [apply Hd; exact Hx | reflexivity].
  - intros x. rewrite (freeze_eqv n g Hbd). destruct (x <? n); [apply Hnd | constructor].
  - intros x H. apply (edge_freeze n g Hbd) in H. apply (Hir x). apply H.
Qed.

Lemma connected_ext : forall g g', (forall x y, edge g x y <-> edge g' x y) -> forall a b, connected g a b <-> connected g' a b.
Proof.
  intros g g' E a b. split; intros H; induction H as [x y H | x | x y _ IH | x y z _ IH1 _ IH2].
  1,5: apply rst_step; apply E; exact H.
  1,4: apply rst_refl.
  1,3: apply rst_sym; assumption.
  1,2: eapply rst_trans; eauto.
Qed.

(** ** End to end: every history of the construction API, every history of queries *)
Theorem built_queries_correct :
  forall n ops, Forall (op_below n) ops ->
    let g := freeze n (build ops) in
    (forall a b, b < n ->
       exists r, has_equivalent n g a (Some b) true = Some r /\ (r = true <-> a <> b /\ connected g a b)) /\
    (forall a b, has_equivalent n g a (Some b) false = Some true <-> edge g a b) /\
    (forall (addr : nat -> N) qs, (forall x y, addr x = addr y -> x = y) -> in_range n qs ->
       forall i a b, nth_error qs i = Some (a, b) ->
         exists r, nth_error (model_queries addr n g qs) i = Some (Some r) /\ (r = true <-> a = b \/ connected g a b)).
Proof.
  intros n ops H g.
  destruct (build_wf n ops H) as [[_ [Hs _]] Hbd].
  destruct (freeze_inv n (build ops) Hs Hbd) as [Hs' Hbd'].
  split; [|split].
  - intros a b Hb. apply (has_equiv_iff_connected g n n a b Hs' Hbd' Hb (le_n n)).
  - intros a b. unfold has_equivalent. rewrite <- has_direct_iff. split; [intros E; inversion E; reflexivity | intros ->; reflexivity].
  - intros addr qs Hinj Hr i a b Hi. exact (model_queries_connected addr g n n qs Hinj Hs' Hbd' (le_n n) Hr i a b Hi).
Qed.

(** ** Histories of edits interleaved with questions: every answer is about the graph as it is then *)

Lemma ask_correct : forall n g c k a b, wf g -> bounded g n -> a < n -> b < n ->
  cache_inv (model_key heap_addr) (clamp n n g) c ->
  answered (g, k, a, b) (fst (ask n g c k a b)) /\
  cache_inv (model_key heap_addr) (clamp n n g) (snd (ask n g c k a b)).
Proof.
  intros n g c k a b [_ [Hs _]] Hbd Ha Hb Hc. unfold answered, ask_spec.
  destruct k; cbn [ask fst snd].
  - split; [|exact Hc]. apply (has_equiv_iff_connected g n n a b Hs Hbd Hb (le_n n)).
  - split; [|exact Hc]. exists (has_direct g a (Some b)). split; [reflexivity | apply has_direct_iff].
  - split; [|exact Hc]. apply (are_equiv_iff_same_or_connected g n n a b Hs Hbd Hb (le_n n)).
  - assert (Eq : query pair_eqb (model_key heap_addr) (are_equivalent n g) c a b =
                 query pair_eqb (model_key heap_addr) (clamp n n g) c a b).
    { unfold query. destruct (lookup pair_eqb (model_key heap_addr a b) c); [reflexivity|].
      unfold clamp. apply Nat.ltb_lt in Ha. apply Nat.ltb_lt in Hb. rewrite Ha, Hb. reflexivity. }
    rewrite Eq.
    assert (Hresp : respects (model_key heap_addr) (clamp n n g)).
    { apply (injective_key_respects nat (option bool) (N * N) heap_addr heap_addr_inj pairkey pairkey_injective).
      apply (clamp_sym g n n Hs Hbd (le_n n)). }
    destruct (query_correct nat (N * N) (option bool) pair_eqb pair_eqb_spec _ _ Hresp c a b Hc) as [Hf Hi].
    split; [|exact Hi].
    destruct (are_equiv_iff_same_or_connected g n n a b Hs Hbd Hb (le_n n)) as [r [Er Rr]].
    exists r. split; [|exact Rr]. etransitivity; [exact Hf|]. unfold clamp.
    assert (Ha' := Ha). assert (Hb' := Hb). apply Nat.ltb_lt in Ha'. apply Nat.ltb_lt in Hb'. rewrite Ha', Hb'. cbn [andb].
    exact Er.
Qed.

Theorem history_correct_gen : forall n h, Forall (event_below n) h ->
  forall g c, wf g -> bounded g n -> cache_inv (model_key heap_addr) (clamp n n g) c ->
    Forall2 answered (graph_trace n g h) (run_history n g c h).
Proof.
  intros n h H. induction H as [|e t He _ IH]; intros g c Hwf Hbd Hc; cbn [graph_trace run_history]; [constructor|].
  destruct e as [o | k a b]; cbn [event_below] in He.
  - destruct (step_inv n g o Hwf Hbd He) as [Hwf1 Hbd1].
    destruct (freeze_wf n (step g o) Hwf1 Hbd1) as [Hwf2 Hbd2].
    apply IH; [exact Hwf2 | exact Hbd2 | apply cache_inv_nil].
  - destruct He as [Ha Hb].
    destruct (ask_correct n g c k a b Hwf Hbd Ha Hb Hc) as [Hans Hc'].
    destruct (ask n g c k a b) as [r c'] eqn:E. cbn [fst snd] in *.
    constructor; [exact Hans | apply IH; assumption].
Qed.

(** From the empty model: for every history, the list of answers is the list of right answers, each
    on the graph the edits made so far have produced. *)
Theorem history_correct : forall n h, Forall (event_below n) h ->
  Forall2 answered (graph_trace n empty_graph h) (run_history n empty_graph [] h).
Proof.
  intros n h H. apply history_correct_gen; [exact H | apply wf_empty | intros v w [] | apply cache_inv_nil].
Qed.

(** ... and the graphs of the trace evolve by [spec_edge]: what one edit does to the edges the questions see. *)
Theorem history_step_edges : forall n g o, wf g -> bounded g n -> op_below n o ->
  (wf (freeze n (step g o)) /\ bounded (freeze n (step g o)) n) /\
  (forall x y, edge (freeze n (step g o)) x y <-> spec_edge g o x y) /\
  (forall x, alive (freeze n (step g o)) x = true -> alive g x = true).
Proof.
  intros n g o Hwf Hbd Ho.
  destruct (step_inv n g o Hwf Hbd Ho) as [Hwf1 Hbd1]. pose proof Hwf1 as [_ [Hs1 _]].
  split; [apply freeze_wf; assumption|]. split.
  - intros x y. rewrite (edge_freeze_sym n _ Hs1 Hbd1). apply step_wf. exact Hwf.
  - intros x. rewrite alive_freeze. destruct (x <? n); [|discriminate]. rewrite alive_step.
    destruct o; auto. destruct (x =? a); [discriminate | auto].
Qed.

(** ** Identifier operations are irrelevant: deleting them from a history changes no answer *)

Definition geq (n : nat) (g1 g2 : graph) : Prop :=
  (forall x y, edge g1 x y <-> edge g2 x y) /\ (forall x, x < n -> alive g1 x = alive g2 x).

Lemma geq_sym : forall n g1 g2, geq n g1 g2 -> geq n g2 g1.
Proof. intros n g1 g2 [E A]. split; [intros x y; symmetry; apply E | intros x Hx; symmetry; apply A; exact Hx]. Qed.

Lemma geq_trans : forall n g1 g2 g3, geq n g1 g2 -> geq n g2 g3 -> geq n g1 g3.
Proof.
  intros n g1 g2 g3 [E1 A1] [E2 A2]. split.
  - intros x y. rewrite E1. apply E2.
  - intros x Hx. rewrite A1 by exact Hx. apply A2. exact Hx.
Qed.

Lemma freeze_geq : forall n g, wf g -> bounded g n -> geq n (freeze n g) g.
Proof.
  intros n g [_ [Hs _]] Hbd. split.
  - intros x y. apply edge_freeze_sym; assumption.
  - intros x Hx. rewrite alive_freeze. apply Nat.ltb_lt in Hx. rewrite Hx. reflexivity.
Qed.

Lemma spec_edge_geq : forall n g1 g2 o, geq n g1 g2 -> op_below n o ->
  forall x y, spec_edge g1 o x y <-> spec_edge g2 o x y.
Proof.
  intros n g1 g2 o [E A] Ho x y.
  destruct o as [a b | a | a b | a | a b | a b |]; cbn [spec_edge op_below] in *; rewrite (E x y); try tauto.
  - destruct Ho as [Ha Hb]. rewrite (A a Ha), (A b Hb). tauto.
  - destruct Ho as [Ha Hb]. rewrite (A a Ha), (A b Hb). tauto.
Qed.

Lemma step_geq : forall n g1 g2 o, wf g1 -> wf g2 -> bounded g1 n -> bounded g2 n -> geq n g1 g2 -> op_below n o ->
  geq n (freeze n (step g1 o)) (freeze n (step g2 o)).
Proof.
  intros n g1 g2 o W1 W2 B1 B2 G Ho.
  destruct (history_step_edges n g1 o W1 B1 Ho) as [_ [E1 _]].
  destruct (history_step_edges n g2 o W2 B2 Ho) as [_ [E2 _]].
  split.
  - intros x y. rewrite E1, E2. apply (spec_edge_geq n g1 g2 o G Ho).
  - intros x Hx. rewrite !alive_freeze. destruct (x <? n); [|reflexivity]. rewrite !alive_step.
    destruct G as [_ A]. destruct o; try (apply A; exact Hx). destruct (x =? a); [reflexivity | apply A; exact Hx].
Qed.

Lemma answered_geq : forall n g1 g2 k a b r1 r2, geq n g1 g2 ->
  answered (g1, k, a, b) r1 -> answered (g2, k, a, b) r2 -> r1 = r2.
Proof.
  intros n g1 g2 k a b r1 r2 [E _] [x [-> Hx]] [y [-> Hy]]. f_equal. apply bool_eq_iff.
  pose proof (connected_ext g1 g2 E a b) as C.
  destruct k; cbn [ask_spec] in Hx, Hy; rewrite Hx, Hy; try rewrite C; try rewrite (E a b); tauto.
Qed.

Lemma ids_irrelevant_gen : forall n h, Forall (event_below n) h ->
  forall g1 g2 c1 c2, wf g1 -> wf g2 -> bounded g1 n -> bounded g2 n -> geq n g1 g2 ->
    cache_inv (model_key heap_addr) (clamp n n g1) c1 -> cache_inv (model_key heap_addr) (clamp n n g2) c2 ->
    run_history n g1 c1 h = run_history n g2 c2 (strip_ids h).
Proof.
  intros n h H. induction H as [|e t He _ IH]; intros g1 g2 c1 c2 W1 W2 B1 B2 G C1 C2; [reflexivity|].
  destruct e as [o | k a b]; cbn [event_below] in He.
  - assert (Same : forall o', step g1 o = step g1 o' -> op_below n o' ->
               run_history n (freeze n (step g1 o)) [] t = run_history n (freeze n (step g2 o')) [] (strip_ids t)).
    { intros o' Eo Ho'. rewrite Eo.
      destruct (step_inv n g1 o' W1 B1 Ho') as [W1' B1']. destruct (freeze_wf n _ W1' B1') as [W1'' B1''].
      destruct (step_inv n g2 o' W2 B2 Ho') as [W2' B2']. destruct (freeze_wf n _ W2' B2') as [W2'' B2''].
      apply IH; try assumption; try apply cache_inv_nil. apply step_geq; assumption. }
    assert (Skip : step g1 o = g1 ->
               run_history n (freeze n (step g1 o)) [] t = run_history n g2 c2 (strip_ids t)).
    { intros Eo. rewrite Eo. destruct (freeze_wf n g1 W1 B1) as [W1' B1'].
      apply IH; try assumption; try apply cache_inv_nil.
      eapply geq_trans; [apply freeze_geq; assumption | exact G]. }
    destruct o as [a b | a | a b | a | a b | a b |]; cbn [strip_ids strip_op run_history].
    + apply (Same (AddEq a b)); [reflexivity | exact He].
    + apply (Same (Expire a)); [reflexivity | exact He].
    + apply (Same (RemEq a b)); [reflexivity | exact He].
    + apply (Same (RemAll a)); [reflexivity | exact He].
    + apply (Same (AddEq a b)); [reflexivity | exact He].
    + apply Skip. reflexivity.
    + apply Skip. reflexivity.
  - destruct He as [Ha Hb]. cbn [strip_ids run_history].
    destruct (ask_correct n g1 c1 k a b W1 B1 Ha Hb C1) as [A1 C1'].
    destruct (ask_correct n g2 c2 k a b W2 B2 Ha Hb C2) as [A2 C2'].
    destruct (ask n g1 c1 k a b) as [r1 c1'] eqn:E1. destruct (ask n g2 c2 k a b) as [r2 c2'] eqn:E2.
    cbn [fst snd] in *. f_equal.
    + eapply answered_geq; eauto.
    + apply IH; assumption.
Qed.

(** Any interleaving of identifier operations (4-argument addEquivalence, set/remove mapping and
    connection identifiers on any pair, re-parsing the printed model) leaves every answer unchanged. *)
Theorem ids_irrelevant : forall n h, Forall (event_below n) h ->
  run_history n empty_graph [] h = run_history n empty_graph [] (strip_ids h).
Proof.
  intros n h H. apply (ids_irrelevant_gen n h H); try apply wf_empty; try apply cache_inv_nil; try (intros v w []).
  split; [tauto | reflexivity].
Qed.

(** Non-vacuity: a chain 0-1-2 with 3 isolated and 4 destroyed after being linked to 2. *)
Definition ex_ops : list op := [AddEq 0 1; AddEq 1 2; AddEq 2 4; AddEq 4 3; Expire 4].
Example nonvacuous :
  let g := freeze 5 (build ex_ops) in
  has_equivalent 5 g 0 (Some 2) true = Some true /\ has_equivalent 5 g 0 (Some 2) false = Some false /\
  has_equivalent 5 g 0 (Some 3) true = Some false /\ has_equivalent 5 g 0 (Some 0) true = Some false /\
  are_equivalent 5 g 0 0 = Some true /\ eqv g 2 = [1] /\
  connected g 0 2 /\ Forall (op_below 5) ex_ops /\
  dfs 2 g 0 2 [] = None.
Proof.
  cbv zeta. repeat split; try (vm_compute; reflexivity).
  - apply rst_trans with 1; apply rst_step; vm_compute; auto.
  - unfold ex_ops. repeat constructor.
Qed.

(** The situation a per-variable memo would get wrong: chain 0-1-2-3, ask (0,3); remove the remote link
    1-2, ask again; put it back, ask again; clear variable 2, ask again. *)
Definition ex_history : list event :=
  [Edit (AddEq 0 1); Edit (AddEq 1 2); Edit (AddEq 2 3); Ask QIndirect 0 3; Ask QCached 0 3;
   Edit (RemEq 1 2); Ask QIndirect 0 3; Ask QUtil 0 3; Ask QCached 0 3; Ask QDirect 2 3;
   Edit (AddEq 2 1); Ask QIndirect 0 3; Ask QCached 3 0;
   Edit (RemAll 2); Ask QIndirect 0 3; Ask QIndirect 0 1; Ask QDirect 3 2].
Example history_nonvacuous :
  run_history 4 empty_graph [] ex_history =
    [Some true; Some true; Some false; Some false; Some false; Some true; Some true; Some true;
     Some false; Some true; Some false] /\
  Forall (event_below 4) ex_history.
Proof. split; [vm_compute; reflexivity | unfold ex_history; repeat constructor]. Qed.

(** The situation an identifier shortcut gets wrong: chain 0-1-2 made with identifiers, an identifier set on the
    indirect pair (0,2), then the link 1-2 removed; and removeAllEquivalences on a variable that holds identifiers. *)
Definition ex_id_history : list event :=
  [Edit (AddEq4 0 1); Edit (AddEq4 1 2); Edit (IdOp 0 2); Ask QIndirect 0 2; Edit (RemEq 1 2); Edit (IdOp 2 0);
   Ask QIndirect 0 2; Ask QIndirect 2 0; Ask QCached 0 2; Edit Reparse; Edit (RemAll 0); Ask QIndirect 0 1; Ask QUtil 1 0].
Example ids_nonvacuous :
  run_history 3 empty_graph [] ex_id_history =
    [Some true; Some false; Some false; Some false; Some false; Some false] /\
  Forall (event_below 3) ex_id_history /\
  strip_ids ex_id_history =
    [Edit (AddEq 0 1); Edit (AddEq 1 2); Ask QIndirect 0 2; Edit (RemEq 1 2);
     Ask QIndirect 0 2; Ask QIndirect 2 0; Ask QCached 0 2; Edit (RemAll 0); Ask QIndirect 0 1; Ask QUtil 1 0].
Proof. split; [vm_compute; reflexivity | split; [unfold ex_id_history; repeat constructor | reflexivity]]. Qed.
