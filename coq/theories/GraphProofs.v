(** GraphProofs.v — C18: the graph search of Variable::hasEquivalentVariable is reachability, for every
    graph, every history of addEquivalence / variable destruction, every query order (model in GraphDefs.v). *)
From Coq Require Import List Arith Bool NArith Lia ZifyBool Relations.
From LC Require Import KeyDefs GraphDefs EquivSpec KeyProofs.
Import ListNotations.

(** ** Basic facts about the vocabulary of EquivSpec.v *)

Lemma edge_iff : forall g x y, edge g x y <-> In y (wadj g x) /\ alive g y = true.
Proof. intros g x y. unfold edge, eqv. apply filter_In. Qed.

Lemma mem_spec : forall x l, mem x l = true <-> In x l.
Proof.
  intros x l. unfold mem. rewrite existsb_exists. split.
  - intros [y [H1 H2]]. apply Nat.eqb_eq in H2. subst. exact H1.
  - intros H. exists x. split; [exact H | apply Nat.eqb_refl].
Qed.

Lemma mem_false : forall x l, mem x l = false <-> ~ In x l.
Proof.
  intros x l. rewrite <- mem_spec. destruct (mem x l); split; intros H; try discriminate; auto.
  exfalso. apply H. reflexivity.
Qed.

Lemma reach_sym : forall g, symmetric g -> forall x y, reach g x y -> reach g y x.
Proof.
  intros g Hs x y H. induction H as [x y H | x | x y z _ IH1 _ IH2].
  - apply rt_step. apply Hs. exact H.
  - apply rt_refl.
  - eapply rt_trans; eauto.
Qed.

Lemma connected_reach : forall g, symmetric g -> forall x y, connected g x y <-> reach g x y.
Proof.
  intros g Hs x y. split.
  - intros H. induction H as [x y H | x | x y _ IH | x y z _ IH1 _ IH2].
    + apply rt_step. exact H.
    + apply rt_refl.
    + apply reach_sym; assumption.
    + eapply rt_trans; eauto.
  - intros H. induction H as [x y H | x | x y z _ IH1 _ IH2].
    + apply rst_step. exact H.
    + apply rst_refl.
    + eapply rst_trans; eauto.
Qed.

(** ** Partial correctness of the search, for every amount of fuel that produced a result *)
Section Search.
  Variable g : graph.
  Variable t : nat.    (* the target: the receiver of hasEquivalentVariable *)

  (** what a call that returned [b] with the vector [T'] guarantees, given the vector [T] at entry *)
  Definition closed_new (T T' : list nat) : Prop :=
    forall v, In v T' -> ~ In v T -> v <> t /\ forall w, edge g v w -> In w T'.

  Definition call_post (cur : nat) (T : list nat) (b : bool) (T' : list nat) : Prop :=
    incl T T' /\
    (b = true -> reach g cur t) /\
    (b = false -> In cur T' /\ closed_new T T').

  Definition loop_post (ns : list nat) (T : list nat) (b : bool) (T' : list nat) : Prop :=
    incl T T' /\
    (b = true -> exists e, In e ns /\ reach g e t) /\
    (b = false -> (forall e, In e ns -> In e T') /\ closed_new T T').

  Lemma loop_inv :
    forall rec : nat -> list nat -> option (bool * list nat),
      (forall cur T b T', rec cur T = Some (b, T') -> call_post cur T b T') ->
      forall ns T b T', dfs_loop rec ns T = Some (b, T') -> loop_post ns T b T'.
  Proof.
    intros rec Hrec ns. induction ns as [|e r IH]; intros T b T' H; cbn [dfs_loop] in H.
    - inversion H; subst. split; [apply incl_refl|]. split; [discriminate|].
      intros _. split.
      + intros e [].
      + intros v Hv Hn. contradiction.
    - destruct (mem e T) eqn:Em.
      + (* already tested: skipped *)
        apply mem_spec in Em. destruct (IH _ _ _ H) as [Hi [Ht Hf]].
        split; [exact Hi|]. split.
        * intros Hb. destruct (Ht Hb) as [e' [He' Hr]]. exists e'. split; [right; exact He' | exact Hr].
        * intros Hb. destruct (Hf Hb) as [Hns Hcl]. split; [|exact Hcl].
          intros e' [He' | He']; [subst; apply Hi; exact Em | apply Hns; exact He'].
      + destruct (rec e T) as [[b1 T1]|] eqn:Er; [|discriminate].
        destruct (Hrec _ _ _ _ Er) as [Hi1 [Ht1 Hf1]].
        destruct b1.
        * (* found below e: the loop returns at once *)
          inversion H; subst. split; [exact Hi1|]. split; [|discriminate].
          intros _. exists e. split; [left; reflexivity | apply Ht1; reflexivity].
        * destruct (Hf1 eq_refl) as [He1 Hcl1].
          destruct (IH _ _ _ H) as [Hi [Ht Hf]].
          split; [eapply incl_tran; eauto|]. split.
          -- intros Hb. destruct (Ht Hb) as [e' [He' Hr]]. exists e'. split; [right; exact He' | exact Hr].
          -- intros Hb. destruct (Hf Hb) as [Hns Hcl]. split.
             ++ intros e' [He' | He']; [subst; apply Hi; exact He1 | apply Hns; exact He'].
             ++ intros v Hv Hn.
                destruct (in_dec Nat.eq_dec v T1) as [Hin | Hnin].
                ** destruct (Hcl1 v Hin Hn) as [Hne Hw]. split; [exact Hne|].
                   intros w Hvw. apply Hi. apply Hw. exact Hvw.
                ** apply Hcl; assumption.
  Qed.

  Lemma dfs_inv : forall fuel cur T b T', dfs fuel g t cur T = Some (b, T') -> call_post cur T b T'.
  Proof.
    induction fuel as [|f IH]; intros cur T b T' H; cbn [dfs] in H; [discriminate|].
    destruct (t =? cur) eqn:E.
    - apply Nat.eqb_eq in E. inversion H; subst.
      split; [apply incl_refl|]. split; [|discriminate]. intros _. apply rt_refl.
    - apply Nat.eqb_neq in E.
      destruct (loop_inv (dfs f g t) IH _ _ _ _ H) as [Hi [Ht Hf]].
      split; [intros x Hx; apply Hi; right; exact Hx|]. split.
      + intros Hb. destruct (Ht Hb) as [e [He Hr]].
        eapply rt_trans; [apply rt_step; exact He | exact Hr].
      + intros Hb. destruct (Hf Hb) as [Hns Hcl]. split; [apply Hi; left; reflexivity|].
        intros v Hv Hn. destruct (Nat.eq_dec v cur) as [-> | Hne].
        * split; [intros Heq; apply E; symmetry; exact Heq|]. intros w Hw. apply Hns. exact Hw.
        * apply Hcl; [exact Hv|]. intros [Hc | Hc]; [apply Hne; symmetry; exact Hc | apply Hn; exact Hc].
  Qed.

  Theorem dfs_sound : forall fuel cur T T', dfs fuel g t cur T = Some (true, T') -> reach g cur t.
  Proof. intros fuel cur T T' H. apply (dfs_inv _ _ _ _ _ H). reflexivity. Qed.

  Theorem dfs_complete : forall fuel cur T', dfs fuel g t cur [] = Some (false, T') -> ~ reach g cur t.
  Proof.
    intros fuel cur T' H Hr.
    destruct (dfs_inv _ _ _ _ _ H) as [_ [_ Hf]]. destruct (Hf eq_refl) as [Hc Hcl].
    assert (Hall : forall x y, reach g x y -> In x T' -> In y T').
    { intros x y Hxy. induction Hxy as [x y Hxy | x | x y z _ IH1 _ IH2]; intros Hx.
      - destruct (Hcl x Hx (fun F => F)) as [_ Hw]. apply Hw. exact Hxy.
      - exact Hx.
      - auto. }
    destruct (Hcl t (Hall _ _ Hr Hc) (fun F => F)) as [Hne _]. apply Hne. reflexivity.
  Qed.

  (** ** Fuel: as many units as there are vertices are enough *)
  Variable n : nat.
  Hypothesis Hb : bounded g n.

  Definition below (T : list nat) : Prop := forall x, In x T -> x < n.

  Lemma nodup_below_length : forall T, NoDup T -> below T -> length T <= n.
  Proof.
    intros T Hnd Hbl. rewrite <- (seq_length n 0).
    apply NoDup_incl_length; [exact Hnd|].
    intros x Hx. apply in_seq. specialize (Hbl x Hx). lia.
  Qed.

  Definition total_at (f : nat) : Prop :=
    forall cur T, NoDup T -> below T -> cur < n -> ~ In cur T -> n - length T <= f ->
      exists b T', dfs f g t cur T = Some (b, T') /\ NoDup T' /\ below T'.

  Lemma loop_total :
    forall f, total_at f ->
      forall ns T, (forall e, In e ns -> e < n) -> NoDup T -> below T -> n - length T <= f ->
        exists b T', dfs_loop (dfs f g t) ns T = Some (b, T') /\ NoDup T' /\ below T'.
  Proof.
    intros f Hf ns. induction ns as [|e r IH]; intros T Hns Hnd Hbl Hlen; cbn [dfs_loop].
    - exists false, T. auto.
    - assert (Hr : forall e', In e' r -> e' < n) by (intros e' He'; apply Hns; right; exact He').
      destruct (mem e T) eqn:Em.
      + apply IH; assumption.
      + apply mem_false in Em.
        destruct (Hf e T Hnd Hbl (Hns e (or_introl eq_refl)) Em Hlen) as [b1 [T1 [E1 [Hnd1 Hbl1]]]].
        rewrite E1. destruct b1.
        * exists true, T1. auto.
        * apply IH; try assumption.
          destruct (dfs_inv _ _ _ _ _ E1) as [Hi _].
          pose proof (NoDup_incl_length Hnd Hi). lia.
  Qed.

  Lemma dfs_total : forall f, total_at f.
  Proof.
    induction f as [|f IH]; intros cur T Hnd Hbl Hc Hnin Hlen.
    - exfalso.
      assert (Hnd' : NoDup (cur :: T)) by (constructor; assumption).
      assert (Hbl' : below (cur :: T)) by (intros x [Hx | Hx]; [subst; exact Hc | apply Hbl; exact Hx]).
      pose proof (nodup_below_length _ Hnd' Hbl') as Hl. cbn [length] in Hl. lia.
    - cbn [dfs]. destruct (t =? cur).
      + exists true, T. auto.
      + apply loop_total.
        * exact IH.
        * intros e He. exact (Hb cur e He).
        * constructor; assumption.
        * intros x [Hx | Hx]; [subst; exact Hc | apply Hbl; exact Hx].
        * cbn [length]. lia.
  Qed.

  Theorem dfs_fuel_enough :
    forall fuel cur, cur < n -> n <= fuel -> exists b T', dfs fuel g t cur [] = Some (b, T').
  Proof.
    intros fuel cur Hc Hf.
    destruct (dfs_total fuel cur [] (NoDup_nil _) (fun x F => match F with end) Hc (fun F => F)) as [b [T' [E _]]].
    - cbn [length]. lia.
    - exists b, T'. exact E.
  Qed.

  (** The search decides reachability from the argument to the receiver. *)
  Theorem dfs_correct :
    forall fuel cur, cur < n -> n <= fuel ->
      exists b T', dfs fuel g t cur [] = Some (b, T') /\ (b = true <-> reach g cur t).
  Proof.
    intros fuel cur Hc Hf. destruct (dfs_fuel_enough fuel cur Hc Hf) as [b [T' E]].
    exists b, T'. split; [exact E|]. destruct b.
    - split; [intros _; eapply dfs_sound; eauto | reflexivity].
    - split; [discriminate|]. intros Hr. exfalso. eapply dfs_complete; eauto.
  Qed.
End Search.

(** ** The three query functions *)

Lemma find_equivalent_pred : forall g b e, optnat_eqb (Some b) (lock g e) = true <-> e = b /\ alive g e = true.
Proof.
  intros g b e. unfold lock. destruct (alive g e); cbn [optnat_eqb].
  - rewrite Nat.eqb_eq. split; [intros H; split; congruence | intros [H _]; congruence].
  - split; [discriminate | intros [_ H]; discriminate].
Qed.

(** hasEquivalentVariable(v, false) is membership in the list returned by equivalentVariable(i). *)
Theorem has_direct_iff : forall g a b, has_direct g a (Some b) = true <-> edge g a b.
Proof.
  intros g a b. unfold has_direct, find_equivalent. rewrite edge_iff.
  destruct (find (fun e => optnat_eqb (Some b) (lock g e)) (wadj g a)) as [e|] eqn:E.
  - apply find_some in E. destruct E as [Hin Hp]. apply find_equivalent_pred in Hp. destruct Hp as [-> Hal].
    rewrite Hal. split; auto.
  - split; [discriminate|]. intros [Hin Hal]. exfalso.
    pose proof (find_none _ _ E b Hin) as Hn.
    assert (Hy : optnat_eqb (Some b) (lock g b) = true) by (apply find_equivalent_pred; auto).
    congruence.
Qed.

Theorem has_direct_null : forall g a, has_direct g a None = false.
Proof.
  intros g a. unfold has_direct, find_equivalent.
  destruct (find (fun e => optnat_eqb None (lock g e)) (wadj g a)) as [e|] eqn:E; [|reflexivity].
  apply find_some in E. destruct E as [_ Hp]. unfold lock in Hp. destruct (alive g e); [discriminate | reflexivity].
Qed.

Theorem has_indirect_correct :
  forall g n fuel a b, bounded g n -> b < n -> n <= fuel ->
    exists r, has_indirect fuel g a (Some b) = Some r /\ (r = true <-> a <> b /\ reach g b a).
Proof.
  intros g n fuel a b Hbd Hb Hf. unfold has_indirect.
  destruct (a =? b) eqn:E.
  - apply Nat.eqb_eq in E. exists false. split; [reflexivity|]. split; [discriminate | intros [H _]; contradiction].
  - apply Nat.eqb_neq in E.
    destruct (dfs_correct g a n Hbd fuel b Hb Hf) as [r [T' [Ed Hr]]].
    rewrite Ed. exists r. split; [reflexivity|]. rewrite Hr. tauto.
Qed.

(** Variable::hasEquivalentVariable(v, true): true exactly for a different variable linked by a chain. *)
Theorem has_equiv_iff_connected :
  forall g n fuel a b, symmetric g -> bounded g n -> b < n -> n <= fuel ->
    exists r, has_equivalent fuel g a (Some b) true = Some r /\ (r = true <-> a <> b /\ connected g a b).
Proof.
  intros g n fuel a b Hs Hbd Hb Hf. unfold has_equivalent.
  destruct (has_indirect_correct g n fuel a b Hbd Hb Hf) as [r [E Hr]].
  exists r. split; [exact E|]. rewrite Hr, (connected_reach g Hs). split.
  - intros [H1 H2]. split; [exact H1 | apply reach_sym; assumption].
  - intros [H1 H2]. split; [exact H1 | apply reach_sym; assumption].
Qed.

(** utilities.cpp areEquivalentVariables: the same variable, or linked by a chain. *)
Theorem are_equiv_iff_same_or_connected :
  forall g n fuel a b, symmetric g -> bounded g n -> b < n -> n <= fuel ->
    exists r, are_equivalent fuel g a b = Some r /\ (r = true <-> a = b \/ connected g a b).
Proof.
  intros g n fuel a b Hs Hbd Hb Hf. unfold are_equivalent.
  destruct (a =? b) eqn:E.
  - apply Nat.eqb_eq in E. exists true. split; [reflexivity|]. split; auto.
  - apply Nat.eqb_neq in E.
    destruct (has_equiv_iff_connected g n fuel a b Hs Hbd Hb Hf) as [r [Er Hr]].
    exists r. split; [exact Er|]. rewrite Hr. split.
    + intros [_ H]. right. exact H.
    + intros [H | H]; [contradiction | split; assumption].
Qed.

(** The answer does not depend on the amount of fuel once there is enough of it. *)
Corollary are_equivalent_fuel_irrelevant :
  forall g n f1 f2 a b, symmetric g -> bounded g n -> b < n -> n <= f1 -> n <= f2 ->
    are_equivalent f1 g a b = are_equivalent f2 g a b.
Proof.
  intros g n f1 f2 a b Hs Hbd Hb H1 H2.
  destruct (are_equiv_iff_same_or_connected g n f1 a b Hs Hbd Hb H1) as [r1 [E1 R1]].
  destruct (are_equiv_iff_same_or_connected g n f2 a b Hs Hbd Hb H2) as [r2 [E2 R2]].
  rewrite E1, E2. f_equal.
  destruct r1, r2; try reflexivity.
  - symmetry. apply R2. apply R1. reflexivity.
  - apply R1. apply R2. reflexivity.
Qed.

Lemma are_equivalent_sym :
  forall g n fuel a b, symmetric g -> bounded g n -> a < n -> b < n -> n <= fuel ->
    are_equivalent fuel g a b = are_equivalent fuel g b a.
Proof.
  intros g n fuel a b Hs Hbd Ha Hb Hf.
  destruct (are_equiv_iff_same_or_connected g n fuel a b Hs Hbd Hb Hf) as [r1 [E1 R1]].
  destruct (are_equiv_iff_same_or_connected g n fuel b a Hs Hbd Ha Hf) as [r2 [E2 R2]].
  rewrite E1, E2. f_equal.
  assert (X : (a = b \/ connected g a b) <-> (b = a \/ connected g b a)).
  { split; (intros [H | H]; [left; congruence | right; apply rst_sym; exact H]). }
  destruct r1, r2; try reflexivity.
  - symmetry. apply R2. apply X. apply R1. reflexivity.
  - apply R1. apply X. apply R2. reflexivity.
Qed.

(** ** AnalyserModel::areEquivalentVariables: every history of queries is answered by connectivity *)

(** The cache theorem asks for symmetry of the memoised function on *all* arguments; the library
    function is symmetric on the variables of the model, so it is restricted to them first. *)
Definition clamp (n fuel : nat) (g : graph) (a b : nat) : option bool :=
  if (a <? n) && (b <? n) then are_equivalent fuel g a b else None.

Lemma clamp_sym : forall g n fuel, symmetric g -> bounded g n -> n <= fuel ->
  forall a b, clamp n fuel g a b = clamp n fuel g b a.
Proof.
  intros g n fuel Hs Hbd Hf a b. unfold clamp.
  destruct (a <? n) eqn:Ea; destruct (b <? n) eqn:Eb; cbn [andb]; try reflexivity.
  apply Nat.ltb_lt in Ea. apply Nat.ltb_lt in Eb.
  eapply are_equivalent_sym; eauto.
Qed.

Lemma run_ext :
  forall (V K R : Type) (keqb : K -> K -> bool) (key : V -> V -> K) (f1 f2 : V -> V -> R) qs c,
    (forall a b, In (a, b) qs -> f1 a b = f2 a b) ->
    run keqb key f1 c qs = run keqb key f2 c qs.
Proof.
  intros V K R keqb key f1 f2 qs. induction qs as [|[a b] t IH]; intros c H; cbn [run]; [reflexivity|].
  assert (Eq : query keqb key f1 c a b = query keqb key f2 c a b).
  { unfold query. destruct (lookup keqb (key a b) c); [reflexivity|].
    rewrite (H a b (or_introl eq_refl)). reflexivity. }
  rewrite Eq. destruct (query keqb key f2 c a b) as [r c1].
  rewrite (IH c1); [reflexivity|]. intros a' b' Hin. apply H. right. exact Hin.
Qed.

Theorem model_queries_correct :
  forall (addr : nat -> N) g n fuel qs,
    (forall x y, addr x = addr y -> x = y) ->
    symmetric g -> bounded g n -> n <= fuel -> in_range n qs ->
    model_queries addr fuel g qs = map (fun q => are_equivalent fuel g (fst q) (snd q)) qs.
Proof.
  intros addr g n fuel qs Hinj Hs Hbd Hf Hr. unfold model_queries, model_key, answers.
  rewrite (run_ext nat (N * N) (option bool) pair_eqb _ (are_equivalent fuel g) (clamp n fuel g) qs []).
  - pose proof (cache_correct nat (option bool) (N * N) addr Hinj pairkey pairkey_injective
                  (clamp n fuel g) (clamp_sym g n fuel Hs Hbd Hf) pair_eqb pair_eqb_spec qs []
                  (cache_inv_nil _ _ _ _ _)) as H.
    unfold answers in H. rewrite H.
    apply map_ext_in. intros [a b] Hin. cbn [fst snd]. unfold clamp.
    destruct (Hr a b Hin) as [Ha Hb]. apply Nat.ltb_lt in Ha. apply Nat.ltb_lt in Hb. rewrite Ha, Hb. reflexivity.
  - intros a b Hin. unfold clamp.
    destruct (Hr a b Hin) as [Ha Hb]. apply Nat.ltb_lt in Ha. apply Nat.ltb_lt in Hb. rewrite Ha, Hb. reflexivity.
Qed.

(** Each answer of the history is "same variable or connected", whatever came before. *)
Corollary model_queries_connected :
  forall (addr : nat -> N) g n fuel qs,
    (forall x y, addr x = addr y -> x = y) ->
    symmetric g -> bounded g n -> n <= fuel -> in_range n qs ->
    forall i a b, nth_error qs i = Some (a, b) ->
      exists r, nth_error (model_queries addr fuel g qs) i = Some (Some r) /\
                (r = true <-> a = b \/ connected g a b).
Proof.
  intros addr g n fuel qs Hinj Hs Hbd Hf Hr i a b Hi.
  rewrite (model_queries_correct addr g n fuel qs Hinj Hs Hbd Hf Hr).
  rewrite nth_error_map, Hi. cbn [option_map fst snd].
  destruct (Hr a b (nth_error_In _ _ Hi)) as [_ Hb].
  destruct (are_equiv_iff_same_or_connected g n fuel a b Hs Hbd Hb Hf) as [r [E R]].
  exists r. rewrite E. auto.
Qed.

Lemma heap_addr_inj : forall x y, heap_addr x = heap_addr y -> x = y.
Proof. intros x y H. unfold heap_addr in H. lia. Qed.

(** With the 64-bit Cantor key of the old code the same history can be answered wrongly: the four
    witness addresses, variables 0~1 equivalent, 2 and 3 unrelated; asking (0,1) then (2,3). *)
Definition w_addr (v : nat) : N :=
  match v with 0 => w_a | 1 => w_b | 2 => w_c | 3 => w_d | _ => N.of_nat v end.
Definition w_graph : graph := build [AddEq 0 1].

Theorem key64_cache_refuted :
  model_queries_key64 w_addr 4 w_graph [(0, 1); (2, 3)] = [Some true; Some true] /\
  are_equivalent 4 w_graph 2 3 = Some false /\
  model_queries w_addr 4 w_graph [(0, 1); (2, 3)] = [Some true; Some false].
Proof. repeat split; vm_compute; reflexivity. Qed.

(** ** Graphs built through the API: addEquivalence and destruction keep the lists symmetric *)

Definition dead_empty (g : graph) : Prop := forall x, alive g x = false -> wadj g x = [].
Definition built_inv (g : graph) : Prop := dead_empty g /\ symmetric g.

Lemma upd_same : forall (A : Type) (f : nat -> A) k x, upd f k x k = x.
Proof. intros A f k x. unfold upd. rewrite Nat.eqb_refl. reflexivity. Qed.

Lemma upd_other : forall (A : Type) (f : nat -> A) k x j, j <> k -> upd f k x j = f j.
Proof. intros A f k x j H. unfold upd. apply Nat.eqb_neq in H. rewrite H. reflexivity. Qed.

Lemma edge_set_wadj : forall g a l x y,
  edge (set_wadj g a l) x y <-> (x = a /\ In y l /\ alive g y = true) \/ (x <> a /\ edge g x y).
Proof.
  intros g a l x y. rewrite !edge_iff. cbn [set_wadj wadj alive].
  destruct (Nat.eq_dec x a) as [-> | Hne].
  - rewrite upd_same. split.
    + intros [H1 H2]. left. auto.
    + intros [[_ [H1 H2]] | [H _]]; [auto | contradiction].
  - rewrite upd_other by exact Hne. split.
    + intros H. right. auto.
    + intros [[H _] | [_ H]]; [contradiction | exact H].
Qed.

Lemma edge_clean : forall g a x y, edge (clean_expired g a) x y <-> edge g x y.
Proof.
  intros g a x y. unfold clean_expired. rewrite edge_set_wadj.
  destruct (Nat.eq_dec x a) as [-> | Hne].
  - rewrite edge_iff, filter_In. split.
    + intros [[_ [[H1 _] H2]] | [H _]]; [auto | contradiction].
    + intros [H1 H2]. left. auto.
  - split.
    + intros [[H _] | [_ H]]; [contradiction | exact H].
    + intros H. right. auto.
Qed.

Lemma alive_clean : forall g a, alive (clean_expired g a) = alive g.
Proof. reflexivity. Qed.

(** setEquivalentTo adds the entry exactly when it is not already a live entry. *)
Lemma set_equivalent_to_spec : forall g a b g' can,
  set_equivalent_to g a b = (g', can) ->
  alive g' = alive g /\
  (can = true <-> ~ edge g a b) /\
  (forall x y, edge g' x y <-> edge g x y \/ (can = true /\ x = a /\ y = b /\ alive g b = true)).
Proof.
  intros g a b g' can H. unfold set_equivalent_to in H.
  destruct (has_direct (clean_expired g a) a (Some b)) eqn:E.
  - inversion H; subst. apply has_direct_iff in E. rewrite edge_clean in E.
    split; [reflexivity|]. split; [split; [discriminate | intros F; contradiction]|].
    intros x y. rewrite edge_clean. split; [auto | intros [H1 | [H1 _]]; [exact H1 | discriminate]].
  - inversion H; subst. clear H.
    assert (Hn : ~ edge g a b).
    { intros F. rewrite <- (edge_clean g a) in F. apply has_direct_iff in F. congruence. }
    split; [reflexivity|]. split; [split; auto|].
    intros x y. rewrite edge_set_wadj. rewrite alive_clean.
    rewrite upd_same. split.
    + intros [[-> [Hin Hal]] | [Hne He]].
      * apply in_app_or in Hin. destruct Hin as [Hin | [<- | []]].
        -- left. unfold edge, eqv. exact Hin.
        -- right. auto.
      * left. apply edge_clean in He. exact He.
    + intros [He | [_ [-> [-> Hal]]]].
      * destruct (Nat.eq_dec x a) as [-> | Hne].
        -- left. split; [reflexivity|]. split; [apply in_or_app; left; exact He|].
           apply edge_iff in He. apply He.
        -- right. split; [exact Hne | apply edge_clean; exact He].
      * left. split; [reflexivity|]. split; [apply in_or_app; right; left; reflexivity | exact Hal].
Qed.

Lemma in_remove_first : forall f l y, In y (remove_first f l) -> In y l.
Proof.
  intros f l y. induction l as [|x t IH]; cbn [remove_first]; [auto|].
  destruct (f x); [intros H; right; exact H|]. intros [H | H]; [left; exact H | right; apply IH; exact H].
Qed.

Lemma in_remove_first_other : forall f l y, In y l -> f y = false -> In y (remove_first f l).
Proof.
  intros f l y. induction l as [|x t IH]; cbn [remove_first]; [auto|].
  intros [-> | H] Hf.
  - rewrite Hf. left. reflexivity.
  - destruct (f x); [exact H | right; apply IH; assumption].
Qed.

(** unsetEquivalentTo touches no pair other than (a, b). *)
Lemma unset_equivalent_to_spec : forall g a b,
  alive (unset_equivalent_to g a b) = alive g /\
  (forall x y, edge (unset_equivalent_to g a b) x y -> edge g x y) /\
  (forall x y, (x <> a \/ y <> b) -> edge g x y -> edge (unset_equivalent_to g a b) x y).
Proof.
  intros g a b. unfold unset_equivalent_to. split; [reflexivity|]. split.
  - intros x y H. apply edge_set_wadj in H. rewrite alive_clean in H.
    destruct H as [[-> [Hin Hal]] | [Hne He]].
    + apply in_remove_first in Hin. apply (edge_clean g a). apply edge_iff. auto.
    + apply edge_clean in He. exact He.
  - intros x y Hxy He. apply edge_set_wadj. rewrite alive_clean.
    destruct (Nat.eq_dec x a) as [-> | Hne].
    + left. split; [reflexivity|]. destruct Hxy as [F | Hy]; [contradiction|].
      apply (edge_clean g a) in He. apply edge_iff in He. destruct He as [Hin Hal].
      split; [|exact Hal]. apply in_remove_first_other; [exact Hin|].
      destruct (optnat_eqb (Some b) (lock (clean_expired g a) y)) eqn:E; [|reflexivity].
      apply find_equivalent_pred in E. destruct E as [E _]. contradiction.
    + right. split; [exact Hne | apply edge_clean; exact He].
Qed.

Lemma dead_empty_set_wadj : forall g a l, alive g a = true -> dead_empty g -> dead_empty (set_wadj g a l).
Proof.
  intros g a l Ha Hd x Hx. cbn [set_wadj wadj alive] in *.
  destruct (Nat.eq_dec x a) as [-> | Hne]; [congruence|].
  rewrite upd_other by exact Hne. apply Hd. exact Hx.
Qed.

Lemma add_equivalence_spec : forall g a b,
  built_inv g ->
  built_inv (add_equivalence g a b) /\
  (forall x y, edge (add_equivalence g a b) x y -> edge g x y \/ (x = a /\ y = b) \/ (x = b /\ y = a)) /\
  (forall x y, edge g x y -> x <> y -> edge (add_equivalence g a b) x y) /\
  (alive g a = true -> alive g b = true -> a <> b -> edge (add_equivalence g a b) a b).
Proof.
  intros g a b [Hd Hs]. unfold add_equivalence.
  destruct (alive g a) eqn:Ha; destruct (alive g b) eqn:Hb; cbn [andb];
    try (split; [split; assumption|]; split; [auto|]; split; [auto | intros; discriminate]).
  destruct (set_equivalent_to g a b) as [g1 can1] eqn:E1.
  destruct (set_equivalent_to g1 b a) as [g2 can2] eqn:E2.
  pose proof (set_equivalent_to_spec _ _ _ _ _ E1) as [A1 [C1 S1]].
  pose proof (set_equivalent_to_spec _ _ _ _ _ E2) as [A2 [C2 S2]].
  assert (Hd1 : dead_empty g1).
  { unfold set_equivalent_to in E1. destruct (has_direct (clean_expired g a) a (Some b));
      inversion E1; subst; unfold clean_expired; repeat apply dead_empty_set_wadj; auto. }
  assert (Hd2 : dead_empty g2).
  { unfold set_equivalent_to in E2. rewrite <- A1 in Hb.
    destruct (has_direct (clean_expired g1 b) b (Some a));
      inversion E2; subst; unfold clean_expired; repeat apply dead_empty_set_wadj; auto. }
  assert (Ha1 : alive g1 a = true) by (rewrite A1; exact Ha).
  assert (Ha2 : alive g2 a = true) by (rewrite A2; exact Ha1).
  destruct (Nat.eq_dec a b) as [<- | Hab].
  - (* addEquivalence(v, v): whatever happens to the pair (v, v) itself is irrelevant to symmetry *)
    assert (Hfin : forall gf, alive gf = alive g2 ->
                     (forall x y, edge gf x y -> edge g2 x y) ->
                     (forall x y, (x <> a \/ y <> a) -> edge g2 x y -> edge gf x y) ->
                     dead_empty gf ->
                     built_inv gf /\
                     (forall x y, edge gf x y -> edge g x y \/ (x = a /\ y = a) \/ (x = a /\ y = a)) /\
                     (forall x y, edge g x y -> x <> y -> edge gf x y) /\
                     (true = true -> true = true -> a <> a -> edge gf a a)).
    { intros gf Af Sub Sup Df.
      assert (Efg : forall x y, edge gf x y -> edge g x y \/ (x = a /\ y = a)).
      { intros x y H. apply Sub in H. apply S2 in H. destruct H as [H | [_ [-> [-> _]]]]; [|auto].
        apply S1 in H. destruct H as [H | [_ [-> [-> _]]]]; auto. }
      assert (Egf : forall x y, edge g x y -> x <> y -> edge gf x y).
      { intros x y H Hxy. apply Sup.
        - destruct (Nat.eq_dec x a) as [-> | Hx]; [right; auto | left; exact Hx].
        - apply S2. left. apply S1. left. exact H. }
      split; [split; [exact Df|]|].
      - intros x y H. destruct (Nat.eq_dec x y) as [-> | Hxy]; [exact H|].
        destruct (Efg _ _ H) as [Hg | [-> ->]]; [|contradiction].
        apply Egf; [apply Hs; exact Hg | auto].
      - split; [intros x y H; destruct (Efg _ _ H); auto|]. split; [exact Egf|].
        intros _ _ F. contradiction. }
    destruct (can1 && negb can2).
    + pose proof (unset_equivalent_to_spec g2 a a) as [U1 [U2 U3]].
      apply Hfin; auto.
      unfold unset_equivalent_to, clean_expired. repeat apply dead_empty_set_wadj; auto.
    + apply Hfin; auto.
  - (* two different variables: by symmetry both sides add, or neither does *)
    assert (Hcan : can1 = can2).
    { assert (X : ~ edge g a b <-> ~ edge g1 b a).
      { split.
        - intros Hn F. apply S1 in F. destruct F as [F | [_ [F _]]]; [|apply Hab; symmetry; exact F].
          apply Hn. apply Hs. exact F.
        - intros Hn F. apply Hn. apply S1. left. apply Hs. exact F. }
      destruct can1, can2; try reflexivity.
      - exfalso. assert (Y : false = true) by (apply C2; apply X; apply C1; reflexivity). discriminate.
      - exfalso. assert (Y : false = true) by (apply C1; apply X; apply C2; reflexivity). discriminate. }
    subst can2. rewrite andb_negb_r.
    assert (Hb1 : alive g1 b = true) by (rewrite A1; exact Hb).
    assert (E : forall x y, edge g2 x y <-> edge g x y \/ (can1 = true /\ ((x = a /\ y = b) \/ (x = b /\ y = a)))).
    { intros x y. rewrite S2, S1. rewrite Ha1, Hb. tauto. }
    split; [split; [exact Hd2|]|].
    + intros x y H. apply E in H. apply E. destruct H as [H | [Hc [[-> ->] | [-> ->]]]]; auto.
    + split; [intros x y H; apply E in H; tauto|]. split; [intros x y H _; apply E; auto|].
      intros _ _ _. apply E.
      destruct can1; [right; auto|]. left.
      destruct (has_direct g a (Some b)) eqn:Ed; [apply has_direct_iff; exact Ed|].
      exfalso. assert (Y : false = true); [|discriminate]. apply C1. intros F. apply has_direct_iff in F. congruence.
Qed.

Lemma expire_spec : forall g a, built_inv g ->
  built_inv (expire g a) /\ (forall x y, edge (expire g a) x y <-> edge g x y /\ x <> a /\ y <> a).
Proof.
  intros g a [Hd Hs].
  assert (E : forall x y, edge (expire g a) x y <-> edge g x y /\ x <> a /\ y <> a).
  { intros x y. rewrite !edge_iff. unfold expire. cbn [wadj alive].
    destruct (Nat.eq_dec x a) as [-> | Hx].
    - rewrite upd_same. split; [intros [[] _] | intros [_ [F _]]; contradiction].
    - rewrite (upd_other _ (wadj g)) by exact Hx.
      destruct (Nat.eq_dec y a) as [-> | Hy].
      + rewrite upd_same. split; [intros [_ F]; discriminate | intros [_ [_ F]]; contradiction].
      + rewrite upd_other by exact Hy. tauto. }
  split; [|exact E]. split.
  - intros x Hx. unfold expire in *. cbn [wadj alive] in *.
    destruct (Nat.eq_dec x a) as [-> | Hne]; [apply upd_same|].
    rewrite upd_other in * by exact Hne. apply Hd. exact Hx.
  - intros x y H. apply E in H. apply E. destruct H as [H [H1 H2]]. auto.
Qed.

Lemma built_inv_empty : built_inv empty_graph.
Proof. split; [intros x H; discriminate | intros x y []]. Qed.

Lemma step_inv : forall n g o, built_inv g -> bounded g n -> op_below n o ->
  built_inv (step g o) /\ bounded (step g o) n.
Proof.
  intros n g [a b | a] Hi Hbd Ho; cbn [step op_below] in *.
  - destruct (add_equivalence_spec g a b Hi) as [Hi' [Hsub _]]. split; [exact Hi'|].
    intros v w H. apply Hsub in H. destruct H as [H | [[_ ->] | [_ ->]]]; [eapply Hbd; eauto | lia | lia].
  - destruct (expire_spec g a Hi) as [Hi' He]. split; [exact Hi'|].
    intros v w H. apply He in H. destruct H as [H _]. eapply Hbd; eauto.
Qed.

Theorem build_inv : forall n ops, Forall (op_below n) ops -> built_inv (build ops) /\ bounded (build ops) n.
Proof.
  intros n ops H. unfold build.
  assert (G : forall g, built_inv g -> bounded g n -> built_inv (fold_left step ops g) /\ bounded (fold_left step ops g) n).
  { induction H as [|o t Ho _ IH]; intros g Hi Hbd; cbn [fold_left]; [auto|].
    destruct (step_inv n g o Hi Hbd Ho) as [Hi' Hbd']. apply IH; assumption. }
  apply G; [apply built_inv_empty | intros v w []].
Qed.

(** The table form used by the drivers is the same graph. *)
Lemma nth_map_seq : forall (A : Type) (f : nat -> A) n v d, v < n -> nth v (map f (seq 0 n)) d = f v.
Proof.
  intros A f n v d H. rewrite (nth_indep _ d (f 0)) by (rewrite map_length, seq_length; exact H).
  rewrite map_nth. rewrite seq_nth by exact H. reflexivity.
Qed.

Lemma edge_freeze : forall n g, bounded g n -> forall x y, edge (freeze n g) x y <-> edge g x y /\ x < n.
Proof.
  intros n g Hbd x y. rewrite !edge_iff. unfold freeze. cbn [wadj alive].
  destruct (Nat.lt_ge_cases x n) as [Hx | Hx].
  - rewrite nth_map_seq by exact Hx.
    destruct (Nat.lt_ge_cases y n) as [Hy | Hy].
    + rewrite nth_map_seq by exact Hy. tauto.
    + rewrite nth_overflow by (rewrite map_length, seq_length; exact Hy). split.
      * intros [_ F]. discriminate.
      * intros [[H1 H2] _]. exfalso. assert (y < n); [|lia]. apply (Hbd x y). apply edge_iff. auto.
  - rewrite (nth_overflow (map (wadj g) (seq 0 n))) by (rewrite map_length, seq_length; exact Hx).
    split; [intros [[] _] | intros [_ F]; lia].
Qed.

Theorem freeze_inv : forall n g, symmetric g -> bounded g n -> symmetric (freeze n g) /\ bounded (freeze n g) n.
Proof.
  intros n g Hs Hbd. split.
  - intros x y H. apply (edge_freeze n g Hbd) in H. destruct H as [H Hx].
    apply (edge_freeze n g Hbd). split; [apply Hs; exact H | exact (Hbd x y H)].
  - intros v w H. apply (edge_freeze n g Hbd) in H. destruct H as [H _]. eapply Hbd; eauto.
Qed.

Lemma connected_freeze : forall n g, symmetric g -> bounded g n ->
  forall a b, a < n -> (connected (freeze n g) a b <-> connected g a b).
Proof.
  intros n g Hs Hbd a b Ha.
  destruct (freeze_inv n g Hs Hbd) as [Hs' Hbd'].
  rewrite (connected_reach _ Hs'), (connected_reach _ Hs). split.
  - intros H. clear Ha. induction H as [x y H | x | x y z _ IH1 _ IH2].
    + apply rt_step. apply (edge_freeze n g Hbd) in H. apply H.
    + apply rt_refl.
    + eapply rt_trans; eauto.
  - intros H. apply clos_rt_rt1n in H. induction H as [x | x y z Hxy Hyz IH].
    + apply rt_refl.
    + eapply rt_trans; [apply rt_step; apply (edge_freeze n g Hbd); split; eauto|].
      apply IH. eapply Hbd; eauto.
Qed.

(** ** End to end: every history of the construction API, every history of queries *)
Theorem built_queries_correct :
  forall n ops, Forall (op_below n) ops ->
    let g := freeze n (build ops) in
    (forall a b, b < n ->
       exists r, has_equivalent n g a (Some b) true = Some r /\ (r = true <-> a <> b /\ connected g a b)) /\
    (forall a b, has_equivalent n g a (Some b) false = Some true <-> edge g a b) /\
    (forall (addr : nat -> N) qs, (forall x y, addr x = addr y -> x = y) -> in_range n qs ->
       forall i a b, nth_error qs i = Some (a, b) ->
         exists r, nth_error (model_queries addr n g qs) i = Some (Some r) /\ (r = true <-> a = b \/ connected g a b)).
Proof.
  intros n ops H g.
  destruct (build_inv n ops H) as [[_ Hs] Hbd].
  destruct (freeze_inv n (build ops) Hs Hbd) as [Hs' Hbd'].
  split; [|split].
  - intros a b Hb. apply (has_equiv_iff_connected g n n a b Hs' Hbd' Hb (le_n n)).
  - intros a b. unfold has_equivalent. rewrite <- has_direct_iff. split; [intros E; inversion E; reflexivity | intros ->; reflexivity].
  - intros addr qs Hinj Hr i a b Hi. exact (model_queries_connected addr g n n qs Hinj Hs' Hbd' (le_n n) Hr i a b Hi).
Qed.

(** Non-vacuity: a chain 0-1-2 with 3 isolated and 4 destroyed after being linked to 2. *)
Definition ex_ops : list op := [AddEq 0 1; AddEq 1 2; AddEq 2 4; AddEq 4 3; Expire 4].
Example nonvacuous :
  let g := freeze 5 (build ex_ops) in
  has_equivalent 5 g 0 (Some 2) true = Some true /\ has_equivalent 5 g 0 (Some 2) false = Some false /\
  has_equivalent 5 g 0 (Some 3) true = Some false /\ has_equivalent 5 g 0 (Some 0) true = Some false /\
  are_equivalent 5 g 0 0 = Some true /\ eqv g 2 = [1] /\
  connected g 0 2 /\ Forall (op_below 5) ex_ops /\
  dfs 2 g 0 2 [] = None.
Proof.
  cbv zeta. repeat split; try (vm_compute; reflexivity).
  - apply rst_trans with 1; apply rst_step; vm_compute; auto.
  - unfold ex_ops. repeat constructor.
Qed.
