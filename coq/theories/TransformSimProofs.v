(** TransformSimProofs.v — C14: the permissive 1.x loader on [conv1x t] does what the 2.0 loader does on [t], element by
    element, for every tree [t] of the class [conv_ok] (the printer's vocabulary without resets).  Lemmas only. *)
From Coq Require Import String Ascii List Bool ZArith Arith.
From LC Require Import Common NumDefs XmlDefs EntTreeDefs PrintDefs LoadDefs RoundtripSpec Load1xDefs To1xDefs
     RoundtripReadProofs RoundtripLoadProofs RoundtripEncProofs.
Import ListNotations.
Local Open Scope string_scope.
Local Open Scope bool_scope.
Local Open Scope list_scope.

(** * generic list lemmas *)

Lemma fold_left_map_ext : forall {A B C} (f' : A -> C -> A) (f : A -> B -> A) (g : B -> C) (P : B -> Prop) l,
  (forall a x, P x -> f' a (g x) = f a x) -> Forall P l -> forall a, fold_left f' (map g l) a = fold_left f l a.
Proof.
  intros A B C f' f g P l H. induction l as [|x r IH]; intros HF a; [reflexivity|].
  inversion HF; subst. cbn [map fold_left]. rewrite H by assumption. now apply IH.
Qed.

Lemma forallb_Forall : forall {A} (p : A -> bool) l, forallb p l = true -> Forall (fun x => p x = true) l.
Proof. intros A p l H. apply Forall_forall. intros x Hx. exact (proj1 (forallb_forall p l) H x Hx). Qed.

Lemma map_id_ext : forall {A} (f : A -> A) l, (forall x, In x l -> f x = x) -> map f l = l.
Proof.
  intros A f l. induction l as [|x r IH]; intros H; [reflexivity|].
  cbn [map]. rewrite H by (left; reflexivity). f_equal. apply IH. intros y Hy. apply H. now right.
Qed.

(** * attribute names *)

Lemma names_distinct_cons : forall x r, names_distinct (x :: r) = negb (existsb (String.eqb x) r) && names_distinct r.
Proof. reflexivity. Qed.

Lemma existsb_eqb_In : forall n l, existsb (String.eqb n) l = true <-> In n l.
Proof.
  intros n l. rewrite existsb_exists. split.
  - intros (x & Hx & He). apply String.eqb_eq in He. now subst.
  - intros H. exists n. split; [assumption|apply String.eqb_refl].
Qed.

Lemma existsb_eqb_false : forall n l, existsb (String.eqb n) l = false <-> ~ In n l.
Proof.
  intros n l. split.
  - intros H Hin. apply existsb_eqb_In in Hin. congruence.
  - intros H. destruct (existsb (String.eqb n) l) eqn:E; [|reflexivity]. apply existsb_eqb_In in E. contradiction.
Qed.

Lemma names_distinct_NoDup : forall l, names_distinct l = true <-> NoDup l.
Proof.
  induction l as [|x r IH]; [split; [constructor|reflexivity]|].
  rewrite names_distinct_cons, andb_true_iff, negb_true_iff, existsb_eqb_false, IH. split.
  - intros [H1 H2]. now constructor.
  - intros H. inversion H; subst. now split.
Qed.

Lemma names_distinct_app : forall x y, names_distinct (x ++ y) = true <->
  names_distinct x = true /\ names_distinct y = true /\ (forall n, In n x -> ~ In n y).
Proof.
  induction x as [|a r IH]; intros y.
  - cbn. split; [intros H; repeat split; auto|tauto].
  - cbn [app]. rewrite !names_distinct_cons, !andb_true_iff, !negb_true_iff, !existsb_eqb_false, IH. split.
    + intros (Hn & Hr & Hy & Hd). repeat split; try assumption.
      * intros Hin. apply Hn. apply in_or_app. now left.
      * intros n [<-|Hin] Hy'; [apply Hn; apply in_or_app; now right|]. eapply Hd; eassumption.
    + intros ((Hn & Hr) & Hy & Hd). repeat split; try assumption.
      * intros Hin. apply in_app_or in Hin. destruct Hin as [Hin|Hin]; [contradiction|]. eapply Hd; [left; reflexivity|eassumption].
      * intros n Hin. apply Hd. now right.
Qed.

(** XmlAttribute::value() is the attribute's own value when the local names of the element's attributes differ *)
Lemma first_val_self : forall l a, In a l -> names_distinct (map a_name l) = true -> first_val l a = a_val a.
Proof.
  intros l a Hin Hd. unfold first_val.
  induction l as [|b r IH]; [contradiction|].
  cbn [find]. destruct (String.eqb (a_name b) (a_name a)) eqn:Eb.
  - destruct Hin as [->|Hin]; [reflexivity|].
    cbn [map] in Hd. rewrite names_distinct_cons in Hd. apply andb_true_iff in Hd. destruct Hd as [Hn _].
    apply negb_true_iff in Hn. rewrite existsb_eqb_false in Hn. exfalso. apply Hn.
    apply String.eqb_eq in Eb. rewrite Eb. now apply in_map.
  - destruct Hin as [->|Hin]; [rewrite String.eqb_refl in Eb; discriminate|].
    apply IH; [assumption|]. cbn [map] in Hd. rewrite names_distinct_cons in Hd. apply andb_true_iff in Hd. tauto.
Qed.

Lemma eff_attrs_id : forall l, names_distinct (map a_name l) = true -> eff_attrs l = l.
Proof.
  intros l Hd. unfold eff_attrs.
  assert (H : forall l0, (forall a, In a l0 -> In a l) -> map (fun a => mkAttr (a_ns a) (a_name a) (first_val l a)) l0 = l0).
  { induction l0 as [|a r IH]; intros Hs; [reflexivity|]. cbn [map]. rewrite first_val_self by (auto with datatypes).
    rewrite IH by (intros; apply Hs; now right). destruct a; reflexivity. }
  apply H. auto.
Qed.

Lemma names_in_distinct : forall al l, names_in al l = true -> names_distinct (map a_name l) = true.
Proof. intros al l H. unfold names_in in H. apply andb_true_iff in H. tauto. Qed.

Lemma names_in_each : forall al l a, names_in al l = true -> In a l -> a_ns a = "" /\ In (a_name a) al.
Proof.
  intros al l a H Hin. unfold names_in in H. apply andb_true_iff in H. destruct H as [H _].
  rewrite forallb_forall in H. specialize (H a Hin). apply andb_true_iff in H. destruct H as [H1 H2].
  apply String.eqb_eq in H1. apply existsb_eqb_In in H2. now split.
Qed.

Lemma is_element_inv : forall ns nm x, is_element ns nm x = true -> exists attrs ks, x = Elem ns nm attrs ks.
Proof.
  intros ns nm [n m attrs ks| |] H; try discriminate. cbn in H. apply andb_true_iff in H. destruct H as [H1 H2].
  apply String.eqb_eq in H1. apply String.eqb_eq in H2. subst. eauto.
Qed.

Lemma nid_has_name : forall rule l st, na_has_name st = true \/ existsb (attr_is "name") l = true ->
  na_has_name (fold_left (nid_attr rule) l st) = true.
Proof.
  intros rule. induction l as [|a r IH]; intros st H.
  - destruct H as [H|H]; [assumption|discriminate].
  - cbn [fold_left]. apply IH. unfold nid_attr. destruct (attr_is "name" a) eqn:Ea; [now left|].
    destruct H as [H|H].
    + left. destruct (is_id_attr a); assumption.
    + right. cbn [existsb] in H. now rewrite Ea in H.
Qed.

(** [insert_at]: an element the loop passes over may stand anywhere *)
Lemma fold_insert_at : forall {A B} (f : A -> B -> A) (x : B), (forall a, f a x = a) ->
  forall n l a, fold_left f (insert_at n x l) a = fold_left f l a.
Proof.
  intros A B f x H. induction n as [|n IH]; intros l a; [cbn; now rewrite H|].
  destruct l as [|y r]; [cbn; now rewrite H|]. cbn [insert_at fold_left]. apply IH.
Qed.

Lemma find_insert_at : forall {A} (p : A -> bool) (x : A), p x = true ->
  forall n l, (forall y, In y l -> p y = false) -> find p (insert_at n x l) = Some x.
Proof.
  intros A p x Hx. induction n as [|n IH]; intros l H; [cbn; now rewrite Hx|].
  destruct l as [|y r]; [cbn; now rewrite Hx|]. cbn [insert_at find]. rewrite (H y) by now left. apply IH. intros; apply H; now right.
Qed.

Lemma existsb_insert_at : forall {A} (p : A -> bool) (x : A), p x = true -> forall n l, existsb p (insert_at n x l) = true.
Proof.
  intros A p x Hx. induction n as [|n IH]; intros l; [cbn; now rewrite Hx|].
  destruct l as [|y r]; [cbn; now rewrite Hx|]. cbn [insert_at existsb]. rewrite IH. apply orb_true_r.
Qed.

Lemma insert_at_not_nil : forall {A} n (x : A) l, insert_at n x l <> [].
Proof. intros A [|n] x [|y r]; discriminate. Qed.

Section Sim.
Variable E : env.
Variable fx fi fd : bool.
Variable v : version.
Variable ist : list attr -> istyle.
Variable cm us : bool.
Variable mcpos rrpos : nat.

Notation V := (vns v).

Lemma conv_id_name : forall a, a_name (conv_id cm a) = a_name a.
Proof.
  intros a. unfold conv_id. destruct (cm && attr_is "id" a) eqn:Ec; [|reflexivity].
  apply andb_true_iff in Ec. destruct Ec as [_ Ec]. unfold attr_is in Ec. apply andb_true_iff in Ec.
  destruct Ec as [_ Ec]. apply String.eqb_eq in Ec. cbn. now rewrite Ec.
Qed.

Lemma conv_units_attr_name : forall a, a_name (conv_units_attr cm us a) = a_name a.
Proof.
  intros a. unfold conv_units_attr. destruct (attr_is "units" a) eqn:Eu; [|apply conv_id_name].
  unfold attr_is in Eu. apply andb_true_iff in Eu. destruct Eu as [_ Eu]. apply String.eqb_eq in Eu. cbn. now rewrite Eu.
Qed.

Lemma map_names_conv_id : forall l, map a_name (map (conv_id cm) l) = map a_name l.
Proof. intros l. rewrite map_map. apply map_ext. apply conv_id_name. Qed.

Lemma map_names_conv_units_attr : forall l, map a_name (map (conv_units_attr cm us) l) = map a_name l.
Proof. intros l. rewrite map_map. apply map_ext. apply conv_units_attr_name. Qed.

Lemma eff_conv_id : forall al l, names_in al l = true -> eff_attrs (map (conv_id cm) l) = map (conv_id cm) l.
Proof. intros al l H. apply eff_attrs_id. rewrite map_names_conv_id. eapply names_in_distinct; eassumption. Qed.

Lemma is_1x_V : forall nm attrs ks, is_1x nm (Elem V nm attrs ks) = true.
Proof. intros. unfold is_1x, is_element. rewrite String.eqb_refl. destruct v; cbn; rewrite ?andb_true_r; reflexivity. Qed.

Lemma V_not_20 : String.eqb V CELLML_2_0_NS = false.
Proof. destruct v; reflexivity. Qed.

Lemma V_not_mathml : String.eqb V MATHML_NS = false.
Proof. destruct v; reflexivity. Qed.

(** ** the legacy spellings *)
Lemma convert_us_spell : forall s, is_legacy_spelling s = false -> convert_nonsi (us_spell us s) = s.
Proof.
  intros s H. unfold is_legacy_spelling in H. apply orb_false_iff in H. destruct H as [H1 H2].
  unfold us_spell, convert_nonsi. destruct us.
  - destruct (String.eqb s "litre") eqn:E1; [apply String.eqb_eq in E1; subst; reflexivity|].
    destruct (String.eqb s "metre") eqn:E2; [apply String.eqb_eq in E2; subst; reflexivity|].
    now rewrite H1, H2.
  - now rewrite H1, H2.
Qed.

(** pointwise reasoning over an attribute drawn from a fixed list of plain names *)
Ltac attr_cases a Hns Hnm :=
  destruct a as [ans anm aval]; cbn [a_ns a_name a_val] in *; subst ans;
  repeat (destruct Hnm as [Hnm|Hnm]; [subst anm|]); try contradiction.

(** ** unit *)
Lemma unit_attr_sim : forall st a, a_ns a = "" -> In (a_name a) ["units"; "prefix"; "exponent"; "multiplier"; "id"] ->
  units_attr_ok a = true ->
  load_unit_attr1 E st (conv_units_attr cm us a) = load_unit_attr E st a.
Proof.
  intros st a Hns Hnm Hok. attr_cases a Hns Hnm.
  - unfold units_attr_ok in Hok. cbn in Hok. apply negb_true_iff in Hok.
    unfold conv_units_attr, load_unit_attr1, load_unit_attr. cbn. now rewrite convert_us_spell.
  - unfold conv_units_attr, conv_id. cbn. rewrite andb_false_r. reflexivity.
  - unfold conv_units_attr, conv_id. cbn. rewrite andb_false_r. reflexivity.
  - unfold conv_units_attr, conv_id. cbn. rewrite andb_false_r. reflexivity.
  - unfold conv_units_attr, conv_id. cbn. rewrite andb_true_r. destruct cm; reflexivity.
Qed.

Lemma unit_sim : forall x, unit_ok1 x = true -> load_unit1 E fd (conv_unit v cm us x) = load_unit E x.
Proof.
  intros x H. unfold unit_ok1 in H. bsplit_all.
  match goal with H : is_cellml20 "unit" x = true |- _ => apply is_element_inv in H; destruct H as (attrs & ks & ->) end.
  cbn [xml_attrs xml_kids] in *. unfold no_kids in *. cbn [xml_kids] in *. destruct ks; [|discriminate].
  unfold conv_unit, retag, load_unit1, load_unit, xattrs. cbn [xml_attrs xml_kids flat_map app].
  rewrite eff_attrs_id by (rewrite map_names_conv_units_attr; eapply names_in_distinct; eassumption).
  unfold unit_acc0.
  rewrite (fold_left_map_ext (load_unit_attr1 E) (load_unit_attr E) (conv_units_attr cm us)
             (fun a => a_ns a = "" /\ In (a_name a) ["units"; "prefix"; "exponent"; "multiplier"; "id"] /\ units_attr_ok a = true)).
  - reflexivity.
  - intros st a (Qa & Qb & Qc). now apply unit_attr_sim.
  - apply Forall_forall. intros a Ha. edestruct names_in_each as [Qa Qb]; [eassumption|exact Ha|].
    repeat split; try assumption. by_forallb.
Qed.

(** ** name / id loops *)
Lemma nid_attr_sim : forall rule st a, a_ns a = "" -> In (a_name a) ["name"; "id"] ->
  nid_attr1 st (conv_id cm a) = nid_attr rule st a.
Proof.
  intros rule st a Hns Hnm. attr_cases a Hns Hnm.
  - unfold conv_id. cbn. rewrite andb_false_r. reflexivity.
  - unfold conv_id. cbn. rewrite andb_true_r. destruct cm; reflexivity.
Qed.

Lemma nid_attrs_sim : forall rule l, names_in ["name"; "id"] l = true ->
  nid_attrs1 (eff_attrs (map (conv_id cm) l)) = nid_attrs rule l.
Proof.
  intros rule l H. erewrite eff_conv_id by eassumption. unfold nid_attrs1, nid_attrs, nid_acc0.
  apply (fold_left_map_ext nid_attr1 (nid_attr rule) (conv_id cm) (fun a => a_ns a = "" /\ In (a_name a) ["name"; "id"])).
  - intros st a [Qa Qb]. now apply nid_attr_sim.
  - apply Forall_forall. intros a Ha. eapply names_in_each; eassumption.
Qed.

(** ** units *)
Lemma units_kids_sim : forall ks acc, forallb unit_ok1 ks = true ->
  fold_left (load_units_kid1 E fd) (map (fun k => if is_cellml20 "unit" k then conv_unit v cm us k else k) ks) acc
  = fold_left (load_units_kid E) ks acc.
Proof.
  intros ks acc H. apply (fold_left_map_ext _ _ _ (fun k => unit_ok1 k = true)); [|now apply forallb_Forall].
  intros a k Hk. pose proof Hk as Hk'. unfold unit_ok1 in Hk'. bsplit_all.
  match goal with H : is_cellml20 "unit" k = true |- _ => rewrite H; pose proof H as Hi; apply is_element_inv in Hi; destruct Hi as (attrs & ks' & ->) end.
  unfold load_units_kid1, load_units_kid.
  replace (is_1x "unit" (conv_unit v cm us (Elem CELLML_2_0_NS "unit" attrs ks'))) with true by (symmetry; apply is_1x_V).
  match goal with H : is_cellml20 "unit" _ = true |- _ => rewrite H end.
  now rewrite unit_sim.
Qed.

Lemma units_sim : forall x, units_ok1 x = true -> load_units1 E fd (conv_units v cm us x) = load_units E x.
Proof.
  intros x H. unfold units_ok1 in H. bsplit_all.
  match goal with H : is_cellml20 "units" x = true |- _ => apply is_element_inv in H; destruct H as (attrs & ks & ->) end.
  cbn [xml_attrs xml_kids] in *. unfold conv_units, load_units1, load_units, xattrs. cbn [xml_attrs xml_kids].
  rewrite (nid_attrs_sim "UNITS_ELEMENT") by assumption. rewrite units_kids_sim by assumption. reflexivity.
Qed.

(** ** variable: the interface merge *)
Hypothesis Hstyle : style_ok ist fi.

Definition plain4 : list string := ["name"; "id"; "units"; "initial_value"].

Lemma var_attr_sim : forall st a, a_ns a = "" -> In (a_name a) plain4 -> units_attr_ok a = true ->
  load_variable_attr1 fi st (conv_units_attr cm us a) = load_variable_attr st a.
Proof.
  intros st a Hns Hnm Hok. unfold plain4 in Hnm. attr_cases a Hns Hnm.
  - unfold conv_units_attr, conv_id. cbn. rewrite andb_false_r. reflexivity.
  - unfold conv_units_attr, conv_id. cbn. rewrite andb_true_r. destruct cm; reflexivity.
  - unfold units_attr_ok in Hok. cbn in Hok. apply negb_true_iff in Hok.
    unfold conv_units_attr, load_variable_attr1, load_variable_attr. cbn. now rewrite convert_us_spell.
  - unfold conv_units_attr, conv_id. cbn. rewrite andb_false_r. reflexivity.
Qed.

Lemma var_attr_keeps_iface : forall st a, a_ns a = "" -> In (a_name a) plain4 ->
  v_iface (va_v (load_variable_attr st a)) = v_iface (va_v st).
Proof. intros st a Hns Hnm. unfold plain4 in Hnm. attr_cases a Hns Hnm; reflexivity. Qed.

Lemma var_fold_keeps_iface : forall l st, (forall a, In a l -> a_ns a = "" /\ In (a_name a) plain4) ->
  v_iface (va_v (fold_left load_variable_attr l st)) = v_iface (va_v st).
Proof.
  induction l as [|a r IH]; intros st H; [reflexivity|]. cbn [fold_left].
  rewrite IH by (intros; apply H; now right). apply var_attr_keeps_iface; apply H; now left.
Qed.

Lemma grants_in_out : forall b : bool, grants fi (if b then "out" else "in") = true.
Proof. intros b. unfold grants. destruct b; cbn; now rewrite andb_false_r. Qed.

Lemma grants_none : fi = true -> grants fi "none" = false.
Proof. intros ->. reflexivity. Qed.

Lemma iface_block : forall s val st, v_iface (va_v st) = "" -> iface_expressible val = true ->
  (fi = true \/ is_none s = false) ->
  fold_left (load_variable_attr1 fi) (iface_attrs s val) st
  = if String.eqb val "" then st else set_v st (set_iface (va_v st) val).
Proof.
  intros [pf nn po pr] val [[vn vi vu vin vif] hn hu iss] Hif Hval Hst. cbn in Hif. subst vif.
  unfold iface_expressible in Hval. cbn [is_none] in Hst.
  assert (Hn : nn = true -> grants fi "none" = false).
  { intros ->. destruct Hst as [Hst|Hst]; [now apply grants_none|discriminate]. }
  repeat (apply orb_true_iff in Hval; destruct Hval as [Hval|Hval]); apply String.eqb_eq in Hval; subst val;
    unfold iface_attrs; cbn [iface_pub iface_priv String.eqb Ascii.eqb Bool.eqb orb is_priv_first is_none is_pub_out is_priv_out];
    destruct pf, nn; cbn [app fold_left];
      unfold load_variable_attr1; cbn [attr_is at_ a_ns a_name a_val String.eqb Ascii.eqb Bool.eqb andb va_v];
      rewrite ?grants_in_out, ?Hn by reflexivity; reflexivity.
Qed.

Lemma split_iface : forall l, names_distinct (map a_name l) = true -> (forall a, In a l -> a_ns a = "") ->
  existsb (attr_is "interface") l = false
  \/ exists pre a post, l = pre ++ a :: post /\ attr_is "interface" a = true
                       /\ existsb (attr_is "interface") pre = false /\ existsb (attr_is "interface") post = false.
Proof.
  induction l as [|b r IH]; intros Hd Hns; [now left|].
  cbn [map] in Hd. rewrite names_distinct_cons in Hd. apply andb_true_iff in Hd. destruct Hd as [Hb Hr].
  destruct (attr_is "interface" b) eqn:Eb.
  - right. exists [], b, r. repeat split; try assumption; try reflexivity.
    destruct (existsb (attr_is "interface") r) eqn:Er; [|reflexivity]. exfalso.
    apply existsb_exists in Er. destruct Er as (c & Hc & Ec).
    apply negb_true_iff in Hb. rewrite existsb_eqb_false in Hb. apply Hb.
    unfold attr_is in Eb, Ec. apply andb_true_iff in Eb, Ec. destruct Eb as [_ Eb], Ec as [_ Ec].
    apply String.eqb_eq in Eb, Ec. rewrite Eb, <- Ec. now apply in_map.
  - destruct (IH Hr (fun a Ha => Hns a (or_intror Ha))) as [Hn|(pre & a & post & -> & Ha & Hpre & Hpost)].
    + left. cbn [existsb]. now rewrite Eb, Hn.
    + right. exists (b :: pre), a, post. repeat split; try assumption. cbn [existsb]. now rewrite Eb, Hpre.
Qed.

Lemma no_iface_plain4 : forall l, (forall a, In a l -> a_ns a = "" /\ In (a_name a) ["name"; "id"; "units"; "interface"; "initial_value"]) ->
  existsb (attr_is "interface") l = false -> forall a, In a l -> a_ns a = "" /\ In (a_name a) plain4.
Proof.
  intros l H Hn a Ha. destruct (H a Ha) as [Hns Hnm]. split; [assumption|].
  assert (Hni : attr_is "interface" a = false).
  { destruct (attr_is "interface" a) eqn:Ei; [|reflexivity]. rewrite <- Hn. symmetry. apply existsb_exists. eauto. }
  unfold attr_is in Hni. rewrite Hns in Hni. cbn in Hni. unfold plain4.
  cbn in Hnm. cbn. destruct Hnm as [Hnm|[Hnm|[Hnm|[Hnm|[Hnm|[]]]]]]; try tauto.
  rewrite <- Hnm in Hni. discriminate.
Qed.

Lemma flat_map_no_iface : forall s l, existsb (attr_is "interface") l = false ->
  flat_map (fun a => if attr_is "interface" a then iface_attrs s (a_val a) else [conv_units_attr cm us a]) l
  = map (conv_units_attr cm us) l.
Proof.
  intros s. induction l as [|a r IH]; intros H; [reflexivity|].
  cbn [existsb] in H. apply orb_false_iff in H. destruct H as [Ha Hr]. cbn [flat_map map]. rewrite Ha, IH by assumption. reflexivity.
Qed.

Lemma iface_attrs_names : forall s val n, In n (map a_name (iface_attrs s val)) -> n = "public_interface" \/ n = "private_interface".
Proof.
  intros [pf nn po pr] val n. unfold iface_attrs. cbn [is_priv_first is_none is_pub_out is_priv_out].
  destruct (iface_pub val), (iface_priv val), nn, pf; cbn; intuition.
Qed.

Lemma iface_attrs_distinct : forall s val, names_distinct (map a_name (iface_attrs s val)) = true.
Proof.
  intros [pf nn po pr] val. unfold iface_attrs. cbn [is_priv_first is_none is_pub_out is_priv_out].
  destruct (iface_pub val), (iface_priv val), nn, pf; reflexivity.
Qed.

Lemma plain4_not_iface_name : forall n, In n plain4 -> n <> "public_interface" /\ n <> "private_interface".
Proof. intros n H. unfold plain4 in H. cbn in H. intuition; subst; discriminate. Qed.

Lemma names_plain4 : forall l, (forall a, In a l -> a_ns a = "" /\ In (a_name a) plain4) ->
  forall n, In n (map a_name (map (conv_units_attr cm us) l)) -> In n plain4.
Proof.
  intros l H n Hn. rewrite map_names_conv_units_attr in Hn. apply in_map_iff in Hn. destruct Hn as (a & <- & Ha). now apply H.
Qed.

Lemma var_attrs_sim : forall l,
  names_in ["name"; "id"; "units"; "interface"; "initial_value"] l = true ->
  forallb iface_attr_ok l = true -> forallb units_attr_ok l = true ->
  fold_left (load_variable_attr1 fi) (eff_attrs (conv_var_attrs ist cm us l)) var_acc0
  = fold_left load_variable_attr l var_acc0.
Proof.
  intros l Hn Hi Hu.
  assert (Hall : forall a, In a l -> a_ns a = "" /\ In (a_name a) ["name"; "id"; "units"; "interface"; "initial_value"]).
  { intros a Ha. eapply names_in_each; eassumption. }
  pose proof (names_in_distinct _ _ Hn) as Hd.
  assert (Hst : fi = true \/ is_none (ist l) = false).
  { destruct Hstyle as [Hs|Hs]; [now left|right; apply Hs]. }
  assert (Hpt : forall l0 st, (forall a, In a l0 -> In a l) -> (forall a, In a l0 -> a_ns a = "" /\ In (a_name a) plain4) ->
                 fold_left (load_variable_attr1 fi) (map (conv_units_attr cm us) l0) st = fold_left load_variable_attr l0 st).
  { intros l0 st Hsub Hp. apply (fold_left_map_ext _ _ _ (fun a => a_ns a = "" /\ In (a_name a) plain4 /\ units_attr_ok a = true)).
    - intros st0 a (Qa & Qb & Qc). now apply var_attr_sim.
    - apply Forall_forall. intros a Ha. destruct (Hp a Ha). repeat split; try assumption.
      exact (proj1 (forallb_forall _ _) Hu a (Hsub a Ha)). }
  destruct (split_iface l Hd (fun a Ha => proj1 (Hall a Ha))) as [Hno|(pre & a & post & Hl & Ha & Hpre & Hpost)].
  - (* no interface attribute: the trailing explicit "none" attributes grant nothing *)
    pose proof (no_iface_plain4 l Hall Hno) as Hp.
    unfold conv_var_attrs. rewrite Hno, flat_map_no_iface by assumption.
    rewrite eff_attrs_id.
    + rewrite fold_left_app, Hpt by auto. rewrite iface_block; [reflexivity| |reflexivity|assumption].
      rewrite var_fold_keeps_iface by assumption. reflexivity.
    + rewrite map_app. apply names_distinct_app. split; [now rewrite map_names_conv_units_attr|].
      split; [apply iface_attrs_distinct|].
      intros n Hn1 Hn2. apply names_plain4 in Hn1; [|assumption]. apply plain4_not_iface_name in Hn1.
      apply iface_attrs_names in Hn2. tauto.
  - assert (Hex : existsb (attr_is "interface") l = true).
    { apply existsb_exists. exists a. split; [rewrite Hl; apply in_or_app; right; now left|assumption]. }
    assert (Hsub1 : forall b, In b pre -> In b l) by (intros; rewrite Hl; apply in_or_app; now left).
    assert (Hsub2 : forall b, In b post -> In b l) by (intros; rewrite Hl; apply in_or_app; right; now right).
    pose proof (no_iface_plain4 pre (fun b Hb => Hall b (Hsub1 b Hb)) Hpre) as Hp1.
    pose proof (no_iface_plain4 post (fun b Hb => Hall b (Hsub2 b Hb)) Hpost) as Hp2.
    assert (Hval : iface_expressible (a_val a) = true).
    { assert (Hia : iface_attr_ok a = true) by (apply (proj1 (forallb_forall _ _) Hi); rewrite Hl; apply in_or_app; right; now left).
      unfold iface_attr_ok in Hia. rewrite Ha in Hia. exact Hia. }
    unfold conv_var_attrs. set (s := ist l) in *. rewrite Hex, app_nil_r.
    rewrite Hl at 1. rewrite flat_map_app. cbn [flat_map]. rewrite Ha, !flat_map_no_iface by assumption.
    rewrite eff_attrs_id.
    + rewrite Hl. rewrite !fold_left_app, Hpt by auto. cbn [fold_left].
      rewrite iface_block; [| |assumption|assumption].
      * rewrite Hpt by auto. f_equal.
        (* the 2.0 loader on interface="val" *)
        destruct a as [ans anm av]. unfold attr_is in Ha. cbn [a_ns a_name a_val] in *. apply andb_true_iff in Ha.
        destruct Ha as [Ha1 Ha2]. apply String.eqb_eq in Ha1, Ha2. subst ans anm.
        destruct (String.eqb av "") eqn:Eav.
        -- apply String.eqb_eq in Eav. subst av.
           remember (fold_left load_variable_attr pre var_acc0) as st0 eqn:Est0.
           assert (Hif0 : v_iface (va_v st0) = "") by (subst st0; rewrite var_fold_keeps_iface by assumption; reflexivity).
           destruct st0 as [[vn vi vu vin vif] hn hu iss]. cbn in Hif0. subst vif. reflexivity.
        -- reflexivity.
      * rewrite Hpt by auto. rewrite var_fold_keeps_iface by assumption. reflexivity.
    + rewrite !map_app. apply names_distinct_app.
      assert (Hdl : names_distinct (map a_name pre ++ a_name a :: map a_name post) = true).
      { rewrite Hl in Hd. now rewrite map_app in Hd. }
      apply names_distinct_app in Hdl. destruct Hdl as (Hd1 & Hd2 & Hd3).
      rewrite names_distinct_cons in Hd2. apply andb_true_iff in Hd2. destruct Hd2 as [_ Hd2].
      split; [now rewrite map_names_conv_units_attr|]. split.
      * apply names_distinct_app. split; [apply iface_attrs_distinct|]. split; [now rewrite map_names_conv_units_attr|].
        intros n Hn1 Hn2. apply names_plain4 in Hn2; [|assumption]. apply plain4_not_iface_name in Hn2.
        apply iface_attrs_names in Hn1. tauto.
      * intros n Hn1 Hn2. apply in_app_or in Hn2. destruct Hn2 as [Hn2|Hn2].
        -- apply names_plain4 in Hn1; [|assumption]. apply plain4_not_iface_name in Hn1. apply iface_attrs_names in Hn2. tauto.
        -- rewrite map_names_conv_units_attr in Hn1, Hn2. eapply Hd3; [exact Hn1|]. now right.
Qed.

Lemma var_sim : forall x, var_ok1 x = true -> load_variable1 fi (conv_variable v ist cm us x) = load_variable x.
Proof.
  intros x H. unfold var_ok1 in H. bsplit_all.
  match goal with H : is_cellml20 "variable" x = true |- _ => apply is_element_inv in H; destruct H as (attrs & ks & ->) end.
  cbn [xml_attrs xml_kids] in *. unfold no_kids in *. cbn [xml_kids] in *. destruct ks; [|discriminate].
  unfold conv_variable, load_variable1, load_variable, xattrs. cbn [xml_attrs xml_kids flat_map app].
  rewrite var_attrs_sim by assumption. reflexivity.
Qed.

(** ** MathML: moving cellml:units to the 1.x namespace and back *)
Definition is20 (a : attr) : bool := String.eqb (a_ns a) CELLML_2_0_NS.
Definition toV (a : attr) : attr := mkAttr V (a_name a) (a_val a).

Lemma last_ok_split : forall l, last_ok l = true ->
  exists l1 l2, l = l1 ++ l2 /\ forallb (fun a => negb (is20 a)) l1 = true /\ forallb is20 l2 = true.
Proof.
  induction l as [|a r IH]; intros H; [exists [], []; repeat split|].
  cbn [last_ok] in H. destruct (String.eqb (a_ns a) CELLML_2_0_NS) eqn:Ea.
  - exists [], (a :: r). repeat split. unfold is20. cbn [forallb]. rewrite Ea. exact H.
  - destruct (IH H) as (l1 & l2 & -> & H1 & H2). exists (a :: l1), l2. repeat split; [|assumption].
    cbn [forallb]. unfold is20 at 1. now rewrite Ea, H1.
Qed.

Lemma conv_math_attr_not20 : forall a, is20 a = false -> conv_math_attr v a = a.
Proof. intros a H. unfold conv_math_attr. unfold is20 in H. now rewrite H. Qed.

Lemma conv_math_attr_20 : forall a, is20 a = true -> conv_math_attr v a = toV a.
Proof. intros a H. unfold conv_math_attr. unfold is20 in H. now rewrite H. Qed.

Lemma ns_is_1x_V : ns_is_1x V = true.
Proof. destruct v; reflexivity. Qed.

Lemma map_names_toV : forall l, map a_name (map toV l) = map a_name l.
Proof. intros l. rewrite map_map. reflexivity. Qed.

Lemma remove_attr_mid : forall a p q, (forall c, In c p -> a_name c <> a_name a) -> remove_attr a (p ++ a :: q) = p ++ q.
Proof.
  intros a p q. induction p as [|c r IH]; intros H.
  - cbn. unfold attr_same. now rewrite !String.eqb_refl.
  - cbn [app remove_attr]. unfold attr_same at 1.
    assert (Hc : String.eqb (a_name a) (a_name c) = false).
    { apply String.eqb_neq. intros He. apply (H c); [now left|now symmetry]. }
    rewrite Hc, andb_false_r. f_equal. apply IH. intros; apply H; now right.
Qed.

Lemma existsb_attr_is_ns_false : forall ns nm l, (forall c, In c l -> a_name c = nm -> a_ns c <> ns) ->
  existsb (attr_is_ns ns nm) l = false.
Proof.
  intros ns nm l H. destruct (existsb (attr_is_ns ns nm) l) eqn:Ex; [|reflexivity]. exfalso.
  apply existsb_exists in Ex. destruct Ex as (c & Hc & Ec). unfold attr_is_ns in Ec. apply andb_true_iff in Ec.
  destruct Ec as [E1 E2]. apply String.eqb_eq in E1, E2. now apply (H c Hc).
Qed.

Lemma distinct_name_unique : forall l a c, names_distinct (map a_name l) = true -> In a l -> In c l -> a_name c = a_name a -> c = a.
Proof.
  induction l as [|b r IH]; intros a c Hd Ha Hc He; [contradiction|].
  cbn [map] in Hd. rewrite names_distinct_cons in Hd. apply andb_true_iff in Hd. destruct Hd as [Hb Hr].
  apply negb_true_iff in Hb. rewrite existsb_eqb_false in Hb.
  destruct Ha as [->|Ha], Hc as [->|Hc]; try reflexivity.
  - exfalso. apply Hb. rewrite <- He. now apply in_map.
  - exfalso. apply Hb. rewrite He. now apply in_map.
  - now apply IH.
Qed.

Lemma move_back : forall l1 rest done,
  names_distinct (map a_name (l1 ++ rest ++ done)) = true -> forallb is20 rest = true ->
  fold_left move_attr (map toV rest) (l1 ++ map toV rest ++ done) = l1 ++ done ++ rest.
Proof.
  intros l1 rest. revert l1. induction rest as [|b r IH]; intros l1 done Hd H20.
  - cbn. now rewrite app_nil_r.
  - cbn [forallb] in H20. apply andb_true_iff in H20. destruct H20 as [Hb Hr].
    cbn [map fold_left app].
    set (L := l1 ++ toV b :: map toV r ++ done).
    assert (HdL : names_distinct (map a_name L) = true).
    { unfold L. rewrite map_app. cbn [map]. rewrite map_app, map_names_toV.
      rewrite map_app in Hd. cbn [app map] in Hd. now rewrite map_app in Hd. }
    assert (HinL : In (toV b) L) by (unfold L; apply in_or_app; right; now left).
    unfold move_attr at 2. rewrite first_val_self by assumption. cbn [toV a_name a_val].
    unfold set_ns_prop. rewrite existsb_attr_is_ns_false.
    2:{ intros c Hc Hn. pose proof (distinct_name_unique L (toV b) c HdL HinL Hc Hn) as ->. cbn [toV a_ns].
        intros HV. pose proof V_not_20 as HV'. rewrite HV in HV'. rewrite String.eqb_refl in HV'. discriminate. }
    assert (Hbb : mkAttr CELLML_2_0_NS (a_name b) (a_val b) = b).
    { destruct b as [bn bm bv]. unfold is20 in Hb. cbn in Hb. apply String.eqb_eq in Hb. now subst. }
    rewrite Hbb. unfold L. rewrite <- app_assoc. cbn [app].
    rewrite remove_attr_mid.
    2:{ intros c Hc He. assert (HcL : In c L) by (unfold L; apply in_or_app; now left).
        pose proof (distinct_name_unique L (toV b) c HdL HinL HcL He) as ->.
        (* toV b would occur twice in L *)
        unfold L in HdL. rewrite map_app in HdL. apply names_distinct_app in HdL. destruct HdL as (_ & _ & Hdis).
        eapply Hdis; [apply in_map; exact Hc|]. cbn [map]. now left. }
    replace ((map toV r ++ done) ++ [b]) with (map toV r ++ (done ++ [b])) by now rewrite app_assoc.
    rewrite IH; [now rewrite <- !app_assoc|  |assumption].
    (* a permutation of the same names *)
    apply names_distinct_NoDup. apply names_distinct_NoDup in Hd.
    eapply Permutation.Permutation_NoDup; [|exact Hd].
    rewrite !map_app. cbn [map app]. apply Permutation.Permutation_app_head.
    rewrite app_assoc. apply Permutation.Permutation_cons_append.
Qed.

Lemma rewrite_conv_attrs : forall l, math_attrs_ok l = true -> rewrite_attrs (map (conv_math_attr v) l) = l.
Proof.
  intros l H. unfold math_attrs_ok in H. bsplit_all.
  match goal with H : last_ok l = true |- _ => destruct (last_ok_split l H) as (l1 & l2 & -> & Q1 & Q2) end.
  assert (Hm1 : map (conv_math_attr v) l1 = l1).
  { apply map_id_ext. intros a Ha. apply conv_math_attr_not20. apply negb_true_iff. exact (proj1 (forallb_forall _ _) Q1 a Ha). }
  assert (Hm2 : map (conv_math_attr v) l2 = map toV l2).
  { apply map_ext_in. intros a Ha. apply conv_math_attr_20. exact (proj1 (forallb_forall _ _) Q2 a Ha). }
  rewrite map_app, Hm1, Hm2. unfold rewrite_attrs.
  assert (Hf : filter (fun a => ns_is_1x (a_ns a)) (l1 ++ map toV l2) = map toV l2).
  { rewrite filter_app.
    match goal with H : forallb (fun a => negb (ns_is_1x (a_ns a))) _ = true |- _ => rewrite forallb_app in H; apply andb_true_iff in H; destruct H as [Hn1 _] end.
    assert (Hf1 : filter (fun a => ns_is_1x (a_ns a)) l1 = []).
    { clear - Hn1. induction l1 as [|a r IH]; [reflexivity|]. cbn [forallb] in Hn1. apply andb_true_iff in Hn1. destruct Hn1 as [Ha Hr].
      cbn [filter]. apply negb_true_iff in Ha. rewrite Ha. now apply IH. }
    rewrite Hf1. cbn [app]. clear. induction l2 as [|a r IH]; [reflexivity|]. cbn [map filter toV a_ns]. rewrite ns_is_1x_V. now rewrite IH. }
  rewrite Hf. replace (l1 ++ map toV l2) with (l1 ++ map toV l2 ++ []) by now rewrite app_nil_r.
  rewrite move_back; [reflexivity| |assumption]. now rewrite app_nil_r.
Qed.

Lemma rewrite_below_elem : forall ns nm attrs ks,
  rewrite_below (Elem ns nm attrs ks) = Elem ns nm (rewrite_attrs attrs) (map rewrite_below ks).
Proof. reflexivity. Qed.

Lemma conv_below_elem : forall ns nm attrs ks,
  conv_below v (Elem ns nm attrs ks) = Elem ns nm (map (conv_math_attr v) attrs) (map (conv_below v) ks).
Proof. reflexivity. Qed.

Lemma below_ok_elem : forall ns nm attrs ks, below_ok (Elem ns nm attrs ks) = math_attrs_ok attrs && forallb below_ok ks.
Proof. reflexivity. Qed.

Lemma rewrite_conv_below : forall x, below_ok x = true -> rewrite_below (conv_below v x) = x.
Proof.
  induction x as [ns nm attrs ks IH| |] using xml_ind'; intros H; try reflexivity.
  rewrite below_ok_elem in H. apply andb_true_iff in H. destruct H as [Ha Hk].
  rewrite conv_below_elem, rewrite_below_elem, rewrite_conv_attrs by assumption. f_equal.
  rewrite map_map. apply map_id_ext. intros k Hin. rewrite Forall_forall in IH. apply IH; [assumption|]. by_forallb.
Qed.

Lemma math_sim : forall x, math_ok1 x = true -> rewrite_math (conv_math v x) = x.
Proof.
  intros x H. unfold math_ok1 in H. apply andb_true_iff in H. destruct H as [Hm Hk].
  apply is_element_inv in Hm. destruct Hm as (attrs & ks & ->). cbn [xml_kids] in Hk.
  unfold conv_math, rewrite_math. f_equal. rewrite map_map. apply map_id_ext. intros k Hin. apply rewrite_conv_below. by_forallb.
Qed.

(** ** element tests on converted elements *)
Lemma is_1x_other_name : forall nm nm' ns attrs ks, String.eqb nm' nm = false -> is_1x nm (Elem ns nm' attrs ks) = false.
Proof. intros. unfold is_1x, is_element. rewrite H, !andb_false_r. reflexivity. Qed.

Lemma is_20_V : forall nm nm' attrs ks, is_cellml20 nm (Elem V nm' attrs ks) = false.
Proof. intros. unfold is_cellml20, is_element. now rewrite V_not_20. Qed.

Lemma is_mathml_V : forall nm nm' attrs ks, is_mathml nm (Elem V nm' attrs ks) = false.
Proof. intros. unfold is_mathml, is_element. now rewrite V_not_mathml. Qed.

Lemma is_cellml_any_V : forall nm attrs ks, is_cellml_any nm (Elem V nm attrs ks) = true.
Proof. intros. unfold is_cellml_any, is_element. rewrite String.eqb_refl. destruct v; reflexivity. Qed.

(** ** component *)
Lemma comp_kid_sim : forall st k, var_ok1 k || math_ok1 k = true ->
  load_component_kid1 E fi st (conv_component_kid v ist cm us k) = load_component_kid E st k.
Proof.
  intros st k H. apply orb_true_iff in H. destruct H as [H|H].
  - pose proof H as Hv. unfold var_ok1 in Hv. bsplit_all.
    match goal with Hc : is_cellml20 "variable" k = true |- _ => pose proof Hc as Hi; apply is_element_inv in Hi; destruct Hi as (attrs & ks & ->) end.
    unfold conv_component_kid.
    match goal with Hc : is_cellml20 "variable" _ = true |- _ => rewrite Hc end.
    unfold load_component_kid1, load_component_kid.
    replace (is_cellml_any "variable" (conv_variable v ist cm us (Elem CELLML_2_0_NS "variable" attrs ks))) with true
      by (symmetry; apply is_cellml_any_V).
    replace (is_cellml_any "variable" (Elem CELLML_2_0_NS "variable" attrs ks)) with true by reflexivity.
    now rewrite var_sim.
  - pose proof H as Hm. unfold math_ok1 in Hm. apply andb_true_iff in Hm. destruct Hm as [Hm _].
    apply is_element_inv in Hm. destruct Hm as (attrs & ks & ->).
    unfold conv_component_kid. replace (is_cellml20 "variable" (Elem MATHML_NS "math" attrs ks)) with false by reflexivity.
    replace (is_mathml "math" (Elem MATHML_NS "math" attrs ks)) with true by reflexivity.
    rewrite <- (math_sim _ H) at 2.
    unfold load_component_kid1, load_component_kid, conv_math, rewrite_math. reflexivity.
Qed.

Lemma comp_kid_no_units : forall k, var_ok1 k || math_ok1 k = true -> is_1x "units" (conv_component_kid v ist cm us k) = false.
Proof.
  intros k H. apply orb_true_iff in H. destruct H as [H|H].
  - unfold var_ok1 in H. bsplit_all.
    match goal with Hc : is_cellml20 "variable" k = true |- _ => pose proof Hc as Hi; apply is_element_inv in Hi; destruct Hi as (attrs & ks & ->) end.
    unfold conv_component_kid. match goal with Hc : is_cellml20 "variable" _ = true |- _ => rewrite Hc end.
    apply is_1x_other_name. reflexivity.
  - unfold math_ok1 in H. apply andb_true_iff in H. destruct H as [Hm _]. apply is_element_inv in Hm. destruct Hm as (attrs & ks & ->).
    apply is_1x_other_name. reflexivity.
Qed.

Lemma comp_sim : forall x, comp_ok1 x = true ->
  load_component1 E fi (conv_component v ist cm us x) = load_component E x
  /\ units_from_component E fd (conv_component v ist cm us x) = ([], []).
Proof.
  intros x H. unfold comp_ok1 in H. bsplit_all.
  match goal with Hc : is_cellml20 "component" x = true |- _ => apply is_element_inv in Hc; destruct Hc as (attrs & ks & ->) end.
  cbn [xml_attrs xml_kids] in *. split.
  - unfold conv_component, load_component1, load_component, xattrs. cbn [xml_attrs xml_kids].
    rewrite (nid_attrs_sim "COMPONENT_ELEMENT") by assumption.
    rewrite (fold_left_map_ext (load_component_kid1 E fi) (load_component_kid E) (conv_component_kid v ist cm us)
               (fun k => var_ok1 k || math_ok1 k = true)); [reflexivity| |now apply forallb_Forall].
    intros st k Hk. now apply comp_kid_sim.
  - unfold units_from_component, conv_component. cbn [xml_kids].
    match goal with Hk : forallb _ ks = true |- _ => revert Hk end. generalize (@nil units, @nil issue).
    induction ks as [|k r IH]; intros acc Hk; [reflexivity|].
    cbn [forallb] in Hk. apply andb_true_iff in Hk. destruct Hk as [Hk1 Hk2].
    cbn [map fold_left]. rewrite comp_kid_no_units by assumption. now apply IH.
Qed.

(** ** import *)
Lemma import_attr_sim : forall st a, import_attr_ok a = true -> load_import_attr1 st (conv_id cm a) = load_import_attr st a.
Proof.
  intros st [ans anm av] H. unfold import_attr_ok in H. apply orb_true_iff in H. destruct H as [H|H].
  - unfold attr_is_ns in H. cbn [a_ns a_name] in H. apply andb_true_iff in H. destruct H as [H1 H2].
    apply String.eqb_eq in H1, H2. subst. unfold conv_id. cbn. rewrite andb_false_r. reflexivity.
  - unfold attr_is in H. cbn [a_ns a_name] in H. apply andb_true_iff in H. destruct H as [H1 H2].
    apply String.eqb_eq in H1, H2. subst. unfold conv_id. cbn. rewrite andb_true_r. destruct cm; reflexivity.
Qed.

Lemma ient_attr_sim_c : forall st a, a_ns a = "" -> In (a_name a) ["name"; "id"; "component_ref"] ->
  load_ient_attr1 "component_ref" "IMPORT_COMPONENT_ELEMENT" st (conv_id cm a) = load_ient_attr "component_ref" "IMPORT_COMPONENT_ELEMENT" st a.
Proof.
  intros st a Hns Hnm. attr_cases a Hns Hnm.
  - unfold conv_id. cbn. rewrite andb_false_r. reflexivity.
  - unfold conv_id. cbn. rewrite andb_true_r. destruct cm; reflexivity.
  - unfold conv_id. cbn. rewrite andb_false_r. reflexivity.
Qed.

Lemma ient_attr_sim_u : forall st a, a_ns a = "" -> In (a_name a) ["name"; "id"; "units_ref"] ->
  load_ient_attr1 "units_ref" "IMPORT_UNITS_ELEMENT" st (conv_id cm a) = load_ient_attr "units_ref" "IMPORT_UNITS_ELEMENT" st a.
Proof.
  intros st a Hns Hnm. attr_cases a Hns Hnm.
  - unfold conv_id. cbn. rewrite andb_false_r. reflexivity.
  - unfold conv_id. cbn. rewrite andb_true_r. destruct cm; reflexivity.
  - unfold conv_id. cbn. rewrite andb_false_r. reflexivity.
Qed.

Definition import_kid_ok (k : xml) : bool :=
  (is_cellml20 "component" k && names_in ["name"; "id"; "component_ref"] (xml_attrs k))
  || (is_cellml20 "units" k && names_in ["name"; "id"; "units_ref"] (xml_attrs k)).

Lemma import_kid_sim : forall src st k, import_kid_ok k = true ->
  load_import_kid1 src st (if is_cellml20 "component" k || is_cellml20 "units" k then retag v (conv_id cm) k else k)
  = load_import_kid src st k.
Proof.
  intros src st k H. unfold import_kid_ok in H. apply orb_true_iff in H. destruct H as [H|H]; apply andb_true_iff in H; destruct H as [Hc Hn].
  - pose proof Hc as Hi. apply is_element_inv in Hi. destruct Hi as (attrs & ks & ->). rewrite Hc. cbn [orb xml_attrs] in *.
    unfold retag, load_import_kid1, load_import_kid. rewrite is_1x_V, Hc.
    unfold load_ient1, load_ient, xattrs. cbn [xml_attrs]. erewrite eff_conv_id by eassumption. unfold ient_acc0.
    rewrite (fold_left_map_ext _ (load_ient_attr "component_ref" "IMPORT_COMPONENT_ELEMENT") (conv_id cm)
               (fun a => a_ns a = "" /\ In (a_name a) ["name"; "id"; "component_ref"])); [reflexivity| |].
    + intros st0 a [Qa Qb]. now apply ient_attr_sim_c.
    + apply Forall_forall. intros a Ha. eapply names_in_each; eassumption.
  - pose proof Hc as Hi. apply is_element_inv in Hi. destruct Hi as (attrs & ks & ->). rewrite Hc, orb_true_r. cbn [xml_attrs] in *.
    unfold retag, load_import_kid1, load_import_kid. rewrite is_1x_V.
    rewrite (is_1x_other_name "component" "units") by reflexivity.
    replace (is_cellml20 "component" (Elem CELLML_2_0_NS "units" attrs ks)) with false by reflexivity. rewrite Hc.
    unfold load_ient1, load_ient, xattrs. cbn [xml_attrs]. erewrite eff_conv_id by eassumption. unfold ient_acc0.
    rewrite (fold_left_map_ext _ (load_ient_attr "units_ref" "IMPORT_UNITS_ELEMENT") (conv_id cm)
               (fun a => a_ns a = "" /\ In (a_name a) ["name"; "id"; "units_ref"])); [reflexivity| |].
    + intros st0 a [Qa Qb]. now apply ient_attr_sim_u.
    + apply Forall_forall. intros a Ha. eapply names_in_each; eassumption.
Qed.

Lemma import_sim : forall tag x, import_ok1 x = true -> load_import1 tag (conv_import v cm x) = load_import tag x.
Proof.
  intros tag x H. unfold import_ok1 in H. bsplit_all.
  match goal with Hc : is_cellml20 "import" x = true |- _ => apply is_element_inv in Hc; destruct Hc as (attrs & ks & ->) end.
  cbn [xml_attrs xml_kids] in *. unfold conv_import, load_import1, load_import, xattrs. cbn [xml_attrs xml_kids].
  rewrite eff_attrs_id by (rewrite map_names_conv_id; assumption). unfold imp_acc0, ikids_acc0.
  rewrite (fold_left_map_ext load_import_attr1 load_import_attr (conv_id cm) (fun a => import_attr_ok a = true));
    [|intros; now apply import_attr_sim|now apply forallb_Forall].
  set (a := fold_left load_import_attr attrs _).
  rewrite (fold_left_map_ext _ (load_import_kid {| is_tag := tag; is_url := ia_url a; is_id := ia_id a |}) _ (fun k => import_kid_ok k = true)).
  - destruct ks; reflexivity.
  - intros st k Hk. now apply import_kid_sim.
  - now apply forallb_Forall.
Qed.

(** ** encapsulation: component_ref trees *)
Fixpoint cref_kids1 (l : list xml) (parent : option component) (st : enc_st) : option component * enc_st :=
  match l with
  | [] => (parent, st)
  | k :: r =>
    if is_1x "component_ref" k then
      match load_cref1 fd k st with
      | (Some child, st') =>
        match parent with
        | Some p => cref_kids1 r (Some (add_kid p child)) st'
        | None => cref_kids1 r None {| es_comps := es_comps st' ++ [child]; es_used := es_used st'; es_issues := es_issues st' |}
        end
      | (None, st') => cref_kids1 r parent st'
      end
    else cref_kids1 r parent (es_issue st (stray_fd fd "COMPONENT_REF_CHILD" k))
  end.

Lemma load_cref1_unfold : forall ns nm attrs ks st,
  load_cref1 fd (Elem ns nm attrs ks) st =
    let a := fold_left load_cref_attr1 (eff_attrs attrs) {| ca_parent := None; ca_name := ""; ca_encid := ""; ca_st := st |} in
    let st1 := match ca_parent a with
               | None => if nonempty (ca_name a) then ca_st a
                         else es_issue (ca_st a) [err "COMPONENT_REF_COMPONENT_ATTRIBUTE"]
               | Some _ => ca_st a
               end in
    let parent1 := option_map (fun p => set_encid p (ca_encid a)) (ca_parent a) in
    cref_kids1 ks parent1 st1.
Proof. intros. reflexivity. Qed.

Lemma conv_cref_elem : forall ns nm attrs ks,
  conv_cref v cm (Elem ns nm attrs ks) = Elem V nm (map (conv_id cm) attrs) (map (conv_cref_kid v cm) ks).
Proof. intros. reflexivity. Qed.

Lemma cref_ok1_elem : forall ns nm attrs ks,
  cref_ok1 (Elem ns nm attrs ks) = is_cellml20 "component_ref" (Elem ns nm attrs ks) && names_in ["component"; "id"] attrs && forallb cref_ok1 ks.
Proof. reflexivity. Qed.

Lemma cref_attr_sim : forall acc a, a_ns a = "" -> In (a_name a) ["component"; "id"] ->
  load_cref_attr1 acc (conv_id cm a) = load_cref_attr acc a.
Proof.
  intros acc a Hns Hnm. attr_cases a Hns Hnm.
  - unfold conv_id. cbn. rewrite andb_false_r. reflexivity.
  - unfold conv_id. cbn. rewrite andb_true_r. destruct cm; reflexivity.
Qed.

Lemma cref_sim : forall x, cref_ok1 x = true -> forall st, load_cref1 fd (conv_cref v cm x) st = load_cref x st.
Proof.
  induction x as [ns nm attrs ks IH| |] using xml_ind'; intros H st; try discriminate.
  rewrite cref_ok1_elem in H. bsplit_all.
  match goal with Hc : is_cellml20 "component_ref" _ = true |- _ => pose proof Hc as Hi; apply is_element_inv in Hi; destruct Hi as (a0 & k0 & Hi); injection Hi as -> -> _ _ end.
  rewrite conv_cref_elem, load_cref1_unfold, load_cref_unfold.
  erewrite eff_conv_id by eassumption.
  rewrite (fold_left_map_ext load_cref_attr1 load_cref_attr (conv_id cm) (fun a => a_ns a = "" /\ In (a_name a) ["component"; "id"])).
  2:{ intros acc a [Qa Qb]. now apply cref_attr_sim. }
  2:{ apply Forall_forall. intros a Ha. eapply names_in_each; eassumption. }
  cbv zeta.
  set (a := fold_left load_cref_attr attrs _).
  generalize (option_map (fun p => set_encid p (ca_encid a)) (ca_parent a)).
  generalize (match ca_parent a with
              | Some _ => ca_st a
              | None => if nonempty (ca_name a) then ca_st a else es_issue (ca_st a) [err "COMPONENT_REF_COMPONENT_ATTRIBUTE"]
              end).
  clear a.
  match goal with Hc : is_cellml20 "component_ref" _ = true |- _ => clear Hc end.
  match goal with Hk : forallb cref_ok1 ks = true |- _ => revert Hk end.
  induction ks as [|k r IHr]; intros Hk st1 parent; [reflexivity|].
  cbn [forallb] in Hk. apply andb_true_iff in Hk. destruct Hk as [Hk1 Hk2].
  inversion IH as [|? ? IHk IHrest]; subst.
  cbn [map cref_kids1 cref_kids].
  assert (Hc20 : is_cellml20 "component_ref" k = true).
  { destruct k as [kn km ka kk| |]; try discriminate. rewrite cref_ok1_elem in Hk1. bsplit_all. assumption. }
  assert (Hck : conv_cref_kid v cm k = conv_cref v cm k) by (unfold conv_cref_kid; now rewrite Hc20).
  rewrite Hck, Hc20.
  assert (H1x : is_1x "component_ref" (conv_cref v cm k) = true).
  { pose proof Hc20 as Hi. apply is_element_inv in Hi. destruct Hi as (ka & kk & ->). rewrite conv_cref_elem. apply is_1x_V. }
  rewrite H1x, (IHk Hk1).
  destruct (load_cref k st1) as [[child|] st']; [destruct parent|]; apply IHr; assumption.
Qed.

Lemma enc_kids_sim : forall ks st, forallb cref_ok1 ks = true ->
  fold_left (load_encapsulation_kid1 fd) (map (conv_cref_kid v cm) ks) st = fold_left load_encapsulation_kid ks st.
Proof.
  intros ks st H. apply (fold_left_map_ext _ _ _ (fun k => cref_ok1 k = true)); [|now apply forallb_Forall].
  intros st0 k Hk.
  assert (Hc20 : is_cellml20 "component_ref" k = true).
  { destruct k as [kn km ka kk| |]; try discriminate. rewrite cref_ok1_elem in Hk. bsplit_all. assumption. }
  unfold conv_cref_kid, load_encapsulation_kid1, load_encapsulation_kid. rewrite Hc20.
  assert (H1x : is_1x "component_ref" (conv_cref v cm k) = true).
  { pose proof Hc20 as Hi. apply is_element_inv in Hi. destruct Hi as (ka & kk & ->). rewrite conv_cref_elem. apply is_1x_V. }
  now rewrite H1x, cref_sim.
Qed.

Lemma enc_sim : forall cs x, enc_ok1 x = true ->
  load_encapsulation1 fd cs (conv_encapsulation v cm rrpos x) = load_encapsulation cs x.
Proof.
  intros cs x H. unfold enc_ok1 in H. bsplit_all.
  match goal with Hc : is_cellml20 "encapsulation" x = true |- _ => apply is_element_inv in Hc; destruct Hc as (attrs & ks & ->) end.
  cbn [xml_attrs xml_kids] in *. unfold conv_encapsulation, load_encapsulation1, load_encapsulation. cbn [xml_kids].
  assert (Hrr : forall st, load_encapsulation_kid1 fd st (relationship_ref v) = st).
  { intros st. unfold load_encapsulation_kid1, relationship_ref.
    rewrite (is_1x_other_name "component_ref" "relationship_ref") by reflexivity. now rewrite is_1x_V. }
  rewrite (fold_insert_at _ _ Hrr), enc_kids_sim by assumption. reflexivity.
Qed.

Lemma enc_is_rel : forall x, is_enc_rel (conv_encapsulation v cm rrpos x) = true \/ (forall ns nm a k, x <> Elem ns nm a k).
Proof.
  intros [ns nm attrs ks| |]; [left|right; discriminate|right; discriminate].
  unfold conv_encapsulation, is_enc_rel. cbn [xml_kids]. apply existsb_insert_at.
  unfold relationship_ref. rewrite is_1x_V. reflexivity.
Qed.

(** ** connection *)
Lemma conn_attr_sim : forall st a, a_ns a = "" -> In (a_name a) ["component_1"; "component_2"; "id"] ->
  load_conn_attr1 st (conv_id cm a) = load_conn_attr st a.
Proof.
  intros st a Hns Hnm. attr_cases a Hns Hnm.
  - unfold conv_id. cbn. rewrite andb_false_r. reflexivity.
  - unfold conv_id. cbn. rewrite andb_false_r. reflexivity.
  - unfold conv_id. cbn. rewrite andb_true_r. destruct cm; reflexivity.
Qed.

Lemma mv_attr_sim : forall st a, a_ns a = "" -> In (a_name a) ["variable_1"; "variable_2"; "id"] ->
  load_mv_attr1 st (conv_id cm a) = load_mv_attr st a.
Proof.
  intros st a Hns Hnm. attr_cases a Hns Hnm.
  - unfold conv_id. cbn. rewrite andb_false_r. reflexivity.
  - unfold conv_id. cbn. rewrite andb_false_r. reflexivity.
  - unfold conv_id. cbn. rewrite andb_true_r. destruct cm; reflexivity.
Qed.

Lemma conn_kid_sim : forall st k, mapvar_ok1 k = true ->
  load_conn_kid1 fx fd st (if is_cellml20 "map_variables" k then retag v (conv_id cm) k else k) = load_conn_kid fx st k.
Proof.
  intros st k H. unfold mapvar_ok1 in H. bsplit_all.
  match goal with Hc : is_cellml20 "map_variables" k = true |- _ => pose proof Hc as Hi; apply is_element_inv in Hi; destruct Hi as (attrs & ks & ->); rewrite Hc end.
  cbn [xml_attrs xml_kids] in *. unfold no_kids in *. cbn [xml_kids] in *. destruct ks; [|discriminate].
  unfold retag, load_conn_kid1, load_conn_kid, xattrs. cbn [xml_kids xml_attrs flat_map]. rewrite is_1x_V.
  replace (is_cellml20 "map_variables" (Elem CELLML_2_0_NS "map_variables" attrs [])) with true by reflexivity.
  erewrite eff_conv_id by eassumption. unfold mv_acc0.
  rewrite (fold_left_map_ext load_mv_attr1 load_mv_attr (conv_id cm) (fun a => a_ns a = "" /\ In (a_name a) ["variable_1"; "variable_2"; "id"])).
  - reflexivity.
  - intros st0 a [Qa Qb]. now apply mv_attr_sim.
  - apply Forall_forall. intros a Ha. eapply names_in_each; eassumption.
Qed.

Lemma conn_sim : forall st x, conn_ok1 x = true ->
  load_connection1 fx fd st (conv_connection v cm mcpos x) = load_connection fx st x.
Proof.
  intros st x H. unfold conn_ok1 in H. bsplit_all.
  match goal with Hc : is_cellml20 "connection" x = true |- _ => apply is_element_inv in Hc; destruct Hc as (attrs & ks & ->) end.
  cbn [xml_attrs xml_kids] in *. unfold no_kids in *. cbn [xml_kids] in *.
  destruct ks as [|k0 ks']; [discriminate|].
  unfold conv_connection, load_connection1, load_connection, To1xDefs.V. cbn [xml_kids].
  set (mc := Elem V "map_components" (map (conv_id cm) attrs) []).
  set (cmv := fun k : xml => if is_cellml20 "map_variables" k then retag v (conv_id cm) k else k).
  assert (Hfind : find (is_1x "map_components") (insert_at mcpos mc (map cmv (k0 :: ks'))) = Some mc).
  { apply find_insert_at; [apply is_1x_V|]. intros y Hy. apply in_map_iff in Hy. destruct Hy as (k & <- & Hk).
    assert (Hmk : mapvar_ok1 k = true) by by_forallb. unfold mapvar_ok1 in Hmk. bsplit_all.
    match goal with Hc : is_cellml20 "map_variables" k = true |- _ => pose proof Hc as Hi; apply is_element_inv in Hi; destruct Hi as (a1 & k1 & ->) end.
    unfold cmv. replace (is_cellml20 "map_variables" (Elem CELLML_2_0_NS "map_variables" a1 k1)) with true by reflexivity.
    unfold retag. apply is_1x_other_name. reflexivity. }
  assert (Hx : xattrs mc = map (conv_id cm) attrs) by (unfold mc, xattrs; cbn [xml_attrs]; eapply eff_conv_id; eassumption).
  rewrite Hfind, Hx. unfold conn_attrs0.
  rewrite (fold_left_map_ext load_conn_attr1 load_conn_attr (conv_id cm) (fun a => a_ns a = "" /\ In (a_name a) ["component_1"; "component_2"; "id"])).
  2:{ intros st0 a [Qa Qb]. now apply conn_attr_sim. }
  2:{ apply Forall_forall. intros a Ha. eapply names_in_each; eassumption. }
  assert (Hmc : forall st0, load_conn_kid1 fx fd st0 mc = st0).
  { intros [m f m1 m2 u is]. unfold load_conn_kid1, mc. cbn [xml_kids flat_map].
    rewrite (is_1x_other_name "map_variables" "map_components") by reflexivity. cbn. now rewrite !app_nil_r. }
  rewrite (fold_insert_at _ _ Hmc).
  rewrite (fold_left_map_ext (load_conn_kid1 fx fd) (load_conn_kid fx) _ (fun k => mapvar_ok1 k = true));
    [reflexivity|intros; now apply conn_kid_sim|now apply forallb_Forall].
Qed.

(** ** the model *)
Lemma is_20_other_name : forall nm nm' ns attrs ks, String.eqb nm' nm = false -> is_cellml20 nm (Elem ns nm' attrs ks) = false.
Proof. intros. unfold is_cellml20, is_element. now rewrite H, andb_false_r. Qed.

Definition cv (st : model_acc) : model_acc :=
  {| ma_units := ma_units st; ma_comps := ma_comps st; ma_imports := ma_imports st; ma_encid := ma_encid st;
     ma_encs := map (conv_encapsulation v cm rrpos) (ma_encs st); ma_conns := map (conv_connection v cm mcpos) (ma_conns st);
     ma_issues := ma_issues st |}.

Definition acc_inv (st : model_acc) : Prop :=
  Forall (fun e => enc_ok1 e = true) (ma_encs st) /\ Forall (fun c => conn_ok1 c = true) (ma_conns st).

Lemma Forall_snoc : forall {A} (P : A -> Prop) l x, Forall P l -> P x -> Forall P (l ++ [x]).
Proof. intros. apply Forall_app. split; [assumption|now constructor]. Qed.

Lemma model_kid_sim : forall st k, model_kid_ok1 k = true -> acc_inv st ->
  load_model_kid1 E fi fd (cv st) (conv_model_kid v ist cm us mcpos rrpos k) = cv (load_model_kid E st k)
  /\ acc_inv (load_model_kid E st k).
Proof.
  intros st k H [Ie Ic]. unfold model_kid_ok1 in H.
  repeat (apply orb_true_iff in H; destruct H as [H|H]).
  - (* import *)
    pose proof H as Hok. unfold import_ok1 in H. bsplit_all.
    match goal with Hc : is_cellml20 "import" k = true |- _ => apply is_element_inv in Hc; destruct Hc as (attrs & ks & ->) end.
    unfold conv_model_kid. replace (is_cellml20 "import" (Elem CELLML_2_0_NS "import" attrs ks)) with true by reflexivity.
    unfold load_model_kid1, load_model_kid.
    rewrite (is_20_other_name "component" "import"), (is_20_other_name "units" "import") by reflexivity.
    replace (is_cellml20 "import" (Elem CELLML_2_0_NS "import" attrs ks)) with true by reflexivity.
    assert (Hci : conv_import v cm (Elem CELLML_2_0_NS "import" attrs ks)
                  = Elem V "import" (map (conv_id cm) attrs)
                         (map (fun k => if is_cellml20 "component" k || is_cellml20 "units" k then retag v (conv_id cm) k else k) ks)) by reflexivity.
    rewrite Hci. rewrite (is_1x_other_name "component" "import"), (is_1x_other_name "units" "import") by reflexivity.
    rewrite is_1x_V, <- Hci. cbn [cv ma_imports]. rewrite import_sim by assumption.
    destruct (load_import (ma_imports st) (Elem CELLML_2_0_NS "import" attrs ks)) as [[us0 cs0] is0].
    split; [reflexivity|]. split; assumption.
  - (* units *)
    pose proof H as Hok. unfold units_ok1 in H. bsplit_all.
    match goal with Hc : is_cellml20 "units" k = true |- _ => apply is_element_inv in Hc; destruct Hc as (attrs & ks & ->) end.
    unfold conv_model_kid. rewrite (is_20_other_name "import" "units") by reflexivity.
    replace (is_cellml20 "units" (Elem CELLML_2_0_NS "units" attrs ks)) with true by reflexivity.
    unfold load_model_kid1, load_model_kid.
    rewrite (is_20_other_name "component" "units") by reflexivity.
    replace (is_cellml20 "units" (Elem CELLML_2_0_NS "units" attrs ks)) with true by reflexivity.
    assert (Hcu : exists a' k', conv_units v cm us (Elem CELLML_2_0_NS "units" attrs ks) = Elem V "units" a' k') by (unfold conv_units; eauto).
    destruct Hcu as (a' & k' & Hcu). rewrite Hcu. rewrite (is_1x_other_name "component" "units") by reflexivity.
    rewrite is_1x_V, <- Hcu, units_sim by assumption.
    split; [reflexivity|]. split; assumption.
  - (* component *)
    pose proof H as Hok. unfold comp_ok1 in H. bsplit_all.
    match goal with Hc : is_cellml20 "component" k = true |- _ => apply is_element_inv in Hc; destruct Hc as (attrs & ks & ->) end.
    unfold conv_model_kid. rewrite (is_20_other_name "import" "component"), (is_20_other_name "units" "component") by reflexivity.
    replace (is_cellml20 "component" (Elem CELLML_2_0_NS "component" attrs ks)) with true by reflexivity.
    unfold load_model_kid1, load_model_kid.
    replace (is_cellml20 "component" (Elem CELLML_2_0_NS "component" attrs ks)) with true by reflexivity.
    assert (Hcc : exists a' k', conv_component v ist cm us (Elem CELLML_2_0_NS "component" attrs ks) = Elem V "component" a' k') by (unfold conv_component; eauto).
    destruct Hcc as (a' & k' & Hcc). rewrite Hcc. rewrite is_1x_V, <- Hcc.
    destruct (comp_sim _ Hok) as [Hc1 Hc2]. rewrite Hc1, Hc2. cbn [fst snd cv ma_units ma_comps ma_issues]. rewrite !app_nil_r.
    split; [reflexivity|]. split; assumption.
  - (* connection *)
    pose proof H as Hok. unfold conn_ok1 in H. bsplit_all.
    match goal with Hc : is_cellml20 "connection" k = true |- _ => apply is_element_inv in Hc; destruct Hc as (attrs & ks & ->) end.
    unfold conv_model_kid. rewrite (is_20_other_name "import" "connection"), (is_20_other_name "units" "connection"),
      (is_20_other_name "component" "connection") by reflexivity.
    replace (is_cellml20 "connection" (Elem CELLML_2_0_NS "connection" attrs ks)) with true by reflexivity.
    unfold load_model_kid1, load_model_kid.
    rewrite (is_20_other_name "component" "connection"), (is_20_other_name "units" "connection"),
      (is_20_other_name "import" "connection"), (is_20_other_name "encapsulation" "connection") by reflexivity.
    replace (is_cellml20 "connection" (Elem CELLML_2_0_NS "connection" attrs ks)) with true by reflexivity.
    assert (Hcc : exists k', conv_connection v cm mcpos (Elem CELLML_2_0_NS "connection" attrs ks) = Elem V "connection" [] k') by (unfold conv_connection; eauto).
    destruct Hcc as (k' & Hcc). rewrite Hcc.
    rewrite (is_1x_other_name "component" "connection"), (is_1x_other_name "units" "connection"),
      (is_1x_other_name "import" "connection"), (is_1x_other_name "group" "connection") by reflexivity.
    rewrite !is_20_V, is_1x_V, <- Hcc.
    split; [unfold cv; cbn [ma_units ma_comps ma_imports ma_encid ma_encs ma_conns ma_issues]; now rewrite map_app|].
    split; [assumption|]. cbn [ma_conns]. now apply Forall_snoc.
  - (* encapsulation *)
    pose proof H as Hok. unfold enc_ok1 in H. bsplit_all.
    match goal with Hc : is_cellml20 "encapsulation" k = true |- _ => apply is_element_inv in Hc; destruct Hc as (attrs & ks & ->) end.
    cbn [xml_attrs xml_kids] in *. destruct attrs; [|discriminate]. unfold no_kids in *. cbn [xml_kids] in *.
    destruct ks as [|k0 ks']; [discriminate|].
    unfold conv_model_kid. rewrite (is_20_other_name "import" "encapsulation"), (is_20_other_name "units" "encapsulation"),
      (is_20_other_name "component" "encapsulation"), (is_20_other_name "connection" "encapsulation") by reflexivity.
    replace (is_cellml20 "encapsulation" (Elem CELLML_2_0_NS "encapsulation" [] (k0 :: ks'))) with true by reflexivity.
    unfold load_model_kid1, load_model_kid.
    rewrite (is_20_other_name "component" "encapsulation"), (is_20_other_name "units" "encapsulation"),
      (is_20_other_name "import" "encapsulation") by reflexivity.
    replace (is_cellml20 "encapsulation" (Elem CELLML_2_0_NS "encapsulation" [] (k0 :: ks'))) with true by reflexivity.
    destruct (enc_is_rel (Elem CELLML_2_0_NS "encapsulation" [] (k0 :: ks'))) as [Hrel|Hno]; [|exfalso; eapply Hno; reflexivity].
    rewrite Hrel.
    assert (Hcc : exists a' k', conv_encapsulation v cm rrpos (Elem CELLML_2_0_NS "encapsulation" [] (k0 :: ks')) = Elem V "group" a' k') by (unfold conv_encapsulation; eauto).
    destruct Hcc as (a' & k' & Hcc). rewrite Hcc.
    rewrite (is_1x_other_name "component" "group"), (is_1x_other_name "units" "group"), (is_1x_other_name "import" "group") by reflexivity.
    rewrite !is_20_V, is_1x_V, <- Hcc. cbn [xml_attrs xml_kids fold_left fst snd].
    split; [unfold cv; cbn [ma_units ma_comps ma_imports ma_encid ma_encs ma_conns ma_issues]; now rewrite map_app, app_nil_r|].
    split; [|assumption]. cbn [ma_encs]. now apply Forall_snoc.
Qed.

Lemma model_kids_sim : forall ks st, forallb model_kid_ok1 ks = true -> acc_inv st ->
  fold_left (load_model_kid1 E fi fd) (map (conv_model_kid v ist cm us mcpos rrpos) ks) (cv st) = cv (fold_left (load_model_kid E) ks st)
  /\ acc_inv (fold_left (load_model_kid E) ks st).
Proof.
  induction ks as [|k r IH]; intros st H Hi; [split; [reflexivity|assumption]|].
  cbn [forallb] in H. apply andb_true_iff in H. destruct H as [Hk Hr].
  cbn [map fold_left]. destruct (model_kid_sim st k Hk Hi) as [Hs Hi']. rewrite Hs. now apply IH.
Qed.

Lemma conns_sim : forall cs st, Forall (fun c => conn_ok1 c = true) cs ->
  fold_left (load_connection1 fx fd) (map (conv_connection v cm mcpos) cs) st = fold_left (load_connection fx) cs st.
Proof.
  intros cs st H. apply (fold_left_map_ext _ _ _ (fun c => conn_ok1 c = true)); [|assumption].
  intros st0 c Hc. now apply conn_sim.
Qed.

(** THE SIMULATION: on every tree of the class [conv_ok] without namespace issue, the permissive parser applied to the
    1.x rewriting returns the model the strict 2.0 parser returns on the tree itself, and the same issues after the
    one transformation message *)
Theorem sim_load : forall t, conv_ok t = true -> namespace_issues t = [] ->
  load1x E fx fi fd false (conv1x v ist cm us false mcpos rrpos t)
  = (fst (load E fx true t), msg :: snd (load E fx true t)).
Proof.
  intros t H Hns. unfold conv_ok in H. bsplit_all.
  match goal with Hc : is_cellml20 "model" t = true |- _ => pose proof Hc as Hm; apply is_element_inv in Hc; destruct Hc as (attrs & ks & ->) end.
  cbn [xml_attrs xml_kids] in *.
  unfold load1x, conv1x. rewrite is_20_V, is_1x_V. cbn [negb andb].
  unfold load. rewrite Hm, Hns. unfold load_1x_root, xattrs. cbn [xml_attrs xml_kids].
  rewrite (nid_attrs_sim "MODEL_ELEMENT") by assumption.
  assert (Hname : na_has_name (nid_attrs "MODEL_ELEMENT" attrs) = true) by (apply nid_has_name; now right).
  rewrite Hname.
  assert (Hinv0 : acc_inv {| ma_units := []; ma_comps := []; ma_imports := 0; ma_encid := ""; ma_encs := []; ma_conns := []; ma_issues := [] |})
    by (split; constructor).
  match goal with Hk : forallb model_kid_ok1 ks = true |- _ => destruct (model_kids_sim ks _ Hk Hinv0) as [Hs [Ie Ic]] end.
  change model_acc0 with (cv {| ma_units := []; ma_comps := []; ma_imports := 0; ma_encid := ""; ma_encs := []; ma_conns := []; ma_issues := [] |}).
  rewrite Hs.
  set (k := fold_left (load_model_kid E) ks _) in *.
  cbn [cv ma_units ma_comps ma_imports ma_encid ma_encs ma_conns ma_issues].
  destruct (ma_encs k) as [|e r] eqn:Ek.
  - cbn [map]. rewrite conns_sim by assumption. reflexivity.
  - cbn [map]. inversion Ie; subst. cbv zeta. rewrite enc_sim by assumption. rewrite conns_sim by assumption.
    destruct r; reflexivity.
Qed.

End Sim.
