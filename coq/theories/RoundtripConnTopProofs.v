(** RoundtripConnTopProofs.v — stage 4 of the C02 plan: models with connections (and any encapsulation hierarchy),
    no imports.  Assembly of loadModel over the printed tree: units, components, connection elements, encapsulation;
    then loadEncapsulation, then the fold of loadConnection over the printed connections (RoundtripConnProofs), with the
    premises about buildMaps discharged from RoundtripMapsProofs / RoundtripPathProofs. *)
From Coq Require Import String Ascii List Bool ZArith Arith Lia Permutation.
From LC Require Import Common NumDefs XmlDefs EntTreeDefs PrintDefs LoadDefs RoundtripSpec XmlTextProofs
     RoundtripReadProofs RoundtripLoadProofs RoundtripFlatProofs RoundtripEncProofs RoundtripOrderProofs
     RoundtripMapsProofs RoundtripPathProofs RoundtripConnProofs.
Import ListNotations.
Local Open Scope string_scope.
Local Open Scope bool_scope.
Local Open Scope list_scope.

Opaque str_ok num_ok order_ok math_ok.

Section Top.
Variable E : env.

Lemma model_conns_fold : forall cs groups us cs1 n e encs conns is,
  (forall g, In g groups -> exists x rest, g = x :: rest) ->
  fold_left (load_model_kid E) (map (render_group ident cs) groups) (ma_of us cs1 n e encs conns is)
  = ma_of us cs1 n e encs (conns ++ map (render_group ident cs) groups) is.
Proof.
  intros cs. induction groups as [|g r IH]; intros us cs1 n e encs conns is Hne; [cbn; now rewrite app_nil_r|].
  destruct (Hne g (or_introl eq_refl)) as (x & rest & ->). cbn [map fold_left].
  assert (Hk : load_model_kid E (ma_of us cs1 n e encs conns is) (render_group ident cs (x :: rest))
               = ma_of us cs1 n e encs (conns ++ [render_group ident cs (x :: rest)]) is) by reflexivity.
  rewrite Hk. rewrite IH by (intros; apply Hne; now right). rewrite <- app_assoc. reflexivity.
Qed.

Theorem load_print_tree_conn : forall m, printable E true m -> no_imports m = true ->
  let cs := m_comps m in
  let G := map (canon_comp E) (enc_order cs) in
  let groups := conn_groups (build_maps m) [] in
  NoDup (map (fun pc => cname (snd pc)) (all_comps cs)) ->
  NoDup (names (flat_map dfs G)) ->
  (forall p c, comp_at cs p = Some c -> exists q, comp_at G q = Some (canon_comp E c) /\ names_along G q = names_along cs p) ->
  (forall p c, comp_at cs p = Some c ->
     nonempty (cname c) = true /\ is_import_comp c = false /\ NoDup (map v_name (c_vars (shell c)))
     /\ (forall x, In x (c_vars (shell c)) -> nonempty (v_name x) = true)) ->
  groups_ok cs [] groups ->
  load E true true (print_tree E m)
  = ({| m_name := m_name m; m_id := m_id m; m_encid := m_encid m; m_units := map (canon_units E) (m_units m);
        m_comps := G; m_eqv := add_list [] (flat_map (fun g => map (Re cs G (gcid g)) g) groups) |}, []).
Proof.
  intros m H Hni cs0 G groups HcsN HGN HGF HcsOK Hgok.
  assert (Hgne : forall g, In g groups -> exists x rest, g = x :: rest).
  { intros g Hg. destruct (conn_groups_uniform _ _ _ Hg) as (x & rest & -> & _). eauto. }
  assert (Hclean : clean (print_tree E m) = true).
  { unfold printable, printableb in H. bsplit_all. apply clean_print_tree. assumption. }
  pose proof (clean_no_namespace_issues (print_tree E m) Hclean) as Hns.
  unfold printable, printableb in H. bsplit_all.
  set (cs := m_comps m) in *. set (roots := filter haskids cs).
  set (L := map (leaf E) (flat_map dfs cs)).
  (* facts *)
  assert (Henc : forallb (fun c => match kids c with [] => negb (nonempty (c_encid (shell c))) | _ => true end) cs = true
                 /\ existsb (fun c => match kids c with [] => false | _ => true end) cs || negb (nonempty (m_encid m)) = true).
  { match goal with He : enc_ids_representable m = true |- _ => unfold enc_ids_representable in He; apply andb_true_iff in He; exact He end. }
  destruct Henc as [Henc1 Henc2].
  assert (Hnd : NoDup (names (flat_map dfs cs))).
  { match goal with Hd : names_distinct _ = true |- _ => apply names_distinct_NoDup in Hd; rewrite <- map_map in Hd end.
    unfold all_comps in *. rewrite all_comps_dfs in *. assumption. }
  assert (Hnimp : forallb (fun d => negb (is_import_comp d)) (flat_map dfs cs) = true).
  { unfold no_imports in Hni. apply andb_true_iff in Hni. destruct Hni as [_ Hc]. unfold all_comps in Hc.
    rewrite <- (all_comps_dfs cs [] 0), forallb_map. exact Hc. }
  assert (Hniu : forallb (fun u => negb (is_import_units u)) (m_units m) = true).
  { unfold no_imports in Hni. apply andb_true_iff in Hni. tauto. }
  assert (Hconds : conds E (flat_map dfs roots) L []).
  { constructor.
    - intros d Hd. apply in_map. eapply incl_filter_dfs. exact Hd.
    - unfold L. rewrite (map_leaf_names E). exact Hnd.
    - intros d _ [].
    - apply NoDup_names_filter. exact Hnd.
    - intros d Hd. apply incl_filter_dfs in Hd.
      match goal with Hc : forallb (comp_ok E true (m_units m)) cs = true |- _ => pose proof (dfs_list_ok E _ _ _ Hc Hd) as Hok end.
      destruct d as [s ks]. rewrite comp_ok_unfold in Hok. apply andb_true_iff in Hok. destruct Hok as [Hs _].
      eapply shell_ok_named. exact Hs. }
  (* the tree *)
  assert (Htree : print_tree E m = el "model" (opt_attr ident "name" (m_name m) ++ opt_attr ident "id" (m_id m))
                    (flat_map (print_units E ident) (m_units m) ++ flat_map (print_component E ident ident) cs
                     ++ map (render_group ident cs) groups
                     ++ match map (print_encapsulation ident) roots with
                        | [] => []
                        | _ => [el "encapsulation" (opt_attr ident "id" (m_encid m)) (map (print_encapsulation ident) roots)]
                        end)).
  { unfold print_tree, print_gen. rewrite no_imports_print_imports by assumption.
    rewrite print_connections_groups. rewrite enc_list_roots. cbn [app]. reflexivity. }
  rewrite Htree in *. rewrite load_el_model. cbv zeta. rewrite Hns.
  rewrite !fold_left_app.
  rewrite (model_units_fold E (m_units m)) by assumption.
  rewrite (model_comps_fold_h E (m_units m) cs) by assumption. cbn [app]. fold L.
  rewrite (model_conns_fold cs groups) by exact Hgne. cbn [app].
  rewrite model_attrs by assumption.
  (* final forest in closed form, whichever way *)
  assert (Hfinal : remove_names (names (flat_map dfs roots)) L ++ map (canon_comp E) roots = map (canon_comp E) (enc_order cs)).
  { unfold L, roots. rewrite (untouched_leaves E) by exact Hnd. unfold enc_order. rewrite map_app. f_equal.
    clear - Henc1. induction cs as [|c cs0 IH]; [reflexivity|].
    cbn [forallb] in Henc1. apply andb_true_iff in Henc1. destruct Henc1 as [Hc Hcs]. cbn [filter].
    unfold haskids at 1. destruct c as [s ks]. cbn [kids] in *. destruct ks; cbn [negb map]; [|now apply IH].
    rewrite IH by exact Hcs. f_equal. unfold leaf. cbn [shell canon_comp map]. f_equal.
    apply negb_true_iff in Hc. apply nonempty_false in Hc. cbn [shell] in Hc.
    unfold strip_encid. cbn. unfold canon_shell. rewrite Hc. reflexivity. }
  assert (Hk : forallb (fun c => match kids c with [] => false | _ => true end) roots = true).
  { unfold roots. apply forallb_forall. intros c Hc. apply filter_In in Hc. destruct Hc as [_ Hc]. exact Hc. }
  destruct roots as [|r0 rs] eqn:Eroots.
  - (* no hierarchy at all: no encapsulation element *)
    cbn [map fold_left]. unfold ma_of.
    cbn [ma_units ma_comps ma_imports ma_encid ma_encs ma_conns ma_issues na_name na_id na_has_name na_issues
         fst snd app fold_left cs_comps cs_eqv cs_used cs_issues].
    cbn [flat_map names map] in Hfinal. rewrite remove_names_keep in Hfinal by (intros ? ? []). rewrite app_nil_r in Hfinal.
    rewrite Hfinal. fold cs0. fold G.
    change {| cs_comps := G; cs_eqv := []; cs_used := []; cs_issues := [] |} with (st_of G [] [] []).
    rewrite (load_groups E cs0 G HcsN HGN HGF HcsOK groups [] [] [] Hgok). unfold st_of. cbn [cs_comps cs_eqv cs_used cs_issues app].
    assert (Hencid : m_encid m = "").
    { assert (Hex : existsb (fun c => match kids c with [] => false | _ => true end) cs = false) by exact (no_roots_no_kids cs Eroots).
      rewrite Hex in Henc2. cbn [orb] in Henc2. apply negb_true_iff in Henc2. now apply nonempty_false. }
    rewrite (link_units_ok E).
    + rewrite Hencid. reflexivity.
    + intros g Hg. unfold G, cs0 in Hg.
      assert (Hg2 : In g (map (canon_comp E) (flat_map dfs (enc_order cs)))).
      { clear - Hg. induction (enc_order cs) as [|c l IH]; [exact Hg|]. cbn [map flat_map] in *. rewrite map_app. apply in_or_app.
        apply in_app_or in Hg. destruct Hg as [Hg|Hg]; [left; rewrite <- (dfs_canon E); exact Hg | right; now apply IH]. }
      apply in_map_iff in Hg2. destruct Hg2 as (d & <- & Hd). exists d. split; [reflexivity|].
      assert (Hd2 : In d (flat_map dfs cs)).
      { apply in_flat_map in Hd. destruct Hd as (c & Hc & Hdc). apply in_flat_map. exists c. split; [|exact Hdc].
        eapply Permutation_in; [apply enc_order_perm | exact Hc]. }
      split; [eapply (dfs_list_ok E); eassumption|].
      rewrite forallb_forall in Hnimp. specialize (Hnimp d Hd2). now apply negb_true_iff in Hnimp.
  - (* the encapsulation element *)
    cbn [map fold_left].
        rewrite kid_encapsulation. unfold ma_of.
    cbn [ma_units ma_comps ma_imports ma_encid ma_encs ma_conns ma_issues na_name na_id na_has_name na_issues
         fst snd app fold_left cs_comps cs_eqv cs_used cs_issues].
    unfold load_encapsulation, el, xml_kids.
    change {| es_comps := L; es_used := []; es_issues := [] |} with (mk_st L [] []).
    change (print_encapsulation ident r0 :: map (print_encapsulation ident) rs) with (map (print_encapsulation ident) (r0 :: rs)).
    rewrite (enc_fold E (r0 :: rs) L [] [] Hk Hconds).
    cbn [mk_st es_comps es_used es_issues fst snd app].
    rewrite (enc_result_eq E) by (apply (c_nodup _ _ _ _ Hconds)). rewrite Hfinal. fold cs0. fold G.
    change {| cs_comps := G; cs_eqv := []; cs_used := []; cs_issues := [] |} with (st_of G [] [] []).
    rewrite (load_groups E cs0 G HcsN HGN HGF HcsOK groups [] [] [] Hgok). unfold st_of. cbn [cs_comps cs_eqv cs_used cs_issues app].
    rewrite (link_units_ok E).
    + reflexivity.
    + intros g Hg. unfold G, cs0 in Hg.
      assert (Hg2 : In g (map (canon_comp E) (flat_map dfs (enc_order cs)))).
      { clear - Hg. induction (enc_order cs) as [|c l IH]; [exact Hg|]. cbn [map flat_map] in *. rewrite map_app. apply in_or_app.
        apply in_app_or in Hg. destruct Hg as [Hg|Hg]; [left; rewrite <- (dfs_canon E); exact Hg | right; now apply IH]. }
      apply in_map_iff in Hg2. destruct Hg2 as (d & <- & Hd). exists d. split; [reflexivity|].
      assert (Hd2 : In d (flat_map dfs cs)).
      { apply in_flat_map in Hd. destruct Hd as (c & Hc & Hdc). apply in_flat_map. exists c. split; [|exact Hdc].
        eapply Permutation_in; [apply enc_order_perm | exact Hc]. }
      split; [eapply (dfs_list_ok E); eassumption|].
      rewrite forallb_forall in Hnimp. specialize (Hnimp d Hd2). now apply negb_true_iff in Hnimp.
Qed.

(** ** the premises about the forest, from printability *)
Lemma sub_at_canon : forall r c, sub_at (canon_comp E c) r = option_map (canon_comp E) (sub_at c r).
Proof.
  induction r as [|i r IH]; intros c; [reflexivity|]. cbn [sub_at]. destruct c as [s ks]. cbn [canon_comp kids].
  rewrite nth_error_map. destruct (nth_error ks i) as [k|]; [apply IH | reflexivity].
Qed.

Lemma names_along_canon : forall r ks, names_along (map (canon_comp E) ks) r = names_along ks r.
Proof.
  induction r as [|i r IH]; intros ks; [reflexivity|]. cbn [names_along]. rewrite nth_error_map.
  destruct (nth_error ks i) as [k|]; [|reflexivity]. cbn [option_map]. rewrite cname_canon. destruct k as [s kk]. cbn [canon_comp kids]. now rewrite IH.
Qed.

Lemma G_names_ok : forall cs, NoDup (names (flat_map dfs cs)) -> NoDup (names (flat_map dfs (map (canon_comp E) (enc_order cs)))).
Proof.
  intros cs H.
  assert (Hm : forall l, names (flat_map dfs (map (canon_comp E) l)) = names (flat_map dfs l)).
  { induction l as [|c l IH]; [reflexivity|]. cbn [map flat_map]. unfold names in *. rewrite !map_app, IH, (dfs_canon E), map_map. f_equal.
    apply map_ext. intros. apply cname_canon. }
  rewrite Hm. eapply Permutation_NoDup; [|exact H]. apply Permutation_map. apply Permutation_flat_map. apply Permutation_sym. apply enc_order_perm.
Qed.

Lemma G_finds_ok : forall cs p c, comp_at cs p = Some c ->
  exists q, comp_at (map (canon_comp E) (enc_order cs)) q = Some (canon_comp E c)
            /\ names_along (map (canon_comp E) (enc_order cs)) q = names_along cs p.
Proof.
  intros cs p c H. destruct p as [|i r]; [discriminate|]. rewrite comp_at_sub in H.
  destruct (nth_error cs i) as [ci|] eqn:En; [|discriminate].
  assert (Hin : In ci (enc_order cs)) by (eapply Permutation_in; [apply Permutation_sym; apply enc_order_perm | eapply nth_error_In; exact En]).
  destruct (In_nth_error _ _ Hin) as (i' & Hi'). exists (i' :: r). split.
  - rewrite comp_at_sub, nth_error_map, Hi'. cbn [option_map]. rewrite sub_at_canon, H. reflexivity.
  - cbn [names_along]. rewrite nth_error_map, Hi', En. cbn [option_map]. rewrite cname_canon. f_equal.
    destruct ci as [s ks]. cbn [canon_comp kids]. apply names_along_canon.
Qed.

Lemma cs_ok_printable : forall m, printable E true m -> no_imports m = true -> forall p c, comp_at (m_comps m) p = Some c ->
  nonempty (cname c) = true /\ is_import_comp c = false /\ NoDup (map v_name (c_vars (shell c)))
  /\ (forall x, In x (c_vars (shell c)) -> nonempty (v_name x) = true).
Proof.
  intros m H Hni p c Hc. unfold printable, printableb in H. bsplit_all.
  match goal with Hk : forallb (comp_ok E true (m_units m)) (m_comps m) = true |- _ => pose proof (comp_at_ok E _ _ _ _ Hk Hc) as Hok end.
  assert (Himp : is_import_comp c = false).
  { unfold no_imports in Hni. apply andb_true_iff in Hni. destruct Hni as [_ Hn]. rewrite forallb_forall in Hn.
    specialize (Hn (p, c) (proj2 (all_comps_comp_at _ p c) Hc)). now apply negb_true_iff in Hn. }
  destruct c as [s ks]. rewrite comp_ok_unfold in Hok. apply andb_true_iff in Hok. destruct Hok as [Hs _]. unfold shell_ok in Hs.
  unfold is_import_comp in Himp. cbn [shell] in Himp. cbn [cname shell]. destruct (c_src s) eqn:Esrc; [discriminate|]. bsplit_all.
  repeat split; try assumption.
  - unfold is_import_comp. cbn [shell]. now rewrite Esrc.
  - match goal with Hd : names_distinct (map v_name (c_vars s)) = true |- _ => now apply names_distinct_NoDup end.
  - intros x Hx. cbn [shell] in Hx. match goal with Hv : forallb (variable_ok true (m_units m)) (c_vars s) = true |- _ => rewrite forallb_forall in Hv; specialize (Hv x Hx); unfold variable_ok in Hv end.
    bsplit_all. assumption.
Qed.

(** ** buildMaps on a printable model: every equivalence exactly once, no two entries in opposite directions *)
Lemma eqv_facts : forall m, printable E true m -> forall e, In e (m_eqv m) ->
  vpath_valid (m_comps m) (e_a e) = true /\ vpath_valid (m_comps m) (e_b e) = true /\ fst (e_a e) <> fst (e_b e).
Proof.
  intros m H e He. unfold printable, printableb in H. bsplit_all.
  match goal with Hq : eqv_ok true m = true |- _ => unfold eqv_ok in Hq end. bsplit_all.
  match goal with Hf : forallb _ (m_eqv m) = true |- _ => rewrite forallb_forall in Hf; specialize (Hf e He) end. bsplit_all.
  repeat split; try assumption.
  intros Hc. match goal with Hn : negb (path_eqb _ _) = true |- _ => rewrite Hc, path_eqb_refl in Hn; discriminate end.
Qed.

Lemma valid_endpoint : forall cs x, vpath_valid cs x = true -> endpoint_ok (all_comps cs) x.
Proof.
  intros cs x H. unfold vpath_valid, var_at in H. destruct (comp_at cs (fst x)) as [c|] eqn:Ec; [|discriminate].
  destruct (nth_error (c_vars (shell c)) (snd x)) as [v|] eqn:Ev; [|discriminate]. split.
  - exists c. now apply all_comps_comp_at.
  - intros c' Hc'. apply all_comps_comp_at in Hc'. rewrite Ec in Hc'. injection Hc' as <-. apply nth_error_Some. rewrite Ev. discriminate.
Qed.

Theorem build_maps_printable : forall m, printable E true m ->
  Permutation (flat_map okey (build_maps m)) (flat_map ekey (m_eqv m))
  /\ (forall x, In x (build_maps m) -> exists e, In e (m_eqv m) /\ touches (me_v1 x) e = true /\ x = mk_entry (me_v1 x) e)
  /\ (forall x y, In x (build_maps m) -> In y (build_maps m) -> ~ (fst (me_v1 x) = fst (me_v2 y) /\ fst (me_v2 x) = fst (me_v1 y))).
Proof.
  intros m H.
  assert (Hl : forall e, In e (m_eqv m) -> e_a e <> e_b e).
  { intros e He Hc. destruct (eqv_facts m H e He) as (_ & _ & Hd). apply Hd. now rewrite Hc. }
  assert (Hd : forall e, In e (m_eqv m) -> fst (e_a e) <> fst (e_b e)) by (intros e He; apply (eqv_facts m H e He)).
  assert (Hp : NoDup (map fst (all_comps (m_comps m)))).
  { apply all_comps_paths_nodup. unfold printable, printableb in H. bsplit_all. now apply names_distinct_NoDup. }
  assert (He : forall e, In e (m_eqv m) -> endpoint_ok (all_comps (m_comps m)) (e_a e) /\ endpoint_ok (all_comps (m_comps m)) (e_b e)).
  { intros e Hin. destruct (eqv_facts m H e Hin) as (Ha & Hb & _). split; now apply valid_endpoint. }
  change (build_maps m) with (maps_of (m_eqv m) (all_comps (m_comps m)) []).
  split; [exact (maps_perm (m_eqv m) Hl Hd (all_comps (m_comps m)) Hp He)|].
  split; [exact (maps_from_edges (m_eqv m) Hl Hd (all_comps (m_comps m)) Hp He) | exact (maps_no_reversed_pairs (m_eqv m) Hl Hd (all_comps (m_comps m)) Hp He)].
Qed.

(** ** stage 4, conditional on the well-formedness of the printed groups *)
Theorem roundtrip_conn_partial : forall m, printable E true m -> no_imports m = true ->
  let cs := m_comps m in
  let G := map (canon_comp E) (enc_order cs) in
  let groups := conn_groups (build_maps m) [] in
  groups_ok cs [] groups ->
  print_model E true m = Some (print_tree E m)
  /\ load E true true (print_tree E m)
     = ({| m_name := m_name m; m_id := m_id m; m_encid := m_encid m; m_units := map (canon_units E) (m_units m);
           m_comps := G; m_eqv := add_list [] (flat_map (fun g => map (Re cs G (gcid g)) g) groups) |}, []).
Proof.
  intros m H Hni cs G groups Hg. split; [now apply print_model_printable|].
  assert (HcsN : NoDup (map (fun pc => cname (snd pc)) (all_comps cs))).
  { unfold printable, printableb in H. bsplit_all. now apply names_distinct_NoDup. }
  apply load_print_tree_conn; try assumption.
  - apply G_names_ok. rewrite <- map_map in HcsN. unfold all_comps in HcsN. rewrite all_comps_dfs in HcsN. exact HcsN.
  - apply G_finds_ok.
  - apply cs_ok_printable; assumption.
Qed.

End Top.
