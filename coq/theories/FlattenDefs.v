(* FlattenDefs.v -- C06: executable model of Importer::flattenModel.  NO PROOFS HERE.

   Transcribed (as the code is with the C06 fix commits applied; every repaired behaviour sits behind one flag of
   [flat_fixes] whose [false] value is the behaviour of the tree before that commit):
     src/importer.cpp   Importer::flattenModel (after the pre-checks), flattenComponentImports, flattenComponent,
                        flattenUnitsImports, retrieveUnitsDependencies, transferUnitsRenamingIfRequired,
                        modelsEquivalentUnits, updateUnitsNameUsages, updateComponentsVariablesUnitsNames
     src/utilities.cpp  componentNames, createComponentNamesMap, referencedUnits, unitsUsed, findCnUnitsNames,
                        findComponentCnUnitsNames, findAndReplaceCnUnitsNames, findAndReplaceComponent(s)CnUnitsNames,
                        indexStackOf, rebaseIndexStack, rebaseEquivalenceMap, recordVariableEquivalences,
                        generateEquivalenceMap, getVariableLocatedAt, makeEquivalence, applyEquivalenceMapToModel,
                        copyRebasedEquivalenceIds
     src/model.cpp      Model::clone, Model::hasImports, hasUnitsImports, hasComponentImports, addUnits, replaceUnits
     src/component.cpp  Component::clone;  src/componententity.cpp  component(name, searchEncapsulated), replaceComponent
     src/variable.cpp   Variable::addEquivalence/2 and /4
     src/units.cpp      Units::equivalent  (re-used from UnitsDefs.v, C08)

   Representation.
   * A variable is a record with an identity tag [v_oid]; an equivalence is an unordered pair of tags with the
     mapping id and the connection id (both directions always carry the same ids in parsed models and the code sets
     both directions together).  The per-variable list `equivalentVariable(j)` is the order of the pairs in [m_eqs].
   * A variable holds the NAME of its units ([None]: no units).  In the code it holds a Units object; the objects are
     private clones or objects that are never renamed after a variable points at them (design_notes/C06.md), so the
     name is all that flattening observes.
   * Math is a list of XML roots; only what findCnUnitsNames / findAndReplaceCnUnitsNames look at is kept: element
     name, the cellml:units attribute ("" when absent), text, children.
   * Units exponents are [Q], multipliers are kept as their log10 (a [Q]) as in UnitsDefs.v.
   * [owner] is the identity of the MODEL OBJECT GRAPH an object was created in: the model given to flattenModel,
     a library model, or a clone made during flattening.  Every mutation in this file goes through the primitives
     of the section "writes", which log the owner of the object they modify.
   * Every loop of the code that is not structural gets explicit fuel; [FFuel] = the code would not return
     (stack exhaustion or endless loop), [FCrash] = null dereference, [FUnmodelled] = outside the model's domain
     (cannot happen when the imported models are defined, which flattenModel checks before it starts). *)
From Coq Require Import List String Ascii ZArith QArith Bool Arith.
From LC Require Import Common NumDefs UnitsDefs.
Import ListNotations.
Local Open Scope string_scope.
Local Open Scope nat_scope.
Local Open Scope list_scope.

(* ------------------------------------------------------------------------------------------ results *)

Inductive fres (A : Type) := FOk (a : A) | FCrash | FFuel | FUnmodelled.
Arguments FOk {A} a. Arguments FCrash {A}. Arguments FFuel {A}. Arguments FUnmodelled {A}.

Definition fbind {A B} (r : fres A) (f : A -> fres B) : fres B :=
  match r with FOk a => f a | FCrash => FCrash | FFuel => FFuel | FUnmodelled => FUnmodelled end.
Notation "'do' x <- r ; k" := (fbind r (fun x => k)) (at level 200, x pattern, r at level 100, k at level 200).

Definition of_res {A} (r : res A) : fres A :=
  match r with Ok a => FOk a | OutOfFuel => FFuel | Crash => FCrash end.

(* which repairs are in the modelled code *)
Record flat_fixes := {
  fx_kids   : bool;   (* every child of the placeholder is moved (48ee7d9) *)
  fx_late   : bool;   (* the placeholder's children join the copy after the units work (be13d84) *)
  fx_clash  : bool;   (* de-clash compares with imported and already given names (7acb380) *)
  fx_cndeep : bool;   (* cn units renamed in all descendants (c2160f8) *)
  fx_ref    : bool;   (* dependency references follow the changed name (b6a87da) *)
  fx_chain  : bool;   (* placeholder variables survive when the imported component is itself an import (76af934) *)
  fx_ids    : bool;   (* mapping / connection ids kept: a candidate repair that is NOT in the code (it would give two
                         instances of one imported component the same ids) *)
  fx_cycle_guard : bool (* 85ba0d4: hasUnitsCycle() is consulted first by Units::equivalent (via isDefined / scalingFactor) and by
                           hasUnitsImports: units with a cyclic definition are "not equivalent" / their references are not followed.
                           false: the reducers recurse until the stack is exhausted *)
}.
Definition flat_all_fixed : flat_fixes :=
  {| fx_kids := true; fx_late := true; fx_clash := true; fx_cndeep := true; fx_ref := true; fx_chain := true; fx_ids := true; fx_cycle_guard := true |}.
Definition flat_unfixed : flat_fixes :=
  {| fx_kids := false; fx_late := false; fx_clash := false; fx_cndeep := false; fx_ref := false; fx_chain := false; fx_ids := false; fx_cycle_guard := false |}.
(* the state of /repo this model is compared with *)
Definition flat_current_fixes : flat_fixes :=
  {| fx_kids := true; fx_late := true; fx_clash := true; fx_cndeep := true; fx_ref := true; fx_chain := true; fx_ids := false; fx_cycle_guard := true |}.
(* the code just before 85ba0d4 *)
Definition flat_no_cycle_guard : flat_fixes :=
  {| fx_kids := true; fx_late := true; fx_clash := true; fx_cndeep := true; fx_ref := true; fx_chain := true; fx_ids := false; fx_cycle_guard := false |}.

(* ------------------------------------------------------------------------------------------ data *)

Inductive owner := OOrigin | OLib (k : nat) | OFresh (n : nat).

Definition is_fresh (o : owner) : bool := match o with OFresh _ => true | _ => false end.

Record imp := { i_url : string; i_lib : nat; i_ref : string }.     (* import source (its model = library entry i_lib) + reference *)

Record units := { u_own : owner; u_name : string; u_imp : option imp; u_defs : list unit_child }.

Inductive mx := MX (name : string) (cnunits : string) (text : string) (kids : list mx).

Record variable := { v_oid : nat; v_name : string; v_units : option string; v_init : string; v_iface : string }.

Inductive comp := Comp (own : owner) (name : string) (im : option imp) (math : list mx) (vars : list variable) (kids : list comp).

Definition c_own c := match c with Comp o _ _ _ _ _ => o end.
Definition c_name c := match c with Comp _ n _ _ _ _ => n end.
Definition c_imp c := match c with Comp _ _ i _ _ _ => i end.
Definition c_math c := match c with Comp _ _ _ m _ _ => m end.
Definition c_vars c := match c with Comp _ _ _ _ v _ => v end.
Definition c_kids c := match c with Comp _ _ _ _ _ k => k end.

Record eqv := { e_a : nat; e_b : nat; e_map : string; e_conn : string }.

Record model := { m_own : owner; m_name : string; m_units : list units; m_comps : list comp; m_eqs : list eqv }.

Definition path := list nat.          (* IndexStack *)

(* ------------------------------------------------------------------------------------------ strings, sets *)

(* std::set<std::string> / the keys of a std::map<std::string, _>: sorted, unique *)
Fixpoint sinsert (s : string) (l : list string) : list string :=
  match l with
  | [] => [s]
  | x :: r => match String.compare s x with
              | Lt => s :: l
              | Eq => l
              | Gt => x :: sinsert s r
              end
  end.
Definition sunion (a b : list string) : list string := fold_left (fun acc s => sinsert s acc) b a.

(* std::map<std::string, std::string>::emplace / merge: an existing key is kept *)
Fixpoint smap_emplace (k v : string) (m : list (string * string)) : list (string * string) :=
  match m with
  | [] => [(k, v)]
  | (k', v') :: r => match String.compare k k' with
                     | Lt => (k, v) :: m
                     | Eq => m
                     | Gt => (k', v') :: smap_emplace k v r
                     end
  end.
Definition smap_merge (m add : list (string * string)) : list (string * string) :=
  fold_left (fun acc kv => smap_emplace (fst kv) (snd kv) acc) add m.

(* ------------------------------------------------------------------------------------------ units lists *)

Fixpoint find_units (n : string) (l : list units) : option units :=      (* Model::units(name): first match *)
  match l with
  | [] => None
  | u :: r => if String.eqb (u_name u) n then Some u else find_units n r
  end.
Definition has_units (n : string) (l : list units) : bool := match find_units n l with Some _ => true | None => false end.

Fixpoint index_units (n : string) (l : list units) : option nat :=
  match l with
  | [] => None
  | u :: r => if String.eqb (u_name u) n then Some 0 else option_map S (index_units n r)
  end.

Fixpoint remove_units (n : string) (l : list units) : list units :=       (* the first with that name *)
  match l with
  | [] => []
  | u :: r => if String.eqb (u_name u) n then r else u :: remove_units n r
  end.

Fixpoint update_units (n : string) (f : units -> units) (l : list units) : list units :=   (* the first with that name *)
  match l with
  | [] => []
  | u :: r => if String.eqb (u_name u) n then f u :: r else u :: update_units n f r
  end.

Fixpoint set_nth {A} (i : nat) (x : A) (l : list A) : list A :=
  match l, i with
  | [], _ => []
  | _ :: r, O => x :: r
  | y :: r, S i' => y :: set_nth i' x r
  end.

Definition u_set_name (n : string) (u : units) : units :=
  {| u_own := u_own u; u_name := n; u_imp := u_imp u; u_defs := u_defs u |}.
Definition u_set_defs (d : list unit_child) (u : units) : units :=
  {| u_own := u_own u; u_name := u_name u; u_imp := u_imp u; u_defs := d |}.
Definition u_set_own (o : owner) (u : units) : units :=
  {| u_own := o; u_name := u_name u; u_imp := u_imp u; u_defs := u_defs u |}.
Definition uc_set_ref (r : string) (c : unit_child) : unit_child :=
  {| uc_ref := r; uc_prefix := uc_prefix c; uc_exp := uc_exp c; uc_mult := uc_mult c |}.
Definition u_set_ref (i : nat) (r : string) (u : units) : units :=          (* Units::setUnitAttributeReference *)
  match nth_error (u_defs u) i with
  | Some c => u_set_defs (set_nth i (uc_set_ref r c) (u_defs u)) u
  | None => u
  end.

(* ------------------------------------------------------------------------------------------ Units::equivalent *)

Definition env_of (shift : nat) (us : list units) : env :=
  map (fun u => (u_name u, match u_imp u with
                           | Some i => Import (shift + i_lib i) (i_ref i)
                           | None => Defs (u_defs u)
                           end)) us.

(* world = the given unit lists (each the units of one model object, or a lone parent-less units) followed by the
   library; an import source's model is a library model *)
Definition mk_world (ms : list (list units)) (libs : list model) : world :=
  map (env_of (List.length ms)) ms ++ map (fun l => env_of (List.length ms) (m_units l)) libs.

(* Units::equivalent(a, b): a = units named na of ms[ia], b = units named nb of ms[ib] *)
Definition units_equivalent (libs : list model) (ms : list (list units)) (ia : nat) (na : string) (ib : nat) (nb : string)
  : fres bool :=
  let w := mk_world ms libs in
  of_res (equivalent UnitsDefs.current_fixes (fuel_for w) w (Some (ia, na)) (Some (ib, nb))).

(* Units::equivalent with 85ba0d4.  C08's model answers OutOfFuel exactly when the evaluation runs into a units cycle (its fuel
   suffices for every acyclic world: C08_reducers_terminate); hasUnitsCycle() now makes isDefined() false for such units, hence
   compatible() false, scalingFactor() 0.0, equivalent() false.  When C08's model answers without meeting the cycle the answer
   is the same with and without the guard (true only after isDefined walked the whole closure). *)
Definition units_equivalent_g (fx : flat_fixes) (libs : list model) (ms : list (list units)) (ia : nat) (na : string) (ib : nat) (nb : string)
  : fres bool :=
  match units_equivalent libs ms ia na ib nb with
  | FFuel => if fx_cycle_guard fx then FOk false else FFuel
  | r => r
  end.

(* utilities.cpp: hasUnitsCycle / unitsCycleFrom: a path longer than the number of units of the world repeats a units *)
Fixpoint cycle_from (fuel : nat) (w : world) (mi : nat) (name : string) : bool :=
  match fuel with
  | O => true
  | S f =>
      match lookup w mi name with
      | None => false
      | Some (Import mj r) => cycle_from f w mj r
      | Some (Defs l) => existsb (fun c => negb (is_std_name (uc_ref c)) && cycle_from f w mi (uc_ref c)) l
      end
  end.
Definition has_units_cycle (libs : list model) (U : list units) (name : string) : bool :=
  let w := mk_world [U] libs in cycle_from (fuel_for w) w 0 name.

(* ------------------------------------------------------------------------------------------ math *)

Definition mx_name n := match n with MX a _ _ _ => a end.
Definition mx_units n := match n with MX _ u _ _ => u end.
Definition mx_kids n := match n with MX _ _ _ k => k end.

Definition is_cn (n : mx) : bool := String.eqb (mx_name n) "cn".
Definition is_math (n : mx) : bool := String.eqb (mx_name n) "math".

(* utilities.cpp: findCnUnitsNames(node): the cn elements below node *)
Fixpoint cn_names (n : mx) : list string :=
  match n with
  | MX _ _ _ kids =>
      (fix go (l : list mx) (acc : list string) : list string :=
         match l with
         | [] => acc
         | k :: r =>
             let acc1 := if is_cn k && negb (str_is_empty (mx_units k)) && negb (is_std_name (mx_units k))
                         then sinsert (mx_units k) acc else acc in
             go r (sunion acc1 (cn_names k))
         end) kids []
  end.

(* utilities.cpp: findComponentCnUnitsNames *)
Definition math_cn_names (roots : list mx) : list string :=
  fold_left (fun acc r => if is_math r then sunion acc (cn_names r) else acc) roots [].

(* utilities.cpp: findAndReplaceCnUnitsNames *)
Fixpoint mx_rename (old new : string) (n : mx) : mx :=
  match n with
  | MX a u t kids =>
      MX a u t (map (fun k => match mx_rename old new k with
                              | MX a' u' t' k' => if String.eqb a' "cn" && String.eqb u' old then MX a' new t' k' else MX a' u' t' k'
                              end) kids)
  end.

Fixpoint mx_mentions (old : string) (n : mx) : bool :=      (* some cn below n carries units = old *)
  match n with
  | MX _ _ _ kids => existsb (fun k => (is_cn k && String.eqb (mx_units k) old) || mx_mentions old k) kids
  end.

(* utilities.cpp: findAndReplaceComponentCnUnitsNames: the math is only replaced when the text changed, and then it
   consists of the math roots only *)
Definition math_rename (old new : string) (roots : list mx) : list mx :=
  if negb (String.eqb old new) && existsb (fun r => is_math r && mx_mentions old r) roots
  then map (mx_rename old new) (filter is_math roots)
  else roots.

(* ------------------------------------------------------------------------------------------ component trees *)

(* utilities.cpp: componentNames(component, names) / componentNames(model): pre-order *)
Fixpoint comp_names (c : comp) : list string :=
  match c with
  | Comp _ n _ _ _ kids => n :: flat_map comp_names kids
  end.
Definition comps_names (l : list comp) : list string := flat_map comp_names l.

(* ComponentEntity::component(name, searchEncapsulated = true): a direct child first, else depth first *)
Fixpoint find_comp_in (fuel : nat) (n : string) (l : list comp) : option comp :=
  match fuel with
  | O => None
  | S f =>
      match find (fun c => String.eqb (c_name c) n) l with
      | Some c => Some c
      | None => (fix go (l : list comp) : option comp :=
                   match l with
                   | [] => None
                   | c :: r => match find_comp_in f n (c_kids c) with Some x => Some x | None => go r end
                   end) l
      end
  end.
Fixpoint comp_depth (c : comp) : nat :=
  match c with Comp _ _ _ _ _ kids => S (fold_left (fun d k => Nat.max d (comp_depth k)) kids 0) end.
Definition comps_depth (l : list comp) : nat := S (fold_left (fun d k => Nat.max d (comp_depth k)) l 0).
Definition find_comp (n : string) (l : list comp) : option comp := find_comp_in (comps_depth l) n l.

(* position of the component found by find_comp (indexStackOf(component) without the variable index) *)
Fixpoint index_where {A} (p : A -> bool) (l : list A) : option nat :=
  match l with
  | [] => None
  | x :: r => if p x then Some 0 else option_map S (index_where p r)
  end.
Fixpoint find_comp_path_in (fuel : nat) (n : string) (l : list comp) : option path :=
  match fuel with
  | O => None
  | S f =>
      match index_where (fun c => String.eqb (c_name c) n) l with
      | Some i => Some [i]
      | None => (fix go (i : nat) (l : list comp) : option path :=
                   match l with
                   | [] => None
                   | c :: r => match find_comp_path_in f n (c_kids c) with
                               | Some p => Some (i :: p)
                               | None => go (S i) r
                               end
                   end) 0 l
      end
  end.
Definition find_comp_path (n : string) (l : list comp) : option path := find_comp_path_in (comps_depth l) n l.

Fixpoint comp_at (l : list comp) (p : path) : option comp :=
  match p with
  | [] => None
  | [i] => nth_error l i
  | i :: p' => match nth_error l i with Some c => comp_at (c_kids c) p' | None => None end
  end.

Definition c_set_kids (k : list comp) (c : comp) : comp := match c with Comp o n i m v _ => Comp o n i m v k end.
Definition c_set_name (n : string) (c : comp) : comp := match c with Comp o _ i m v k => Comp o n i m v k end.
Definition c_set_vars (v : list variable) (c : comp) : comp := match c with Comp o n i m _ k => Comp o n i m v k end.
Definition c_set_math (m : list mx) (c : comp) : comp := match c with Comp o n i _ v k => Comp o n i m v k end.

Fixpoint update_at (l : list comp) (p : path) (f : comp -> comp) : list comp :=
  match p with
  | [] => l
  | [i] => match nth_error l i with Some c => set_nth i (f c) l | None => l end
  | i :: p' => match nth_error l i with
               | Some c => set_nth i (c_set_kids (update_at (c_kids c) p' f) c) l
               | None => l
               end
  end.

(* every variable of a tree with its index stack, components in pre-order *)
Fixpoint idx_vars (pre : path) (i : nat) (l : list variable) : list (path * variable) :=
  match l with [] => [] | v :: r => (pre ++ [i], v) :: idx_vars pre (S i) r end.
Fixpoint comp_vars_at (pre : path) (c : comp) : list (path * variable) :=
  match c with
  | Comp _ _ _ _ vars kids =>
      idx_vars pre 0 vars
      ++ (fix ks (i : nat) (l : list comp) : list (path * variable) :=
            match l with [] => [] | k :: r => comp_vars_at (pre ++ [i]) k ++ ks (S i) r end) 0 kids
  end.
Fixpoint comps_vars_at (pre : path) (i : nat) (l : list comp) : list (path * variable) :=
  match l with [] => [] | k :: r => comp_vars_at (pre ++ [i]) k ++ comps_vars_at pre (S i) r end.
Definition model_vars (m : model) : list (path * variable) := comps_vars_at [] 0 (m_comps m).

Fixpoint comp_oids (c : comp) : list nat :=
  match c with Comp _ _ _ _ vars kids => map v_oid vars ++ flat_map comp_oids kids end.

(* utilities.cpp: indexStackOf(variable) *)
Fixpoint find_path (o : nat) (l : list (path * variable)) : option path :=
  match l with
  | [] => None
  | (p, v) :: r => if Nat.eqb (v_oid v) o then Some p else find_path o r
  end.
Definition index_stack_of (m : model) (o : nat) : option path := find_path o (model_vars m).

(* utilities.cpp: getVariableLocatedAt.  LCrash: a null component is dereferenced *)
Inductive located := LCrash | LNull | LVar (v : variable).
Definition var_located_at (cs : list comp) (p : path) : located :=
  match p with
  | [] => LCrash
  | _ => match removelast p with
         | [] => LCrash
         | cp => match comp_at cs cp with
                 | None => LCrash
                 | Some c => match nth_error (c_vars c) (last p 0) with
                             | Some v => LVar v
                             | None => LNull
                             end
                 end
         end
  end.

(* ------------------------------------------------------------------------------------------ equivalences *)

Definition pair_is (a b : nat) (e : eqv) : bool :=
  (Nat.eqb (e_a e) a && Nat.eqb (e_b e) b) || (Nat.eqb (e_a e) b && Nat.eqb (e_b e) a).

(* the equivalent variables of variable o, in order, with the ids stored for them *)
Definition eqs_of (eqs : list eqv) (o : nat) : list (nat * string * string) :=
  flat_map (fun e => if Nat.eqb (e_a e) o then [(e_b e, e_map e, e_conn e)]
                     else if Nat.eqb (e_b e) o then [(e_a e, e_map e, e_conn e)] else []) eqs.

(* Variable::addEquivalence(v1, v2) [ids = None] and Variable::addEquivalence(v1, v2, mappingId, connectionId) *)
Definition add_equivalence (a b : nat) (ids : option (string * string)) (eqs : list eqv) : list eqv :=
  if Nat.eqb a b then eqs
  else if existsb (pair_is a b) eqs
  then match ids with
       | Some (mi, ci) => map (fun e => if pair_is a b e then {| e_a := e_a e; e_b := e_b e; e_map := mi; e_conn := ci |} else e) eqs
       | None => eqs
       end
  else eqs ++ [{| e_a := a; e_b := b;
                  e_map := match ids with Some (mi, _) => mi | None => "" end;
                  e_conn := match ids with Some (_, ci) => ci | None => "" end |}].

(* Variable::equivalenceMappingId / equivalenceConnectionId for directly equivalent variables (one connection id per
   pair of components, as in every parsed model) *)
Definition ids_of (a b : nat) (eqs : list eqv) : string * string :=
  match find (pair_is a b) eqs with Some e => (e_map e, e_conn e) | None => ("", "") end.

(* std::map<IndexStack, std::vector<IndexStack>> *)
Definition eqmap := list (path * list path).

Fixpoint path_eqb (a b : path) : bool :=
  match a, b with
  | [], [] => true
  | x :: a', y :: b' => Nat.eqb x y && path_eqb a' b'
  | _, _ => false
  end.
Fixpoint lex_ltb (a b : path) : bool :=
  match a, b with
  | [], [] => false
  | [], _ :: _ => true
  | _ :: _, [] => false
  | x :: a', y :: b' => if Nat.ltb x y then true else if Nat.ltb y x then false else lex_ltb a' b'
  end.

(* equivalenceMap[key].push_back(target) *)
Fixpoint em_add (k t : path) (m : eqmap) : eqmap :=
  match m with
  | [] => [(k, [t])]
  | (k', ts) :: r => if path_eqb k k' then (k', ts ++ [t]) :: r
                     else if lex_ltb k k' then (k, [t]) :: m
                     else (k', ts) :: em_add k t r
  end.
(* rebasedMap.emplace(key, vector) *)
Fixpoint em_emplace (k : path) (ts : list path) (m : eqmap) : eqmap :=
  match m with
  | [] => [(k, ts)]
  | (k', ts') :: r => if path_eqb k k' then m
                      else if lex_ltb k k' then (k, ts) :: m
                      else (k', ts') :: em_emplace k ts r
  end.

(* utilities.cpp: recordVariableEquivalences for one variable (key = its index stack): every equivalent variable
   that lives in the same model is recorded by its index stack *)
Definition record_var (m : model) (key : path) (v : variable) (acc : eqmap) : eqmap :=
  fold_left (fun acc e => match index_stack_of m (fst (fst e)) with
                          | Some p => em_add key p acc
                          | None => acc
                          end) (eqs_of (m_eqs m) (v_oid v)) acc.

Fixpoint record_vars (m : model) (stack : path) (i : nat) (l : list variable) (acc : eqmap) : eqmap :=
  match l with
  | [] => acc
  | v :: r => record_vars m stack (S i) r (record_var m (stack ++ [i]) v acc)
  end.

(* recordVariableEquivalences(c) then generateEquivalenceMap(c) *)
Fixpoint record_comp (m : model) (stack : path) (c : comp) (acc : eqmap) : eqmap :=
  match c with
  | Comp _ _ _ _ vars kids =>
      (fix ks (i : nat) (l : list comp) (acc : eqmap) : eqmap :=
         match l with
         | [] => acc
         | k :: r => ks (S i) r (record_comp m (stack ++ [i]) k acc)
         end) 0 kids (record_vars m stack 0 vars acc)
  end.

Fixpoint record_comps (m : model) (stack : path) (i : nat) (l : list comp) (acc : eqmap) : eqmap :=
  match l with
  | [] => acc
  | k :: r => record_comps m stack (S i) r (record_comp m (stack ++ [i]) k acc)
  end.

(* utilities.cpp: rebaseIndexStack.  [] = "cleared" *)
Fixpoint resize_to (n : nat) (s : path) : list (option nat) :=        (* rebasedStack.resize(n, SIZE_MAX) *)
  match n with
  | O => []
  | S n' => match s with
            | [] => None :: resize_to n' []
            | x :: r => Some x :: resize_to n' r
            end
  end.
Fixpoint opt_path_eqb (a : list (option nat)) (b : path) : bool :=
  match a, b with
  | [], [] => true
  | Some x :: a', y :: b' => Nat.eqb x y && opt_path_eqb a' b'
  | _, _ => false
  end.
Definition rebase_stack (s origin dest : path) : path :=
  if opt_path_eqb (resize_to (List.length origin) s) origin
  then dest ++ skipn (List.length origin) s
  else [].

(* the target part of rebaseEquivalenceMap: the variable index is taken off while the component part is rebased *)
Definition rebase_target (t origin dest : path) : option path :=
  match rebase_stack (removelast t) origin dest with
  | [] => None
  | r => Some (r ++ [last t 0])
  end.

Definition rebase_targets (ts : list path) (origin dest : path) : list path :=
  flat_map (fun t => match rebase_target t origin dest with Some r => [r] | None => [] end) ts.

(* utilities.cpp: rebaseEquivalenceMap *)
Definition rebase_map (m : eqmap) (origin dest : path) : eqmap :=
  fold_left (fun acc kv =>
               match rebase_targets (snd kv) origin dest with
               | [] => acc
               | ts => em_emplace (rebase_stack (fst kv) origin dest) ts acc
               end) m [].

(* utilities.cpp: makeEquivalence / applyEquivalenceMapToModel on the component forest cs *)
Definition make_equivalence (cs : list comp) (p1 p2 : path) (ids : option (string * string)) (acc : fres (list eqv))
  : fres (list eqv) :=
  do eqs <- acc;
  match var_located_at cs p1, var_located_at cs p2 with
  | LCrash, _ | _, LCrash => FCrash
  | LVar v1, LVar v2 => FOk (add_equivalence (v_oid v1) (v_oid v2) ids eqs)
  | _, _ => FOk eqs
  end.

Definition apply_map (cs : list comp) (em : eqmap) (eqs : list eqv) : fres (list eqv) :=
  fold_left (fun acc kv => fold_left (fun acc t => make_equivalence cs (fst kv) t None acc) (snd kv) acc) em (FOk eqs).

(* utilities.cpp: copyRebasedEquivalenceIds (and the id pass of Model::clone when origin = dest = []) *)
Definition copy_ids_one (src : model) (origin dest : path) (cs : list comp) (k t : path) (acc : fres (list eqv))
  : fres (list eqv) :=
  do eqs <- acc;
  match var_located_at (m_comps src) k, var_located_at (m_comps src) t with
  | LCrash, _ | _, LCrash => FCrash
  | lv, le =>
      match rebase_target t origin dest with
      | None => FOk eqs
      | Some rt =>
          match var_located_at cs (rebase_stack k origin dest), var_located_at cs rt with
          | LCrash, _ | _, LCrash => FCrash
          | LVar rv, LVar re =>
              match lv, le with
              | LVar v, LVar e => FOk (add_equivalence (v_oid rv) (v_oid re) (Some (ids_of (v_oid v) (v_oid e) (m_eqs src))) eqs)
              | _, _ => FOk (add_equivalence (v_oid rv) (v_oid re) (Some ("", "")) eqs)
              end
          | _, _ => FOk eqs
          end
      end
  end.

Definition copy_ids (src : model) (origin dest : path) (cs : list comp) (em : eqmap) (eqs : list eqv) : fres (list eqv) :=
  fold_left (fun acc kv => fold_left (fun acc t => copy_ids_one src origin dest cs (fst kv) t acc) (snd kv) acc) em (FOk eqs).

(* ------------------------------------------------------------------------------------------ writes *)
(* supply of fresh identity tags and the log of the owners of every object that is modified *)
Record st := { nx : nat; wlog : list owner }.
Definition log1 (o : owner) (s : st) : st := {| nx := nx s; wlog := o :: wlog s |}.
Definition logs (os : list owner) (s : st) : st := {| nx := nx s; wlog := rev os ++ wlog s |}.
Definition fresh (s : st) : nat * st := (nx s, {| nx := S (nx s); wlog := wlog s |}).

Fixpoint comp_owners (c : comp) : list owner :=
  match c with Comp o _ _ _ _ kids => o :: flat_map comp_owners kids end.

(* ------------------------------------------------------------------------------------------ clone *)

(* Units::clone (a new parent-less object) *)
Definition clone_units (u : units) (s : st) : units * st :=
  let (t, s1) := fresh s in (u_set_own (OFresh t) u, s1).

(* the units of Model::clone: every object is new and belongs to the clone *)
Definition clone_units_list (o : owner) (l : list units) : list units := map (u_set_own o) l.

Fixpoint clone_vars (l : list variable) (n : nat) : list variable * nat :=
  match l with
  | [] => ([], n)
  | v :: r => let (r', n') := clone_vars r (S n) in
              ({| v_oid := n; v_name := v_name v; v_units := v_units v; v_init := v_init v; v_iface := v_iface v |} :: r', n')
  end.

(* Component::clone: new objects (owner o), new variables, no equivalences *)
Fixpoint clone_comp (o : owner) (c : comp) (n : nat) : comp * nat :=
  match c with
  | Comp _ name im math vars kids =>
      let (vars', n1) := clone_vars vars n in
      let (kids', n2) := (fix go (l : list comp) (n : nat) : list comp * nat :=
                            match l with
                            | [] => ([], n)
                            | k :: r => let (k', n') := clone_comp o k n in
                                        let (r', n'') := go r n' in (k' :: r', n'')
                            end) kids n1 in
      (Comp o name im math vars' kids', n2)
  end.
Fixpoint clone_comps (o : owner) (l : list comp) (n : nat) : list comp * nat :=
  match l with
  | [] => ([], n)
  | k :: r => let (k', n') := clone_comp o k n in
              let (r', n'') := clone_comps o r n' in (k' :: r', n'')
  end.

(* Model::clone: structure, then the equivalences re-created from index stacks, then their ids *)
Definition clone_model (m : model) (s : st) : fres (model * st) :=
  let (t, s1) := fresh s in
  let o := OFresh t in
  let (cs, n') := clone_comps o (m_comps m) (nx s1) in
  let s2 := {| nx := n'; wlog := wlog s1 |} in
  let em := record_comps m [] 0 (m_comps m) [] in
  do e1 <- apply_map cs em [];
  do e2 <- copy_ids m [] [] cs em e1;
  FOk ({| m_own := o; m_name := m_name m; m_units := clone_units_list o (m_units m); m_comps := cs; m_eqs := e2 |}, s2).

(* ------------------------------------------------------------------------------------------ units used *)

(* utilities.cpp: referencedUnits (names; the units of a model are looked up by name) *)
Fixpoint referenced_units (fuel : nat) (U : list units) (u : units) : fres (list string) :=
  match fuel with
  | O => FFuel
  | S f =>
      fold_left (fun acc d =>
                   do l <- acc;
                   if is_std_name (uc_ref d) then FOk l
                   else match find_units (uc_ref d) U with
                        | Some r => do l' <- referenced_units f U r; FOk (l ++ l' ++ [uc_ref d])
                        | None => FOk l
                        end) (u_defs u) (FOk [])
  end.

(* utilities.cpp: unitsUsed(model, component) for a component whose units all exist in the model *)
Fixpoint units_used (fuel : nat) (U : list units) (c : comp) : fres (list string) :=
  match c with
  | Comp _ _ _ math vars kids =>
      do lv <- fold_left (fun acc v =>
                            do l <- acc;
                            match v_units v with
                            | Some n => if is_std_name n then FOk l
                                        else match find_units n U with
                                             | Some mu => do l' <- referenced_units fuel U mu; FOk (l ++ l' ++ [n])
                                             | None => FUnmodelled      (* the variable's own Units object would be used *)
                                             end
                            | None => FOk l
                            end) vars (FOk []);
      do lc <- fold_left (fun acc n =>
                            do l <- acc;
                            match find_units n U with
                            | Some mu => do l' <- referenced_units fuel U mu; FOk (l ++ l' ++ [n])
                            | None => FUnmodelled                       (* Units::create(name) would be used *)
                            end) (math_cn_names math) (FOk lv);
      (fix go (l : list comp) (acc : list string) : fres (list string) :=
         match l with
         | [] => FOk acc
         | k :: r => do lk <- units_used fuel U k; go r (acc ++ lk)
         end) kids lc
  end.

(* flattenComponent: uniqueRequiredUnits / aliasedUnitsNames *)
Fixpoint first_equivalent (fx : flat_fixes) (libs : list model) (U : list units) (n : string) (uniq : list string) : fres (option string) :=
  match uniq with
  | [] => FOk None
  | m :: r => do b <- units_equivalent_g fx libs [U] 0 m 0 n;
              if b then FOk (Some m) else first_equivalent fx libs U n r
  end.

Fixpoint unique_required (fx : flat_fixes) (libs : list model) (U : list units) (req uniq : list string) (alias : list (string * string))
  : fres (list string * list (string * string)) :=
  match req with
  | [] => FOk (uniq, alias)
  | n :: r =>
      do found <- first_equivalent fx libs U n uniq;
      match found with
      | None => unique_required fx libs U r (uniq ++ [n]) alias
      | Some m => unique_required fx libs U r uniq (if String.eqb m n then alias else smap_emplace n m alias)
      end
  end.

(* ------------------------------------------------------------------------------------------ units transfer *)

(* S: the units of the model the units come from (a clone); T: the units of the model they go to;
   ops: the renamings of usages asked of the component (only when there is one) *)
Record ust := { us_S : list units; us_So : owner; us_T : list units; us_To : owner;
                us_ops : list (string * string); us_comp : bool; us_st : st }.

Definition us_with_S (S : list units) (o : owner) (s : ust) : ust :=
  {| us_S := S; us_So := o; us_T := us_T s; us_To := us_To s; us_ops := us_ops s; us_comp := us_comp s; us_st := us_st s |}.
Definition us_with_T (T : list units) (s : ust) : ust :=
  {| us_S := us_S s; us_So := us_So s; us_T := T; us_To := us_To s; us_ops := us_ops s; us_comp := us_comp s; us_st := us_st s |}.
Definition us_with_st (x : st) (s : ust) : ust :=
  {| us_S := us_S s; us_So := us_So s; us_T := us_T s; us_To := us_To s; us_ops := us_ops s; us_comp := us_comp s; us_st := x |}.
Definition us_log (os : list owner) (s : ust) : ust := us_with_st (logs os (us_st s)) s.
(* importer.cpp: updateUnitsNameUsages(oldName, newName, component, units) -- recorded, applied by flatten_component *)
Definition us_op (old new : string) (s : ust) : ust :=
  if us_comp s
  then {| us_S := us_S s; us_So := us_So s; us_T := us_T s; us_To := us_To s; us_ops := us_ops s ++ [(old, new)];
          us_comp := us_comp s; us_st := us_st s |}
  else s.

(* importer.cpp: modelsEquivalentUnits(targetModel, units): units = the units named n of `home` *)
Fixpoint models_equivalent_units (fx : flat_fixes) (libs : list model) (T home : list units) (n : string) (l : list units) : fres (option string) :=
  match l with
  | [] => FOk None
  | t :: r => do b <- units_equivalent_g fx libs [T; home] 0 (u_name t) 1 n;
              if b then FOk (Some (u_name t)) else models_equivalent_units fx libs T home n r
  end.

(* newName = originalName + "_" + convertToString(++count) until the name is free *)
Fixpoint find_free (fuel : nat) (used : list string) (orig : string) (k : nat) : option string :=
  match fuel with
  | O => None
  | S f => let cand := (orig ++ "_" ++ nat_to_string k)%string in
           if mem_str cand used then find_free f used orig (S k) else Some cand
  end.
Definition free_name (used : list string) (orig : string) : option string :=
  if mem_str orig used then find_free (S (List.length used)) used orig 1 else Some orig.

Definition smap_find (k : string) (m : list (string * string)) : option string := assoc k m.

(* the loop over the unit children of u in transferUnitsRenamingIfRequired; rec = the recursive call *)
Definition transfer_result := (ust * bool * list (string * string) * string)%type.

Fixpoint transfer_kids (rec : units -> ust -> fres transfer_result) (fx : flat_fixes) (k i : nat) (u : units) (s : ust)
  : fres (units * ust) :=
  match k with
  | O => FOk (u, s)
  | S k' =>
      match nth_error (u_defs u) i with
      | None => FOk (u, s)
      | Some d =>
          let reference := uc_ref d in
          if negb (str_is_empty reference) && negb (is_std_name reference) && has_units reference (us_S s)
          then match find_units reference (us_S s) with
               | None => FCrash
               | Some src =>
                   let (child, st1) := clone_units src (us_st s) in
                   do r <- rec child (us_with_st st1 s);
                   let '(s1, _, changed, fname) := r in
                   let newref := if fx_ref fx
                                 then match smap_find reference changed with Some x => x | None => reference end
                                 else fname in
                   transfer_kids rec fx k' (S i) (u_set_ref i newref u) (us_log [u_own u] s1)
               end
          else transfer_kids rec fx k' (S i) u s
      end
  end.

(* The model in which the references of u are resolved by Units::equivalent: S, or nothing for a parent-less clone.  A
   parent-less units with unit children is listed under a name no reference can have (its own name is then irrelevant to
   Units::equivalent, and a reference to a units of its own name must not find it: it has no model). *)
Definition orphan_name : string := " ".
Definition orphan_home (u : units) : units := match u_defs u with [] => u | _ => u_set_name orphan_name u end.
Definition transfer_home (orphan : bool) (u : units) (s : ust) : list units := if orphan then [orphan_home u] else us_S s.
Definition transfer_qname (orphan : bool) (u : units) : string := if orphan then u_name (orphan_home u) else u_name u.

(* importer.cpp: transferUnitsRenamingIfRequired(sourceModel = S, targetModel = T, units = u, component).
   orphan = true: u is a parent-less clone; false: u is the first units of S with its name.
   Result: state, "u was added to T", changedNames, the name of u afterwards. *)
Fixpoint transfer (fuel : nat) (fx : flat_fixes) (libs : list model) (orphan : bool) (u : units) (s : ust)
  : fres transfer_result :=
  match fuel with
  | O => FFuel
  | S f =>
      let home := transfer_home orphan u s in
      do target <- models_equivalent_units fx libs (us_T s) home (transfer_qname orphan u) (us_T s);
      match target with
      | None =>
          do r <- transfer_kids (transfer f fx libs true) fx (List.length (u_defs u)) 0 u s;
          let '(u1, s1) := r in
          let original := u_name u1 in
          match free_name (map u_name (us_T s1)) original with
          | None => FFuel
          | Some newname =>
              let renamed := negb (String.eqb original newname) in
              let u2 := u_set_name newname u1 in
              let s2 := us_with_T (us_T s1 ++ [u2]) s1 in
              let s3 := if orphan then s2 else us_with_S (remove_units original (us_S s2)) (us_So s2) s2 in
              let s4 := us_log ((if renamed then [u_own u] else []) ++ [us_To s3] ++ (if orphan then [] else [us_So s3])) s3 in
              if renamed
              then FOk (us_op original newname s4, true, [(original, newname)], newname)
              else FOk (s4, true, [], newname)
          end
      | Some tname =>
          if String.eqb tname (u_name u) then FOk (s, false, [], u_name u)
          else FOk (us_op (u_name u) tname s, false, [(u_name u, tname)], u_name u)
      end
  end.

Inductive loc := LT (i : nat) | LS (n : string).
Definition get_loc (l : loc) (s : ust) : option units :=
  match l with LT i => nth_error (us_T s) i | LS n => find_units n (us_S s) end.
Definition upd_loc (l : loc) (f : units -> units) (s : ust) : ust :=
  match l with
  | LT i => match nth_error (us_T s) i with Some u => us_log [u_own u] (us_with_T (set_nth i (f u) (us_T s)) s) | None => s end
  | LS n => match find_units n (us_S s) with Some u => us_log [u_own u] (us_with_S (update_units n f (us_S s)) (us_So s) s) | None => s end
  end.

(* the loop over the unit children in retrieveUnitsDependencies; the three recursive calls are parameters *)
Fixpoint retrieve_go (rec_flatten : nat -> ust -> fres ust) (rec_transfer : units -> ust -> fres transfer_result)
         (rec_retrieve : loc -> ust -> fres ust) (fx : flat_fixes) (l : loc) (k i : nat) (s : ust) : fres ust :=
  match k with
  | O => FOk s
  | S k' =>
      match get_loc l s with
      | None => FCrash
      | Some u =>
          match nth_error (u_defs u) i with
          | None => FOk s
          | Some d =>
              let reference := uc_ref d in
              if negb (str_is_empty reference) && negb (is_std_name reference) && has_units reference (us_S s)
              then match find_units reference (us_S s) with
                   | None => FCrash
                   | Some child =>
                       match u_imp child with
                       | Some _ =>
                           let idx := List.length (us_T s) in
                           let s1 := us_log [us_So s; us_To s]
                                       (us_with_S (remove_units reference (us_S s)) (us_So s) (us_with_T (us_T s ++ [child]) s)) in
                           do s2 <- rec_flatten idx s1;
                           retrieve_go rec_flatten rec_transfer rec_retrieve fx l k' (S i) s2
                       | None =>
                           do r <- rec_transfer child s;
                           let '(s1, moved, changed, fname) := r in
                           let newref := if fx_ref fx
                                         then match smap_find reference changed with Some x => x | None => reference end
                                         else fname in
                           let s2 := upd_loc l (u_set_ref i newref) s1 in
                           let l' := if (moved : bool) then LT (List.length (us_T s1) - 1) else LS reference in
                           do s3 <- rec_retrieve l' s2;
                           retrieve_go rec_flatten rec_transfer rec_retrieve fx l k' (S i) s3
                       end
                   end
              else retrieve_go rec_flatten rec_transfer rec_retrieve fx l k' (S i) s
          end
      end
  end.

(* importer.cpp: retrieveUnitsDependencies(flatModel = T, model = S, u at l, component) and
   flattenUnitsImports(flatModel = T, units = T[idx], idx, component) *)
Fixpoint retrieve (fuel : nat) (fx : flat_fixes) (libs : list model) (l : loc) (s : ust) : fres ust :=
  match fuel with
  | O => FFuel
  | S f =>
      match get_loc l s with
      | None => FCrash
      | Some u0 =>
          retrieve_go (flatten_units_imports f fx libs) (transfer f fx libs false) (retrieve f fx libs) fx l
                      (List.length (u_defs u0)) 0 s
      end
  end
with flatten_units_imports (fuel : nat) (fx : flat_fixes) (libs : list model) (idx : nat) (s : ust) : fres ust :=
  match fuel with
  | O => FFuel
  | S f =>
      match nth_error (us_T s) idx with
      | None => FCrash
      | Some units =>
          match u_imp units with
          | None => FCrash
          | Some im =>
              match nth_error libs (i_lib im) with
              | None => FCrash
              | Some L =>
                  let (t, st1) := fresh (us_st s) in
                  let o := OFresh t in
                  let S2 := clone_units_list o (m_units L) in              (* importSource->model()->clone() *)
                  match find_units (i_ref im) S2 with
                  | None => FCrash
                  | Some imported =>
                      let imported' := u_set_name (u_name units) imported in
                      let s1 := {| us_S := remove_units (i_ref im) S2; us_So := o;
                                   us_T := set_nth idx imported' (us_T s); us_To := us_To s;
                                   us_ops := us_ops s; us_comp := us_comp s;
                                   us_st := logs [u_own imported; o; us_To s] st1 |} in
                      do s2 <- retrieve f fx libs (LT idx) s1;
                      FOk (us_with_S (us_S s) (us_So s) s2)               (* importingModelCopy is dropped *)
                  end
              end
          end
      end
  end.

(* ------------------------------------------------------------------------------------------ component names *)

(* utilities.cpp: createComponentNamesMap(component): the names of the descendants; for a name that occurs twice the
   first component in pre-order is the one in the map *)
Definition descendant_names (kids : list comp) : list string := comps_names kids.

(* rename the first component (pre-order) called n *)
Fixpoint rename_first (n new : string) (c : comp) : comp * bool :=
  match c with
  | Comp o nm i m v kids =>
      if String.eqb nm n then (Comp o new i m v kids, true)
      else let (kids', d) := (fix go (l : list comp) : list comp * bool :=
                                match l with
                                | [] => ([], false)
                                | k :: r => let (k', d) := rename_first n new k in
                                            if d then (k' :: r, true)
                                            else let (r', d') := go r in (k :: r', d')
                                end) kids in
           (Comp o nm i m v kids', d)
  end.
Fixpoint rename_first_in (n new : string) (l : list comp) : list comp * bool :=
  match l with
  | [] => ([], false)
  | k :: r => let (k', d) := rename_first n new k in
              if d then (k' :: r, true)
              else let (r', d') := rename_first_in n new r in (k :: r', d')
  end.

(* flattenComponent: the newComponentNames loop.  ck: the children of the copy of the imported component,
   pk: the children of the import placeholder (they are in the map for the names the copy's descendants do not use).
   Returns the renamed forests and the list (old name, new name) of the renamings. *)
Definition declash_step (fx : flat_fixes) (compNames : list string)
           (acc : fres (list comp * list comp * list string * list (string * string))) (orig : string)
  : fres (list comp * list comp * list string * list (string * string)) :=
  do a <- acc;
  let '(ck, pk, used, done) := a in
  if mem_str orig compNames
  then match (if fx_clash fx then find_free (S (List.length used)) used orig 1
              else find_free (S (List.length compNames)) compNames orig 1) with
       | None => FFuel
       | Some newname =>
           let (ck', d) := rename_first_in orig newname ck in
           let pk' := if d then pk else fst (rename_first_in orig newname pk) in
           FOk (ck', pk', used ++ [newname], done ++ [(orig, newname)])
       end
  else FOk (ck, pk, used, done).

Definition declash (fx : flat_fixes) (compNames : list string) (ck pk : list comp)
  : fres (list comp * list comp * list (string * string)) :=
  let keys := sunion (sunion [] (descendant_names ck)) (descendant_names pk) in
  do r <- fold_left (declash_step fx compNames) keys (FOk (ck, pk, compNames ++ keys, []));
  let '(ck', pk', _, done) := r in FOk (ck', pk', done).

(* ------------------------------------------------------------------------------------------ usages of a units name *)

(* importer.cpp: updateComponentsVariablesUnitsNames(name, component, units): the whole tree *)
Fixpoint rename_var_units (old : string) (new : option string) (c : comp) : comp :=
  match c with
  | Comp o n i m vars kids =>
      Comp o n i m
           (map (fun v => match v_units v with
                          | Some u => if String.eqb u old
                                      then {| v_oid := v_oid v; v_name := v_name v; v_units := new; v_init := v_init v; v_iface := v_iface v |}
                                      else v
                          | None => v
                          end) vars)
           (map (rename_var_units old new) kids)
  end.

(* utilities.cpp: findAndReplaceComponentsCnUnitsNames: before c2160f8 the component and its direct children only *)
Fixpoint rename_cn_deep (old new : string) (c : comp) : comp :=
  match c with
  | Comp o n i m vars kids => Comp o n i (math_rename old new m) vars (map (rename_cn_deep old new) kids)
  end.
Definition rename_cn_shallow (old new : string) (c : comp) : comp :=
  match c with
  | Comp o n i m vars kids =>
      Comp o n i (math_rename old new m) vars (map (fun k => c_set_math (math_rename old new (c_math k)) k) kids)
  end.

(* importer.cpp: updateUnitsNameUsages(oldName, newName, component, units); target = false: units is null *)
Definition rename_usages (fx : flat_fixes) (old new : string) (target : bool) (c : comp) : comp :=
  rename_var_units old (if target then Some new else None)
                   ((if fx_cndeep fx then rename_cn_deep else rename_cn_shallow) old new c).

(* ------------------------------------------------------------------------------------------ flattenComponent *)

Record fstate := { f_own : owner; f_name : string; f_units : list units; f_comps : list comp; f_eqs : list eqv; f_st : st }.

Definition fs_set (us : list units) (cs : list comp) (es : list eqv) (x : st) (s : fstate) : fstate :=
  {| f_own := f_own s; f_name := f_name s; f_units := us; f_comps := cs; f_eqs := es; f_st := x |}.

Fixpoint every_other {A} (l : list A) : list A :=       (* what the loop 'for i < count: move child i' moved *)
  match l with
  | [] => []
  | [x] => [x]
  | x :: _ :: r => x :: every_other r
  end.
Fixpoint every_other_rest {A} (l : list A) : list A :=  (* ... and what it left behind *)
  match l with
  | [] => []
  | [x] => []
  | _ :: y :: r => y :: every_other_rest r
  end.

Definition first_var (n : string) (vars : list variable) : option variable :=
  find (fun v => String.eqb (v_name v) n) vars.

(* the equivalences of the placeholder's variables go to the variables of the copy with the same names; when the copy
   is again an import placeholder it gets a placeholder variable of that name (76af934; before: the equivalence is lost).
   n: the next unused identity tag.  Returns the equivalences, the copy's variables, the next unused tag. *)
Definition move_placeholder_eqs (fx : flat_fixes) (copy_is_import : bool) (pvars cvars : list variable) (eqs : list eqv) (n : nat)
  : list eqv * list variable * nat :=
  fold_left (fun (acc : list eqv * list variable * nat) pv =>
               fold_left (fun (acc : list eqv * list variable * nat) e =>
                            let '(eqs1, cvars1, n1) := acc in
                            let ids := if fx_ids fx then Some (snd (fst e), snd e) else None in
                            match first_var (v_name pv) cvars1 with
                            | Some cv => (add_equivalence (v_oid cv) (fst (fst e)) ids eqs1, cvars1, n1)
                            | None =>
                                if fx_chain fx && copy_is_import
                                then (add_equivalence n1 (fst (fst e)) ids eqs1,
                                      cvars1 ++ [{| v_oid := n1; v_name := v_name pv; v_units := None; v_init := ""; v_iface := "" |}],
                                      S n1)
                                else acc
                            end) (eqs_of (fst (fst acc)) (v_oid pv)) acc) pvars (eqs, cvars, n).

Definition drop_eqs (dead : list nat) (eqs : list eqv) : list eqv :=
  filter (fun e => negb (existsb (Nat.eqb (e_a e)) dead || existsb (Nat.eqb (e_b e)) dead)) eqs.

(* the loop over uniqueRequiredUnits.  cim: units of clonedImportModel (owner co); T: units of the flat model *)
Fixpoint required_loop (fuel : nat) (fx : flat_fixes) (libs : list model) (uniq : list string)
         (cim : list units) (co : owner) (s : ust) (unr : list (string * string))
  : fres (list units * ust * list (string * string)) :=
  match uniq with
  | [] => FOk (cim, s, unr)
  | n :: rest =>
      match find_units n cim with
      | None => FUnmodelled
      | Some units =>
          do r <- match u_imp units with
                  | Some _ =>
                      match index_units n cim with
                      | None => FCrash
                      | Some idx =>
                          (* flattenUnitsImports(clonedImportModel, units, unitsIndex, importedComponentCopy) *)
                          let s0 := {| us_S := []; us_So := co; us_T := cim; us_To := co; us_ops := us_ops s;
                                       us_comp := true; us_st := us_st s |} in
                          do s1 <- flatten_units_imports fuel fx libs idx s0;
                          match nth_error (us_T s1) idx with
                          | None => FCrash
                          | Some flattened =>
                              let (repl, st2) := clone_units flattened (us_st s1) in
                              FOk (us_T s1, repl, true, us_ops s1, st2)
                          end
                      end
                  | None => FOk (cim, units, false, us_ops s, us_st s)
                  end;
          let '(cim1, repl, orphan, ops1, st1) := r in
          let repl' := u_set_defs (map (fun d => match smap_find (uc_ref d) unr with
                                                 | Some x => uc_set_ref x d
                                                 | None => d
                                                 end) (u_defs repl)) repl in
          let cim2 := if orphan then cim1 else update_units n (fun _ => repl') cim1 in
          let s2 := {| us_S := cim2; us_So := co; us_T := us_T s; us_To := us_To s; us_ops := ops1; us_comp := true;
                       us_st := log1 (u_own repl) st1 |} in
          do t <- transfer fuel fx libs orphan repl' s2;
          let '(s3, _, changed, _) := t in
          required_loop fuel fx libs rest (us_S s3) co s3 (smap_merge unr changed)
      end
  end.

(* importer.cpp: flattenComponent(parent, component, index); p = the index stack of the component *)
Definition flatten_component (fuel : nat) (fx : flat_fixes) (libs : list model) (p : path) (fs : fstate) : fres fstate :=
  match comp_at (f_comps fs) p with
  | None => FCrash
  | Some c =>
      match c_imp c with
      | None => FOk fs
      | Some im =>
          match nth_error libs (i_lib im) with
          | None => FCrash
          | Some L =>
              match find_comp_path (i_ref im) (m_comps L) with
              | None => FCrash
              | Some origin =>
                  match comp_at (m_comps L) origin with
                  | None => FCrash
                  | Some icomp =>
                      (* clonedImportModel *)
                      let (t1, st1) := fresh (f_st fs) in
                      let co := OFresh t1 in
                      let cim := clone_units_list co (m_units L) in
                      let compNames := comps_names (f_comps fs) in
                      (* indexStackOf(component) and indexStackOf(importedComponent) add and remove a dummy variable *)
                      let st2 := logs [c_own c; c_own c; c_own icomp; c_own icomp] st1 in
                      let em := record_comp L origin icomp [] in
                      let rebased := rebase_map em origin p in
                      (* importedComponentCopy *)
                      let (t2, st3) := fresh st2 in
                      let (copy0, n') := clone_comp (OFresh t2) icomp (nx st3) in
                      let st4 := {| nx := n'; wlog := wlog st3 |} in
                      let pk_all := c_kids c in
                      let pk := if fx_kids fx then pk_all else every_other pk_all in
                      let lost := if fx_kids fx then [] else every_other_rest pk_all in
                      let copy1 := c_set_name (c_name c) copy0 in
                      (* before be13d84 the placeholder's children were part of the copy from here on *)
                      let early := if fx_late fx then [] else pk in
                      let copy2 := c_set_kids (c_kids copy1 ++ early) copy1 in
                      do required <- units_used fuel cim copy2;
                      do ua <- unique_required fx libs cim required [] [];
                      let '(uniq, alias) := ua in
                      (* component names *)
                      do dn <- declash fx compNames (c_kids copy1) pk;
                      let '(ck, pk', _) := dn in
                      let copy3 := c_set_kids (ck ++ (if fx_late fx then [] else pk')) copy2 in
                      (* placeholder variables *)
                      let '(eqs1, cvars, n'') := move_placeholder_eqs fx (match c_imp copy3 with Some _ => true | None => false end)
                                                                        (c_vars c) (c_vars copy3) (f_eqs fs) (nx st4) in
                      let st4 := {| nx := n''; wlog := wlog st4 |} in
                      let copy3 := c_set_vars cvars copy3 in
                      (* parent->replaceComponent(index, importedComponentCopy) *)
                      let cs1 := update_at (f_comps fs) p (fun _ => copy3) in
                      do eqs2 <- apply_map cs1 rebased eqs1;
                      do eqs3 <- (if fx_ids fx then copy_ids L origin p cs1 em eqs2 else FOk eqs2);
                      (* units *)
                      let s0 := {| us_S := cim; us_So := co; us_T := f_units fs; us_To := f_own fs; us_ops := [];
                                   us_comp := true; us_st := logs [OFresh t2; f_own fs] st4 |} in
                      do rl <- required_loop fuel fx libs uniq cim co s0 [];
                      let '(_, s1, unr) := rl in
                      let T := us_T s1 in
                      let copy4 := fold_left (fun c op => rename_usages fx (fst op) (snd op) true c) (us_ops s1) copy3 in
                      let copy5 := fold_left (fun c al =>
                                                let final := match smap_find (snd al) unr with Some x => x | None => snd al end in
                                                rename_usages fx (fst al) final (has_units final T) c) alias copy4 in
                      let copy6 := if fx_late fx then c_set_kids (c_kids copy5 ++ pk') copy5 else copy5 in
                      let cs2 := update_at cs1 p (fun _ => copy6) in
                      let dead := map v_oid (c_vars c) ++ flat_map comp_oids lost in
                      FOk (fs_set T cs2 (drop_eqs dead eqs3) (logs (comp_owners copy6) (us_st s1)) fs)
                  end
              end
          end
      end
  end.

(* the loop over the children in flattenComponentImports; rec = the recursive call *)
Fixpoint fci_go (rec : path -> fstate -> fres fstate) (p : path) (k i : nat) (fs : fstate) : fres fstate :=
  match k with
  | O => FOk fs
  | S k' => do fs' <- rec (p ++ [i]) fs; fci_go rec p k' (S i) fs'
  end.

(* importer.cpp: flattenComponentImports *)
Fixpoint flatten_component_imports (fuel : nat) (fx : flat_fixes) (libs : list model) (p : path) (fs : fstate) : fres fstate :=
  match fuel with
  | O => FFuel
  | S f =>
      do fs1 <- flatten_component fuel fx libs p fs;
      match comp_at (f_comps fs1) p with
      | None => FCrash
      | Some c => fci_go (flatten_component_imports f fx libs) p (List.length (c_kids c)) 0 fs1
      end
  end.

(* ------------------------------------------------------------------------------------------ Model::hasImports *)

(* model.cpp: hasUnitsImports: since 85ba0d4 the references of a units with a cyclic definition are not followed *)
Fixpoint has_units_imports_go (fuel : nat) (U : list units) (u : units) : fres bool :=
  match fuel with
  | O => FFuel
  | S f =>
      match u_imp u with
      | Some _ => FOk true
      | None =>
          fold_left (fun (acc : fres bool) d =>
                       do b <- acc;
                       if (b : bool) then FOk true
                       else if negb (str_is_empty (uc_ref d)) && negb (is_std_name (uc_ref d))
                            then match find_units (uc_ref d) U with
                                 | Some r => has_units_imports_go f U r
                                 | None => FOk false
                                 end
                            else FOk false) (u_defs u) (FOk false)
      end
  end.
Definition has_units_imports (fx : flat_fixes) (libs : list model) (fuel : nat) (U : list units) (u : units) : fres bool :=
  if fx_cycle_guard fx && has_units_cycle libs U (u_name u)
  then FOk (match u_imp u with Some _ => true | None => false end)
  else has_units_imports_go fuel U u.

(* model.cpp: hasComponentImports *)
Fixpoint comp_has_imports (c : comp) : bool :=
  match c with
  | Comp _ _ im _ _ kids => match im with Some _ => true | None => existsb comp_has_imports kids end
  end.

Definition has_imports (fx : flat_fixes) (libs : list model) (fuel : nat) (fs : fstate) : fres bool :=
  do b <- fold_left (fun (acc : fres bool) u => do b <- acc; if (b : bool) then FOk true else has_units_imports fx libs fuel (f_units fs) u)
                    (f_units fs) (FOk false);
  if b then FOk true else FOk (existsb comp_has_imports (f_comps fs)).

(* ------------------------------------------------------------------------------------------ Importer::flattenModel *)

(* 'for (index = 0; index < flatModel->unitsCount(); ++index)': the count is read again at every turn *)
Fixpoint top_units_loop (fuel : nat) (fx : flat_fixes) (libs : list model) (index : nat) (fs : fstate) : fres fstate :=
  match fuel with
  | O => FFuel
  | S f =>
      match nth_error (f_units fs) index with
      | None => FOk fs
      | Some u =>
          match u_imp u with
          | Some _ =>
              let s0 := {| us_S := []; us_So := f_own fs; us_T := f_units fs; us_To := f_own fs; us_ops := [];
                           us_comp := false; us_st := f_st fs |} in
              do s1 <- flatten_units_imports fuel fx libs index s0;
              top_units_loop f fx libs (S index) (fs_set (us_T s1) (f_comps fs) (f_eqs fs) (us_st s1) fs)
          | None => top_units_loop f fx libs (S index) fs
          end
      end
  end.

Fixpoint top_comps_loop (fuel : nat) (fx : flat_fixes) (libs : list model) (k index : nat) (fs : fstate) : fres fstate :=
  match k with
  | O => FOk fs
  | S k' => do fs' <- flatten_component_imports fuel fx libs [index] fs;
            top_comps_loop fuel fx libs k' (S index) fs'
  end.

Fixpoint flatten_loop (rounds fuel : nat) (fx : flat_fixes) (libs : list model) (fs : fstate) : fres fstate :=
  match rounds with
  | O => FFuel
  | S r =>
      do b <- has_imports fx libs fuel fs;
      if b
      then do fs1 <- top_units_loop fuel fx libs 0 fs;
           do fs2 <- top_comps_loop fuel fx libs (List.length (f_comps fs1)) 0 fs1;
           flatten_loop r fuel fx libs fs2
      else FOk fs
  end.

(* Importer::flattenModel after the pre-checks.  n0: the first unused identity tag.
   rounds bounds the 'while (flatModel->hasImports())' loop, fuel every inner recursion. *)
Definition flatten_model (rounds fuel : nat) (fx : flat_fixes) (libs : list model) (m : model) (n0 : nat) : fres (model * st) :=
  do c <- clone_model m {| nx := n0; wlog := [] |};
  let (flat, st0) := c in
  let fs := {| f_own := m_own flat; f_name := m_name flat; f_units := m_units flat; f_comps := m_comps flat;
               f_eqs := m_eqs flat; f_st := st0 |} in
  do fs' <- flatten_loop rounds fuel fx libs fs;
  FOk ({| m_own := f_own fs'; m_name := f_name fs'; m_units := f_units fs'; m_comps := f_comps fs'; m_eqs := f_eqs fs' |}, f_st fs').

(* ------------------------------------------------------------------------------------------ the write log *)
(* newest first.  A write is fine when the object was created during flattening; the library is written only by the
   dummy variable that indexStackOf(importedComponent) adds to the imported component and removes again (two entries
   in a row with the same library owner). *)
Fixpoint wlog_ok (l : list owner) : bool :=
  match l with
  | [] => true
  | OFresh _ :: r => wlog_ok r
  | OLib a :: r => match r with
                   | OLib b :: r' => Nat.eqb a b && wlog_ok r'
                   | _ => false
                   end
  | OOrigin :: _ => false
  end.
