(** Properties_C19.v — statements only.  Each theorem is closed by [exact <lemma of IfaceProofs>] and followed
    by Print Assumptions.  C19: model repair helpers establish what they promise.

    Vocabulary (IfaceDefs.v / IfaceSpec.v):
      [fix_model fixed m]  Model::fixVariableInterfaces on the model [m]: (model afterwards, return value).
                           [fixed = true]  the loop of publicAndOrPrivateInterfaceTypeRequired looks at every
                                           equivalence (fixes/C19-interface-early-exit.diff);
                           [fixed = false] the pinned loop, which stops once a public and a private need are known.
      [model_occs m]       the variables of the component tree with their position, pre-order;
      [model_locs m]       variable tag -> (its component, that component's parent entity);
      [NeedsPublic/NeedsPrivate/Impossible L o e]  what the equivalence with [e] asks of the occurrence [o]:
                           sibling-or-parent / child / parent-less or neither sibling nor parent and child;
      [Sufficient s L o]   the attribute string [s] is a valid interface type covering every equivalence of [o],
                           none of which is impossible;
      [fix_occ fixed L o]  the image of an occurrence under the call;
      [validate_connections fixed m]  the issues of the Validator's interface and equivalence-structure checks;
      [link_model m], [has_unlinked m], [clean_model m]  Model::linkUnits, hasUnlinkedUnits, clean. *)
From Coq Require Import String List Bool.
From LC Require Import IfaceDefs IfaceSpec IfaceProofs IfaceMinProofs IfaceOwnDefs IfaceOwnProofs IfaceRound5Proofs.
From LCGen Require Import IfaceTable.
Import ListNotations.
Local Open Scope string_scope.

(* ================================================================================================ *)
(** * The regenerated tables say what the code relies on *)

Theorem C19_table_facts :
  interface_type_enumerators = ["NONE"; "PRIVATE"; "PUBLIC"; "PUBLIC_AND_PRIVATE"] /\
  itype_string INone = "none" /\ itype_string IPrivate = "private" /\ itype_string IPublic = "public" /\
  itype_string IBoth = "public_and_private" /\
  permits_literal_none = "none" /\ permits_literal_both = "public_and_private".
Proof. exact IfaceProofs.table_facts. Qed.
Print Assumptions C19_table_facts.

(* ================================================================================================ *)
(** * fixVariableInterfaces *)

(** The tree afterwards is the tree before with every occurrence replaced by its image, and the position index
    is unchanged. *)
Theorem C19_fix_occurrences : forall fixed m,
  model_occs (fst (fix_model fixed m)) = map (fix_occ fixed (model_locs m)) (model_occs m) /\
  model_locs (fst (fix_model fixed m)) = model_locs m.
Proof. exact IfaceProofs.P_fix_occurrences. Qed.
Print Assumptions C19_fix_occurrences.

(** true => every variable that has equivalences carries an interface type sufficient for all of them. *)
Theorem C19_fix_true_sufficient : forall m,
  snd (fix_model true m) = true ->
  forall o', In o' (model_occs (fst (fix_model true m))) -> has_eqs (o_v o') = true ->
  Sufficient (v_iface (o_v o')) (model_locs (fst (fix_model true m))) o'.
Proof. exact IfaceProofs.fix_true_sufficient. Qed.
Print Assumptions C19_fix_true_sufficient.

(** ... and the validator then raises no interface issue (nor an equivalence-structure issue). *)
Theorem C19_fix_true_validator_silent : forall m,
  snd (fix_model true m) = true -> validate_connections true (fst (fix_model true m)) = [].
Proof. exact IfaceProofs.validator_silent_after_fix. Qed.
Print Assumptions C19_fix_true_validator_silent.

(** The validator's silence means something: with the repaired loop it reports every impossible equivalence of
    a non-imported component. *)
Theorem C19_validator_complete : forall m,
  validate_connections true m = [] ->
  forall o, In o (model_occs m) -> o_imp o = false -> AllPossible (model_locs m) o.
Proof. exact IfaceProofs.validator_complete. Qed.
Print Assumptions C19_validator_complete.

(** Variables whose interface already sufficed keep their attribute string — whole occurrence unchanged
    (both variants of the loop; covers variables without equivalences). *)
Theorem C19_fix_unchanged_when_sufficient : forall fixed L o,
  Sufficient (v_iface (o_v o)) L o -> fix_occ fixed L o = o.
Proof. exact IfaceProofs.fix_occ_unchanged_sufficient. Qed.
Print Assumptions C19_fix_unchanged_when_sufficient.

(** "If the interface type for a variable cannot be set correctly, it is left unchanged" (model.h). *)
Theorem C19_fix_unchanged_when_impossible : forall L o,
  (exists e, In e (v_eqs (o_v o)) /\ Impossible L o e) -> fix_occ true L o = o.
Proof. exact IfaceProofs.fix_occ_unchanged_impossible. Qed.
Print Assumptions C19_fix_unchanged_when_impossible.

(** false exactly when some equivalence joins components that are neither siblings nor parent and child, or
    involves a parent-less variable. *)
Theorem C19_fix_false_iff : forall m,
  snd (fix_model true m) = false <->
  exists o e, In o (model_occs m) /\ In e (v_eqs (o_v o)) /\ Impossible (model_locs m) o e.
Proof. exact IfaceProofs.fix_false_iff. Qed.
Print Assumptions C19_fix_false_iff.

Theorem C19_impossible_iff : forall L o e,
  Impossible L o e <->
  lookup_loc L e = None \/
  exists ce pe, lookup_loc L e = Some (ce, pe) /\ pe <> Some (o_p o) /\ ce <> o_p o /\ pe <> Some (o_c o).
Proof. exact IfaceProofs.impossible_iff. Qed.
Print Assumptions C19_impossible_iff.

(** ... and the other variables are still fixed (both variants of the loop). *)
Theorem C19_fix_others_still_fixed : forall fixed m o,
  In o (model_occs m) -> has_eqs (o_v o) = true -> AllPossible (model_locs m) o ->
  Sufficient (v_iface (o_v (fix_occ fixed (model_locs m) o))) (model_locs m) o.
Proof. exact IfaceProofs.fix_others_still_fixed. Qed.
Print Assumptions C19_fix_others_still_fixed.

(** What exactly is written: the attribute is kept when permitsInterfaceType accepts it, otherwise it becomes
    the minimal type; the result is always one of the three valid non-"none" values. *)
Theorem C19_fix_result : forall fixed L o,
  has_eqs (o_v o) = true -> AllPossible L o ->
  determine true L o <> INone /\
  v_iface (o_v (fix_occ fixed L o)) =
    (if permits (v_iface (o_v o)) (determine true L o) then v_iface (o_v o) else itype_string (determine true L o)) /\
  (let s := v_iface (o_v (fix_occ fixed L o)) in s = "public" \/ s = "private" \/ s = "public_and_private").
Proof. exact IfaceProofs.P_fix_result. Qed.
Print Assumptions C19_fix_result.

(** Invalid interface strings: an attribute that is not one of the four valid values never "permits" anything
    and is overwritten with the minimal type (when all equivalences are possible; otherwise C19_fix_unchanged_when_impossible). *)
Theorem C19_fix_invalid_string : forall fixed L o,
  has_eqs (o_v o) = true -> AllPossible L o -> ~ valid_iface (v_iface (o_v o)) ->
  v_iface (o_v (fix_occ fixed L o)) = itype_string (determine true L o).
Proof. exact IfaceProofs.fix_occ_invalid_string. Qed.
Print Assumptions C19_fix_invalid_string.

(** Nothing but interface attributes changes. *)
Theorem C19_fix_frame : forall fixed m,
  let m' := fst (fix_model fixed m) in
  m_tag m' = m_tag m /\ m_heap m' = m_heap m /\ m_units m' = m_units m /\ m_ext m' = m_ext m /\
  map strip_comp (m_comps m') = map strip_comp (m_comps m).
Proof. exact IfaceProofs.fix_frame. Qed.
Print Assumptions C19_fix_frame.

Theorem C19_fix_idempotent : forall fixed m,
  fix_model fixed (fst (fix_model fixed m)) = (fst (fix_model fixed m), snd (fix_model fixed m)).
Proof. exact IfaceProofs.fix_idempotent. Qed.
Print Assumptions C19_fix_idempotent.

(* ---- minimality (IfaceMinProofs.v): exactly the insufficient attributes are rewritten, to the least type *)

(** For a variable all of whose equivalences are possible: the type the repaired code computes is sufficient and is
    the LEAST sufficient attribute (any sufficient string is that type or public_and_private);
    permitsInterfaceType decides sufficiency; the call leaves the occurrence alone iff its attribute was
    sufficient, and otherwise writes exactly that least type (both variants of the loop). *)
Theorem C19_fix_least : forall L o, has_eqs (o_v o) = true -> AllPossible L o ->
  Sufficient (itype_string (determine true L o)) L o /\
  (forall s, Sufficient s L o -> s = itype_string (determine true L o) \/ s = "public_and_private") /\
  (forall s, Sufficient s L o <-> permits s (determine true L o) = true) /\
  forall fixed,
    (fix_occ fixed L o = o <-> Sufficient (v_iface (o_v o)) L o) /\
    (~ Sufficient (v_iface (o_v o)) L o ->
       v_iface (o_v (fix_occ fixed L o)) = itype_string (determine true L o) /\ fix_occ fixed L o <> o) /\
    Sufficient (v_iface (o_v (fix_occ fixed L o))) L o.
Proof. exact IfaceMinProofs.fix_least. Qed.
Print Assumptions C19_fix_least.

(** Whole models, every component forest: the result is the pointwise image; the return value is true iff every
    equivalence of every variable is possible (soundness and completeness); variables without equivalences or with
    an impossible one are untouched; every other variable keeps a sufficient attribute and otherwise receives
    the least sufficient type, and ends sufficient. *)
Theorem C19_fix_exact : forall m,
  let L := model_locs m in
  model_occs (fst (fix_model true m)) = map (fix_occ true L) (model_occs m) /\
  (snd (fix_model true m) = true <-> forall o, In o (model_occs m) -> AllPossible L o) /\
  forall o, In o (model_occs m) ->
    (has_eqs (o_v o) = false -> fix_occ true L o = o) /\
    (~ AllPossible L o -> fix_occ true L o = o) /\
    (has_eqs (o_v o) = true -> AllPossible L o ->
       (Sufficient (v_iface (o_v o)) L o -> fix_occ true L o = o) /\
       (~ Sufficient (v_iface (o_v o)) L o ->
          v_iface (o_v (fix_occ true L o)) = itype_string (determine true L o) /\ fix_occ true L o <> o) /\
       Sufficient (v_iface (o_v (fix_occ true L o))) L o /\
       (forall s, Sufficient s L o -> s = itype_string (determine true L o) \/ s = "public_and_private")).
Proof. exact IfaceMinProofs.fix_exact. Qed.
Print Assumptions C19_fix_exact.

Example C19_fix_least_nonvacuous :
  let L := model_locs m_ok in
  let oa := mkO 0 1 false (mkV 4 "bogus" [5] None) in
  let oc := mkO 2 3 false (mkV 6 "public_and_private" [5] None) in
  In oa (model_occs m_ok) /\ In oc (model_occs m_ok) /\
  AllPossible L oa /\ ~ Sufficient "bogus" L oa /\ determine true L oa = IPrivate /\
  v_iface (o_v (fix_occ true L oa)) = "private" /\
  AllPossible L oc /\ determine true L oc = IPublic /\ Sufficient "public" L oc /\ fix_occ true L oc = oc.
Proof. exact IfaceMinProofs.fix_least_nonvacuous. Qed.
Print Assumptions C19_fix_least_nonvacuous.

(* ---- the pinned loop (DESIGN.md section 5, row 28) *)

(** With the early exit the property is false: the call returns true although a variable is equivalent to a
    parent-less variable, and the validator then complains. *)
Theorem C19_fix_true_sufficient_refuted :
  exists m, snd (fix_model false m) = true /\
    (exists o e, In o (model_occs m) /\ In e (v_eqs (o_v o)) /\ Impossible (model_locs m) o e) /\
    validate_connections false (fst (fix_model false m)) <> [].
Proof. exact IfaceProofs.unfixed_true_sufficient_refuted. Qed.
Print Assumptions C19_fix_true_sufficient_refuted.

(** Same shape with the third variable in a component outside the model: true, and the pinned validator (which
    shares the loop) reports nothing about it either — before or after the call. *)
Theorem C19_fix_false_iff_refuted :
  exists m, snd (fix_model false m) = true /\ validate_connections false (fst (fix_model false m)) = [] /\
    validate_connections false m = [IssIface 4; IssIface 5; IssIface 6] /\
    exists o e, In o (model_occs m) /\ o_imp o = false /\ In e (v_eqs (o_v o)) /\ Impossible (model_locs m) o e.
Proof. exact IfaceProofs.unfixed_validator_blind_refuted. Qed.
Print Assumptions C19_fix_false_iff_refuted.

(** ... and a variable with an impossible equivalence is rewritten. *)
Theorem C19_fix_unchanged_when_impossible_refuted :
  exists m o, In o (model_occs m) /\ (exists e, In e (v_eqs (o_v o)) /\ Impossible (model_locs m) o e) /\
    fix_occ false (model_locs m) o <> o.
Proof. exact IfaceProofs.unfixed_changes_impossible_refuted. Qed.
Print Assumptions C19_fix_unchanged_when_impossible_refuted.

(** The exact condition: the two loops differ on an occurrence iff an impossible equivalence is listed behind
    possible ones that already ask for a public and for a private interface. *)
Theorem C19_early_exit_exact : forall L o,
  (required false L o <> required true L o <-> HiddenImpossible L o) /\
  (HiddenImpossible L o -> required false L o = (true, true) /\ required true L o = (false, false)).
Proof. exact IfaceProofs.P_early_exit_exact. Qed.
Print Assumptions C19_early_exit_exact.

(** Partial: on models without such an occurrence the pinned call is the repaired call, so every theorem above
    holds for it. *)
Theorem C19_fix_unfixed_partial : forall m,
  (forall o, In o (model_occs m) -> ~ HiddenImpossible (model_locs m) o) ->
  fix_model false m = fix_model true m.
Proof. exact IfaceProofs.P_fix_unfixed_partial. Qed.
Print Assumptions C19_fix_unfixed_partial.

(** The direction of false_iff that survives the early exit. *)
Theorem C19_fix_false_only_if : forall fixed m,
  snd (fix_model fixed m) = false ->
  exists o e, In o (model_occs m) /\ In e (v_eqs (o_v o)) /\ Impossible (model_locs m) o e.
Proof. exact IfaceProofs.fix_false_only_if. Qed.
Print Assumptions C19_fix_false_only_if.

(** The repaired loop on the two witnesses; non-vacuity of the implications. *)
Example C19_fix_witnesses_fixed :
  snd (fix_model true m28) = false /\
  validate_connections true (fst (fix_model true m28)) = [IssNoParent 5 7] /\
  snd (fix_model true m28x) = false /\
  validate_connections true (fst (fix_model true m28x)) = [IssUnreach 5 7].
Proof. exact IfaceProofs.P_fix_witnesses_fixed. Qed.
Print Assumptions C19_fix_witnesses_fixed.

Example C19_fix_nonvacuous :
  snd (fix_model true m_ok) = true /\ validate_connections true m_ok = [IssIface 4; IssIface 5] /\
  validate_connections true (fst (fix_model true m_ok)) = [] /\ fst (fix_model true m_ok) <> m_ok.
Proof. exact IfaceProofs.P_fix_nonvacuous. Qed.
Print Assumptions C19_fix_nonvacuous.

(* ================================================================================================ *)
(** * linkUnits / hasUnlinkedUnits *)

(** linkUnits() = true => hasUnlinkedUnits() is false and every variable naming non-standard units holds a units
    object owned by the model, of that name: the one it held, or the first of the model's list with the name.
    [units_owned]: the units of the model's list have the model as parent (ownership invariant, C09). *)
Theorem C19_link_true_post : forall m,
  units_owned m -> snd (link_model m) = true ->
  has_unlinked (fst (link_model m)) = false /\
  forall o t u, In o (model_occs m) -> v_units (o_v o) = Some t -> uget (m_heap m) t = Some u ->
    is_standard_unit u = false ->
    exists t' u', v_units (o_v (link_occ m o)) = Some t' /\ uget (m_heap m) t' = Some u' /\
      u_owner u' = Some (m_tag m) /\ u_name u' = u_name u /\ (t' = t \/ FirstNamed m (u_name u) t').
Proof. exact IfaceProofs.link_true_post. Qed.
Print Assumptions C19_link_true_post.

(** The ownership hypothesis is needed (state reachable through Model::replaceUnits, see design_notes/C19.md). *)
Example C19_link_needs_ownership :
  ~ units_owned m_stolen /\ snd (link_model m_stolen) = true /\ has_unlinked (fst (link_model m_stolen)) = true.
Proof. exact IfaceProofs.link_needs_ownership. Qed.
Print Assumptions C19_link_needs_ownership.

(** Identity: what each variable holds afterwards, case by case, and its contribution to the return value. *)
Theorem C19_link_identity : forall m,
  model_occs (fst (link_model m)) = map (link_occ m) (model_occs m) /\
  snd (link_model m) = forallb (fun o => snd (link_var m (o_v o))) (model_occs m) /\
  forall v, LinkCase m v (fst (link_var m v)) (snd (link_var m v)).
Proof. exact IfaceProofs.P_link_identity. Qed.
Print Assumptions C19_link_identity.

Theorem C19_link_false_iff : forall m,
  snd (link_model m) = false <->
  exists o t u, In o (model_occs m) /\ v_units (o_v o) = Some t /\ uget (m_heap m) t = Some u /\
    ((u_owner u = None /\ is_standard_unit u = false /\ NoneNamed m (u_name u)) \/
     (exists w, u_owner u = Some w /\ w <> m_tag m)).
Proof. exact IfaceProofs.link_false_iff. Qed.
Print Assumptions C19_link_false_iff.

Theorem C19_has_unlinked_iff : forall m,
  has_unlinked m = true <->
  exists o t u, In o (model_occs m) /\ v_units (o_v o) = Some t /\ uget (m_heap m) t = Some u /\
    is_standard_unit u = false /\ u_owner u <> Some (m_tag m).
Proof. exact IfaceProofs.has_unlinked_iff. Qed.
Print Assumptions C19_has_unlinked_iff.

Theorem C19_link_frame : forall m,
  let m' := fst (link_model m) in
  m_tag m' = m_tag m /\ m_heap m' = m_heap m /\ m_units m' = m_units m /\ m_ext m' = m_ext m /\
  map nounits_comp (m_comps m') = map nounits_comp (m_comps m).
Proof. exact IfaceProofs.link_frame. Qed.
Print Assumptions C19_link_frame.

Theorem C19_link_idempotent : forall m,
  units_owned m -> link_model (fst (link_model m)) = (fst (link_model m), snd (link_model m)).
Proof. exact IfaceProofs.link_idempotent. Qed.
Print Assumptions C19_link_idempotent.

Example C19_link_nonvacuous :
  units_owned m_link /\ has_unlinked m_link = true /\ snd (link_model m_link) = true /\
  has_unlinked (fst (link_model m_link)) = false.
Proof. exact IfaceProofs.P_link_nonvacuous. Qed.
Print Assumptions C19_link_nonvacuous.

(* ---- histories of the units / ownership API (IfaceOwnDefs.v): where [units_owned] comes from *)

(** Every call of Model::addUnits / removeUnits (index, name, object, equal-but-distinct object) / removeAllUnits /
    takeUnits / replaceUnits (three overloads), and the death of a model, keeps the invariant "no repetition in
    a units list, and every listed object answers that model as parent" — unless the call re-adds a units
    object to the model that already lists it. *)
Theorem C19_ownership_step : forall s o, Inv s -> readds s o = false -> Inv (fst (step s o)).
Proof. exact IfaceOwnProofs.inv_step. Qed.
Print Assumptions C19_ownership_step.

(** Every state reached from freshly created objects satisfies the hypothesis of C19_link_true_post, for
    every model of the state and whatever component tree it carries. *)
Theorem C19_reach_owned : forall s0 os m comps ext,
  fresh s0 -> any_readd s0 os = false -> units_owned (model_view (fst (run_ops s0 os)) m comps ext).
Proof. exact IfaceOwnProofs.reach_owned. Qed.
Print Assumptions C19_reach_owned.

(** ... so the post-condition of linkUnits holds after every such history, not only on fresh models. *)
Theorem C19_link_true_post_histories : forall s0 os m comps ext,
  fresh s0 -> any_readd s0 os = false ->
  let M := model_view (fst (run_ops s0 os)) m comps ext in
  snd (link_model M) = true ->
  has_unlinked (fst (link_model M)) = false /\
  forall o t u, In o (model_occs M) -> v_units (o_v o) = Some t -> uget (m_heap M) t = Some u ->
    is_standard_unit u = false ->
    exists t' u', v_units (o_v (link_occ M o)) = Some t' /\ uget (m_heap M) t' = Some u' /\
      u_owner u' = Some (m_tag M) /\ u_name u' = u_name u /\ (t' = t \/ FirstNamed M (u_name u) t').
Proof. exact IfaceOwnProofs.link_true_post_histories. Qed.
Print Assumptions C19_link_true_post_histories.

(** The exclusion is needed (known finding C19-readded-units-lose-parent): addUnits(u) twice, removeUnits(0)
    once — all three calls succeed, u is still listed, has no parent; linkUnits() true, hasUnlinkedUnits() true. *)
Theorem C19_reach_owned_refuted :
  fresh s_fresh /\ any_readd s_fresh h_readd = true /\
  snd (run_ops s_fresh h_readd) = [RBool true; RBool true; RBool true] /\
  let M := model_view (fst (run_ops s_fresh h_readd)) 0 tree_holding [] in
  m_units M = [10] /\ ~ units_owned M /\ snd (link_model M) = true /\ has_unlinked (fst (link_model M)) = true.
Proof. exact IfaceOwnProofs.reach_owned_refuted. Qed.
Print Assumptions C19_reach_owned_refuted.

Example C19_histories_nonvacuous :
  fresh s_two /\ any_readd s_two h_moves = false /\
  snd (run_ops s_two h_moves) = [RBool true; RBool true; RBool true; RBool true; RBool true; RBool true; RVoid] /\
  us_models (fst (run_ops s_two h_moves)) = [(0, [11; 10])] /\
  map u_owner (visible_heap (fst (run_ops s_two h_moves))) = [Some 0; Some 0; None].
Proof. exact IfaceOwnProofs.histories_nonvacuous. Qed.
Print Assumptions C19_histories_nonvacuous.

(* ================================================================================================ *)
(** * clean *)

(** The boolean the code computes is the documented definition of "empty". *)
Theorem C19_empty_is_documented : forall c,
  clean_comp c = (prune c, emptyb c) /\ (emptyb c = true <-> Empty c).
Proof. exact IfaceProofs.P_empty_is_documented. Qed.
Print Assumptions C19_empty_is_documented.

(** clean() removes exactly the empty components: the rows (parent entity, tag, own data, variables) of the
    result are the rows of the non-empty components, in the original order; nothing empty is left. *)
Theorem C19_clean_removes_exactly_empty : forall m,
  map fst (model_rows (clean_model m)) = map fst (filter (fun r => negb (row_empty r)) (model_rows m)) /\
  (forall r, In r (model_rows (clean_model m)) -> row_empty r = false) /\
  (forall t, In t (m_units (clean_model m)) <->
             In t (m_units m) /\ ~ exists u, uget (m_heap m) t = Some u /\ EmptyUnits u).
Proof. exact IfaceProofs.P_clean_removes_exactly_empty. Qed.
Print Assumptions C19_clean_removes_exactly_empty.

(** ... and leaves everything else untouched: every variable occurrence with its position, in order; the order
    of the units list; every units object except that a removed one loses its parent; the rest of the model. *)
Theorem C19_clean_frame : forall m,
  model_occs (clean_model m) = model_occs m /\
  m_units (clean_model m) =
    filter (fun t => negb (match uget (m_heap m) t with Some u => units_empty u | None => false end)) (m_units m) /\
  m_heap (clean_model m) = map (orphan_removed m) (m_heap m) /\
  (forall u, (In (u_tag u) (m_units m) /\ EmptyUnits u ->
              orphan_removed m u = mkU (u_tag u) (u_name u) (u_id u) (u_nunit u) (u_import u) None) /\
             (~ (In (u_tag u) (m_units m) /\ EmptyUnits u) -> orphan_removed m u = u)) /\
  m_tag (clean_model m) = m_tag m /\ m_ext (clean_model m) = m_ext m.
Proof. exact IfaceProofs.P_clean_frame. Qed.
Print Assumptions C19_clean_frame.

(** Round 5. clean() is idempotent, on every model (no ownership, no tag-uniqueness hypothesis): a second call
    changes neither the component tree, nor the units list, nor any units object (parents included), nor the
    rest of the model. *)
Theorem C19_clean_idempotent : forall m, clean_model (clean_model m) = clean_model m.
Proof. exact IfaceRound5Proofs.clean_idempotent. Qed.
Print Assumptions C19_clean_idempotent.

(** ... and every top-level component left by clean() is a fixed point of traverseHierarchyAndRemoveIfEmpty,
    which reports it "not empty". *)
Theorem C19_clean_fixpoint_comps : forall m c,
  In c (m_comps (clean_model m)) -> clean_comp c = (c, false).
Proof. exact IfaceRound5Proofs.clean_fixpoint_comps. Qed.
Print Assumptions C19_clean_fixpoint_comps.

Example C19_clean_nonvacuous :
  map (fun r => snd (fst (fst (fst r)))) (model_rows m_clean) = [1; 2; 3; 4; 5; 6; 7] /\
  map (fun r => snd (fst (fst (fst r)))) (model_rows (clean_model m_clean)) = [3; 5; 6; 7] /\
  m_units (clean_model m_clean) = [21].
Proof. exact IfaceProofs.P_clean_nonvacuous. Qed.
Print Assumptions C19_clean_nonvacuous.
