(** HeapReaddProofs.v — C09: the premise of the add* forms is necessary for ALL FOUR of them: a performed add* of an entity
    that its container already lists breaks the invariant, in every state satisfying it (components included: such a call
    passes addComponent's self / ancestor test and its removal-from-old-parent step does nothing, the old parent being
    the container itself). *)
From Coq Require Import List String Bool Arith PeanoNat Lia Relations.
From LC Require Import HeapDefs HeapBase HeapInv HeapOps HeapProofs HeapTotal HeapLive HeapHistoryProofs.
Import ListNotations.

Section Readd.
  Variable seq : state -> nat -> nat -> bool.

  (** re-attaching a listed child lists it twice, whatever the kind of list *)
  Lemma reattach_breaks_inv : forall s K k c, Inv s -> recv s k K = true -> In c (children s K k) ->
    ~ Inv (gc (attach true seq s K k c)).
  Proof.
    intros s K k c I Hr Hin J.
    assert (Hp : parent_of s c = Some k) by (eapply inv_cp; eauto).
    assert (E : attach true seq s K k c = push_child (set_parent_of s c (Some k)) K k c).
    { unfold attach, leave_parent. rewrite Hp. cbn [oeqb]. rewrite Nat.eqb_refl. reflexivity. }
    rewrite E in J. clear E.
    destruct (recv_facts s k K Hr) as [Hh [Hk _]].
    set (s1 := push_child (set_parent_of s c (Some k)) K k c) in *.
    assert (C1 : children s1 K k = children s K k ++ [c]).
    { unfold s1, push_child. rewrite children_set_children, length_set_parent_of, children_set_parent_of.
      rewrite Nat.eqb_refl, ck_eqb_refl, (ltb_inr _ _ Hk). reflexivity. }
    assert (A1 : alive s1 k = true) by (apply held_alive; exact Hh).
    pose proof (inv_nd _ J K k) as N. unfold gc in N. rewrite gc_children in N. fold (alive s1 k) in N. rewrite A1, C1 in N.
    apply NoDup_remove_2 in N. apply N. rewrite app_nil_r. exact Hin.
  Qed.

  (** addComponent of a listed child is never refused: the child is neither the container nor one of its ancestors *)
  Lemma readd_component_performed : forall s k c, Inv s -> In c (children s CComps k) ->
    add_component true seq s k (Some c) = Ok (gc (attach true seq s CComps k c)) (RBool true).
  Proof.
    intros s k c I Hin. unfold add_component.
    assert (Hp : par s c k) by (unfold par; eapply inv_cp; eauto).
    destruct (kind_is s k KModel); [reflexivity|].
    destruct (Nat.eqb_spec k c) as [->|Hne].
    { exfalso. exact (inv_ac s I _ (t1n_step _ _ _ _ Hp)). }
    destruct (has_ancestor s (fuel_of s) k c) as [[|]|] eqn:E.
    - exfalso. apply has_ancestor_true in E. apply (inv_ac s I c). eapply Relation_Operators.t1n_trans; [exact Hp|exact E].
    - reflexivity.
    - exfalso. eapply has_ancestor_terminates; eauto; unfold fuel_of; lia.
  Qed.

  (** ALL FOUR add* forms: a well-typed re-add (the call is one a caller can make: result not RIll) breaks the invariant *)
  Theorem step_readd_breaks_inv : forall s o s' r, Inv s -> readds s o = true ->
    step true seq s o = Ok s' r -> r <> RIll -> ~ Inv s'.
  Proof.
    intros s o s' r I R H Hr.
    destruct (readds_is_add s o R) as [_ [k [c [K [Hin Ho]]]]].
    destruct Ho as [[-> ->]|[[-> ->]|[[-> ->]|[-> ->]]]]; cbn [step] in H;
      match type of H with (if ?g then _ else _) = _ => destruct g eqn:G; [|inversion H; subst; exfalso; apply Hr; reflexivity] end;
      apply andb_true_iff in G; destruct G as [G1 G2].
    - rewrite (readd_component_performed s k c I Hin) in H. inversion H; subst. apply reattach_breaks_inv; assumption.
    - cbn in H. inversion H; subst. apply reattach_breaks_inv; assumption.
    - cbn in H. inversion H; subst. apply reattach_breaks_inv; assumption.
    - cbn in H. inversion H; subst. apply reattach_breaks_inv; assumption.
  Qed.

  (** hence the premise of [step_inv_add] is exact: for a call a caller can make, Inv is preserved IFF it is not a re-add *)
  Theorem add_preserves_iff : forall s o s' r, Inv s -> step true seq s o = Ok s' r -> r <> RIll ->
    (Inv s' <-> readds s o = false).
  Proof.
    intros s o s' r I H Hr. split.
    - intros J. destruct (readds s o) eqn:R; [|reflexivity]. exfalso. exact (step_readd_breaks_inv s o s' r I R H Hr J).
    - intros R. exact (step_inv seq s o s' r I R H).
  Qed.
End Readd.

(** non-vacuity: the component case on a concrete history *)
Lemma readd_component_example :
  exists s s' r, run true seq_conc (init HeapWitness.U1) [AddComponent 0 (Some 1); AddComponent 1 (Some 2)] = Some s /\
    Inv s /\ readds s (AddComponent 1 (Some 2)) = true /\
    step true seq_conc s (AddComponent 1 (Some 2)) = Ok s' r /\ r = RBool true /\ ~ Inv s'.
Proof.
  eexists. eexists. eexists. split; [vm_compute; reflexivity|]. split.
  { eapply (run_inv seq_conc [AddComponent 0 (Some 1); AddComponent 1 (Some 2)] (init HeapWitness.U1));
      [apply init_inv|vm_compute; repeat split|vm_compute; reflexivity]. }
  split; [vm_compute; reflexivity|]. split; [vm_compute; reflexivity|]. split; [reflexivity|].
  intros J. pose proof (inv_nd _ J CComps 1) as N. vm_compute in N.
  inversion N as [|a l Hn _]; subst. apply Hn. left. reflexivity.
Qed.
