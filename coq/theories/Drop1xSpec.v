(** Drop1xSpec.v — C14: the constructs a CellML 1.0 / 1.1 document may hold that CellML 2.0 does not have and that the
    permissive parser drops with a message ("ignoring child element ..."): [strip_foreign] removes them from a document.
    Definitions only (the theorem is Drop1xProofs.dropped_only_messages); plus the closed example documents used as
    witnesses in Properties_C14.v.

    Covered sites (src/parser.cpp, the mParsing1XVersion branches that end in setLevel(MESSAGE)):
      loadModel      a child element that is none of component / units / import (1.x), encapsulation / connection (2.0),
                     group / connection (1.x): rdf:RDF, documentation, ...
      loadComponent  a child element that is none of variable, reset (2.0), math, and is not named units: reaction (with
                     its variable_ref / role children), rdf:RDF, ...
      loadVariable   every child element
      loadImport     a child element that is neither component nor units (1.x) — unless nothing else is left (an import
                     without children gets the IMPORT_CHILD warning, so the last child is not stripped)
    Not covered by [strip_foreign] (compared on every run instead): foreign ATTRIBUTES (model, component, units,
    variable, map_components: "ignoring attribute"), foreign children of a connection, and — with fix
    C14-foreign-children — of units, unit, group, component_ref, map_components, map_variables. *)
From Coq Require Import String Ascii List Bool ZArith Arith.
From LC Require Import Common NumDefs XmlDefs EntTreeDefs PrintDefs LoadDefs Load1xDefs.
Import ListNotations.
Local Open Scope string_scope.
Local Open Scope bool_scope.
Local Open Scope list_scope.

Definition is_elem (x : xml) : bool := match x with Elem _ _ _ _ => true | _ => false end.

Definition strip_variable (x : xml) : xml :=
  match x with Elem ns nm attrs ks => Elem ns nm attrs (filter (fun k => negb (is_elem k)) ks) | _ => x end.

Definition comp_kid_known (k : xml) : bool :=
  is_cellml_any "variable" k || is_cellml20 "reset" k || is_mathml "math" k || negb (is_elem k)
  || String.eqb (xml_name k) "units".

Definition strip_comp_kid (k : xml) : xml := if is_cellml_any "variable" k then strip_variable k else k.

Definition strip_component (x : xml) : xml :=
  match x with Elem ns nm attrs ks => Elem ns nm attrs (map strip_comp_kid (filter comp_kid_known ks)) | _ => x end.

Definition import_kid_known (k : xml) : bool := is_1x "component" k || is_1x "units" k || negb (is_elem k).

Definition strip_import (x : xml) : xml :=
  match x with
  | Elem ns nm attrs ks => match filter import_kid_known ks with [] => x | ks' => Elem ns nm attrs ks' end
  | _ => x
  end.

Definition model_kid_known (k : xml) : bool :=
  is_1x "component" k || is_1x "units" k || is_1x "import" k || is_cellml20 "encapsulation" k || is_cellml20 "connection" k
  || is_1x "group" k || is_1x "connection" k || negb (is_elem k).

Definition strip_model_kid (k : xml) : xml :=
  if is_1x "component" k then strip_component k
  else if is_1x "units" k then k
  else if is_1x "import" k then strip_import k
  else k.

Definition strip_foreign (x : xml) : xml :=
  match x with Elem ns nm attrs ks => Elem ns nm attrs (map strip_model_kid (filter model_kid_known ks)) | _ => x end.

(** * closed examples *)
Definition E0 : env :=
  {| show15 := fun x => x; to_double := fun s => Some s; show_int := z_to_string;
     norm_math := fun s => Some [Elem MATHML_NS "math" [] [Text s]];
     math_text := fun x => match x with Elem _ _ _ [Text s] => s | _ => "" end |}.

Definition RDF_NS := "http://www.w3.org/1999/02/22-rdf-syntax-ns#".
Definition e10 (name : string) (attrs : list attr) (kids : list xml) : xml := Elem CELLML_1_0_NS name attrs kids.
Definition rdf : xml := Elem RDF_NS "RDF" [] [Elem RDF_NS "Description" [mkAttr RDF_NS "about" "#x"] []].

(** metadata in the model, a reaction with variable_ref / role and metadata in a component, metadata in a variable *)
Definition drop_example : xml :=
  e10 "model" [at_ "name" "m"]
      [ rdf;
        e10 "component" [at_ "name" "c"]
            [ e10 "variable" [at_ "name" "x"; at_ "units" "second"] [rdf];
              e10 "reaction" [at_ "reversible" "no"]
                  [e10 "variable_ref" [at_ "variable" "x"] [e10 "role" [at_ "role" "reactant"] []]];
              rdf ];
        e10 "import" [mkAttr XLINK_NS "href" "lib.xml"] [e10 "component" [at_ "name" "i"; at_ "component_ref" "r"] []; rdf] ].

(** metadata inside units, unit, group, component_ref, map_components, map_variables *)
Definition foreign_example : xml :=
  e10 "model" [at_ "name" "m"]
      [ e10 "units" [at_ "name" "u"] [rdf; e10 "unit" [at_ "units" "second"] [rdf]];
        e10 "component" [at_ "name" "a"] [e10 "variable" [at_ "name" "x"; at_ "units" "u"] []];
        e10 "component" [at_ "name" "b"] [e10 "variable" [at_ "name" "x"; at_ "units" "u"] []];
        e10 "group" [] [rdf; e10 "relationship_ref" [at_ "relationship" "encapsulation"] [];
                        e10 "component_ref" [at_ "component" "a"] [rdf; e10 "component_ref" [at_ "component" "b"] []]];
        e10 "connection" [] [e10 "map_components" [at_ "component_1" "a"; at_ "component_2" "b"] [rdf];
                             e10 "map_variables" [at_ "variable_1" "x"; at_ "variable_2" "x"] [rdf]] ].

(** two encapsulation groups (known finding C14-several-encapsulation-groups) *)
Definition groups_example : xml :=
  let grp p c := e10 "group" [] [e10 "relationship_ref" [at_ "relationship" "encapsulation"] [];
                                 e10 "component_ref" [at_ "component" p] [e10 "component_ref" [at_ "component" c] []]] in
  e10 "model" [at_ "name" "m"]
      [ e10 "component" [at_ "name" "a"] []; e10 "component" [at_ "name" "b"] []; e10 "component" [at_ "name" "c"] [];
        e10 "component" [at_ "name" "d"] []; grp "a" "b"; grp "c" "d" ].

(** the 1.x attribute offset of a unit (known finding C14-unit-attribute-error) *)
Definition offset_example : xml :=
  e10 "model" [at_ "name" "m"]
      [ e10 "units" [at_ "name" "celsius"] [e10 "unit" [at_ "units" "kelvin"; at_ "offset" "273.15"] []] ].
