(** Properties_C01.v — statements only.  C01: no input can crash, hang or corrupt the processing pipeline.
    Partial by nature: memory safety, undefined behaviour, libxml2 and allocation failure are observed by the
    ASan/UBSan pipeline driver, not proved.  What is proved here is the inter-stage CONTRACT over the executable models
    MathDefs (validator's MathML passes / analyser's consumption), RedDefs (a unit reducer) and NumDefs (numeric guards). *)
From Coq Require Import String Ascii List Bool ZArith.
From LC Require Import NumDefs NumSpec NumProofs MathDefs MathSpec MathProofs MathWF RedDefs RedProofs RedGuardProofs.
Import ListNotations.
Local Open Scope string_scope.

(** (a) The contract "what the validator accepts, the analyser can read" holds on the grammar of well-formed MathML
    (every supported operator, correct arities): no validator issue, and neither analyseNode nor the code right
    behind it goes through a null pointer. *)
Theorem C01_val_implies_ana_partial : forall x, WellFormedMath x -> val_math x = [] /\ ana x <> None.
Proof. exact MathWF.val_implies_ana_partial. Qed.
Print Assumptions C01_val_implies_ana_partial.

(** the same for every value of the repair switches: validator cf (064d865), df (fixes/C01-diff-operand-ci.diff),
    q (a5130f0), fx (054da43); analyser / generator F (064d865, fixes/C01-analyser-optional-children.diff,
    fixes/C01-generator-null-operand.diff) *)
Theorem C01_val_implies_ana_partial_gen : forall cf df q fx F x, WellFormedMath x ->
  val_math_env_gen3 cf df q fx std_vars std_units x = [] /\ ana_gen F x <> None.
Proof. exact MathWF.val_implies_ana_partial_gen. Qed.
Print Assumptions C01_val_implies_ana_partial_gen.

Example C01_wellformed_nonvacuous : exists x, WellFormedMath x /\ val_math x = [] /\ ana x <> None.
Proof. eexists. split; [exact MathWF.wf_example|]. apply MathWF.val_implies_ana_partial. exact MathWF.wf_example. Qed.
Print Assumptions C01_wellformed_nonvacuous.

(** ... and does NOT hold in general: documents the validator's three tree passes accept without an issue, on which
    the analyser dereferences null ([gap] is stated over the code as it is now, fx = false).  The first four are the suspects of DESIGN.md section 5 row 33; the others were found
    by enumerating small trees in the model.  Each is replayed on the real library by checks/c01.py (family K33). *)
Theorem C01_val_implies_ana_refuted :
  (* no arity rule for min / max / rem *)
  gap w_min_no_operand S_NodeNull /\ gap w_max_no_operand S_NodeNull /\ gap w_rem_no_operand S_NodeNull
  /\ gap w_min_one_operand S_EqnNotPrintable
  (* diff applied to something that is not a ci *)
  /\ gap w_diff_non_ci S_DiffNotCi
  (* a bare ci directly under math (any non-equation that cannot be printed) *)
  /\ gap w_bare_ci S_ExprNotPrintable /\ gap w_not_equation_min S_ExprNotPrintable
  (* an empty piecewise *)
  /\ gap w_empty_piecewise S_ChildNodeOfEmpty
  (* a ci whose first child is a comment: the validator's name check is skipped *)
  /\ gap w_ci_comment_first S_CiNoVariable
  (* apply only has to have ONE child *)
  /\ gap w_apply_without_operand S_NodeNull
  (* the children of degree / logbase / bvar are never visited by the arity pass *)
  /\ gap w_unvalidated_degree S_EqnNotPrintable /\ gap w_unvalidated_bvar S_ChildNodeOfEmpty
  /\ gap w_ci_empty_in_bvar S_CiNoChild /\ gap w_cn_empty_in_degree S_CnNoChild /\ gap w_cn_sep_in_degree S_CnSepChain.
Proof.
  repeat split;
    first [ apply MathProofs.gap_min_no_operand | apply MathProofs.gap_max_no_operand | apply MathProofs.gap_rem_no_operand
          | apply MathProofs.gap_min_one_operand | apply MathProofs.gap_diff_non_ci | apply MathProofs.gap_bare_ci
          | apply MathProofs.gap_not_equation_min | apply MathProofs.gap_empty_piecewise | apply MathProofs.gap_ci_comment_first
          | apply MathProofs.gap_apply_without_operand | apply MathProofs.gap_unvalidated_degree
          | apply MathProofs.gap_unvalidated_bvar | apply MathProofs.gap_ci_empty_in_bvar
          | apply MathProofs.gap_cn_empty_in_degree | apply MathProofs.gap_cn_sep_in_degree ].
Qed.
Print Assumptions C01_val_implies_ana_refuted.

Theorem C01_gap_refutes_contract : forall root s, gap root s -> val_now root = [] /\ ana_gen afix_none root = None.
Proof. exact MathProofs.gap_is_refutation. Qed.
Print Assumptions C01_gap_refutes_contract.

(** The proposed repair (arity rules for min / max as for times, for rem as for divide) closes the witnesses about those
    elements: with it the validator model rejects them.  (A rule "piecewise needs a child" would contradict the pinned
    test Validator.invalidMathMLElementsChildrenOrSiblings, so the empty piecewise stays a finding.) *)
Theorem C01_arity_fix_closes :
  val_fixed w_min_no_operand <> [] /\ val_fixed w_max_no_operand <> [] /\ val_fixed w_rem_no_operand <> []
  /\ val_fixed w_min_one_operand <> [] /\ val_fixed w_not_equation_min <> [].
Proof. exact MathProofs.arity_fix_closes. Qed.
Print Assumptions C01_arity_fix_closes.

(** C04's repair (the arity pass descends into degree / logbase / bvar) closes the witnesses hidden below a qualifier,
    except the empty piecewise. *)
Theorem C01_qualifier_fix_closes :
  val_qfixed w_unvalidated_degree <> [] /\ val_qfixed w_ci_empty_in_bvar <> []
  /\ val_qfixed w_cn_empty_in_degree <> [] /\ val_qfixed w_cn_sep_in_degree <> [].
Proof. exact MathProofs.qualifier_fix_closes. Qed.
Print Assumptions C01_qualifier_fix_closes.

(** Commit 064d865 (validator and analyser both take the first non-comment child of ci) closes the comment-first witness:
    still accepted, now read. *)
Theorem C01_ci_comment_fix_closes :
  val_math_env_gen3 true false false false std_vars std_units w_ci_comment_first = []
  /\ ana_gen afix_ci w_ci_comment_first <> None
  /\ ana_gen afix_none w_ci_comment_first = None.
Proof. exact MathProofs.ci_comment_fix_closes. Qed.
Print Assumptions C01_ci_comment_fix_closes.

(** fixes/C01-diff-operand-ci.diff: the validator rejects diff applied to a non-ci. *)
Theorem C01_diff_ci_fix_closes : val_dfixed w_diff_non_ci <> [] /\ val_now w_diff_non_ci = [].
Proof. exact MathProofs.diff_ci_fix_closes. Qed.
Print Assumptions C01_diff_ci_fix_closes.

(** With every repair, committed and proposed, each of the fifteen witnesses is either rejected by the validator or read
    by the analyser (and printable by the generator) without a null dereference. *)
Theorem C01_all_repairs_close :
  closed w_min_no_operand /\ closed w_max_no_operand /\ closed w_rem_no_operand /\ closed w_min_one_operand
  /\ closed w_diff_non_ci /\ closed w_bare_ci /\ closed w_not_equation_min /\ closed w_empty_piecewise
  /\ closed w_ci_comment_first /\ closed w_apply_without_operand /\ closed w_unvalidated_degree
  /\ closed w_unvalidated_bvar /\ closed w_ci_empty_in_bvar /\ closed w_cn_empty_in_degree /\ closed w_cn_sep_in_degree.
Proof. exact MathProofs.all_repairs_close. Qed.
Print Assumptions C01_all_repairs_close.

(** The validator's own passes are null-safe on every tree: each mathmlChildNode(...)-> it performs is preceded by
    the count test that makes the child exist. *)
Theorem C01_val_null_safe : forall cf df q fx vars units root,
  ~ In V_NULL_DEREF (val_math_env_gen3 cf df q fx vars units root).
Proof. exact MathProofs.val_null_safe. Qed.
Print Assumptions C01_val_null_safe.

(** (b) Guarded conversions never throw (re-exported from C16): whatever the recognisers accept, strtod / strtol convert. *)
Theorem C01_convert_double_total : forall s, convert_to_double s <> DThrowsInvalidArgument.
Proof. exact NumProofs.convert_double_total. Qed.
Print Assumptions C01_convert_double_total.

Theorem C01_convert_int_total : forall s, convert_to_int_flow s <> IThrowsInvalidArgument.
Proof. exact NumProofs.convert_int_total. Qed.
Print Assumptions C01_convert_int_total.

(** The one unguarded conversion: std::stod on an initial_value / cn text while evaluating a power exponent
    (analyser.cpp: powerValue).  A CellML real always converts ... *)
Theorem C01_stod_real_partial : forall s, is_real s = true -> stod s <> StodInvalidArgument.
Proof. exact MathProofs.stod_real_partial. Qed.
Print Assumptions C01_stod_real_partial.

(** ... but the validator also accepts a variable NAME as initial_value, and never checks the range of a real:
    before 82725c7 (sf = false) the exception left Analyser::analyseModel (family K-stod). *)
Theorem C01_stod_unguarded_refuted :
  (initial_value_accepted std_vars "y" = true /\ stod "y" = StodInvalidArgument
   /\ val_now w_pow_iv_name = [] /\ pow_math_env_gen afix_none false std_vars [("z", "y")] w_pow_iv_name = Some StodInvalidArgument)
  /\ (initial_value_accepted std_vars "1e400" = true /\ stod "1e400" = StodOutOfRange
      /\ pow_math_env_gen afix_none false std_vars [("z", "1e400")] w_pow_iv_name = Some StodOutOfRange)
  /\ (val_now w_pow_cn_range = [] /\ pow_math_env_gen afix_none false std_vars [] w_pow_cn_range = Some StodOutOfRange).
Proof. exact MathProofs.stod_unguarded_refuted. Qed.
Print Assumptions C01_stod_unguarded_refuted.

(** Commit 82725c7 (convertToDouble instead of std::stod): with the repair the evaluation of an exponent never throws,
    whatever the initial values and the document. *)
Theorem C01_stod_fix_total :
  (forall ivs a avail e, power_value true ivs a avail <> PvThrow e)
  /\ (forall F vars ivs root, pow_math_env_gen F true vars ivs root = None).
Proof. exact MathProofs.stod_fix_total. Qed.
Print Assumptions C01_stod_fix_total.

Example C01_stod_nonvacuous :
  pow_math_env_gen afix_none false std_vars [("z", "2")] w_pow_iv_name = None /\ ana_gen afix_none w_pow_iv_name <> None.
Proof. exact MathProofs.pow_ok_example. Qed.
Print Assumptions C01_stod_nonvacuous.

(** Recursive unit reducers without a visited set (model: units.cpp updateUnitMultiplier, as it was before 85ba0d4 and as
    the importer's checkUnitsForCycles / fetchUnits and transferUnitsRenamingIfRequired still are): on an acyclic units
    graph every reduction returns within fuel |env| ... *)
Theorem C01_reducers_terminate :
  forall is_std std_log env, acyclic is_std env ->
    forall n, update_unit_multiplier is_std std_log env (length env) n <> ROutOfFuel.
Proof. exact RedProofs.reducers_terminate. Qed.
Print Assumptions C01_reducers_terminate.

(** ... and on a two-cycle no fuel suffices (stack exhaustion in reality: family K3). *)
Theorem C01_cyclic_reducers_diverge_refuted :
  (forall fuel, update_unit_multiplier no_std no_log two_cycle fuel "a" = ROutOfFuel) /\ ~ acyclic no_std two_cycle.
Proof. exact RedProofs.cyclic_reducers_diverge_refuted. Qed.
Print Assumptions C01_cyclic_reducers_diverge_refuted.

Example C01_reducers_nonvacuous :
  acyclic no_std chain3 /\ update_unit_multiplier no_std no_log chain3 3 "c" = RValue 0%Z.
Proof. exact RedProofs.chain3_acyclic. Qed.
Print Assumptions C01_reducers_nonvacuous.

(** Commit 85ba0d4 (hasUnitsCycle consulted first): with the guard the modelled reducer returns on EVERY environment ...
    GUARDED in /repo: Units::isDefined / isResolved / scalingFactor (hence compatible, equivalent) / requiresImports,
    hasUnitsImports (Model::hasImports, Printer), referencedUnits (unitsUsed: Component::isDefined / isResolved,
    Model::hasUnresolvedImports), validator unitsAreEquivalent (updateBaseUnitCount).
    NOT guarded, and therefore still open findings of the pipeline run (known_findings.d/C01.json): the importer's own
    recursions checkUnitsForCycles / fetchUnits over the LOCAL references of an imported file (C01-K3-importer-recursion-
    unguarded) and transferUnitsRenamingIfRequired, whose renaming can itself close a cycle while flattening
    (C01-K3-transfer-recursion).  The theorems below are about the guarded reducer only. *)
Theorem C01_cycle_guard_terminates :
  forall is_std std_log env n, guarded_multiplier is_std std_log env n <> ROutOfFuel.
Proof. exact RedProofs.cycle_guard_terminates. Qed.
Print Assumptions C01_cycle_guard_terminates.

(** ... and on acyclic environments it is the unguarded function, value for value. *)
Theorem C01_cycle_guard_transparent :
  forall is_std std_log env, acyclic is_std env ->
    forall n, guarded_multiplier is_std std_log env n = update_unit_multiplier is_std std_log env (S (length env)) n.
Proof. exact RedProofs.cycle_guard_transparent. Qed.
Print Assumptions C01_cycle_guard_transparent.

Example C01_cycle_guard_two_cycle :
  guarded_multiplier no_std no_log two_cycle "a" = RFalse /\ guarded_multiplier no_std no_log two_cycle "b" = RFalse
  /\ has_units_cycle no_std chain3 "c" = false.
Proof. exact RedProofs.cycle_guard_two_cycle. Qed.
Print Assumptions C01_cycle_guard_two_cycle.

(** The guard itself at full strength (RedGuardProofs.v): on EVERY environment — dangling references, standard names,
    any shape — the walk hasUnitsCycle answers true exactly when a reference cycle is reachable from the units
    (declarative [reach] / [on_cycle] over the graph of non-standard references to existing units); the fuel |env| + 1 is
    never the reason for its answer. *)
Theorem C01_guard_decides_cycles :
  forall is_std env n, has_units_cycle is_std env n = true <-> cycle_reachable is_std env n.
Proof. exact RedGuardProofs.guard_decides_cycles. Qed.
Print Assumptions C01_guard_decides_cycles.

Theorem C01_guard_fuel_irrelevant :
  forall is_std env k n, safe is_std env (S (length env) + k) [] n = safe is_std env (S (length env)) [] n.
Proof. exact RedGuardProofs.guard_fuel_irrelevant. Qed.
Print Assumptions C01_guard_fuel_irrelevant.

(** Hence "no input makes a guarded reducer diverge" without any acyclicity premise: the guarded reducer always returns;
    when the guard passes the plain reduction returns within fuel |env| + 1; when a cycle is reachable the answer is the
    one for undefined units; when none is, the guarded function is the unguarded one. *)
Theorem C01_guarded_reducers_total :
  forall is_std std_log env n,
    guarded_multiplier is_std std_log env n <> ROutOfFuel
    /\ (has_units_cycle is_std env n = false -> update_unit_multiplier is_std std_log env (S (length env)) n <> ROutOfFuel)
    /\ (has_units_cycle is_std env n = true -> guarded_multiplier is_std std_log env n = RFalse)
    /\ (~ cycle_reachable is_std env n -> guarded_multiplier is_std std_log env n
                                          = update_unit_multiplier is_std std_log env (S (length env)) n).
Proof. exact RedGuardProofs.guarded_reducers_total. Qed.
Print Assumptions C01_guarded_reducers_total.

(** What the guard of 85ba0d4 does NOT cover (the two open K3 findings): the importer's walk over the local references of
    an imported file never consults it (self-cycle u0 = [u0]: guard says cyclic, the walk diverges), and the renaming done
    while flattening makes an acyclic imported file cyclic (q = [v] renamed to q = [q]) before an unguarded recursion. *)
Theorem C01_unguarded_recursions_refuted :
  (has_units_cycle no_std self_cycle "u0" = true
   /\ forall fuel, update_unit_multiplier no_std no_log self_cycle fuel "u0" = ROutOfFuel)
  /\ (has_units_cycle no_std transfer_lib "q" = false
      /\ has_units_cycle no_std (rename_refs "v" "q" transfer_lib) "q" = true
      /\ forall fuel, update_unit_multiplier no_std no_log (rename_refs "v" "q" transfer_lib) fuel "q" = ROutOfFuel).
Proof. exact RedGuardProofs.unguarded_recursions_refuted. Qed.
Print Assumptions C01_unguarded_recursions_refuted.

Example C01_guard_decides_nonvacuous :
  cycle_reachable no_std two_cycle "a" /\ ~ cycle_reachable no_std chain3 "c"
  /\ has_units_cycle no_std two_cycle "a" = true /\ has_units_cycle no_std chain3 "c" = false.
Proof. exact RedGuardProofs.guard_decides_nonvacuous. Qed.
Print Assumptions C01_guard_decides_nonvacuous.
