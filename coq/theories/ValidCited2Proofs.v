(** ValidCited2Proofs.v — C04 proofs: rule_cited for units (incl. reference cycles) and for connections. *)
From Coq Require Import String Ascii List Bool Arith ZArith Lia.
From LC Require Import Common NumDefs NumSpec MathDefs ValidDefs ValidSpec ValidLeaf ValidCompProofs ValidConnProofs
  ValidUnitsProofs ValidCitedProofs ValidCycleProofs.
Import ListNotations.
Local Open Scope string_scope.
Local Open Scope list_scope.
Local Open Scope nat_scope.

Lemma same_class_eq : forall r r', same_class r r' -> ~ In r [V_UNITS_NAME_UNIQUE; V_IMPORT_UNITS_NAME_UNIQUE] -> r = r'.
Proof. intros r r' [H|[H _]] Hn; [exact H | contradiction]. Qed.

Section Cited2.
  Variable fx : fixes.
  Variable ueq : world -> string -> string -> option bool.

  (* ---------------------------------------------------------------- units *)

  (** what can be wrong with one units element of the model, and the rule it is filed under *)
  Inductive units_violation (m : model) (u : units) : vrule -> Prop :=
  | UV_name : ~ IsIdent (u_name u) -> units_violation m u (if is_import_u u then V_IMPORT_UNITS_NAME_VALUE else V_UNITS_NAME_VALUE)
  | UV_std : IsIdent (u_name u) -> StdUnit (u_name u) -> units_violation m u V_UNITS_STANDARD
  | UV_id : ~ XmlName (u_id u) -> units_violation m u V_XML_ID_ATTRIBUTE
  | UV_ref : forall it, In it (u_items u) -> ~ UnitsRefOK m (ui_ref it) -> units_violation m u V_UNIT_UNITS_REFERENCE
  | UV_item_id : forall it, In it (u_items u) -> ~ XmlName (ui_id it) -> units_violation m u V_XML_ID_ATTRIBUTE
  | UV_prefix : forall it, In it (u_items u) -> ~ PrefixOK (ui_prefix it) -> units_violation m u V_UNIT_ATTRIBUTE_PREFIX_VALUE
  | UV_import_ref : forall s r, u_imp u = Some (s, r) -> ~ IsIdent r -> units_violation m u V_IMPORT_UNITS_UNITS_REFERENCE_VALUE
  | UV_href : forall s r, u_imp u = Some (s, r) -> (is_url s = "" \/ is_url_ok s = false) -> units_violation m u V_IMPORT_HREF_LOCATOR.

  Lemma in_plains : forall r l, In r l -> In (Plain r) (plains l).
  Proof. intros r l H. unfold plains. apply in_map_iff. exists r. split; [reflexivity | exact H]. Qed.

  Lemma units_violation_raised : forall f W u R, units_violation (model_at W 0) u R ->
    In (Plain R) (validate_units (S f) W 0 true [] u ORIGIN).
  Proof.
    intros f W u R H. cbn [validate_units local_cycle existsb]. set (m := model_at W 0) in *.
    destruct H as [H|H1 H2|H|it Hit H|it Hit H|it Hit H|s r Hi H|s r Hi H].
    - apply in_or_app. right. apply in_or_app. right. apply in_or_app. left. apply in_plains.
      apply is_ident_false_iff in H. rewrite H. cbn [negb]. left. reflexivity.
    - apply in_or_app. right. apply in_or_app. right. apply in_or_app. left. apply in_plains.
      apply is_ident_iff in H1. apply is_std_unit_iff in H2. rewrite H1, H2. cbn [negb]. left. reflexivity.
    - do 3 (apply in_or_app; right). apply in_or_app. left. apply in_plains. rewrite (not_xml_name _ H). left. reflexivity.
    - do 4 (apply in_or_app; right). apply in_flat_map. exists it. split; [exact Hit|]. apply in_or_app. left.
      destruct (is_ident (ui_ref it)) eqn:E1; [|left; reflexivity].
      destruct (is_std_unit (ui_ref it)) eqn:E2.
      + exfalso. apply H. apply units_ref_ok_iff. rewrite E1, E2. reflexivity.
      + destruct (find_units (m_units m) (ui_ref it)) as [t|] eqn:E3; [|left; reflexivity].
        exfalso. apply H. apply units_ref_ok_iff. rewrite E1, E2. unfold has_units. rewrite E3. reflexivity.
    - do 4 (apply in_or_app; right). apply in_flat_map. exists it. split; [exact Hit|]. apply in_or_app. right. apply in_or_app. left.
      apply in_plains. rewrite (not_xml_name _ H). left. reflexivity.
    - do 4 (apply in_or_app; right). apply in_flat_map. exists it. split; [exact Hit|]. apply in_or_app. right. apply in_or_app. right.
      apply in_plains. destruct (validate_prefix (ui_prefix it)) as [|x l] eqn:E.
      + exfalso. apply H. apply validate_prefix_nil. exact E.
      + assert (Hx : x = V_UNIT_ATTRIBUTE_PREFIX_VALUE).
        { unfold validate_prefix in E. destruct (str_is_empty (ui_prefix it)); [discriminate E|].
          destruct (is_std_prefix (ui_prefix it)); [discriminate E|]. destruct (is_int (ui_prefix it)); cbn in E.
          - destruct (to_int (ui_prefix it)); inversion E; reflexivity.
          - inversion E; reflexivity. }
        subst x. left. reflexivity.
    - rewrite Hi. apply in_or_app. left. apply in_or_app. left. apply in_plains. apply in_or_app. left.
      apply is_ident_false_iff in H. rewrite H. left. reflexivity.
    - rewrite Hi. apply in_or_app. left. apply in_or_app. left. apply in_plains. apply in_or_app. right.
      unfold validate_import_source. apply in_or_app. right. destruct H as [H|H].
      + rewrite H. cbn. left. reflexivity.
      + destruct (str_is_empty (is_url s)); [left; reflexivity|]. rewrite H. left. reflexivity.
  Qed.

  (** a rule violated by any units of the model (first, last, imported or not) is cited *)
  Theorem units_rule_cited : forall early W u R, In u (m_units (model_at W 0)) -> units_violation (model_at W 0) u R ->
    In (Error, R) (validate fx ueq early W).
  Proof.
    intros early W u R Hu HV. apply plain_cited. unfold validate_raw. cbv zeta.
    do 3 (apply in_or_app; right). apply in_or_app. left. apply in_flat_map. exists u. split; [exact Hu|].
    pose proof (units_fuel_enough W) as Hf. destruct (units_fuel W) as [|f] eqn:E; [lia|].
    apply units_violation_raised. exact HV.
  Qed.

  (** a cycle of units references that a units of the model reaches is cited (whatever else is wrong) *)
  Theorem units_cycle_cited : forall early W u, units_stay_local (model_at W 0) ->
    In u (m_units (model_at W 0)) -> first_named (model_at W 0) u -> reaches_cycle (model_at W 0) (u_name u) ->
    In (Error, V_UNIT_UNITS_CIRCULAR_REFERENCE) (validate fx ueq early W).
  Proof.
    intros early W u Hloc Hu Hfn Hc. destruct (unit_cycle_detector_total W u Hloc Hu Hfn) as [_ [_ H]].
    destruct (H Hc) as [i [Hi Hci]]. destruct (units_reached fx ueq early W u i Hu Hi) as [r [Hr Hcl]].
    unfold is_cycle_issue in Hci. rewrite Hci in Hcl. apply same_class_eq in Hcl.
    - subst r. exact Hr.
    - cbn. intros [H0|[H0|[]]]; discriminate H0.
  Qed.

  (* ---------------------------------------------------------------- connections *)

  Lemma connection_issue_cited : forall early W me i, In me (model_locs (model_at W 0)) -> l_import me = false ->
    v_eqs (l_var me) <> [] ->
    In i (validate_variable_interface early (model_locs (model_at W 0)) me
          ++ validate_equivalence_units ueq W (model_locs (model_at W 0)) me
          ++ validate_equivalence_structure (model_locs (model_at W 0)) me) ->
    In i (validate_raw fx ueq early W).
  Proof.
    intros early W me i Hme Himp Hne Hi. unfold validate_raw. cbv zeta. do 4 (apply in_or_app; right). apply in_or_app. left.
    unfold validate_connections. cbv zeta. apply in_flat_map. exists me. split; [exact Hme|].
    destruct (v_eqs (l_var me)) as [|e r] eqn:E; [exfalso; apply Hne; reflexivity|]. rewrite Himp. exact Hi.
  Qed.

  (** a variable mapped to a variable that is in no component *)
  Theorem parentless_equivalence_cited : forall early W me e, In me (model_locs (model_at W 0)) -> l_import me = false ->
    In e (v_eqs (l_var me)) -> lookup_var (model_locs (model_at W 0)) (e_to e) = None ->
    In (Error, V_MAP_VARIABLES_VARIABLE1_ATTRIBUTE) (validate fx ueq early W).
  Proof.
    intros early W me e Hme Himp He Hl. apply plain_cited. apply (connection_issue_cited early W me _ Hme Himp).
    - intro H0. rewrite H0 in He. destruct He.
    - apply in_or_app. right. apply in_or_app. right. unfold validate_equivalence_structure. apply in_flat_map. exists e.
      split; [exact He|]. rewrite Hl. left. reflexivity.
  Qed.

  (** a mapping between components that are neither siblings nor parent and child (the tree as it is now: no early exit) *)
  Theorem unreachable_equivalence_cited : forall W me e o, In me (model_locs (model_at W 0)) -> l_import me = false ->
    In e (v_eqs (l_var me)) -> lookup_var (model_locs (model_at W 0)) (e_to e) = Some o ->
    ~ (Sibling me o \/ ChildOf me o \/ ChildOf o me) ->
    In (Error, V_MAP_VARIABLES_ELEMENT) (validate fx ueq false W).
  Proof.
    intros W me e o Hme Himp He Hl Hn. set (L := model_locs (model_at W 0)) in *.
    assert (Hr : reachable me o = false).
    { unfold reachable. apply not_true_is_false. intro H. apply Hn. rewrite !orb_true_iff, !child_of_iff, siblings_iff in H. tauto. }
    assert (Hi : In (Keyed (KPairI (v_tag (l_var me)) (e_to e))) (validate_raw fx ueq false W)).
    { apply (connection_issue_cited false W me _ Hme Himp); [intro H0; rewrite H0 in He; destruct He|].
      apply in_or_app. left. unfold validate_variable_interface. rewrite iface_required_spec. cbn [orb].
      assert (Hg : forallb (e_good L me) (v_eqs (l_var me)) = false).
      { apply not_true_is_false. intro H. rewrite forallb_forall in H. specialize (H e He). unfold e_good in H. fold L in H.
        rewrite Hl, Hr in H. discriminate H. }
      fold L. rewrite Hg. cbn [interface_type_for]. apply in_flat_map. exists e. split; [exact He|]. rewrite Hl, Hr. left. reflexivity. }
    destruct (raw_cited fx ueq false W _ Hi) as [r [Hr1 Hr2]]. cbn in Hr2. apply same_class_eq in Hr2.
    - subst r. exact Hr1.
    - cbn. intros [H0|[H0|[]]]; discriminate H0.
  Qed.

  (** a mapping between variables whose units do not reduce to the same base units *)
  Theorem incompatible_units_cited : forall early W me e o un un2, In me (model_locs (model_at W 0)) -> l_import me = false ->
    In e (v_eqs (l_var me)) -> lookup_var (model_locs (model_at W 0)) (e_to e) = Some o -> l_import o = false ->
    v_units (l_var me) = Some un -> v_units (l_var o) = Some un2 -> ueq W un un2 = Some false ->
    In (Error, V_MAP_VARIABLES_ELEMENT) (validate fx ueq early W).
  Proof.
    intros early W me e o un un2 Hme Himp He Hl Hio Hun Hun2 Hu.
    assert (Hi : In (Keyed (KPairU (v_tag (l_var me)) (e_to e))) (validate_raw fx ueq early W)).
    { apply (connection_issue_cited early W me _ Hme Himp); [intro H0; rewrite H0 in He; destruct He|].
      apply in_or_app. right. apply in_or_app. left. unfold validate_equivalence_units. rewrite Hun. apply in_flat_map. exists e.
      split; [exact He|]. rewrite Hl, Hio, Hun2, Hu. left. reflexivity. }
    destruct (raw_cited fx ueq early W _ Hi) as [r [Hr1 Hr2]]. cbn in Hr2. apply same_class_eq in Hr2.
    - subst r. exact Hr1.
    - cbn. intros [H0|[H0|[]]]; discriminate H0.
  Qed.
End Cited2.

(* ------------------------------------------------------------------ interface insufficient; units names not unique *)

Section Cited3.
  Variable fx : fixes.
  Variable ueq : world -> string -> string -> option bool.

  Lemma interface_issues_rule : forall L me i, In i (validate_variable_interface false L me) -> rule_of i = V_MAP_VARIABLES_ELEMENT.
  Proof.
    intros L me i H. unfold validate_variable_interface in H.
    destruct (interface_type_for (iface_required false L me (v_eqs (l_var me)) false false)).
    - apply in_flat_map in H. destruct H as [e [_ H]]. destruct (lookup_var L (e_to e)) as [o|]; [|destruct H].
      destruct (reachable me o); [destruct H|]. destruct H as [H|[]]. subst i. reflexivity.
    - destruct (contains _ _); [destruct H|]. destruct H as [H|[]]. subst i. reflexivity.
    - destruct (contains _ _); [destruct H|]. destruct H as [H|[]]. subst i. reflexivity.
    - destruct (contains _ _); [destruct H|]. destruct H as [H|[]]. subst i. reflexivity.
  Qed.

  (** every mapping of the variable is fine (located, reachable) but its interface attribute does not allow them *)
  Theorem interface_insufficient_cited : forall W me, In me (model_locs (model_at W 0)) -> l_import me = false ->
    v_eqs (l_var me) <> [] -> valid_iface (v_iface (l_var me)) ->
    Forall (fun e => exists o, lookup_var (model_locs (model_at W 0)) (e_to e) = Some o
                               /\ (Sibling me o \/ ChildOf me o \/ ChildOf o me)) (v_eqs (l_var me)) ->
    ~ InterfaceOK (model_locs (model_at W 0)) me ->
    In (Error, V_MAP_VARIABLES_ELEMENT) (validate fx ueq false W).
  Proof.
    intros W me Hme Himp Hne Hvi HG HnI. set (L := model_locs (model_at W 0)) in *.
    assert (HES : validate_equivalence_structure L me = []).
    { apply structure_nil. rewrite Forall_forall in *. intros e He. destruct (HG e He) as [o [Ho _]]. exists o. exact Ho. }
    destruct (validate_variable_interface false L me) as [|i rest] eqn:EVI.
    - exfalso. apply HnI. assert (H : validate_variable_interface false L me ++ validate_equivalence_structure L me = []) by (rewrite EVI, HES; reflexivity).
      apply (interface_structure_nil ueq W L me Hne Hvi) in H. exact (proj2 H).
    - assert (Hi : In i (validate_raw fx ueq false W)).
      { apply (connection_issue_cited fx ueq false W me i Hme Himp Hne). apply in_or_app. left. fold L. rewrite EVI. left. reflexivity. }
      destruct (raw_cited fx ueq false W _ Hi) as [r [Hr1 Hr2]].
      rewrite (interface_issues_rule L me i) in Hr2 by (rewrite EVI; left; reflexivity).
      apply same_class_eq in Hr2; [subst r; exact Hr1|]. cbn. intros [H0|[H0|[]]]; discriminate H0.
  Qed.

  (** two units of the model with the same name: one of the two "units name must be unique" rules is cited *)
  Theorem units_name_unique_cited : forall early W u, In u (m_units (model_at W 0)) ->
    1 < count_if (fun t => String.eqb (u_name t) (u_name u)) (m_units (model_at W 0)) ->
    In (Error, V_UNITS_NAME_UNIQUE) (validate fx ueq early W) \/ In (Error, V_IMPORT_UNITS_NAME_UNIQUE) (validate fx ueq early W).
  Proof.
    intros early W u Hu Hc.
    assert (Hi : In (Keyed (KUnitsName (is_import_u u) (u_name u))) (validate_units (units_fuel W) W 0 true [] u ORIGIN)).
    { pose proof (units_fuel_enough W) as Hf. destruct (units_fuel W) as [|f] eqn:E; [lia|].
      cbn [validate_units local_cycle existsb]. apply in_or_app. right. apply in_or_app. left.
      apply Nat.ltb_lt in Hc. rewrite Hc. left. reflexivity. }
    destruct (units_reached fx ueq early W u _ Hu Hi) as [r [Hr Hcl]]. cbn [rule_of key_rule] in Hcl.
    destruct Hcl as [Hcl|[_ Hcl]].
    - subst r. destruct (is_import_u u); [right | left]; exact Hr.
    - cbn in Hcl. destruct Hcl as [Hcl|[Hcl|[]]]; subst r; [left | right]; exact Hr.
  Qed.
End Cited3.
