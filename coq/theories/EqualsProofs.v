(** EqualsProofs.v — lemmas for C10 (statements are collected in Properties_C10.v). *)
From Coq Require Import String List Bool ZArith QArith Qabs Arith Permutation Lia.
From LC Require Import EqualsDefs EqualsSpec.
Import ListNotations.
Local Close Scope Q_scope.
Local Open Scope bool_scope.

(** * Part A: the matching loop *)

Section MatchingProofs.
  Context {A B : Type}.
  Variable R : A -> B -> bool.

  (** the right-hand elements an index list still refers to *)
  Definition sel (l2 : list B) (u : list nat) : list B :=
    flat_map (fun i => match nth_error l2 i with Some y => [y] | None => [] end) u.

  Lemma find_idx_sel : forall x l2 u,
    match find_idx R x l2 u with
    | None => remove_first R x (sel l2 u) = None
    | Some u' => remove_first R x (sel l2 u) = Some (sel l2 u')
    end.
  Proof.
    intros x l2 u. induction u as [|i t IH]; cbn [find_idx sel flat_map remove_first]; [reflexivity|].
    fold (sel l2 t).
    destruct (nth_error l2 i) as [y|] eqn:Hn; cbn [app remove_first].
    - destruct (R x y) eqn:Hr; [reflexivity|].
      destruct (find_idx R x l2 t) as [u'|]; cbn [option_map].
      + rewrite IH. cbn [option_map sel flat_map]. rewrite Hn. reflexivity.
      + rewrite IH. reflexivity.
    - destruct (find_idx R x l2 t) as [u'|]; cbn [option_map].
      + rewrite IH. cbn [sel flat_map]. rewrite Hn. reflexivity.
      + exact IH.
  Qed.

  Lemma match_idx_greedy : forall l1 l2 u, match_idx R l1 l2 u = greedy R l1 (sel l2 u).
  Proof.
    induction l1 as [|x t IH]; intros l2 u; cbn [match_idx greedy]; [reflexivity|].
    pose proof (find_idx_sel x l2 u) as H.
    destruct (find_idx R x l2 u) as [u'|]; rewrite H; [apply IH|reflexivity].
  Qed.

  Lemma sel_seq : forall n k l2, sel l2 (seq k n) = firstn n (skipn k l2).
  Proof.
    induction n as [|n IH]; intros k l2; cbn [seq sel flat_map firstn]; [reflexivity|].
    fold (sel l2 (seq (S k) n)). rewrite IH.
    destruct (nth_error l2 k) as [y|] eqn:Hn.
    - assert (Hs : skipn k l2 = y :: skipn (S k) l2).
      { clear IH. revert l2 Hn. induction k as [|k IHk]; intros [|z l2] Hn; cbn in *; try discriminate.
        - injection Hn as ->. reflexivity.
        - apply IHk. exact Hn. }
      rewrite Hs. reflexivity.
    - apply nth_error_None in Hn.
      rewrite (skipn_all2 l2) by lia. rewrite (skipn_all2 l2) by lia. rewrite firstn_nil. reflexivity.
  Qed.

  (** equalEntities looks only at the first |l1| children of the right operand *)
  Lemma equal_entities_greedy : forall l1 l2,
    equal_entities R l1 l2 = greedy R l1 (firstn (length l1) l2).
  Proof.
    intros. unfold equal_entities. rewrite match_idx_greedy, sel_seq. reflexivity.
  Qed.

  Lemma equal_entities_greedy_len : forall l1 l2, length l1 = length l2 ->
    equal_entities R l1 l2 = greedy R l1 l2.
  Proof.
    intros l1 l2 H. rewrite equal_entities_greedy, H, firstn_all. reflexivity.
  Qed.

  Lemma remove_first_some : forall x l2 r, remove_first R x l2 = Some r ->
    exists y, R x y = true /\ In y l2 /\ Permutation l2 (y :: r).
  Proof.
    intros x l2. induction l2 as [|y t IH]; intros r H; cbn [remove_first] in H; [discriminate|].
    destruct (R x y) eqn:Hr.
    - injection H as <-. exists y. split; [exact Hr|]. split; [left; reflexivity|apply Permutation_refl].
    - destruct (remove_first R x t) as [r'|]; cbn [option_map] in H; [|discriminate].
      injection H as <-. destruct (IH r' eq_refl) as (z & Hz & Hin & Hp).
      exists z. split; [exact Hz|]. split; [right; exact Hin|].
      eapply perm_trans; [apply perm_skip; exact Hp|apply perm_swap].
  Qed.

  Lemma remove_first_none : forall x l2, remove_first R x l2 = None -> forall y, In y l2 -> R x y = false.
  Proof.
    intros x l2. induction l2 as [|z t IH]; intros H y Hin; [destruct Hin|].
    cbn [remove_first] in H. destruct (R x z) eqn:Hr; [discriminate|].
    destruct (remove_first R x t); [discriminate|].
    destruct Hin as [<-|Hin]; [exact Hr|apply IH; [reflexivity|exact Hin]].
  Qed.

  Lemma remove_first_incl : forall x l2 r, remove_first R x l2 = Some r -> incl r l2.
  Proof.
    intros x l2 r H. destruct (remove_first_some _ _ _ H) as (y & _ & _ & Hp).
    intros z Hz. eapply Permutation_in; [apply Permutation_sym; exact Hp|right; exact Hz].
  Qed.

  Lemma remove_first_length : forall x l2 r, remove_first R x l2 = Some r -> length l2 = S (length r).
  Proof.
    intros x l2 r H. destruct (remove_first_some _ _ _ H) as (y & _ & _ & Hp).
    apply Permutation_length in Hp. exact Hp.
  Qed.

  Lemma greedy_length : forall l1 l2, greedy R l1 l2 = true -> length l1 <= length l2.
  Proof.
    induction l1 as [|x t IH]; intros l2 H; cbn [length]; [lia|].
    cbn [greedy] in H. destruct (remove_first R x l2) as [r|] eqn:Hr; [|discriminate].
    apply remove_first_length in Hr. apply IH in H. lia.
  Qed.

  (** what greedy decides, whatever the lengths: an injection of l1 into l2 along [E] *)
  Section Char.
    Variable E : A -> B -> Prop.

    Lemma greedy_sound : forall l1 l2,
      (forall x y, In x l1 -> In y l2 -> R x y = true -> E x y) ->
      greedy R l1 l2 = true ->
      exists l2' rest, Permutation l2 (l2' ++ rest) /\ Forall2 E l1 l2'.
    Proof.
      induction l1 as [|x t IH]; intros l2 HRE H.
      - exists [], l2. split; [apply Permutation_refl|constructor].
      - cbn [greedy] in H. destruct (remove_first R x l2) as [r|] eqn:Hr; [|discriminate].
        destruct (remove_first_some _ _ _ Hr) as (y & Hy & Hin & Hp).
        destruct (IH r) as (l2' & rest & Hp' & HF).
        + intros a b Ha Hb. apply HRE; [right; exact Ha|]. eapply remove_first_incl; eassumption.
        + exact H.
        + exists (y :: l2'), rest. split.
          * eapply perm_trans; [exact Hp|]. cbn [app]. apply perm_skip. exact Hp'.
          * constructor; [apply HRE; [left; reflexivity|exact Hin|exact Hy]|exact HF].
    Qed.

    (** E is "rectangular" (difunctional): holds for any relation of the form  x ~ y  built from an equivalence *)
    Hypothesis Edif : forall x x' y y', E x y -> E x' y -> E x' y' -> E x y'.

    Lemma swap_assignment : forall (x : A) (t : list A) (y0 y1 : B) (t' rest r : list B),
      E x y0 -> E x y1 -> Forall2 E t t' ->
      Permutation (y0 :: t' ++ rest) (y1 :: r) ->
      exists t'' rest', Permutation r (t'' ++ rest') /\ Forall2 E t t''.
    Proof.
      intros x t y0 y1 t' rest r Hx0 Hx1 HF Hp.
      assert (Hin : In y1 (y0 :: t' ++ rest)).
      { eapply Permutation_in; [apply Permutation_sym; exact Hp|left; reflexivity]. }
      destruct Hin as [Heq|Hin].
      - subst y1. apply Permutation_cons_inv in Hp. exists t', rest. split; [apply Permutation_sym; exact Hp|exact HF].
      - apply in_app_or in Hin. destruct Hin as [Hin|Hin].
        + (* y1 was assigned to some xk of t: give xk the element y0 instead *)
          apply in_split in Hin. destruct Hin as (t1 & t2 & ->).
          apply Forall2_app_inv_r in HF. destruct HF as (s1 & s2' & HF1 & HF2 & ->).
          inversion HF2 as [|xk yk s2 t2' Hk HF3]; subst.
          exists (t1 ++ y0 :: t2), rest. split.
          * apply Permutation_cons_inv with (a := y1).
            eapply perm_trans; [apply Permutation_sym; exact Hp|].
            (* y0 :: (t1 ++ y1 :: t2) ++ rest  ~  y1 :: (t1 ++ y0 :: t2) ++ rest *)
            rewrite <- !app_assoc. cbn [app].
            eapply perm_trans; [apply perm_skip; apply Permutation_sym; apply Permutation_middle|].
            eapply perm_trans; [apply perm_swap|]. apply perm_skip.
            apply Permutation_middle.
          * apply Forall2_app; [exact HF1|]. constructor; [|exact HF3].
            apply (Edif xk x y1 y0); assumption.
        + (* y1 was not assigned *)
          apply in_split in Hin. destruct Hin as (r1 & r2 & ->).
          exists t', (y0 :: r1 ++ r2). split; [|exact HF].
          apply Permutation_cons_inv with (a := y1).
          eapply perm_trans; [apply Permutation_sym; exact Hp|].
          eapply perm_trans; [apply perm_skip; rewrite app_assoc; apply Permutation_sym; apply Permutation_middle|].
          eapply perm_trans; [apply perm_swap|]. apply perm_skip.
          rewrite <- app_assoc. apply Permutation_middle.
    Qed.

    Lemma greedy_complete : forall l1 l2,
      (forall x y, In x l1 -> In y l2 -> (R x y = true <-> E x y)) ->
      (exists l2' rest, Permutation l2 (l2' ++ rest) /\ Forall2 E l1 l2') ->
      greedy R l1 l2 = true.
    Proof.
      induction l1 as [|x t IH]; intros l2 HRE (l2' & rest & Hp & HF); [reflexivity|].
      inversion HF as [|x0 y0 t0 t' Hxy HF']; subst.
      assert (Hy0 : In y0 l2).
      { eapply Permutation_in; [apply Permutation_sym; exact Hp|left; reflexivity]. }
      cbn [greedy]. destruct (remove_first R x l2) as [r|] eqn:Hr.
      - destruct (remove_first_some _ _ _ Hr) as (y1 & Hy1 & Hin1 & Hp1).
        apply IH.
        + intros a b Ha Hb. apply HRE; [right; exact Ha|]. eapply remove_first_incl; eassumption.
        + apply (swap_assignment x t y0 y1 t' rest r).
          * exact Hxy.
          * apply HRE; [left; reflexivity|exact Hin1|exact Hy1].
          * exact HF'.
          * eapply perm_trans; [apply Permutation_sym; exact Hp|exact Hp1].
      - exfalso. pose proof (remove_first_none _ _ Hr y0 Hy0) as Hf.
        assert (R x y0 = true) as Ht by (apply HRE; [left; reflexivity|exact Hy0|exact Hxy]).
        congruence.
    Qed.
  End Char.
End MatchingProofs.

Lemma Forall2_length_eq : forall {A B} (E : A -> B -> Prop) l1 l2, Forall2 E l1 l2 -> length l1 = length l2.
Proof. intros A B E l1 l2 H. induction H; cbn; congruence. Qed.

Lemma perm_rel_length : forall {A B} (E : A -> B -> Prop) l1 l2, perm_rel E l1 l2 -> length l1 = length l2.
Proof.
  intros A B E l1 l2 (l2' & Hp & HF). apply Forall2_length_eq in HF. apply Permutation_length in Hp. congruence.
Qed.

(** with equal lengths the injection is a bijection *)
Lemma injection_perm_rel : forall {A B} (E : A -> B -> Prop) l1 l2, length l1 = length l2 ->
  (exists l2' rest, Permutation l2 (l2' ++ rest) /\ Forall2 E l1 l2') <-> perm_rel E l1 l2.
Proof.
  intros A B E l1 l2 Hlen. split.
  - intros (l2' & rest & Hp & HF). exists l2'. split; [|exact HF].
    assert (rest = []) as ->.
    { apply Forall2_length_eq in HF. apply Permutation_length in Hp. rewrite app_length in Hp.
      destruct rest; [reflexivity|cbn in Hp; lia]. }
    rewrite app_nil_r in Hp. exact Hp.
  - intros (l2' & Hp & HF). exists l2', []. rewrite app_nil_r. split; assumption.
Qed.

(** the key lemma: for an equivalence, greedy matching of lists of equal length succeeds iff some
    permutation of the right list is pointwise related to the left list *)
Theorem greedy_iff_perm : forall {A} (R : A -> A -> bool),
  (forall x y, R x y = true -> R y x = true) ->
  (forall x y z, R x y = true -> R y z = true -> R x z = true) ->
  forall l1 l2,
    (greedy R l1 l2 = true <->
     exists l2' rest, Permutation l2 (l2' ++ rest) /\ Forall2 (fun x y => R x y = true) l1 l2')
    /\ (length l1 = length l2 ->
        (greedy R l1 l2 = true <->
         exists l2', Permutation l2 l2' /\ Forall2 (fun x y => R x y = true) l1 l2')).
Proof.
  intros A R Rsym Rtrans l1 l2.
  assert (H1 : greedy R l1 l2 = true <->
     exists l2' rest, Permutation l2 (l2' ++ rest) /\ Forall2 (fun x y => R x y = true) l1 l2').
  { split.
    - apply greedy_sound. intros; assumption.
    - apply greedy_complete.
      + intros x x' y y' H1 H2 H3. eapply Rtrans; [exact H1|]. eapply Rtrans; [apply Rsym; exact H2|exact H3].
      + intros; tauto. }
  split; [exact H1|].
  intros Hlen. rewrite H1. apply (injection_perm_rel (fun x y => R x y = true)). exact Hlen.
Qed.

(** without the length test greedy decides only an injection: the surplus of the right list is ignored *)
Lemma greedy_ignores_surplus : forall {A} (R : A -> A -> bool) l extra,
  (forall x, R x x = true) -> greedy R l (l ++ extra) = true.
Proof.
  intros A R l extra Hr. induction l as [|x t IH]; [reflexivity|].
  cbn [greedy app remove_first]. rewrite Hr. exact IH.
Qed.
