(** RoundtripConnFinalProofs.v — stage 4 of the C02 plan, unconditional: for EVERY printable model without imports
    (connections with mapping / connection ids, encapsulation of any depth) strict parsing of the printed document
    raises no issue and gives a model with the same content as canon m.  Discharges the hypothesis [groups_ok] of
    RoundtripConnTopProofs.roundtrip_conn_partial from printability, shows that the equivalences are added one by one
    without collision, that each printed connection carries the id of its entries, and closes the Permutation chain. *)
From Coq Require Import String Ascii List Bool ZArith Arith Lia Permutation.
From LC Require Import Common NumDefs XmlDefs EntTreeDefs PrintDefs LoadDefs RoundtripSpec XmlTextProofs
     RoundtripReadProofs RoundtripLoadProofs RoundtripFlatProofs RoundtripEncProofs RoundtripOrderProofs
     RoundtripMapsProofs RoundtripPathProofs RoundtripConnProofs RoundtripConnTopProofs.
Import ListNotations.
Local Open Scope string_scope.
Local Open Scope bool_scope.
Local Open Scope list_scope.

Opaque str_ok num_ok order_ok math_ok.

(** * lists *)
Lemma NoDup_map_on : forall {A B C} (f : A -> B) (g : A -> C) (l : list A),
  NoDup (map f l) -> (forall x y, In x l -> In y l -> g x = g y -> f x = f y) -> NoDup (map g l).
Proof.
  induction l as [|a l IH]; intros Hnd Hinj; [constructor|]. cbn [map] in *. inversion Hnd as [|? ? Ha Hl]; subst. constructor.
  - intros Hin. apply in_map_iff in Hin. destruct Hin as (y & Hy & Hyin). apply Ha.
    rewrite (Hinj a y (or_introl eq_refl) (or_intror Hyin) (eq_sym Hy)). now apply in_map.
  - apply IH; [exact Hl|]. intros x y Hx Hy. apply Hinj; now right.
Qed.

Lemma NoDup_map_inj_on : forall {A B} (f : A -> B) (l : list A),
  NoDup l -> (forall x y, In x l -> In y l -> f x = f y -> x = y) -> NoDup (map f l).
Proof.
  intros A B f l Hnd Hinj. apply (NoDup_map_on (fun x => x) f l); [now rewrite map_id | exact Hinj].
Qed.

Lemma NoDup_filter' : forall {A} (P : A -> bool) l, NoDup l -> NoDup (filter P l).
Proof.
  induction l as [|a l IH]; intros H; [constructor|]. inversion H; subst. cbn [filter]. destruct (P a); [|now apply IH].
  constructor; [|now apply IH]. intros Hin. apply filter_In in Hin. tauto.
Qed.

(** * endpoints *)
Definition ends (x : mapentry) : vpath * vpath := (me_v1 x, me_v2 x).
Definition opair (x : mapentry) : list (vpath * vpath) := [(me_v1 x, me_v2 x); (me_v2 x, me_v1 x)].
Definition epair (e : eqv) : list (vpath * vpath) := [(e_a e, e_b e); (e_b e, e_a e)].
Definition key_ends (k : key) : vpath * vpath := match k with (a, b, _, _) => (a, b) end.

Lemma opair_keys : forall l, flat_map opair l = map key_ends (flat_map okey l).
Proof. induction l as [|x l IH]; [reflexivity|]. cbn [flat_map]. rewrite map_app, <- IH. reflexivity. Qed.

Lemma epair_keys : forall l, flat_map epair l = map key_ends (flat_map ekey l).
Proof. induction l as [|x l IH]; [reflexivity|]. cbn [flat_map]. rewrite map_app, <- IH. reflexivity. Qed.

Lemma same_edge_true : forall a b e, same_edge a b e = true -> (e_a e = a /\ e_b e = b) \/ (e_a e = b /\ e_b e = a).
Proof.
  intros a b e H. unfold same_edge in H. apply orb_true_iff in H. destruct H as [H|H]; apply andb_true_iff in H; destruct H as [H1 H2];
    apply vpath_eqb_eq in H1; apply vpath_eqb_eq in H2; auto.
Qed.

Lemma same_edge_intro : forall a b e, (e_a e = a /\ e_b e = b) \/ (e_a e = b /\ e_b e = a) -> same_edge a b e = true.
Proof. intros a b e [[<- <-]|[<- <-]]; unfold same_edge; rewrite !vpath_eqb_refl; [reflexivity | apply orb_true_r]. Qed.

Lemma edges_distinct_nodup : forall es, edges_distinct es = true -> (forall e, In e es -> e_a e <> e_b e) -> NoDup (flat_map epair es).
Proof.
  induction es as [|e es IH]; intros H Hl; [constructor|]. cbn [edges_distinct] in H. apply andb_true_iff in H. destruct H as [He Hes].
  apply negb_true_iff in He.
  assert (Hnot : forall a b, ((e_a e = a /\ e_b e = b) \/ (e_a e = b /\ e_b e = a)) -> ~ In (a, b) (flat_map epair es)).
  { intros a b Hab Hin. apply in_flat_map in Hin. destruct Hin as (e' & He' & Hin).
    assert (Hs : same_edge (e_a e) (e_b e) e' = true).
    { apply same_edge_intro. cbn in Hin. destruct Hin as [Heq|[Heq|[]]]; injection Heq as <- <-; destruct Hab as [[<- <-]|[<- <-]]; auto. }
    assert (Hex : existsb (same_edge (e_a e) (e_b e)) es = true) by (apply existsb_exists; eauto). congruence. }
  cbn [flat_map epair app]. constructor.
  - intros [Heq|Hin]; [injection Heq as Hc _; apply (Hl e (or_introl eq_refl)); now symmetry | exact (Hnot _ _ (or_introl (conj eq_refl eq_refl)) Hin)].
  - constructor; [exact (Hnot _ _ (or_intror (conj eq_refl eq_refl)))|]. apply IH; [exact Hes | intros; apply Hl; now right].
Qed.

Lemma edges_ok_of_nodup : forall L, NoDup (flat_map epair L) -> edges_ok L.
Proof.
  induction L as [|x r IH]; intros H; [exact I|]. cbn [flat_map epair app] in H.
  inversion H as [|? ? H1 H2]; subst. inversion H2 as [|? ? H3 H4]; subst. cbn [edges_ok]. split; [|split].
  - intros Hc. apply H1. left. now rewrite Hc.
  - intros y Hy. apply not_true_iff_false. intros Hs. apply same_edge_true in Hs.
    assert (Hin : forall p, In p (epair y) -> In p (flat_map epair r)) by (intros p Hp; apply in_flat_map; eauto).
    destruct Hs as [[Ha Hb]|[Ha Hb]].
    + apply H1. right. apply Hin. left. now rewrite Ha, Hb.
    + apply H1. right. apply Hin. right. left. now rewrite Ha, Hb.
  - now apply IH.
Qed.

Section Final.
Variable E : env.
Variable m : model.
Hypothesis Hp : printable E true m.
Hypothesis Hni : no_imports m = true.

Let cs := m_comps m.
Let es := m_eqv m.
Let maps := build_maps m.
Let G := map (canon_comp E) (enc_order cs).

Lemma cs_names : NoDup (map (fun pc => cname (snd pc)) (all_comps cs)).
Proof. pose proof Hp as Hp'. unfold printable, printableb in Hp'. bsplit_all. now apply names_distinct_NoDup. Qed.

Lemma G_names : NoDup (names (flat_map dfs G)).
Proof. apply (G_names_ok E). pose proof cs_names as H. rewrite <- map_map in H. unfold all_comps in H. rewrite all_comps_dfs in H. exact H. Qed.

Lemma G_finds : forall p c, comp_at cs p = Some c -> exists q, comp_at G q = Some (canon_comp E c) /\ names_along G q = names_along cs p.
Proof. apply (G_finds_ok E). Qed.

Lemma cs_ok : forall p c, comp_at cs p = Some c ->
  nonempty (cname c) = true /\ is_import_comp c = false /\ NoDup (map v_name (c_vars (shell c)))
  /\ (forall x, In x (c_vars (shell c)) -> nonempty (v_name x) = true).
Proof. apply (cs_ok_printable E m Hp Hni). Qed.

Definition valid (v : vpath) : Prop := exists c x, comp_at cs (fst v) = Some c /\ nth_error (c_vars (shell c)) (snd v) = Some x.

Lemma valid_of_bool : forall v, vpath_valid cs v = true -> valid v.
Proof.
  intros v H. unfold vpath_valid, var_at in H. destruct (comp_at cs (fst v)) as [c|] eqn:Ec; [|discriminate].
  destruct (nth_error (c_vars (shell c)) (snd v)) as [x|] eqn:Ex; [|discriminate]. exists c, x. auto.
Qed.

Lemma edge_facts : forall e, In e es -> valid (e_a e) /\ valid (e_b e) /\ fst (e_a e) <> fst (e_b e).
Proof. intros e He. destruct (eqv_facts E m Hp e He) as (Ha & Hb & Hd). repeat split; [now apply valid_of_bool | now apply valid_of_bool | exact Hd]. Qed.

Lemma maps_perm_es : Permutation (flat_map okey maps) (flat_map ekey es).
Proof. exact (proj1 (build_maps_printable E m Hp)). Qed.

Lemma maps_from : forall x, In x maps -> exists e, In e es /\ touches (me_v1 x) e = true /\ x = mk_entry (me_v1 x) e.
Proof. exact (proj1 (proj2 (build_maps_printable E m Hp))). Qed.

Lemma maps_norev : forall x y, In x maps -> In y maps -> ~ (fst (me_v1 x) = fst (me_v2 y) /\ fst (me_v2 x) = fst (me_v1 y)).
Proof. exact (proj2 (proj2 (build_maps_printable E m Hp))). Qed.

(** an entry is an edge seen from one of its ends *)
Lemma entry_edge : forall x, In x maps -> exists e, In e es /\ me_mid x = e_mid e /\ me_cid x = e_cid e
  /\ ((me_v1 x = e_a e /\ me_v2 x = e_b e) \/ (me_v1 x = e_b e /\ me_v2 x = e_a e)).
Proof.
  intros x Hx. destruct (maps_from x Hx) as (e & He & Ht & Hxe). exists e. split; [exact He|].
  rewrite Hxe. unfold mk_entry, partner, touches in *. cbn [me_v1 me_v2 me_mid me_cid]. repeat split.
  destruct (vpath_eqb (e_a e) (me_v1 x)) eqn:Ea.
  - apply vpath_eqb_eq in Ea. left. auto.
  - cbn in Ht. apply vpath_eqb_eq in Ht. right. auto.
Qed.

Lemma maps_entry_ok : Forall (entry_ok cs) maps.
Proof.
  apply Forall_forall. intros x Hx. destruct (entry_edge x Hx) as (e & He & _ & _ & Hends). destruct (edge_facts e He) as (Ha & Hb & Hd).
  unfold entry_ok. destruct Hends as [[-> ->]|[-> ->]]; repeat split; try assumption. intros Hc. apply Hd. now symmetry.
Qed.

(** no two entries share their two variables, in either order *)
Lemma maps_ends_nodup : NoDup (flat_map opair maps).
Proof.
  apply (@Permutation_NoDup _ (flat_map epair es)).
  - apply Permutation_sym. rewrite opair_keys, epair_keys. apply Permutation_map. exact maps_perm_es.
  - apply edges_distinct_nodup.
    + pose proof Hp as Hp'. unfold printable, printableb in Hp'. bsplit_all. match goal with Hq : eqv_ok true m = true |- _ => unfold eqv_ok in Hq end. bsplit_all. assumption.
    + intros e He Hc. destruct (edge_facts e He) as (_ & _ & Hd). apply Hd. now rewrite Hc.
Qed.

(** entries between the same two components (in either direction) carry the same connection id *)
Lemma maps_cid_uniform : forall x y, In x maps -> In y maps -> me_pair x = me_pair y -> me_cid x = me_cid y.
Proof.
  intros x y Hx Hy Hpair. destruct (entry_edge x Hx) as (e & He & _ & Hcx & Hex). destruct (entry_edge y Hy) as (e' & He' & _ & Hcy & Hey).
  rewrite Hcx, Hcy.
  assert (Ho : one_cid_per_pair es = true).
  { pose proof Hp as Hp'. unfold printable, printableb in Hp'. bsplit_all. match goal with Hq : eqv_ok true m = true |- _ => unfold eqv_ok in Hq end. bsplit_all. assumption. }
  unfold one_cid_per_pair in Ho. rewrite forallb_forall in Ho. specialize (Ho e He). rewrite forallb_forall in Ho. specialize (Ho e' He').
  apply orb_true_iff in Ho. destruct Ho as [Ho|Ho]; [|now apply String.eqb_eq].
  exfalso. apply negb_true_iff in Ho. unfold me_pair in Hpair. injection Hpair as H1 H2.
  assert (Hu : unordered_ppair_eqb (e_pair e) (e_pair e') = true).
  { unfold unordered_ppair_eqb, e_pair, ppair_eqb. cbn [fst snd].
    destruct Hex as [[Ea Eb]|[Ea Eb]]; destruct Hey as [[Fa Fb]|[Fa Fb]]; rewrite Ea, Eb in *; rewrite Fa, Fb in *; rewrite H1, H2, !path_eqb_refl; cbn; rewrite ?orb_true_r; reflexivity. }
  congruence.
Qed.

(** ** (a) the printed groups are well formed *)
Definition npair (d : list nat * list nat) : string * string := (comp_name_at cs (fst d), comp_name_at cs (snd d)).
Definition valid_path (p : list nat) : Prop := exists c, comp_at cs p = Some c.

Lemma name_inj : forall p p', valid_path p -> valid_path p' -> comp_name_at cs p = comp_name_at cs p' -> p = p'.
Proof.
  intros p p' (c & Hc) (c' & Hc') Hn. destruct (classic_path p p') as [|Hne]; [assumption|]. exfalso.
  unfold comp_name_at in Hn. rewrite Hc, Hc' in Hn. exact (names_differ cs cs_names _ _ _ _ Hc Hc' Hne Hn).
Qed.

Lemma var_inj : forall v w, valid v -> valid w -> fst v = fst w -> var_name_at cs v = var_name_at cs w -> v = w.
Proof.
  intros [p i] [q j] (c & x & Hc & Hx) (c' & y & Hc' & Hy) Hf Hn. cbn [fst snd] in *. subst q. rewrite Hc in Hc'. injection Hc' as <-.
  unfold var_name_at, var_at in Hn. cbn [fst snd] in Hn. rewrite Hc, Hx, Hy in Hn.
  destruct (cs_ok _ _ Hc) as (_ & _ & Hnd & _).
  assert (H1 : nth_error (map v_name (c_vars (shell c))) i = Some (v_name x)) by (rewrite nth_error_map, Hx; reflexivity).
  assert (H2 : nth_error (map v_name (c_vars (shell c))) j = Some (v_name y)) by (rewrite nth_error_map, Hy; reflexivity).
  rewrite <- Hn in H2. f_equal. apply (proj1 (NoDup_nth_error _) Hnd i j); [apply nth_error_Some; rewrite H1; discriminate | congruence].
Qed.

Lemma ends_nodup_of : forall l, NoDup (flat_map opair l) -> NoDup (map ends l).
Proof.
  induction l as [|x l IH]; intros H; [constructor|]. cbn [flat_map opair app] in H. inversion H as [|? ? H1 H2]; subst. inversion H2 as [|? ? H3 H4]; subst.
  cbn [map]. constructor; [|now apply IH]. intros Hin. apply H1. right. apply in_map_iff in Hin. destruct Hin as (y & Hy & Hyin).
  apply in_flat_map. exists y. split; [exact Hyin|]. left. exact Hy.
Qed.

Lemma entry_valid_paths : forall x, entry_ok cs x -> valid_path (fst (me_v1 x)) /\ valid_path (fst (me_v2 x)).
Proof. intros x ((c1 & x1 & H1 & _) & (c2 & x2 & H2 & _) & _). split; eexists; eassumption. Qed.

Lemma np_of_inj : forall y z, entry_ok cs y -> entry_ok cs z -> me_pair y = me_pair z -> np_of cs y = np_of cs z -> ends y = ends z.
Proof.
  intros y z (Hy1 & Hy2 & _) (Hz1 & Hz2 & _) Hpair Hn. unfold me_pair in Hpair. injection Hpair as Hf1 Hf2.
  unfold np_of in Hn. injection Hn as Hn1 Hn2. unfold ends. f_equal; apply var_inj; assumption.
Qed.

Lemma groups_ok_gen : forall l done,
  Forall (entry_ok cs) l -> NoDup (map ends l) ->
  (forall x y, In x l -> In y l -> ~ (fst (me_v1 x) = fst (me_v2 y) /\ fst (me_v2 x) = fst (me_v1 y))) ->
  (forall d, In d done -> valid_path (fst d) /\ valid_path (snd d)) ->
  (forall x d, In x l -> In d done -> ~ (fst (me_pair x) = snd d /\ snd (me_pair x) = fst d)) ->
  groups_ok cs (map npair done) (conn_groups l done).
Proof.
  induction l as [|e r IH]; intros done Hok Hnd Hrev Hdv Hdr; [exact I|].
  inversion Hok as [|? ? He Hr]; subst. cbn [map] in Hnd. inversion Hnd as [|? ? Hne Hndr]; subst.
  cbn [conn_groups]. destruct (existsb (ppair_eqb (me_pair e)) done) eqn:Ed.
  - apply IH; try assumption; intros; [apply Hrev | apply Hdr]; try (now right); assumption.
  - cbn [groups_ok]. split.
    + exists e, (filter (fun e' => ppair_eqb (me_pair e') (me_pair e)) r). split; [reflexivity|].
      assert (Hg : forall y, In y (filter (fun e' => ppair_eqb (me_pair e') (me_pair e)) r) -> In y r /\ me_pair y = me_pair e).
      { intros y Hy. apply filter_In in Hy. destruct Hy as [Hy Hp']. split; [exact Hy | now apply ppair_eqb_eq]. }
      split; [|split; [|split]].
      * constructor; [exact He|]. apply Forall_forall. intros y Hy. rewrite Forall_forall in Hr. apply Hr. now apply Hg.
      * intros y Hy. now apply Hg.
      * apply (NoDup_map_on ends (np_of cs)).
        -- cbn [map]. constructor.
           ++ intros Hin. apply Hne. apply in_map_iff in Hin. destruct Hin as (y & Hy & Hyin). apply in_map_iff. exists y. split; [exact Hy | now apply Hg].
           ++ clear - Hndr. induction r as [|a r IHr]; [constructor|]. cbn [map] in Hndr. inversion Hndr as [|? ? Ha Hr']; subst. cbn [filter].
              destruct (ppair_eqb (me_pair a) (me_pair e)); [|now apply IHr]. cbn [map]. constructor; [|now apply IHr].
              intros Hin. apply Ha. apply in_map_iff in Hin. destruct Hin as (y & Hy & Hyin). apply filter_In in Hyin. apply in_map_iff. exists y. tauto.
        -- intros y z Hy Hz Hn.
           assert (Hyy : entry_ok cs y /\ me_pair y = me_pair e).
           { destruct Hy as [<-|Hy]; [auto|]. rewrite Forall_forall in Hr. destruct (Hg y Hy). auto. }
           assert (Hzz : entry_ok cs z /\ me_pair z = me_pair e).
           { destruct Hz as [<-|Hz]; [auto|]. rewrite Forall_forall in Hr. destruct (Hg z Hz). auto. }
           apply np_of_inj; try tauto. destruct Hyy as [_ ->]. destruct Hzz as [_ ->]. reflexivity.
      * (* no earlier connection between the same two components, in either direction *)
        cbn [hp fst snd]. destruct (entry_valid_paths e He) as [Hv1 Hv2]. intros Hin.
        apply in_map_iff in Hin. destruct Hin as (d & Hd & Hdin). destruct (Hdv d Hdin) as [Hd1 Hd2].
        unfold sort2 in Hd. destruct (str_ltb (comp_name_at cs (fst (me_v2 e))) (comp_name_at cs (fst (me_v1 e)))); unfold npair in Hd; injection Hd as H1 H2.
        -- apply (Hdr e d (or_introl eq_refl) Hdin). unfold me_pair. cbn [fst snd]. split; symmetry; apply name_inj; assumption.
        -- assert (Hde : d = me_pair e).
           { destruct d as [d1 d2]. unfold me_pair. cbn [fst snd] in *. f_equal; apply name_inj; assumption. }
           assert (Hex : existsb (ppair_eqb (me_pair e)) done = true).
           { apply existsb_exists. exists d. split; [exact Hdin|]. rewrite Hde. apply ppair_eqb_refl. }
           congruence.
    + replace (map npair done ++ [hp cs (e :: filter (fun e' => ppair_eqb (me_pair e') (me_pair e)) r)]) with (map npair (done ++ [me_pair e]))
        by (rewrite map_app; reflexivity).
      apply IH; try assumption.
      * intros x y Hx Hy. apply Hrev; now right.
      * intros d Hd. apply in_app_or in Hd. destruct Hd as [Hd|[<-|[]]]; [now apply Hdv|]. unfold me_pair. cbn [fst snd]. now apply entry_valid_paths.
      * intros x d Hx Hd. apply in_app_or in Hd. destruct Hd as [Hd|[<-|[]]]; [apply Hdr; [now right | exact Hd]|].
        unfold me_pair. cbn [fst snd]. apply Hrev; [now right | now left].
Qed.

Theorem groups_ok_printable : groups_ok cs [] (conn_groups maps []).
Proof.
  apply (groups_ok_gen maps []).
  - exact maps_entry_ok.
  - apply ends_nodup_of. exact maps_ends_nodup.
  - exact maps_norev.
  - intros d [].
  - intros x d _ [].
Qed.

(** ** (c) a printed connection carries the connection id of each of its entries *)
Let groups := conn_groups maps [].
Let CL := concat groups.

Lemma CL_perm : Permutation CL maps.
Proof. apply conn_groups_complete. Qed.

Lemma group_in_maps : forall g y, In g groups -> In y g -> In y maps.
Proof. intros g y Hg Hy. eapply Permutation_in; [apply CL_perm|]. apply in_concat. eauto. Qed.

Lemma group_cid : forall g y, In g groups -> In y g -> gcid g = me_cid y.
Proof.
  intros g y Hg Hy. destruct (conn_groups_uniform _ _ _ Hg) as (x & rest & -> & Hu).
  assert (Hpair : forall z, In z (x :: rest) -> me_pair z = me_pair x) by (intros z [<-|Hz]; [reflexivity | now apply Hu]).
  unfold gcid. destruct (last_in_or_default (map me_cid (x :: rest)) "") as [Hn|Hin]; [discriminate|].
  apply in_map_iff in Hin. destruct Hin as (z & Hz & Hzin). rewrite <- Hz.
  apply maps_cid_uniform.
  - exact (group_in_maps (x :: rest) z Hg Hzin).
  - exact (group_in_maps (x :: rest) y Hg Hy).
  - now rewrite (Hpair z Hzin), (Hpair y Hy).
Qed.

Definition R0 (y : mapentry) : eqv := Re cs G (me_cid y) y.

Lemma groups_R0 : flat_map (fun g => map (Re cs G (gcid g)) g) groups = map R0 CL.
Proof.
  unfold CL. assert (H : forall g y, In g groups -> In y g -> gcid g = me_cid y) by exact group_cid.
  clear - H. induction groups as [|g l IH]; [reflexivity|]. cbn [flat_map concat]. rewrite map_app. f_equal.
  - apply map_ext_in. intros y Hy. unfold R0. rewrite (H g y (or_introl eq_refl) Hy). reflexivity.
  - apply IH. intros g' y Hg' Hy. apply H; [now right | exact Hy].
Qed.

(** ** (b) the equivalences are added one by one, none collides *)
Definition RR (p : vpath * vpath) : vpath * vpath := (Rv cs G (fst p), Rv cs G (snd p)).

Lemma epair_R0 : forall l, flat_map epair (map R0 l) = map RR (flat_map opair l).
Proof. induction l as [|y l IH]; [reflexivity|]. cbn [map flat_map]. rewrite map_app, <- IH. reflexivity. Qed.

Lemma Rv_inj : forall v w, valid v -> valid w -> Rv cs G v = Rv cs G w -> v = w.
Proof.
  intros [p i] [q j] (c & x & Hc & _) (c' & y & Hc' & _) H. unfold Rv in H. cbn [fst snd] in *. injection H as HQ Hij. subst j. f_equal.
  exact (Q_inj E cs G cs_names G_names G_finds p q c c' Hc Hc' HQ).
Qed.

Lemma CL_entry_ok : forall y, In y CL -> entry_ok cs y.
Proof. intros y Hy. pose proof maps_entry_ok as H. rewrite Forall_forall in H. apply H. eapply Permutation_in; [apply CL_perm | exact Hy]. Qed.

Lemma resolved_edges_ok : edges_ok (map R0 CL).
Proof.
  apply edges_ok_of_nodup. rewrite epair_R0. apply NoDup_map_inj_on.
  - eapply Permutation_NoDup; [|exact maps_ends_nodup]. apply Permutation_flat_map. apply Permutation_sym. apply CL_perm.
  - assert (Hv : forall p, In p (flat_map opair CL) -> valid (fst p) /\ valid (snd p)).
    { intros p Hin. apply in_flat_map in Hin. destruct Hin as (y & Hy & Hin). destruct (CL_entry_ok y Hy) as (H1 & H2 & _).
      cbn in Hin. destruct Hin as [<-|[<-|[]]]; cbn [fst snd]; auto. }
    intros [a b] [a' b'] Hx Hy H. unfold RR in H. cbn [fst snd] in H. apply pair_equal_spec in H. destruct H as [Ha Hb].
    destruct (Hv _ Hx) as [Va Vb]. destruct (Hv _ Hy) as [Va' Vb']. cbn [fst snd] in *. f_equal; apply Rv_inj; assumption.
Qed.

Lemma add_all : add_list [] (map R0 CL) = map R0 CL.
Proof. rewrite add_list_distinct; [reflexivity | intros x y [] | exact resolved_edges_ok]. Qed.

(** ** (d) the same content *)
Definition nk (k : key) : (list string * string) * (list string * string) * string * string :=
  match k with (a, b, mid, cid) => (vpath_names cs a, vpath_names cs b, mid, cid) end.

Lemma comp_at_canon : forall l p, comp_at (map (canon_comp E) l) p = option_map (canon_comp E) (comp_at l p).
Proof.
  intros l [|i r]; [reflexivity|]. rewrite !comp_at_sub, nth_error_map. destruct (nth_error l i) as [c|]; [|reflexivity]. cbn [option_map].
  apply (sub_at_canon E).
Qed.

Lemma vpath_names_canon : forall v, vpath_names (map (canon_comp E) cs) v = vpath_names cs v.
Proof.
  intros v. unfold vpath_names, var_at. rewrite (names_along_canon E), comp_at_canon. destruct (comp_at cs (fst v)) as [c|]; [|reflexivity].
  cbn [option_map]. destruct c as [s ks]. reflexivity.
Qed.

Lemma ec_canon : forall e, edge_content (map (canon_comp E) cs) e = map nk (ekey e).
Proof. intros e. unfold edge_content, ekey, nk. cbn [map]. rewrite !vpath_names_canon. reflexivity. Qed.

Lemma ec_R0 : forall y, entry_ok cs y -> edge_content G (R0 y) = map nk (okey y).
Proof.
  intros y (H1 & H2 & _). unfold edge_content, R0, Re, okey, nk. cbn [map e_a e_b e_mid e_cid].
  rewrite (names_Rv E cs G G_names G_finds _ H1), (names_Rv E cs G G_names G_finds _ H2). reflexivity.
Qed.

Lemma flat_map_map_in : forall {A B C} (f : A -> list B) (g : B -> C) (h : A -> list C) l,
  (forall x, In x l -> h x = map g (f x)) -> flat_map h l = map g (flat_map f l).
Proof.
  induction l as [|x l IH]; intros H; [reflexivity|]. cbn [flat_map]. rewrite map_app, (H x (or_introl eq_refl)), IH; [reflexivity|].
  intros y Hy. apply H. now right.
Qed.

Lemma eqv_content_perm :
  Permutation (flat_map (edge_content G) (map R0 CL)) (flat_map (edge_content (map (canon_comp E) cs)) es).
Proof.
  rewrite flat_map_concat_map, map_map, <- flat_map_concat_map.
  rewrite (flat_map_map_in okey nk (fun y => edge_content G (R0 y)) CL) by (intros y Hy; apply ec_R0; now apply CL_entry_ok).
  rewrite (flat_map_map_in ekey nk (edge_content (map (canon_comp E) cs)) es) by (intros; apply ec_canon).
  apply Permutation_map. eapply Permutation_trans; [apply Permutation_flat_map; apply CL_perm | exact maps_perm_es].
Qed.

(** * stage 4: the round trip with connections, no extra hypothesis *)
Theorem roundtrip_conn_final :
  exists m', print_model E true m = Some (print_tree E m) /\ load E true true (print_tree E m) = (m', [])
             /\ content_eq m' (canon E m)
             /\ m' = {| m_name := m_name m; m_id := m_id m; m_encid := m_encid m; m_units := map (canon_units E) (m_units m);
                        m_comps := G; m_eqv := map R0 CL |}.
Proof.
  destruct (roundtrip_conn_partial E m Hp Hni groups_ok_printable) as [Hprint Hload].
  fold cs in Hload. fold G in Hload. fold maps in Hload. fold groups in Hload. rewrite groups_R0, add_all in Hload.
  eexists. split; [exact Hprint|]. split; [exact Hload|]. split; [|reflexivity].
  unfold content_eq, canon. cbn [m_name m_id m_encid m_units m_comps m_eqv]. repeat split; auto.
  - exists (map (canon_units E) (m_units m)). split; [apply Permutation_refl | apply Forall2_refl; apply units_eq_refl].
  - exists G. split; [unfold G; apply Permutation_map; apply Permutation_sym; apply enc_order_perm | apply Forall2_refl; apply comp_eq_refl].
  - exact eqv_content_perm.
Qed.

End Final.
