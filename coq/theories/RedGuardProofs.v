(** RedGuardProofs.v — the guard hasUnitsCycle (RedDefs.safe / has_units_cycle) at full strength: it decides "a reference
    cycle is reachable", on every environment, never exhausting its fuel; hence the guarded reducer is total. *)
From Coq Require Import String List Bool Arith ZArith Lia.
From LC Require Import RedDefs RedProofs.
Import ListNotations.
Local Open Scope string_scope.

Section Guard.
Variable is_std : string -> bool.
Variable env : uenv.

(** declarative side: the reference graph the reducers follow (non-standard references to units that exist) *)
Definition edge (a b : string) : Prop :=
  exists its it, lookup env a = Some its /\ In it its /\ is_std (ui_ref it) = false /\ ui_ref it = b /\ lookup env b <> None.
Inductive reach : string -> string -> Prop :=
| reach_refl : forall a, reach a a
| reach_step : forall a b c, edge a b -> reach b c -> reach a c.
Definition on_cycle (m : string) : Prop := exists c, edge m c /\ reach c m.
Definition cycle_reachable (n : string) : Prop := exists m, reach n m /\ on_cycle m.

Lemma reach_trans : forall a b c, reach a b -> reach b c -> reach a c.
Proof. induction 1; intros; [assumption|]. eapply reach_step; eauto. Qed.
Lemma reach_edge : forall a b c, reach a b -> edge b c -> reach a c.
Proof. intros a b c H E. eapply reach_trans; [exact H|]. eapply reach_step; [exact E|apply reach_refl]. Qed.

(** the path kept by the walk: p1 -> p2 -> ... -> pk -> n, stored most recent first *)
Fixpoint chain (path : list string) (n : string) : Prop :=
  match path with
  | [] => True
  | p :: rest => edge p n /\ chain rest p
  end.

Lemma chain_reach : forall path n x, chain path n -> In x path -> reach x n.
Proof.
  induction path as [|p rest IH]; intros n x Hc Hin; [destruct Hin|].
  destruct Hc as [He Hc]. destruct Hin as [<-|Hin].
  - eapply reach_step; [exact He|apply reach_refl].
  - eapply reach_edge; [apply (IH p x Hc Hin)|exact He].
Qed.

Lemma lookup_in_keys : forall e n its, lookup e n = Some its -> In n (map fst e).
Proof.
  induction e as [|[m x] r IH]; intros n its H; [discriminate|]. cbn in *.
  destruct (String.eqb m n) eqn:E; [left; now apply String.eqb_eq|right; eauto].
Qed.

Lemma existsb_eqb_in : forall n path, existsb (String.eqb n) path = true <-> In n path.
Proof.
  intros n path. rewrite existsb_exists. split.
  - intros (x & Hin & He). apply String.eqb_eq in He. now subst.
  - intro H. exists n. split; [exact H|apply String.eqb_refl].
Qed.

(** one step of the walk, read off an edge *)
Lemma safe_child : forall f path n c,
  safe is_std env (S f) path n = true -> edge n c -> safe is_std env f (n :: path) c = true.
Proof.
  intros f path n c Hs (its & it & Hl & Hin & Hstd & <- & Hdef).
  cbn [safe] in Hs. apply andb_true_iff in Hs. destruct Hs as [_ Hs]. rewrite Hl in Hs.
  rewrite forallb_forall in Hs. specialize (Hs it Hin). rewrite Hstd in Hs. cbn [orb] in Hs.
  destruct (lookup env (ui_ref it)); [exact Hs|congruence].
Qed.

(** COMPLETENESS.  If the walk answers "safe", nothing reachable lies on the path ... *)
Lemma safe_avoids_path : forall f path n x,
  safe is_std env f path n = true -> reach n x -> ~ In x path.
Proof.
  induction f as [|f IH]; intros path n x Hs Hr; [discriminate Hs|].
  destruct Hr as [a|a b c He Hr].
  - cbn [safe] in Hs. apply andb_true_iff in Hs. destruct Hs as [Hn _].
    apply negb_true_iff in Hn. intro Hin. apply existsb_eqb_in in Hin. congruence.
  - pose proof (safe_child f path a b Hs He) as Hc.
    intro Hin. apply (IH (a :: path) b c Hc Hr). now right.
Qed.

(** ... and no cycle is reachable. *)
Lemma safe_no_cycle : forall f path n, safe is_std env f path n = true -> ~ cycle_reachable n.
Proof.
  induction f as [|f IH]; intros path n Hs (m & Hr & Hcyc); [discriminate Hs|].
  destruct Hr as [a|a b c He Hr].
  - destruct Hcyc as (c & He & Hback).
    pose proof (safe_child f path a c Hs He) as Hc.
    apply (safe_avoids_path f (a :: path) c a Hc Hback). now left.
  - pose proof (safe_child f path a b Hs He) as Hc.
    apply (IH (a :: path) b Hc). exists c. split; assumption.
Qed.

Lemma chain_step_back : forall path n x, chain path n -> In x path -> exists c, edge x c /\ reach c n.
Proof.
  induction path as [|p rest IH]; intros n x Hc Hin; [destruct Hin|].
  destruct Hc as [He Hc]. destruct Hin as [<-|Hin].
  - exists n. split; [exact He|apply reach_refl].
  - destruct (IH p x Hc Hin) as (c & Hxc & Hcp). exists c. split; [exact Hxc|]. eapply reach_edge; eauto.
Qed.

(** SOUNDNESS.  With fuel that the path cannot outgrow, an answer "not safe" is a real cycle, never an exhausted fuel. *)
Lemma unsafe_is_cycle : forall f path n,
  chain path n -> NoDup path -> incl path (map fst env) -> length env < length path + f ->
  safe is_std env f path n = false -> cycle_reachable n.
Proof.
  induction f as [|f IH]; intros path n Hc Hnd Hincl Hfuel Hs.
  - (* the fuel cannot be exhausted: the path never repeats a name and only holds names of env *)
    exfalso. pose proof (NoDup_incl_length Hnd Hincl) as Hlen. rewrite map_length in Hlen. lia.
  - cbn [safe] in Hs. destruct (existsb (String.eqb n) path) eqn:Hon.
    + (* n is being followed already: the chain leads from n back to n *)
      apply existsb_eqb_in in Hon. exists n. split; [apply reach_refl|].
      exact (chain_step_back path n n Hc Hon).
    + cbn [negb andb] in Hs.
      assert (Hn : ~ In n path) by (intro H; apply existsb_eqb_in in H; congruence).
      destruct (lookup env n) as [its|] eqn:Hl; [|discriminate].
      assert (Hex : exists it, In it its /\ is_std (ui_ref it) = false /\ lookup env (ui_ref it) <> None
                               /\ safe is_std env f (n :: path) (ui_ref it) = false).
      { clear - Hs. induction its as [|it r IHr]; [discriminate|]. cbn [forallb] in Hs.
        apply andb_false_iff in Hs. destruct Hs as [Hs|Hs].
        - exists it. apply orb_false_iff in Hs. destruct Hs as [Hstd Hs].
          destruct (lookup env (ui_ref it)) eqn:E; [|discriminate].
          repeat split; [now left|exact Hstd|discriminate|exact Hs].
        - destruct (IHr Hs) as (it' & Hin & H). exists it'. split; [now right|exact H]. }
      destruct Hex as (it & Hin & Hstd & Hdef & Hsafe).
      assert (He : edge n (ui_ref it)) by (exists its, it; repeat split; assumption).
      destruct (IH (n :: path) (ui_ref it)) as (m & Hr & Hcyc); try assumption.
      * split; assumption.
      * constructor; assumption.
      * intros x [<-|Hx]; [exact (lookup_in_keys env n its Hl)|apply Hincl, Hx].
      * cbn [length]. lia.
      * exists m. split; [eapply reach_step; eauto|exact Hcyc].
Qed.

(** the walk with any fuel above |env| decides "a reference cycle is reachable from n" *)
Theorem safe_decides : forall k n,
  safe is_std env (S (length env) + k) [] n = false <-> cycle_reachable n.
Proof.
  intros k n. split.
  - apply unsafe_is_cycle; [exact I|constructor|intros x []|cbn [length]; lia].
  - intro Hc. destruct (safe is_std env (S (length env) + k) [] n) eqn:Hs; [|reflexivity].
    exfalso. exact (safe_no_cycle _ [] n Hs Hc).
Qed.

Theorem guard_decides_cycles : forall n, has_units_cycle is_std env n = true <-> cycle_reachable n.
Proof.
  intro n. unfold has_units_cycle. rewrite negb_true_iff.
  replace (S (length env)) with (S (length env) + 0) by lia. apply safe_decides.
Qed.

(** the fuel |env| + 1 is never the reason for an answer: more fuel gives the same answer *)
Theorem guard_fuel_irrelevant : forall k n,
  safe is_std env (S (length env) + k) [] n = safe is_std env (S (length env)) [] n.
Proof.
  intros k n. pose proof (safe_decides k n) as A. pose proof (safe_decides 0 n) as B.
  replace (S (length env) + 0) with (S (length env)) in B by lia.
  destruct (safe is_std env (S (length env) + k) [] n), (safe is_std env (S (length env)) [] n); try reflexivity.
  - exfalso. assert (H : true = false) by (apply A, B; reflexivity). discriminate.
  - exfalso. assert (H : true = false) by (apply B, A; reflexivity). discriminate.
Qed.
End Guard.

(** the guarded reducer is total, and when the guard passes the plain reduction returns within fuel |env| + 1:
    no acyclicity premise anywhere *)
Theorem guarded_reducers_total :
  forall is_std std_log env n,
    guarded_multiplier is_std std_log env n <> ROutOfFuel
    /\ (has_units_cycle is_std env n = false -> update_unit_multiplier is_std std_log env (S (length env)) n <> ROutOfFuel)
    /\ (has_units_cycle is_std env n = true -> guarded_multiplier is_std std_log env n = RFalse)
    /\ (~ cycle_reachable is_std env n -> guarded_multiplier is_std std_log env n
                                           = update_unit_multiplier is_std std_log env (S (length env)) n).
Proof.
  intros is_std std_log env n. repeat split.
  - apply cycle_guard_terminates.
  - intro H. unfold has_units_cycle in H. apply negb_false_iff in H.
    exact (safe_terminates is_std std_log env (S (length env)) [] n H).
  - intro H. unfold guarded_multiplier. now rewrite H.
  - intro H. unfold guarded_multiplier. destruct (has_units_cycle is_std env n) eqn:E; [|reflexivity].
    exfalso. apply H. now apply guard_decides_cycles.
Qed.

(** NOT covered by the guard of 85ba0d4 (small models of the two unguarded recursions): the importer's walk over the local
    references of an imported file is the unguarded reducer — on the library file of corpus/C01/k3_cycle_behind_imported_units
    (u0 = [u0]) the guard says "cyclic" but the walk never asks it; and the renaming done while flattening turns the acyclic
    imported file of corpus/C01/k3_transfer_renaming_recursion (q = [v], v = []) into q = [q]: acyclic before, cyclic after,
    and the recursion that follows the renamed references is again unguarded. *)
Definition self_cycle : uenv := [("u0", [item "u0"])].
Definition transfer_lib : uenv := [("q", [item "v"]); ("v", [])].
Definition rename_refs (from to : string) (e : uenv) : uenv :=
  map (fun '(n, its) => (n, map (fun it => if String.eqb (ui_ref it) from
                                           then {| ui_ref := to; ui_exp := ui_exp it; ui_log := ui_log it; ui_prefix_ok := ui_prefix_ok it |}
                                           else it) its)) e.

Theorem unguarded_recursions_refuted :
  (has_units_cycle no_std self_cycle "u0" = true
   /\ forall fuel, update_unit_multiplier no_std no_log self_cycle fuel "u0" = ROutOfFuel)
  /\ (has_units_cycle no_std transfer_lib "q" = false
      /\ has_units_cycle no_std (rename_refs "v" "q" transfer_lib) "q" = true
      /\ forall fuel, update_unit_multiplier no_std no_log (rename_refs "v" "q" transfer_lib) fuel "q" = ROutOfFuel).
Proof.
  assert (E : rename_refs "v" "q" transfer_lib = [("q", [item "q"]); ("v", [])]) by reflexivity.
  rewrite E. repeat split; try reflexivity.
  - induction fuel as [|f IH]; [reflexivity|]. cbn. now rewrite IH.
  - induction fuel as [|f IH]; [reflexivity|]. cbn. now rewrite IH.
Qed.

(** non-vacuity of the iff: both sides are inhabited *)
Example guard_decides_nonvacuous :
  cycle_reachable no_std two_cycle "a" /\ ~ cycle_reachable no_std chain3 "c"
  /\ has_units_cycle no_std two_cycle "a" = true /\ has_units_cycle no_std chain3 "c" = false.
Proof.
  assert (A : has_units_cycle no_std two_cycle "a" = true) by reflexivity.
  assert (C : has_units_cycle no_std chain3 "c" = false) by reflexivity.
  repeat split; try assumption.
  - now apply guard_decides_cycles.
  - intro H. apply guard_decides_cycles in H. congruence.
Qed.
