(** RedProofs.v — termination of the unit reducer on acyclic environments, divergence on a cycle (C01, K3). *)
From Coq Require Import String List Bool Arith ZArith Lia.
From LC Require Import RedDefs.
Import ListNotations.
Local Open Scope string_scope.

(** the loop only fails to return when the recursive reducer does, on a reference that is looked up *)
Lemma items_loop_fuel :
  forall is_std std_log env rec its acc,
    (forall it, In it its -> is_std (ui_ref it) = false -> lookup env (ui_ref it) <> None -> rec (ui_ref it) <> ROutOfFuel) ->
    items_loop is_std std_log env rec its acc <> ROutOfFuel.
Proof.
  intros is_std std_log env rec its.
  induction its as [|it r IH]; intros acc Hrec; cbn [items_loop].
  - discriminate.
  - destruct (negb (ui_prefix_ok it)); [discriminate|].
    destruct (is_std (ui_ref it)) eqn:Hs.
    + apply IH. intros it' Hin. apply Hrec. now right.
    + destruct (lookup env (ui_ref it)) eqn:Hl; [|discriminate].
      assert (Hne : rec (ui_ref it) <> ROutOfFuel).
      { apply Hrec; [now left|exact Hs|rewrite Hl; discriminate]. }
      destruct (rec (ui_ref it)); [|discriminate|congruence].
      apply IH. intros it' Hin. apply Hrec. now right.
Qed.

Lemma terminates_with_rank :
  forall is_std std_log env (rank : string -> nat),
    (forall n its it, lookup env n = Some its -> In it its -> is_std (ui_ref it) = false ->
                      lookup env (ui_ref it) <> None -> rank (ui_ref it) < rank n) ->
    forall fuel n, rank n < fuel -> update_unit_multiplier is_std std_log env fuel n <> ROutOfFuel.
Proof.
  intros is_std std_log env rank Hdec fuel.
  induction fuel as [|f IH]; intros n Hlt; [lia|].
  cbn [update_unit_multiplier].
  destruct (lookup env n) as [its|] eqn:Hl; [|discriminate].
  apply items_loop_fuel. intros it Hin Hs Hdef.
  apply IH. specialize (Hdec n its it Hl Hin Hs Hdef). lia.
Qed.

(** acyclic environment: every reduction returns within fuel |env| *)
Theorem reducers_terminate :
  forall is_std std_log env, acyclic is_std env ->
    forall n, update_unit_multiplier is_std std_log env (length env) n <> ROutOfFuel.
Proof.
  intros is_std std_log env [rank [Hb Hdec]] n.
  apply (terminates_with_rank is_std std_log env rank Hdec). apply Hb.
Qed.

(** a two-cycle: no amount of fuel suffices, from either member *)
Lemma two_cycle_both :
  forall fuel, update_unit_multiplier no_std no_log two_cycle fuel "a" = ROutOfFuel
            /\ update_unit_multiplier no_std no_log two_cycle fuel "b" = ROutOfFuel.
Proof.
  induction fuel as [|f [IHa IHb]]; [split; reflexivity|].
  split; cbn; [rewrite IHb|rewrite IHa]; reflexivity.
Qed.

Theorem cyclic_reducers_diverge_refuted :
  (forall fuel, update_unit_multiplier no_std no_log two_cycle fuel "a" = ROutOfFuel)
  /\ ~ acyclic no_std two_cycle.
Proof.
  split; [intro fuel; apply two_cycle_both|].
  intros [rank [_ Hdec]].
  assert (H1 : rank "b" < rank "a").
  { apply (Hdec "a" [item "b"] (item "b")); [reflexivity|now left|reflexivity|cbn; discriminate]. }
  assert (H2 : rank "a" < rank "b").
  { apply (Hdec "b" [item "a"] (item "a")); [reflexivity|now left|reflexivity|cbn; discriminate]. }
  lia.
Qed.

(** non-vacuity: a three-unit chain is acyclic and reduces *)
Example chain3_acyclic : acyclic no_std chain3 /\ update_unit_multiplier no_std no_log chain3 3 "c" = RValue 0%Z.
Proof.
  split; [|reflexivity].
  exists (fun n => if String.eqb n "c" then 2 else if String.eqb n "b" then 1 else 0).
  split.
  - intro n. cbn. destruct (String.eqb n "c"); [lia|]. destruct (String.eqb n "b"); lia.
  - intros n its it Hl Hin _ _. cbn -[String.eqb] in Hl.
    destruct (String.eqb "c" n) eqn:Hc.
    + apply String.eqb_eq in Hc. subst n. injection Hl as <-.
      destruct Hin as [<-|[<-|[]]]; cbn; lia.
    + destruct (String.eqb "b" n) eqn:Hb.
      * apply String.eqb_eq in Hb. subst n. injection Hl as <-.
        destruct Hin as [<-|[]]; cbn; lia.
      * destruct (String.eqb "a" n); [|discriminate]. injection Hl as <-. destruct Hin.
Qed.

(* ------------------------------------------------------------------------------------------------ the cycle guard *)

Lemma safe_terminates :
  forall is_std std_log env fuel path n,
    safe is_std env fuel path n = true -> update_unit_multiplier is_std std_log env fuel n <> ROutOfFuel.
Proof.
  intros is_std std_log env fuel.
  induction fuel as [|f IH]; intros path n Hs; [discriminate Hs|].
  cbn [safe] in Hs. apply andb_true_iff in Hs. destruct Hs as [_ Hs].
  cbn [update_unit_multiplier]. destruct (lookup env n) as [its|] eqn:Hl; [|discriminate].
  apply items_loop_fuel. intros it Hin Hstd Hdef.
  rewrite forallb_forall in Hs. specialize (Hs it Hin). rewrite Hstd in Hs. cbn [orb] in Hs.
  destruct (lookup env (ui_ref it)); [|congruence].
  now apply (IH (n :: path)).
Qed.

(** with the guard the modelled reducer returns on EVERY environment, cyclic or not *)
Theorem cycle_guard_terminates :
  forall is_std std_log env n, guarded_multiplier is_std std_log env n <> ROutOfFuel.
Proof.
  intros is_std std_log env n. unfold guarded_multiplier, has_units_cycle.
  destruct (safe is_std env (S (length env)) [] n) eqn:Hs; cbn [negb]; [|discriminate].
  now apply (safe_terminates is_std std_log env (S (length env)) [] n).
Qed.

Lemma safe_of_rank :
  forall is_std env (rank : string -> nat),
    (forall n its it, lookup env n = Some its -> In it its -> is_std (ui_ref it) = false ->
                      lookup env (ui_ref it) <> None -> rank (ui_ref it) < rank n) ->
    forall fuel path n, rank n < fuel -> (forall p, In p path -> rank n < rank p) ->
                        safe is_std env fuel path n = true.
Proof.
  intros is_std env rank Hdec fuel.
  induction fuel as [|f IH]; intros path n Hlt Hpath; [lia|].
  cbn [safe]. apply andb_true_iff. split.
  - apply negb_true_iff. destruct (existsb (String.eqb n) path) eqn:E; [|reflexivity].
    apply existsb_exists in E. destruct E as (p & Hin & Heq). apply String.eqb_eq in Heq. subst p.
    specialize (Hpath n Hin). lia.
  - destruct (lookup env n) as [its|] eqn:Hl; [|reflexivity].
    apply forallb_forall. intros it Hin. destruct (is_std (ui_ref it)) eqn:Hs; [reflexivity|]. cbn [orb].
    destruct (lookup env (ui_ref it)) eqn:Hr; [|reflexivity].
    assert (Hrk : rank (ui_ref it) < rank n) by (apply (Hdec n its it Hl Hin Hs); rewrite Hr; discriminate).
    apply IH; [lia|].
    intros p [<-|Hp]; [exact Hrk|specialize (Hpath p Hp); lia].
Qed.

(** on an acyclic environment the guard never fires: the guarded function IS the unguarded one *)
Theorem cycle_guard_transparent :
  forall is_std std_log env, acyclic is_std env ->
    forall n, guarded_multiplier is_std std_log env n = update_unit_multiplier is_std std_log env (S (length env)) n.
Proof.
  intros is_std std_log env [rank [Hb Hdec]] n. unfold guarded_multiplier, has_units_cycle.
  rewrite (safe_of_rank is_std env rank Hdec (S (length env)) [] n); [reflexivity| |intros p []].
  specialize (Hb n). lia.
Qed.

(** and on the two-cycle it answers "no factor" instead of recursing for ever *)
Example cycle_guard_two_cycle :
  guarded_multiplier no_std no_log two_cycle "a" = RFalse /\ guarded_multiplier no_std no_log two_cycle "b" = RFalse
  /\ has_units_cycle no_std chain3 "c" = false.
Proof. repeat split; reflexivity. Qed.
