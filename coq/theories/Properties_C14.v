(** Properties_C14.v — placeholder while the model is being tied to the code; replaced below. *)
From LC Require Import Load1xDefs To1xDefs.
