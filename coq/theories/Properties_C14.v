(** Properties_C14.v — C14 "CellML 1.0/1.1 documents are faithfully transformed in permissive mode": statements only.

    Models: XmlDefs / EntTreeDefs / PrintDefs / LoadDefs / RoundtripSpec (C02: trees, entity model, Printer::printModel, the
    CellML 2.0 paths of Parser::parseModel, canon / printable / content_eq), Load1xDefs ([load1x]: the mParsing1XVersion
    paths of src/parser.cpp and the MathML namespace rewriting at tree level), To1xDefs ([to1x v ist cm us hoist mcpos rrpos E m]: the
    mechanical rewriting of the printed 2.0 document into 1.0 / 1.1 syntax; [conv_ok]; [expressible_1x]).

    Flags of [load1x E fx fi fd strict]: fx = fix C02-crossed-map-variables (already in /repo), fi = fix C14-interface-none,
    fd = fix C14-foreign-children; [false] = the code without the fix.  Every theorem below is stated for BOTH values of
    the flags unless it names one.  The environment [E] (15-digit printing, strtod, libxml2's serialisation of a math
    element) is universally quantified, as in C02.
    The style of the rewriting — which of in / out is written, the order of public_interface / private_interface,
    explicit "none" ([ist], any function of the variable's attributes), cmeta:id or id ([cm]), liter / meter ([us]), the
    position of map_components among the map_variables of a connection ([mcpos]) and of relationship_ref among the
    component_ref children of a group ([rrpos]: the 1.x specifications fix no order) — is universally quantified; [style_ok ist fi] = explicit "none" is only written for the repaired parser. *)
From Coq Require Import String Ascii List Bool ZArith Permutation.
From LC Require Import Common NumDefs XmlDefs EntTreeDefs PrintDefs LoadDefs RoundtripSpec Load1xDefs To1xDefs
     RoundtripEncProofs TransformSimProofs TransformProofs TransformHoistProofs Load1xProofs Drop1xSpec Drop1xProofs
     MathNsDefs MathNsProofs TransformImageProofs TransformImageMixedProofs TransformRound6Proofs.
From LCGen Require RuleTable.
Import ListNotations.
Local Open Scope string_scope.
Local Open Scope list_scope.

(** * transform_roundtrip *)

(** the core: for EVERY document of the printer's vocabulary without resets ([conv_ok]: any attribute order, any values,
    imports, encapsulation, connections, MathML) the permissive parser applied to its 1.x rewriting returns the model the
    strict 2.0 parser returns on the document itself, with the same issues after the one transformation message *)
Theorem C14_simulation : forall E fx fi fd v ist cm us mcpos rrpos t, style_ok ist fi -> conv_ok t = true -> namespace_issues t = [] ->
  load1x E fx fi fd false (conv1x v ist cm us false mcpos rrpos t) = (fst (load E fx true t), msg :: snd (load E fx true t)).
Proof. intros. now apply TransformSimProofs.sim_load. Qed.
Print Assumptions C14_simulation.

(** hence for every printable, expressible model — ALL features: connections and 1.1 imports included — the 1.x
    rewriting is read exactly as the 2.0 print is read *)
Theorem C14_transform_as_20 : forall E fx fi fd v ist cm us hoist mcpos rrpos m, style_ok ist fi -> printable E true m -> expressible_1x E v m ->
  load1x E fx fi fd false (to1x v ist cm us hoist mcpos rrpos E m)
  = (fst (load E fx true (print_tree E m)), msg :: snd (load E fx true (print_tree E m))).
Proof. intros. now apply TransformHoistProofs.transform_as_20_h. Qed.
Print Assumptions C14_transform_as_20.

(** stage flat: the transformed model is EXACTLY canon m, the only issue is the transformation message *)
Theorem C14_transform_roundtrip_flat : forall E fx fi fd v ist cm us hoist mcpos rrpos m, style_ok ist fi -> printable E true m ->
  expressible_1x E v m -> flat m = true ->
  load1x E fx fi fd false (to1x v ist cm us hoist mcpos rrpos E m) = (canon E m, [msg]).
Proof. intros. now apply TransformHoistProofs.transform_flat_h. Qed.
Print Assumptions C14_transform_roundtrip_flat.

(** stage encapsulation (groups / relationship_ref / component_ref of any depth, cmeta:id on component_ref) *)
Theorem C14_transform_roundtrip_encapsulation_exact : forall E fx fi fd v ist cm us hoist mcpos rrpos m, style_ok ist fi -> printable E true m ->
  expressible_1x E v m -> no_imports m = true -> no_connections m = true ->
  load1x E fx fi fd false (to1x v ist cm us hoist mcpos rrpos E m)
  = ({| m_name := m_name m; m_id := m_id m; m_encid := m_encid m; m_units := map (canon_units E) (m_units m);
        m_comps := map (canon_comp E) (enc_order (m_comps m)); m_eqv := [] |}, [msg]).
Proof. intros. now apply TransformHoistProofs.transform_encapsulation_exact_h. Qed.
Print Assumptions C14_transform_roundtrip_encapsulation_exact.

(** transform_roundtrip as stated in the design, on the fragment C02's round trip reaches (no imports, no connections) *)
Theorem C14_transform_roundtrip_partial : forall E fx fi fd v ist cm us hoist mcpos rrpos m, style_ok ist fi -> printable E true m ->
  expressible_1x E v m -> no_imports m = true -> no_connections m = true ->
  exists m' is, load1x E fx fi fd false (to1x v ist cm us hoist mcpos rrpos E m) = (m', is)
                /\ content_eq m' (canon E m) /\ Forall (fun i => is_message i = true) is.
Proof. intros. now apply TransformHoistProofs.transform_roundtrip_h. Qed.
Print Assumptions C14_transform_roundtrip_partial.

(** component-level units ([hoist = true]: the units elements before the first component element are written inside it):
    loadUnitsFromComponent brings them back, the parser answers exactly as without the move *)
Theorem C14_component_level_units : forall E fx fi fd v ist cm us mcpos rrpos m, style_ok ist fi -> printable E true m -> expressible_1x E v m ->
  load1x E fx fi fd false (to1x v ist cm us true mcpos rrpos E m) = load1x E fx fi fd false (to1x v ist cm us false mcpos rrpos E m).
Proof. intros. now apply TransformHoistProofs.transform_hoist. Qed.
Print Assumptions C14_component_level_units.

(** the printed document of an expressible model is in the class of the simulation *)
Theorem C14_print_tree_conv_ok : forall E v m, nonempty (m_name m) = true -> expressible_1x E v m -> conv_ok (print_tree E m) = true.
Proof. intros. eapply TransformProofs.print_tree_conv_ok; eassumption. Qed.
Print Assumptions C14_print_tree_conv_ok.

(* NOT PROVED:
   transform_roundtrip : forall E fx fi fd v ist cm us mcpos rrpos m, style_ok ist fi -> printable E true m -> expressible_1x E v m ->
     exists m' is, load1x E fx fi fd false (to1x v ist cm us hoist mcpos rrpos E m) = (m', is)
                   /\ content_eq m' (canon E m) /\ Forall (fun i => is_message i = true) is
   for models WITH connections or imports.  C14_transform_as_20 reduces it, for all features, to C02's round trip
   "load (print_tree m) = (m', []) /\ content_eq m' (canon m)", whose stages 4 (connections) and 5 (imports) are not
   proved (design_notes/C02.md).  The instance of the statement is CHECKED on every generated model ("model instance of
   the transformation theorems" in checks/c14.py: extracted expressible_1xb, printableb, to1x, load1x, canon).
   Units placed inside ARBITRARY components (python-only spelling) and the decorated documents are compared on every run;
   what the parser does with component-level units in any document is C14_component_units_hoisted. *)

(** * strict_refuses *)
Theorem C14_strict_refuses : forall E fx fi fd v ist cm us hoist mcpos rrpos m,
  load1x E fx fi fd true (to1x v ist cm us hoist mcpos rrpos E m) = (empty_model, [(LError, "XML_UNEXPECTED_ELEMENT")]).
Proof. intros. apply TransformProofs.strict_refuses. Qed.
Print Assumptions C14_strict_refuses.

(** ... and so is every document whose root is not a CellML 2.0 model element (any 1.0 / 1.1 document) *)
Theorem C14_strict_refuses_any : forall E fx fi fd x, is_cellml20 "model" x = false ->
  load1x E fx fi fd true x = (empty_model, [(LError, "XML_UNEXPECTED_ELEMENT")]).
Proof. intros. now apply TransformProofs.strict_refuses_any. Qed.
Print Assumptions C14_strict_refuses_any.

(** * the interface merge *)

(** for every variable element without an [interface] attribute whose attributes have distinct local names, among any
    other attributes and in any order: the interface is the table entry for the two values *)
Theorem C14_interface_merge : forall fi ns nm l ks, names_distinct (map a_name l) = true -> existsb (attr_is "interface") l = false ->
  v_iface (fst (load_variable1 fi (Elem ns nm l ks))) = merged fi (lookup "public_interface" l) (lookup "private_interface" l).
Proof. intros. now apply Load1xProofs.interface_merge. Qed.
Print Assumptions C14_interface_merge.

Theorem C14_interface_merge_order_free : forall fi ns nm l l' ks, Permutation l l' ->
  names_distinct (map a_name l) = true -> existsb (attr_is "interface") l = false ->
  v_iface (fst (load_variable1 fi (Elem ns nm l ks))) = v_iface (fst (load_variable1 fi (Elem ns nm l' ks))).
Proof. intros. now apply Load1xProofs.interface_merge_order_free. Qed.
Print Assumptions C14_interface_merge_order_free.

(** the 3 x 3 table of public x private values (and absence) |-> 2.0 interface, with fix C14-interface-none *)
Theorem C14_interface_merge_table :
  table true =
  [ (None, None, ""); (None, Some "in", "private"); (None, Some "out", "private"); (None, Some "none", "");
    (Some "in", None, "public"); (Some "in", Some "in", "public_and_private"); (Some "in", Some "out", "public_and_private"); (Some "in", Some "none", "public");
    (Some "out", None, "public"); (Some "out", Some "in", "public_and_private"); (Some "out", Some "out", "public_and_private"); (Some "out", Some "none", "public");
    (Some "none", None, ""); (Some "none", Some "in", "private"); (Some "none", Some "out", "private"); (Some "none", Some "none", "") ].
Proof. exact Load1xProofs.interface_merge_table_fixed. Qed.
Print Assumptions C14_interface_merge_table.

(** DESIGN.md section 5 row 31 (confirmed on the library): without the fix the VALUE is ignored *)
Theorem C14_interface_none_refuted :
  merged false (Some "none") (Some "none") = "public_and_private" /\ merged false (Some "none") None = "public"
  /\ merged false None (Some "none") = "private"
  /\ forall pu pr, merged false pu pr = merged true (option_map (fun _ => "in") pu) (option_map (fun _ => "in") pr).
Proof. exact Load1xProofs.interface_merge_table_pinned. Qed.
Print Assumptions C14_interface_none_refuted.

(** * component_units_hoisted: the units of the transformed model are, in document order, the model-level units
      elements, the units children of every component element, and the units the import elements name *)
Theorem C14_component_units_hoisted : forall E fx fi fd x, is_cellml20 "model" x = false -> is_1x "model" x = true ->
  m_units (fst (load1x E fx fi fd false x)) = doc_units E fd 0 (xml_kids x).
Proof. intros. now apply Load1xProofs.component_units_hoisted. Qed.
Print Assumptions C14_component_units_hoisted.

Theorem C14_units_from_component : forall E fd x,
  fst (units_from_component E fd x) = map (fun k => fst (load_units1 E fd k)) (filter (is_1x "units") (xml_kids x)).
Proof. intros. apply Load1xProofs.units_from_component_spec. Qed.
Print Assumptions C14_units_from_component.

(** * nonsi_units_renamed *)
Theorem C14_nonsi_units_renamed :
  convert_nonsi "liter" = "litre" /\ convert_nonsi "meter" = "metre"
  /\ (forall s, is_legacy_spelling s = false -> convert_nonsi s = s)
  /\ (forall E fd ns nm pre post s ks, names_distinct (map a_name (pre ++ at_ "units" s :: post)) = true ->
        ud_ref (fst (load_unit1 E fd (Elem ns nm (pre ++ at_ "units" s :: post) ks))) = convert_nonsi s)
  /\ (forall fi ns nm pre post s ks, names_distinct (map a_name (pre ++ at_ "units" s :: post)) = true ->
        v_units (fst (load_variable1 fi (Elem ns nm (pre ++ at_ "units" s :: post) ks))) = Some (convert_nonsi s)).
Proof.
  destruct Load1xProofs.convert_nonsi_table as (H1 & H2 & H3). repeat split; try assumption.
  - intros. now apply Load1xProofs.nonsi_unit_renamed.
  - intros. now apply Load1xProofs.nonsi_variable_renamed.
Qed.
Print Assumptions C14_nonsi_units_renamed.

(** * dropped_constructs_only_messages *)
Theorem C14_dropped_constructs_only_messages : forall E fx fi fd x, is_cellml20 "model" x = false -> is_1x "model" x = true ->
  fst (load1x E fx fi fd false x) = fst (load1x E fx fi fd false (strip_foreign x))
  /\ filter (fun i => negb (is_message i)) (snd (load1x E fx fi fd false x))
     = filter (fun i => negb (is_message i)) (snd (load1x E fx fi fd false (strip_foreign x))).
Proof. intros. now apply Drop1xProofs.dropped_only_messages. Qed.
Print Assumptions C14_dropped_constructs_only_messages.

(** non-vacuity: a document with an RDF block in the model, a reaction (with variable_ref / role) and an RDF block in a
    component, an RDF block in a variable: stripped of them it is a different document, same model, and the issues of
    the original are messages only *)
Example C14_dropped_example :
  strip_foreign drop_example <> drop_example
  /\ forallb is_message (snd (load1x E0 true true true false drop_example)) = true
  /\ length (snd (load1x E0 true true true false drop_example)) = 6.
Proof. exact Drop1xProofs.drop_example_ok. Qed.
Print Assumptions C14_dropped_example.

(** where the pinned parser reports an ERROR for a foreign child element (before fix C14-foreign-children) *)
Theorem C14_foreign_children_refuted :
  existsb (fun i => negb (is_message i)) (snd (load1x E0 true true false false foreign_example)) = true
  /\ forallb is_message (snd (load1x E0 true true true false foreign_example)) = true
  /\ fst (load1x E0 true true false false foreign_example) = fst (load1x E0 true true true false foreign_example).
Proof. exact Drop1xProofs.foreign_example_ok. Qed.
Print Assumptions C14_foreign_children_refuted.

(** known findings, as witnesses on the faithful model: several encapsulation groups (an ERROR, the second hierarchy is
    lost); the 1.x attribute offset of a unit (an ERROR) *)
Theorem C14_several_groups_refuted :
  snd (load1x E0 true true true false groups_example) = [msg; err "MODEL_MORE_THAN_ONE_ENCAPSULATION"]
  /\ map (fun c => (cname c, map cname (kids c))) (m_comps (fst (load1x E0 true true true false groups_example)))
     = [("c", []); ("d", []); ("a", ["b"])].
Proof. exact Drop1xProofs.groups_example_ok. Qed.
Print Assumptions C14_several_groups_refuted.

Theorem C14_unit_offset_refuted :
  snd (load1x E0 true true true false offset_example) = [msg; err "UNIT_ATTRIBUTE_OPTIONAL"].
Proof. exact Drop1xProofs.offset_example_ok. Qed.
Print Assumptions C14_unit_offset_refuted.

(** * math_units_attribute_moved: an element below math whose attributes have distinct local names — the attributes of
      the 1.0 / 1.1 namespace end up in the 2.0 namespace with the same local name and value (behind the others, in their
      order); every other attribute is untouched; elements and text are untouched *)
Theorem C14_math_rewrite_attrs : forall l, names_distinct (map a_name l) = true ->
  rewrite_attrs l = filter (fun a => negb (is1x a)) l ++ map to20 (filter is1x l).
Proof. exact Load1xProofs.rewrite_attrs_spec. Qed.
Print Assumptions C14_math_rewrite_attrs.

Theorem C14_math_units_attribute_moved : forall l a, names_distinct (map a_name l) = true -> In a l ->
  (is1x a = true -> In (to20 a) (rewrite_attrs l) /\ ~ In a (rewrite_attrs l))
  /\ (is1x a = false -> In a (rewrite_attrs l)).
Proof. exact Load1xProofs.math_units_attribute_moved. Qed.
Print Assumptions C14_math_units_attribute_moved.

Theorem C14_math_rewrite_shape : forall ns nm attrs ks,
  rewrite_math (Elem ns nm attrs ks) = Elem ns nm attrs (map rewrite_below ks)
  /\ rewrite_below (Elem ns nm attrs ks) = Elem ns nm (rewrite_attrs attrs) (map rewrite_below ks)
  /\ (forall s, rewrite_below (Text s) = Text s) /\ rewrite_below Comment = Comment.
Proof. intros. split; [reflexivity|]. apply Load1xProofs.rewrite_below_shape. Qed.
Print Assumptions C14_math_rewrite_shape.

(** the rewriting undoes [to1x]'s move of cellml:units into the 1.x namespace (math of the class math_ok1) *)
Theorem C14_math_roundtrip : forall v x, math_ok1 x = true -> rewrite_math (conv_math v x) = x.
Proof. intros. now apply TransformSimProofs.math_sim. Qed.
Print Assumptions C14_math_roundtrip.

(** proof depth round 6: the rewriting is a PROJECTION.  Where there is nothing to move it is the identity for ANY
    attribute list / tree (no distinctness hypothesis); after it no attribute is left in a 1.0 / 1.1 namespace, no
    attribute is lost or invented, and rewriting twice = rewriting once, at attribute, element and math-element level
    ([distinct_below]: every element of the tree has attributes with distinct local names; [no_1x_attrs_below]: no
    1.x-namespaced attribute anywhere in the tree) *)
Theorem C14_math_rewrite_attrs_noop : forall l, forallb (fun a => negb (is1x a)) l = true -> rewrite_attrs l = l.
Proof. exact TransformRound6Proofs.rewrite_attrs_noop. Qed.
Print Assumptions C14_math_rewrite_attrs_noop.

Theorem C14_math_rewrite_attrs_projection : forall l, names_distinct (map a_name l) = true ->
  forallb (fun a => negb (is1x a)) (rewrite_attrs l) = true
  /\ length (rewrite_attrs l) = length l
  /\ rewrite_attrs (rewrite_attrs l) = rewrite_attrs l.
Proof.
  intros l H. split; [now apply TransformRound6Proofs.rewrite_attrs_clean|].
  split; [now apply TransformRound6Proofs.rewrite_attrs_length|now apply TransformRound6Proofs.rewrite_attrs_idem].
Qed.
Print Assumptions C14_math_rewrite_attrs_projection.

Theorem C14_math_rewrite_tree_projection :
  (forall x, no_1x_attrs_below x = true -> rewrite_below x = x)
  /\ (forall x, distinct_below x = true -> no_1x_attrs_below (rewrite_below x) = true)
  /\ (forall x, distinct_below x = true -> rewrite_below (rewrite_below x) = rewrite_below x)
  /\ (forall x, forallb distinct_below (xml_kids x) = true -> rewrite_math (rewrite_math x) = rewrite_math x).
Proof.
  split; [exact TransformRound6Proofs.rewrite_below_noop|]. split; [exact TransformRound6Proofs.rewrite_below_clean|].
  split; [exact TransformRound6Proofs.rewrite_below_idem|exact TransformRound6Proofs.rewrite_math_idem].
Qed.
Print Assumptions C14_math_rewrite_tree_projection.

(** * transform_preserves_everything_else: content preservation at full strength.  For EVERY CellML 1.0 / 1.1 document tree
      without CellML 2.0-namespaced reset / encapsulation / connection elements ([pure_1x]; any children in any order, any
      attributes, any foreign content, valid or not) the transformed model IS the image of the document
      ([document_image]: units = model-level, component-level and imported units in document order; one component per 1.x
      component element, with name / id from its attributes, variables = the images of its variable children in order, math =
      its rewritten math children in order and nothing else; hierarchy = loadEncapsulation on these components and the FIRST
      encapsulation group; equivalences = loadConnection folded over the 1.x connection elements) and the issue list IS
      [document_issues]: the transformation message, the issues of the images, exactly ONE MESSAGE for every other child
      element of the model or of a component (rdf:RDF, reaction, documentation, ...: they contribute nothing else), nothing
      for a containment group, then the issues of the encapsulation, of the connections and of unit linking *)
Theorem C14_transform_preserves_everything_else : forall E fx fi fd x,
  is_cellml20 "model" x = false -> is_1x "model" x = true -> pure_1x x = true ->
  load1x E fx fi fd false x = (document_image E fx fi fd x, document_issues E fx fi fd x).
Proof.
  intros E fx fi fd x H1 H2 H3. rewrite (surjective_pairing (load1x E fx fi fd false x)).
  f_equal; [now apply TransformImageProofs.transform_document_image|now apply TransformImageProofs.transform_document_issues].
Qed.
Print Assumptions C14_transform_preserves_everything_else.

(** non-vacuity: the example documents with metadata, a reaction and an import are pure; their image *)
Example C14_image_example :
  pure_1x drop_example = true /\ pure_1x foreign_example = true /\ pure_1x groups_example = true
  /\ map (fun c => (cname c, map v_name (c_vars (shell c)))) (m_comps (document_image E0 true true true drop_example))
     = [("c", ["x"]); ("i", [])]
  /\ document_issues E0 true true true drop_example = [msg; msg; msg; msg; msg; msg].
Proof. repeat split; vm_compute; reflexivity. Qed.
Print Assumptions C14_image_example.

(** the hypothesis is needed: a CellML 2.0 reset element inside a 1.x component IS loaded (it is not part of the image) *)
Example C14_image_pure_needed :
  let x := Elem CELLML_1_0_NS "model" [at_ "name" "m"]
                [Elem CELLML_1_0_NS "component" [at_ "name" "c"]
                      [Elem CELLML_1_0_NS "variable" [at_ "name" "v"; at_ "units" "second"] [];
                       Elem CELLML_2_0_NS "reset" [at_ "variable" "v"; at_ "test_variable" "v"; at_ "order" "1"] []]] in
  pure_1x x = false
  /\ map (fun c => length (c_resets (shell c))) (m_comps (fst (load1x E0 true true true false x))) = [1]
  /\ map (fun c => length (c_resets (shell c))) (m_comps (document_image E0 true true true x)) = [0].
Proof. repeat split; vm_compute; reflexivity. Qed.
Print Assumptions C14_image_pure_needed.

(** * ... WITHOUT purity hypothesis: for EVERY CellML 1.0 / 1.1 document tree, also one that holds CellML 2.0-namespaced
      elements.  What happens to them is part of the image: a 2.0 reset inside a 1.x component is LOADED AS IS (loadReset,
      against the variables that precede it: [doc_resets]); a 2.0 encapsulation child of the model gives the model's
      encapsulation id (last one wins: [doc_encid]), an ENCAPSULATION_ELEMENT error per other attribute, an ENCAPSULATION_CHILD
      warning when empty, and otherwise COUNTS AS AN ENCAPSULATION NODE next to the 1.x groups ([doc_encs_g]); a 2.0 connection
      child COUNTS AS A CONNECTION next to the 1.x ones ([doc_conns_g]); everything else as in the pure case *)
Theorem C14_transform_preserves_everything_else_any : forall E fx fi fd x,
  is_cellml20 "model" x = false -> is_1x "model" x = true ->
  load1x E fx fi fd false x = (document_image_g E fx fi fd x, document_issues_g E fx fi fd x).
Proof. intros. now apply TransformImageMixedProofs.transform_document_image_g. Qed.
Print Assumptions C14_transform_preserves_everything_else_any.

(** non-vacuity: a 1.0 model holding a 2.0 reset, a 2.0 encapsulation with an id and a 2.0 connection: the reset is in the
    image, the encapsulation id is the model's, the connection is read (it has no map_components: one ERROR without rule) *)
Example C14_image_mixed_example :
  let x := Elem CELLML_1_0_NS "model" [at_ "name" "m"]
                [Elem CELLML_1_0_NS "component" [at_ "name" "c"]
                      [Elem CELLML_1_0_NS "variable" [at_ "name" "v"; at_ "units" "second"] [];
                       Elem CELLML_2_0_NS "reset" [at_ "variable" "v"; at_ "test_variable" "v"; at_ "order" "1"] []];
                 Elem CELLML_2_0_NS "encapsulation" [at_ "id" "e"] [];
                 Elem CELLML_2_0_NS "connection" [at_ "component_1" "c"] []] in
  map (fun c => length (c_resets (shell c))) (m_comps (document_image_g E0 true true true x)) = [1]
  /\ m_encid (document_image_g E0 true true true x) = "e"
  /\ document_issues_g E0 true true true x
     = [msg; err "RESET_TEST_VALUE_CHILD"; err "RESET_RESET_VALUE_CHILD"; warn "ENCAPSULATION_CHILD"; (LError, "UNDEFINED")].
Proof. repeat split; vm_compute; reflexivity. Qed.
Print Assumptions C14_image_mixed_example.

(** * the declaration layer (MathNsDefs: elements with prefixes and xmlns declarations, as libxml2 holds them): for
      EVERY math element of a 1.x component — whatever prefix names the legacy namespace, wherever it is declared (on math,
      on an inner element, as a default namespace), used by a cellml:units attribute of this block, of another block or by
      none, shadowed or not — the tree that is serialised into the component's math string declares no CellML 1.0 / 1.1
      namespace anywhere, and below math no attribute is left in one *)
Theorem C14_stored_math_no_1x_declaration : forall x,
  no_1x_decl (stored_math x) = true
  /\ match stored_math x with NElem _ _ _ _ _ ks => forallb clean_tree ks = true | _ => True end.
Proof. exact MathNsProofs.stored_math_no_1x. Qed.
Print Assumptions C14_stored_math_no_1x_declaration.

(** closed instances: the prefix declared on math / on inner elements and NOT used: the declarations are gone and nothing
    is added; declared and used: one declaration of the 2.0 namespace on math, the attribute follows; and on them the
    declaration layer agrees with the tree layer of Load1xDefs ([erase] forgets prefixes and declarations) *)
Example C14_stored_math_examples :
  stored_math ex_unused_on_math
  = nmath [] [nel "apply" [] [] [nel "eq" [] [] []; nel "ci" [] [] [NText "x"]; nel "ci" [] [] [NText "x"]]]
  /\ stored_math ex_unused_inner
     = nmath [] [nel "apply" [] [] [nel "eq" [] [] []; nel "ci" [] [] [NText "x"]; nel "ci" [] [] [NText "x"]]]
  /\ stored_math ex_used
     = nmath [("cellml", CELLML_2_0_NS)]
             [nel "apply" [] [] [nel "eq" [] [] []; nel "ci" [] [] [NText "x"];
                                 nel "cn" [] [mkNA "" "" "type" "real"; mkNA "cellml" CELLML_2_0_NS "units" "second"] [NText "1"]]]
  /\ erase (stored_math ex_used) = rewrite_math (erase ex_used)
  /\ erase (stored_math ex_unused_inner) = rewrite_math (erase ex_unused_inner).
Proof. repeat split; vm_compute; reflexivity. Qed.
Print Assumptions C14_stored_math_examples.

(** * tie of the loader's rule names to the regenerated rule table *)
Theorem C14_rules_in_table : forallb (fun r => existsb (String.eqb r) LCGen.RuleTable.rule_names) loader_rules = true.
Proof. vm_compute. reflexivity. Qed.
Print Assumptions C14_rules_in_table.
