(** LoggerProofs.v — lemmas about the model of LoggerDefs.v (C15). *)
From Coq Require Import String List Bool Arith Lia.
From LCGen Require Import RuleTable IssueSites.
From LC Require Import LoggerDefs.
Import ListNotations.
Local Open Scope list_scope.
Local Open Scope nat_scope.

(* ------------------------------------------------------------------------------------------------ *)
(** * Lists *)

Lemma remove_nth_last : forall A (l : list A) (x : A), remove_nth (length l) (l ++ [x]) = l.
Proof.
  intros A l x. unfold remove_nth.
  rewrite firstn_app, Nat.sub_diag, firstn_all. cbn [firstn]. rewrite app_nil_r.
  rewrite skipn_all2; [apply app_nil_r|]. rewrite app_length. cbn. lia.
Qed.

Lemma remove_nth_app_l : forall A (l r : list A) n, n < length l ->
  remove_nth n (l ++ r) = remove_nth n l ++ r.
Proof.
  intros A l r n H. unfold remove_nth.
  rewrite firstn_app, skipn_app.
  replace (n - length l) with 0 by lia. replace (S n - length l) with 0 by lia.
  cbn [firstn skipn]. rewrite app_nil_r, app_assoc. reflexivity.
Qed.

Lemma remove_nth_length : forall A (l : list A) n, n < length l -> length (remove_nth n l) = length l - 1.
Proof.
  intros A l n H. unfold remove_nth. rewrite app_length, firstn_length, skipn_length. lia.
Qed.

Lemma nth_error_last : forall A (l : list A) x, nth_error (l ++ [x]) (length l) = Some x.
Proof. intros. rewrite nth_error_app2 by lia. rewrite Nat.sub_diag. reflexivity. Qed.

(* ------------------------------------------------------------------------------------------------ *)
(** * Levels *)

Lemma level_eqb_eq : forall a b, level_eqb a b = true <-> a = b.
Proof. destruct a, b; cbn; split; intro H; try reflexivity; discriminate. Qed.

Lemma level_eqb_refl : forall a, level_eqb a a = true.
Proof. destruct a; reflexivity. Qed.

Lemma has_level_own : forall x, has_level (i_level x) x = true.
Proof. intros. unfold has_level. apply level_eqb_refl. Qed.

Lemma has_level_other : forall l x, l <> i_level x -> has_level l x = false.
Proof.
  intros l x H. unfold has_level. destruct (level_eqb (i_level x) l) eqn:E; [|reflexivity].
  apply level_eqb_eq in E. congruence.
Qed.

(* ------------------------------------------------------------------------------------------------ *)
(** * positions *)

Lemma positions_from_app : forall l xs ys k,
  positions_from k l (xs ++ ys) = positions_from k l xs ++ positions_from (k + length xs) l ys.
Proof.
  intros l xs. induction xs as [|x r IH]; intros ys k; cbn [positions_from app length].
  - rewrite Nat.add_0_r. reflexivity.
  - rewrite IH. replace (S k + length r) with (k + S (length r)) by lia.
    destruct (has_level l x); reflexivity.
Qed.

Lemma positions_from_bounds : forall l xs k p, In p (positions_from k l xs) -> k <= p < k + length xs.
Proof.
  intros l xs. induction xs as [|x r IH]; intros k p H; cbn [positions_from length] in *.
  - contradiction.
  - destruct (has_level l x).
    + destruct H as [H|H]; [lia|]. apply IH in H. lia.
    + apply IH in H. lia.
Qed.

Lemma positions_bounds : forall l xs p, In p (positions l xs) -> p < length xs.
Proof. intros l xs p H. apply positions_from_bounds in H. lia. Qed.

Lemma positions_from_length : forall l xs k, length (positions_from k l xs) = length (filter (has_level l) xs).
Proof.
  intros l xs. induction xs as [|x r IH]; intros k; cbn [positions_from filter length]; [reflexivity|].
  destruct (has_level l x); cbn [length]; rewrite IH; reflexivity.
Qed.

(** the i-th recorded position of level l holds the i-th issue of level l *)
Lemma positions_from_nth : forall l xs k i p,
  nth_error (positions_from k l xs) i = Some p ->
  k <= p /\ nth_error xs (p - k) = nth_error (filter (has_level l) xs) i /\
  nth_error (filter (has_level l) xs) i <> None.
Proof.
  intros l xs. induction xs as [|x r IH]; intros k i p H; cbn [positions_from filter] in *.
  - destruct i; discriminate.
  - destruct (has_level l x) eqn:E.
    + destruct i as [|i]; cbn [nth_error] in *.
      * inversion H; subst. rewrite Nat.sub_diag. cbn. repeat split; [lia|discriminate].
      * apply IH in H. destruct H as (H1 & H2 & H3).
        replace (p - k) with (S (p - S k)) by lia. cbn [nth_error]. repeat split; [lia|assumption|assumption].
    + apply IH in H. destruct H as (H1 & H2 & H3).
      replace (p - k) with (S (p - S k)) by lia. cbn [nth_error]. repeat split; [lia|assumption|assumption].
Qed.

Lemma counts_sum : forall xs k,
  length (positions_from k LError xs) + length (positions_from k LWarning xs) + length (positions_from k LMessage xs)
  = length xs.
Proof.
  induction xs as [|x r IH]; intros k; cbn [positions_from length]; [reflexivity|].
  specialize (IH (S k)). unfold has_level. destruct (i_level x); cbn [level_eqb length]; lia.
Qed.

Lemma positions_snoc : forall l xs x,
  positions l (xs ++ [x]) = positions l xs ++ (if has_level l x then [length xs] else []).
Proof.
  intros. unfold positions. rewrite positions_from_app. cbn [positions_from Nat.add].
  destruct (has_level l x); reflexivity.
Qed.

(* ------------------------------------------------------------------------------------------------ *)
(** * The invariant is established and preserved by add / removeAll *)

Lemma inv_empty : Inv empty_logger.
Proof. intros l. destruct l; reflexivity. Qed.

Lemma inv_remove_all : forall s, Inv (remove_all s).
Proof. intros s. apply inv_empty. Qed.

Lemma add_issue_issues : forall x s, issues (add_issue x s) = issues s ++ [x].
Proof. intros x s. unfold add_issue. destruct (i_level x); reflexivity. Qed.

Lemma add_issue_vec : forall x s l,
  level_vec l (add_issue x s) = level_vec l s ++ (if has_level l x then [length (issues s)] else []).
Proof.
  intros x s l. unfold add_issue, has_level.
  destruct (i_level x), l; cbn [level_vec errs warns msgs level_eqb]; try rewrite app_nil_r; reflexivity.
Qed.

Lemma inv_add : forall x s, Inv s -> Inv (add_issue x s).
Proof.
  intros x s H l. rewrite add_issue_vec, add_issue_issues, positions_snoc, (H l). reflexivity.
Qed.

(* ------------------------------------------------------------------------------------------------ *)
(** * Consequences of the invariant: counts, enumeration, out of range *)

Lemma counts_add_up : forall s, Inv s ->
  issue_count s = error_count s + warning_count s + message_count s.
Proof.
  intros s H. unfold issue_count, error_count, warning_count, message_count, level_count.
  rewrite (H LError), (H LWarning), (H LMessage). unfold positions. symmetry. apply counts_sum.
Qed.

Lemma level_count_filter : forall s l, Inv s -> level_count l s = length (filter (has_level l) (issues s)).
Proof. intros s l H. unfold level_count. rewrite (H l). apply positions_from_length. Qed.

(** error(i) / warning(i) / message(i) is the i-th issue of that level, nullptr past the end, and never throws. *)
Lemma level_enumeration_exact : forall s l i, Inv s ->
  get_level l s i = match nth_error (filter (has_level l) (issues s)) i with
                    | Some x => AIssue x
                    | None => ANull
                    end.
Proof.
  intros s l i H. unfold get_level, get_via. rewrite (H l).
  destruct (nth_error (positions l (issues s)) i) as [p|] eqn:E.
  - unfold positions in E. apply positions_from_nth in E. destruct E as (_ & E2 & E3).
    rewrite Nat.sub_0_r in E2. rewrite E2.
    destruct (nth_error (filter (has_level l) (issues s)) i); [reflexivity|congruence].
  - apply nth_error_None in E. unfold positions in E. rewrite positions_from_length in E.
    apply nth_error_None in E. rewrite E. reflexivity.
Qed.

Lemma out_of_range_null : forall s l i, Inv s -> level_count l s <= i -> get_level l s i = ANull.
Proof.
  intros s l i H Hi. rewrite level_enumeration_exact by assumption.
  rewrite level_count_filter in Hi by assumption. apply nth_error_None in Hi. rewrite Hi. reflexivity.
Qed.

Lemma in_range_issue : forall s l i, Inv s -> i < level_count l s ->
  exists x, get_level l s i = AIssue x /\ i_level x = l /\ In x (issues s).
Proof.
  intros s l i H Hi. rewrite level_enumeration_exact by assumption.
  rewrite level_count_filter in Hi by assumption.
  destruct (nth_error (filter (has_level l) (issues s)) i) as [x|] eqn:E.
  - exists x. split; [reflexivity|]. apply nth_error_In in E. apply filter_In in E. destruct E as [E1 E2].
    split; [|assumption]. apply level_eqb_eq. exact E2.
  - apply nth_error_None in E. lia.
Qed.

Lemma issue_out_of_range_null : forall s i, issue_count s <= i -> get_issue s i = ANull.
Proof. intros s i H. unfold get_issue. apply nth_error_None in H. rewrite H. reflexivity. Qed.

(** every issue is handed out by exactly one of the three per-level accessors *)
Lemma every_issue_enumerated : forall s x, Inv s -> In x (issues s) ->
  exists i, get_level (i_level x) s i = AIssue x.
Proof.
  intros s x H Hin.
  assert (Hf : In x (filter (has_level (i_level x)) (issues s))).
  { apply filter_In. split; [assumption|apply has_level_own]. }
  apply In_nth_error in Hf. destruct Hf as [i Hi]. exists i.
  rewrite level_enumeration_exact by assumption. rewrite Hi. reflexivity.
Qed.

(* ------------------------------------------------------------------------------------------------ *)
(** * removeError *)

Lemma inv_errs_snoc : forall s xs x, Inv s -> issues s = xs ++ [x] -> i_level x = LError ->
  errs s = positions LError xs ++ [length xs] /\ warns s = positions LWarning xs /\ msgs s = positions LMessage xs.
Proof.
  intros s xs x H Hi Hl.
  pose proof (H LError) as HE. pose proof (H LWarning) as HW. pose proof (H LMessage) as HM.
  cbn [level_vec] in HE, HW, HM. rewrite Hi, positions_snoc in HE, HW, HM.
  unfold has_level in HE, HW, HM. rewrite Hl in HE, HW, HM. cbn [level_eqb] in HE, HW, HM.
  rewrite app_nil_r in HW, HM. auto.
Qed.

(** removing the error that is the LAST issue keeps the invariant and just drops that issue *)
Lemma remove_error_last : forall s xs x, Inv s -> issues s = xs ++ [x] -> i_level x = LError ->
  exists s', remove_error (error_count s - 1) s = Ok s' /\ issues s' = xs /\ Inv s' /\
             get_error s (error_count s - 1) = AIssue x /\ error_count s' = error_count s - 1.
Proof.
  intros s xs x H Hi Hl. destruct (inv_errs_snoc s xs x H Hi Hl) as (HE & HW & HM).
  unfold remove_error, error_count, level_count. cbn [level_vec].
  assert (Hlen : length (errs s) - 1 = length (positions LError xs)).
  { rewrite HE, app_length. cbn. lia. }
  rewrite Hlen.
  assert (Hnth : nth_error (errs s) (length (positions LError xs)) = Some (length xs)).
  { rewrite HE. apply nth_error_last. }
  rewrite Hnth.
  assert (Hlt : (length xs <? length (issues s)) = true).
  { apply Nat.ltb_lt. rewrite Hi, app_length. cbn. lia. }
  rewrite Hlt. eexists. split; [reflexivity|]. cbn [issues errs warns msgs].
  rewrite Hi, HE, !remove_nth_last. repeat split.
  - intros l. destruct l; cbn [level_vec errs warns msgs]; auto.
  - unfold get_error, get_level, get_via. cbn [level_vec]. rewrite HE, nth_error_last, Hi, nth_error_last. reflexivity.
Qed.

(** The exact condition: with the invariant and a valid error index, removeError keeps the invariant
    if and only if the removed error is the last issue of the list. *)
Lemma remove_error_inv_iff : forall s i p, Inv s -> nth_error (errs s) i = Some p ->
  exists s', remove_error i s = Ok s' /\ (Inv s' <-> p = issue_count s - 1).
Proof.
  intros s i p H Hp.
  assert (Hin : In p (positions LError (issues s))).
  { rewrite <- (H LError). cbn [level_vec]. eapply nth_error_In; eassumption. }
  pose proof (positions_bounds _ _ _ Hin) as Hlt.
  unfold remove_error. rewrite Hp. apply Nat.ltb_lt in Hlt. rewrite Hlt. apply Nat.ltb_lt in Hlt.
  eexists. split; [reflexivity|]. unfold issue_count.
  assert (Hne0 : issues s <> []) by (intro E0; rewrite E0 in Hlt; cbn in Hlt; lia).
  destruct (exists_last Hne0) as (xs & x & Ei). clear Hne0.
  rewrite Ei in Hlt |- *. rewrite app_length in *. cbn [length] in *.
  split.
  - (* Inv s' -> p is last *)
    intros H'. destruct (Nat.eq_dec p (length xs + 1 - 1)) as [|Hne]; [assumption|exfalso].
    assert (Hp2 : p < length xs) by lia.
    (* the last issue x still has its old position length xs recorded in its level's vector *)
    assert (Hrec : In (length xs) (level_vec (i_level x) {| issues := remove_nth p (xs ++ [x]); errs := remove_nth i (errs s);
                                                        warns := warns s; msgs := msgs s |})).
    { pose proof (H (i_level x)) as Hv. rewrite Ei, positions_snoc, has_level_own in Hv.
      destruct (i_level x) eqn:El; cbn [level_vec errs warns msgs] in *.
      - (* x is an error: errs s = front ++ [length xs], and i indexes into front *)
        assert (Hi : i < length (positions LError xs)).
        { assert (i < length (errs s)) by (apply nth_error_Some; congruence).
          rewrite Hv, app_length in H0. cbn in H0.
          destruct (Nat.eq_dec i (length (positions LError xs))) as [->|]; [|lia].
          rewrite Hv, nth_error_last in Hp. inversion Hp. lia. }
        rewrite Hv, remove_nth_app_l by assumption. apply in_or_app. right. left. reflexivity.
      - rewrite Hv. apply in_or_app. right. left. reflexivity.
      - rewrite Hv. apply in_or_app. right. left. reflexivity. }
    rewrite (H' (i_level x)) in Hrec. apply positions_bounds in Hrec. cbn [issues] in Hrec.
    rewrite remove_nth_length in Hrec by (rewrite app_length; cbn; lia).
    rewrite app_length in Hrec. cbn in Hrec. lia.
  - (* p is last -> Inv s' *)
    intros ->. replace (length xs + 1 - 1) with (length xs) in * by lia.
    assert (Hl : i_level x = LError).
    { pose proof (H LError) as Hv. cbn [level_vec] in Hv. rewrite Ei, positions_snoc in Hv.
      destruct (has_level LError x) eqn:E; [apply level_eqb_eq; exact E|].
      rewrite app_nil_r in Hv. rewrite Hv in Hp. apply nth_error_In, positions_bounds in Hp. lia. }
    destruct (remove_error_last s xs x H Ei Hl) as (s' & Hr & Hi' & Hinv & _).
    unfold remove_error in Hr.
    destruct (inv_errs_snoc s xs x H Ei Hl) as (HE & HW & HM).
    assert (Hi : i = length (positions LError xs)).
    { assert (i < length (errs s)) by (apply nth_error_Some; congruence).
      rewrite HE, app_length in H0. cbn in H0.
      destruct (Nat.eq_dec i (length (positions LError xs))) as [|Hne]; [assumption|exfalso].
      rewrite HE, nth_error_app1 in Hp by lia. apply nth_error_In, positions_bounds in Hp. lia. }
    intros l. cbn [issues]. rewrite remove_nth_last.
    destruct l; cbn [level_vec errs warns msgs]; [|assumption|assumption].
    subst i. rewrite HE, remove_nth_last. reflexivity.
Qed.

(* ------------------------------------------------------------------------------------------------ *)
(** * The importer's clean-up loop *)

Lemma forallb_app_inv : forall A (f : A -> bool) l r, forallb f (l ++ r) = true -> forallb f l = true /\ forallb f r = true.
Proof. intros. rewrite forallb_app in H. apply andb_true_iff in H. exact H. Qed.

Lemma filter_all : forall A (f : A -> bool) l, forallb f l = true -> filter f l = l.
Proof.
  intros A f l. induction l as [|a r IH]; cbn; [reflexivity|]. intros H.
  apply andb_true_iff in H. destruct H as [Ha Hr]. rewrite Ha, IH by assumption. reflexivity.
Qed.

Lemma cleanup_loop_ok : forall suf pre s seen, Inv s -> issues s = pre ++ suf ->
  forallb (has_level LError) suf = true ->
  exists s', cleanup_loop (length suf) (length (positions LError pre)) s seen = (Ok s', seen ++ map AIssue (rev suf)) /\
             issues s' = pre /\ Inv s'.
Proof.
  induction suf as [|x suf IH] using rev_ind; intros pre s seen H Hi Hall.
  - cbn. rewrite app_nil_r in *. exists s. auto.
  - apply forallb_app_inv in Hall. destruct Hall as [Hall Hx]. cbn in Hx. rewrite andb_true_r in Hx.
    apply level_eqb_eq in Hx.
    rewrite app_assoc in Hi.
    destruct (remove_error_last s (pre ++ suf) x H Hi Hx) as (s' & Hr & Hi' & Hinv & Hget & _).
    rewrite app_length. cbn [length]. rewrite Nat.add_1_r. cbn [cleanup_loop].
    assert (Hidx : length (positions LError pre) + length suf = error_count s - 1).
    { destruct (inv_errs_snoc s (pre ++ suf) x H Hi Hx) as (HE & _ & _).
      unfold error_count, level_count. cbn [level_vec]. rewrite HE, app_length. cbn [length].
      unfold positions. rewrite positions_from_app, app_length.
      rewrite (positions_from_length LError suf), filter_all by assumption.
      lia. }
    rewrite Hidx, Hr, Hget.
    destruct (IH pre s' (seen ++ [AIssue x]) Hinv Hi' Hall) as (s'' & Hc & Hi'' & Hinv'').
    exists s''. rewrite Hc. rewrite rev_unit. cbn [map]. rewrite <- app_assoc. auto.
Qed.

Lemma error_count_app : forall s pre suf, Inv s -> issues s = pre ++ suf -> forallb (has_level LError) suf = true ->
  error_count s = length (positions LError pre) + length suf.
Proof.
  intros s pre suf H Hi Hall. unfold error_count, level_count. rewrite (H LError), Hi.
  unfold positions. rewrite positions_from_app, app_length, (positions_from_length LError suf), filter_all by assumption.
  reflexivity.
Qed.

(** With the invariant and the suffix condition the loop succeeds, hands the removed errors to the caller
    last-first, leaves exactly the issues that preceded them, and re-establishes the invariant. *)
Lemma importer_cleanup_ok : forall s pre suf, Inv s -> issues s = pre ++ suf ->
  forallb (has_level LError) suf = true ->
  exists s', importer_cleanup (length (positions LError pre)) s = (Ok s', map AIssue (rev suf)) /\
             issues s' = pre /\ Inv s'.
Proof.
  intros s pre suf H Hi Hall. unfold importer_cleanup.
  rewrite (error_count_app s pre suf H Hi Hall).
  destruct suf as [|x r].
  - rewrite Nat.add_0_r, Nat.ltb_irrefl. rewrite app_nil_r in Hi. exists s. auto.
  - assert (Hlt : (length (positions LError pre) <? length (positions LError pre) + length (x :: r)) = true).
    { apply Nat.ltb_lt. cbn [length]. lia. }
    rewrite Hlt. replace (length (positions LError pre) + length (x :: r) - length (positions LError pre)) with (length (x :: r)) by lia.
    destruct (cleanup_loop_ok (x :: r) pre s [] H Hi Hall) as (s' & Hc & Hi' & Hinv). exists s'. auto.
Qed.

Lemma importer_cleanup_inv : forall s start, Inv s -> suffix_is_errors s start ->
  exists s' seen, importer_cleanup start s = (Ok s', seen) /\ Inv s' /\ error_count s' = Nat.min start (error_count s).
Proof.
  intros s start H (pre & suf & Hi & Hall & Hst). subst start.
  destruct (importer_cleanup_ok s pre suf H Hi Hall) as (s' & Hc & Hi' & Hinv).
  exists s', (map AIssue (rev suf)). repeat split; [assumption|assumption|].
  rewrite (error_count_app s pre suf H Hi Hall).
  unfold error_count, level_count. rewrite (Hinv LError), Hi'. lia.
Qed.

(** ** What fetchModel can add: an optional message, then only errors. *)

Lemma add_parser_errors_shape : forall errors xml s, Inv s ->
  Inv (fst (add_parser_errors errors xml s)) /\
  exists suf, issues (fst (add_parser_errors errors xml s)) = issues s ++ suf /\ forallb (has_level LError) suf = true.
Proof.
  induction errors as [|[id is_xml] r IH]; intros xml s H; cbn [add_parser_errors].
  - cbn [fst]. split; [assumption|]. exists []. rewrite app_nil_r. auto.
  - destruct is_xml; cbn [fst].
    + split; [apply inv_add; assumption|]. exists [mk_error xml]. rewrite add_issue_issues. auto.
    + destruct (IH xml (add_issue (mk_error id) s) (inv_add _ _ H)) as (Hinv & suf & Hs & Hall).
      split; [assumption|]. exists (mk_error id :: suf). rewrite Hs, add_issue_issues, <- app_assoc. cbn. auto.
Qed.

Lemma fetch_model_shape : forall f s, Inv s ->
  Inv (fst (fetch_model f s)) /\ suffix_is_errors (fst (fetch_model f s)) (error_count s).
Proof.
  intros f s H. destruct f as [|x|msg errors xml]; cbn [fetch_model fst].
  - split; [assumption|]. exists (issues s), []. rewrite app_nil_r. repeat split.
    unfold error_count, level_count. rewrite (H LError). reflexivity.
  - split; [apply inv_add; assumption|]. exists (issues s), [mk_error x]. rewrite add_issue_issues. repeat split.
    unfold error_count, level_count. rewrite (H LError). reflexivity.
  - set (s1 := match msg with Some m => add_issue (mk_message m) s | None => s end).
    assert (H1 : Inv s1) by (subst s1; destruct msg; [apply inv_add|]; assumption).
    assert (Hc : length (positions LError (issues s1)) = error_count s).
    { unfold error_count, level_count. rewrite (H LError). subst s1. destruct msg; [|reflexivity].
      rewrite add_issue_issues, positions_snoc. cbn. rewrite app_nil_r. reflexivity. }
    destruct (add_parser_errors_shape errors xml s1 H1) as (Hinv & suf & Hs & Hall).
    split; [assumption|]. exists (issues s1), suf. auto.
Qed.

(** ** The composite step of fetchComponent()/fetchUnits() preserves the invariant, whatever was fetched. *)
Lemma fetch_and_clean_inv : forall f related follow s, Inv s ->
  exists s', fst (fetch_and_clean f related follow s) = Ok s' /\ Inv s'.
Proof.
  intros f related follow s H. unfold fetch_and_clean.
  destruct (fetch_model_shape f s H) as (H1 & Hsuf).
  destruct (fetch_model f s) as [s1 ok]. cbn [fst] in *.
  destruct ok; cbn [negb].
  - destruct (importer_cleanup_inv s1 (error_count s) H1 Hsuf) as (s2 & seen & Hc & H2 & _).
    rewrite Hc. destruct (existsb (is_related related) seen); cbn [fst]; eexists; split; try reflexivity.
    + apply inv_add; assumption.
    + assumption.
  - cbn [fst]. eauto.
Qed.

(** after a successful fetch-and-clean the error count is what it was before: every error the file carried is gone *)
Lemma fetch_and_clean_error_count : forall f related follow s s', Inv s ->
  fetch_and_clean f related follow s = (Ok s', true) -> error_count s' = error_count s /\ Inv s'.
Proof.
  intros f related follow s s' H. unfold fetch_and_clean.
  destruct (fetch_model_shape f s H) as (H1 & Hsuf).
  assert (Hmono : error_count s <= error_count (fst (fetch_model f s))).
  { destruct Hsuf as (pre & suf & Hi & Hall & Hst). rewrite (error_count_app _ pre suf H1 Hi Hall). lia. }
  destruct (fetch_model f s) as [s1 ok]. cbn [fst] in *.
  destruct ok; cbn [negb]; [|intros E; inversion E].
  destruct (importer_cleanup_inv s1 (error_count s) H1 Hsuf) as (s2 & seen & Hc & H2 & Hn).
  rewrite Hc. destruct (existsb (is_related related) seen); intros E; inversion E; subst.
  split; [lia|assumption].
Qed.

(* ------------------------------------------------------------------------------------------------ *)
(** * Histories *)

Lemma sstep_inv : forall o s, Inv s -> exists s', sstep o s = Ok s' /\ Inv s'.
Proof.
  intros o s H. destruct o as [x| |f related follow]; cbn [sstep].
  - eexists; split; [reflexivity|apply inv_add; assumption].
  - eexists; split; [reflexivity|apply inv_remove_all].
  - apply fetch_and_clean_inv; assumption.
Qed.

(** Every history of service operations, from any coherent state, runs to completion and ends coherent. *)
Lemma history_inv_from : forall ops s, Inv s -> exists s', run_sops ops s = Ok s' /\ Inv s'.
Proof.
  induction ops as [|o r IH]; intros s H; cbn [run_sops].
  - eauto.
  - destruct (sstep_inv o s H) as (s1 & Hs & H1). rewrite Hs. apply IH; assumption.
Qed.

Lemma history_inv : forall ops, exists s, run_sops ops empty_logger = Ok s /\ Inv s.
Proof. intros. apply history_inv_from, inv_empty. Qed.

(** Traces of primitive operations: if every removeError removed the last issue, the end state is coherent. *)
Lemma removal_is_last_inv : forall i s, Inv s -> removal_is_last i s = true ->
  exists s', remove_error i s = Ok s' /\ Inv s'.
Proof.
  intros i s H Hl. unfold removal_is_last in Hl. destruct (nth_error (errs s) i) as [p|] eqn:Ep; [|discriminate].
  apply Nat.eqb_eq in Hl. destruct (remove_error_inv_iff s i p H Ep) as (s' & Hr & Hiff).
  exists s'. split; [assumption|]. apply Hiff. unfold issue_count. lia.
Qed.

Lemma run_checked_inv : forall ops s o, Inv s -> run_checked ops s = (o, true) -> outcome_inv o.
Proof.
  induction ops as [|op r IH]; intros s o H E; cbn [run_checked] in E.
  - inversion E; subst. exact H.
  - destruct op as [x| |i]; cbn [step] in E.
    + destruct (run_checked r (add_issue x s)) as [res g] eqn:Er. inversion E; subst.
      cbn [andb] in *. eapply IH; [apply inv_add; eassumption|eassumption].
    + destruct (run_checked r (remove_all s)) as [res g] eqn:Er. inversion E; subst.
      cbn [andb] in *. eapply IH; [apply inv_remove_all|eassumption].
    + destruct (remove_error i s) as [s'| |] eqn:Er; try (inversion E; fail).
      destruct (run_checked r s') as [res g] eqn:Er2. inversion E; subst.
      apply andb_true_iff in H2. destruct H2 as [Hl Hg]. subst g.
      destruct (removal_is_last_inv i s H Hl) as (s2 & Hr2 & H2). rewrite Hr2 in Er. inversion Er; subst.
      eapply IH; eassumption.
Qed.

(** run_checked computes the same state as run_ops *)
Lemma run_checked_run_ops : forall ops s, fst (run_checked ops s) = run_ops ops s.
Proof.
  induction ops as [|op r IH]; intros s; cbn [run_checked run_ops]; [reflexivity|].
  destruct (step op s) as [s'| |]; try reflexivity.
  rewrite <- IH. destruct (run_checked r s'). reflexivity.
Qed.

(** the executable invariant is the invariant *)
Lemma list_nat_eqb_eq : forall a b, list_nat_eqb a b = true <-> a = b.
Proof.
  unfold list_nat_eqb. induction a as [|x a IH]; intros [|y b]; cbn; split; intro H; try reflexivity; try discriminate.
  - apply andb_true_iff in H. destruct H as [Hl H]. apply andb_true_iff in H. destruct H as [Hx H].
    apply Nat.eqb_eq in Hx. subst. f_equal. apply IH. rewrite Hl, H. reflexivity.
  - inversion H; subst. pose proof (proj2 (IH b) eq_refl) as E. apply andb_true_iff in E. destruct E as [E1 E2].
    rewrite E1, Nat.eqb_refl, E2. reflexivity.
Qed.

Lemma inv_b_iff : forall s, inv_b s = true <-> Inv s.
Proof.
  intros s. unfold inv_b, all_levels. cbn [forallb]. rewrite !andb_true_iff, !list_nat_eqb_eq. split.
  - intros (A & B & C & _) l. destruct l; assumption.
  - intros H. repeat split; apply H.
Qed.

(* ------------------------------------------------------------------------------------------------ *)
(** * Without the precondition: witnesses *)

Definition wE (n : nat) := {| i_level := LError; i_id := n |}.
Definition wW (n : nat) := {| i_level := LWarning; i_id := n |}.
Definition wM (n : nat) := {| i_level := LMessage; i_id := n |}.

(** [E; M], removeError(0): message(0) then reads mIssues.at(1) of a one-element vector: std::out_of_range. *)
Lemma remove_error_refuted_throws :
  exists s s', Inv s /\ remove_error 0 s = Ok s' /\ ~ Inv s' /\ get_message s' 0 = AThrows.
Proof.
  exists (add_issue (wM 1) (add_issue (wE 0) empty_logger)). eexists.
  split; [apply inv_add, inv_add, inv_empty|]. split; [reflexivity|]. split; [|reflexivity].
  intros H. specialize (H LMessage). cbn in H. discriminate.
Qed.

(** [E; M; W], removeError(0): message(0) silently returns the WARNING, warning(0) throws. *)
Lemma remove_error_refuted_wrong_level :
  exists s s', Inv s /\ remove_error 0 s = Ok s' /\ get_message s' 0 = AIssue (wW 2) /\ get_warning s' 0 = AThrows.
Proof.
  exists (add_issue (wW 2) (add_issue (wM 1) (add_issue (wE 0) empty_logger))). eexists.
  split; [apply inv_add, inv_add, inv_add, inv_empty|]. split; [reflexivity|]. split; reflexivity.
Qed.

(** the same through the importer's loop when something that is not an error follows the first error *)
Lemma importer_cleanup_refuted :
  exists s s' seen, Inv s /\ ~ suffix_is_errors s 0 /\ importer_cleanup 0 s = (Ok s', seen) /\ ~ Inv s'.
Proof.
  exists (add_issue (wM 1) (add_issue (wE 0) empty_logger)). eexists. eexists.
  split; [apply inv_add, inv_add, inv_empty|]. split; [|split; [reflexivity|]].
  - intros (pre & suf & Hi & Hall & Hst). cbn in Hi.
    destruct pre as [|a pre].
    + cbn in Hi. subst suf. cbn in Hall. discriminate.
    + cbn in Hi. inversion Hi; subst. cbn in Hst. unfold has_level in Hst. cbn in Hst. discriminate.
  - intros H. specialize (H LMessage). cbn in H. discriminate.
Qed.

(* ------------------------------------------------------------------------------------------------ *)
(** * The typed item holder *)

Lemma takes_type_spec : forall n,
  (takes_type n = true -> forall t, written_tag n t = t) /\
  (takes_type n = false -> forall t t', written_tag n t = written_tag n t').
Proof. destruct n; cbn; split; intros H; try discriminate; reflexivity. Qed.

Lemma holder_consistent_after : forall c h, holder_consistent (apply_setter c h) = call_consistent c.
Proof. reflexivity. Qed.

Lemma holder_init_coherent : forall fx, holder_coherent fx holder_init.
Proof. intros fx. destruct fx; cbn; split; try reflexivity; intros b; destruct b; reflexivity. Qed.

(** With the MATH accessor repaired: every tag-consistent setter call leaves a coherent holder. *)
Lemma holder_coherent_fixed : forall c h, call_consistent c = true -> holder_coherent true (apply_setter c h).
Proof.
  intros [n o t f] h. unfold call_consistent, holder_coherent, apply_setter, stored_obj.
  cbn [c_name c_obj c_type c_fresh h_type h_item p_obj p_kind].
  destruct n; destruct t; cbn [written_tag stored_kind kind_of_type pkind_eqb pkind_cxx String.eqb Ascii.eqb Bool.eqb];
    intros Hc; try discriminate Hc;
    (cbn; split; [reflexivity|intros b Hb; destruct b; try reflexivity; exfalso; apply Hb; reflexivity]).
Qed.

(** On the unchanged tree: the same for every tag except MATH. *)
Lemma holder_coherent_partial : forall c h, call_consistent c = true ->
  written_tag (c_name c) (c_type c) <> MATH -> holder_coherent false (apply_setter c h).
Proof.
  intros [n o t f] h. unfold call_consistent, holder_coherent, apply_setter, stored_obj.
  cbn [c_name c_obj c_type c_fresh h_type h_item p_obj p_kind].
  destruct n; destruct t; cbn [written_tag stored_kind kind_of_type pkind_eqb pkind_cxx String.eqb Ascii.eqb Bool.eqb];
    intros Hc Hm; try discriminate Hc; try (exfalso; apply Hm; reflexivity);
    (cbn; split; [reflexivity|intros b Hb; destruct b; try reflexivity; exfalso; apply Hb; reflexivity]).
Qed.

(** ... and setMath(component) stores a component that no accessor hands out. *)
Lemma holder_math_refuted :
  exists c, c_name c = SetMath /\ call_consistent c = true /\ p_obj (h_item (apply_setter c holder_init)) <> None /\
            (forall b, read false b (apply_setter c holder_init) = None) /\
            ~ holder_coherent false (apply_setter c holder_init).
Proof.
  exists {| c_name := SetMath; c_obj := Some 7; c_type := UNDEFINED; c_fresh := 0 |}.
  split; [reflexivity|]. split; [reflexivity|]. split; [cbn; discriminate|]. split.
  - intros b; destruct b; reflexivity.
  - cbn. intros [H _]. discriminate.
Qed.

(** A tag that does not denote the stored kind (possible only through the setters that take the tag as an
    argument): the any_cast fails, every accessor returns null — never a pointer of the wrong type. *)
Lemma holder_inconsistent_all_null : forall fx c h, call_consistent c = false ->
  forall b, read fx b (apply_setter c h) = None.
Proof.
  intros fx [n o t f] h. unfold call_consistent, apply_setter, read.
  cbn [c_name c_obj c_type c_fresh h_type h_item p_obj p_kind].
  destruct n; destruct t; cbn [written_tag stored_kind kind_of_type pkind_eqb pkind_cxx String.eqb Ascii.eqb Bool.eqb];
    intros Hc; try discriminate Hc; intros b; destruct b; destruct fx; reflexivity.
Qed.

(** an accessor never returns an object under a type it does not answer for *)
Lemma read_only_own_tags : forall fx a h x, read fx a h = Some x ->
  In (h_type h) (accessor_tags fx a) /\ p_kind (h_item h) = accessor_kind a.
Proof.
  intros fx a h x. unfold read.
  destruct (existsb (etype_eqb (h_type h)) (accessor_tags fx a)) eqn:E; [|discriminate].
  destruct (pkind_eqb (p_kind (h_item h)) (accessor_kind a)) eqn:K; [|discriminate]. intros _. split.
  - apply existsb_exists in E. destruct E as (t & Hin & Ht). unfold etype_eqb in Ht. apply Nat.eqb_eq in Ht.
    assert (h_type h = t) by (destruct (h_type h), t; cbn in Ht; try discriminate; reflexivity). subst. assumption.
  - destruct (p_kind (h_item h)), a; cbn in K; try discriminate; reflexivity.
Qed.

(* ------------------------------------------------------------------------------------------------ *)
(** * The regenerated tables *)

Lemma forallb_In : forall A (f : A -> bool) l x, forallb f l = true -> In x l -> f x = true.
Proof. intros A f l x H Hin. rewrite forallb_forall in H. apply H. assumption. Qed.

Lemma existsb_nat_In : forall r l, existsb (Nat.eqb r) l = true -> In r l.
Proof.
  intros r l H. apply existsb_exists in H. destruct H as (x & Hin & E). apply Nat.eqb_eq in E. subst. assumption.
Qed.

Lemma rt_at_some_iff : forall r, (exists x, rt_at r = Some x) <-> In r table_keys.
Proof.
  intros r. unfold rt_at, table_keys. split.
  - intros (x & H). apply find_some in H. destruct H as [Hin E]. apply Nat.eqb_eq in E. subst. apply in_map. assumption.
  - intros H. apply in_map_iff in H. destruct H as (x & E & Hin).
    destruct (find (fun x0 => Nat.eqb (r_rule x0) r) rule_table) eqn:F; [eauto|].
    exfalso. apply (find_none _ _ F x) in Hin. rewrite E, Nat.eqb_refl in Hin. discriminate.
Qed.

Definition has_row (r : rule) : bool := existsb (Nat.eqb r) table_keys.

(** every rule named anywhere in src/*.cpp has a row: Issue::referenceHeading()/url() cannot throw for it *)
Lemma mentioned_rules_have_rows : forall r, In r mentioned_rules -> exists x, rt_at r = Some x.
Proof.
  intros r H. apply rt_at_some_iff.
  assert (E : forallb has_row mentioned_rules = true) by (vm_compute; reflexivity).
  apply existsb_nat_In. exact (forallb_In _ _ _ _ E H).
Qed.

Lemma site_rules_have_rows : forall r, In r site_rules -> exists x, rt_at r = Some x.
Proof.
  intros r H. apply rt_at_some_iff.
  assert (E : forallb has_row site_rules = true) by (vm_compute; reflexivity).
  apply existsb_nat_In. exact (forallb_In _ _ _ _ E H).
Qed.

Lemma rows_shape_well_formed : forall x, In x rule_table -> row_shape_wf x = true.
Proof.
  intros x H. assert (E : forallb row_shape_wf rule_table = true) by (vm_compute; reflexivity).
  exact (forallb_In _ _ _ _ E H).
Qed.

(** every row names its own rule in the URL, except (unchanged tree) the row of MAP_VARIABLES_VARIABLE2_ATTRIBUTE *)
Lemma rows_name_ok_except : forall x, In x rule_table ->
  row_name_ok x = true \/ r_key x = "MAP_VARIABLES_VARIABLE2_ATTRIBUTE"%string.
Proof.
  intros x H.
  assert (E : forallb (fun x => row_name_ok x || String.eqb (r_key x) "MAP_VARIABLES_VARIABLE2_ATTRIBUTE") rule_table = true)
    by (vm_compute; reflexivity).
  pose proof (forallb_In _ _ _ _ E H) as E1. cbn beta in E1. apply orb_true_iff in E1.
  destruct E1 as [E1|E1]; [left; assumption|right; apply String.eqb_eq; assumption].
Qed.

Lemma nodup_nat_NoDup : forall l, nodup_nat l = true -> NoDup l.
Proof.
  induction l as [|a r IH]; cbn; intros H; [constructor|].
  apply andb_true_iff in H. destruct H as [Ha Hr]. constructor; [|apply IH; assumption].
  intros Hin. apply negb_true_iff in Ha.
  assert (existsb (Nat.eqb a) r = true) by (apply existsb_exists; exists a; split; [assumption|apply Nat.eqb_refl]).
  congruence.
Qed.

Lemma no_duplicate_rows : NoDup table_keys.
Proof. apply nodup_nat_NoDup. vm_compute. reflexivity. Qed.

Lemma table_keys_in_enum : length rule_names = rule_count /\ forall r, In r table_keys -> r < rule_count.
Proof.
  split; [vm_compute; reflexivity|]. intros r H.
  assert (E : forallb (fun r => r <? rule_count) table_keys = true) by (vm_compute; reflexivity).
  apply Nat.ltb_lt. exact (forallb_In _ _ _ _ E H).
Qed.

(** the enumerators that have no row are called UNSPECIFIED and are named nowhere in src/*.cpp *)
Lemma rules_without_row_unreachable : forall r, r < rule_count -> rt_at r = None ->
  rule_name_of r = "UNSPECIFIED"%string /\ ~ In r mentioned_rules.
Proof.
  intros r Hlt Hnone.
  assert (Hin : In r rules_without_row).
  { unfold rules_without_row. apply filter_In. split; [apply in_seq; lia|].
    apply negb_true_iff. destruct (existsb (Nat.eqb r) table_keys) eqn:E; [|reflexivity].
    apply existsb_nat_In, rt_at_some_iff in E. destruct E as (x & E). congruence. }
  assert (E : forallb (fun r => String.eqb (rule_name_of r) "UNSPECIFIED" && negb (existsb (Nat.eqb r) mentioned_rules))
                      rules_without_row = true) by (vm_compute; reflexivity).
  pose proof (forallb_In _ _ _ _ E Hin) as E1. cbn beta in E1. apply andb_true_iff in E1. destruct E1 as [E1 E2].
  split; [apply String.eqb_eq; assumption|].
  intros Hm. apply negb_true_iff in E2.
  assert (existsb (Nat.eqb r) mentioned_rules = true) by (apply existsb_exists; exists r; split; [assumption|apply Nat.eqb_refl]).
  congruence.
Qed.

(** for every rule that has a row both readers are defined (no out-of-range read of the row vector) *)
Lemma heading_url_defined : forall r, In r table_keys -> exists h u, rt_heading r = Some h /\ rt_url r = Some u.
Proof.
  intros r H.
  assert (E : forallb (fun r => match rt_heading r, rt_url r with Some _, Some _ => true | _, _ => false end) table_keys = true)
    by (vm_compute; reflexivity).
  pose proof (forallb_In _ _ _ _ E H) as E1. cbn beta in E1.
  destruct (rt_heading r) as [h|]; [|discriminate]. destruct (rt_url r) as [u|]; [|discriminate]. eauto.
Qed.

(** issue sites *)
Lemma sites_have_description : forall s, In s issue_sites -> s_desc s = true.
Proof.
  intros s H. assert (E : forallb s_desc issue_sites = true) by (vm_compute; reflexivity).
  exact (forallb_In _ _ _ _ E H).
Qed.

Lemma sites_level_valid : forall s, In s issue_sites -> s_level s < length all_levels.
Proof.
  intros s H. assert (E : forallb (fun s => s_level s <? length all_levels) issue_sites = true) by (vm_compute; reflexivity).
  apply Nat.ltb_lt. exact (forallb_In _ _ _ _ E H).
Qed.

(** every created issue is added (or returned to a caller) — except, on the unchanged tree, the one that
    Annotator::assignAllIds(ModelPtr&) creates for a null model and then forgets *)
Definition site_kept_or_known (s : site) : bool :=
  negb (s_fate s =? 2) || (String.eqb (s_file s) "annotator.cpp" && String.eqb (rule_name_of (match s_rule s with Some r => r | None => 0 end)) "ANNOTATOR_NULL_MODEL").

Lemma sites_added_except : forall s, In s issue_sites -> site_kept_or_known s = true.
Proof.
  intros s H. assert (E : forallb site_kept_or_known issue_sites = true) by (vm_compute; reflexivity).
  exact (forallb_In _ _ _ _ E H).
Qed.

(** every item setter used at an issue site is a modelled setter, and the call is tag-consistent: the tag it
    writes (constant, declared default, or passed explicitly) denotes the kind of object it stores *)
Definition usable_without_tag (n : sname) : bool := negb (takes_type n) || negb (etype_eqb (default_tag n) UNDEFINED).

Definition site_call (n : sname) (tag : option nat) : call :=
  {| c_name := n; c_obj := Some 0;
     c_type := match tag with
               | Some k => nth k all_etypes UNDEFINED
               | None => default_tag n
               end;
     c_fresh := 0 |}.

Definition site_setter_ok (s : site) : bool :=
  String.eqb (s_setter s) "" ||
  (existsb (fun n => String.eqb (sname_cxx n) (s_setter s)) all_snames &&
   forallb (fun n => negb (String.eqb (sname_cxx n) (s_setter s))
                     || (match s_tag s with
                         | Some _ => negb (takes_type n) || call_consistent (site_call n (s_tag s))
                         | None => negb (usable_without_tag n) || call_consistent (site_call n None)
                         end)) all_snames).

Lemma sites_setters_consistent : forall s, In s issue_sites -> site_setter_ok s = true.
Proof.
  intros s H. assert (E : forallb site_setter_ok issue_sites = true) by (vm_compute; reflexivity).
  exact (forallb_In _ _ _ _ E H).
Qed.

(** the hand-written model of the holder and of the enumerations is the one in the source *)
Lemma model_matches_source :
  model_setter_table = holder_setters /\
  model_accessor_table tree_math_fixed = holder_accessors /\
  model_setter_defaults = holder_setter_defaults /\
  map etype_name all_etypes = element_type_names /\
  map etype_index all_etypes = seq 0 (length element_type_names) /\
  etype_index UNDEFINED = holder_default_type /\
  map level_name all_levels = level_names /\
  map level_index all_levels = seq 0 (length level_names).
Proof. repeat split; vm_compute; reflexivity. Qed.

(** non-vacuity *)
Lemma nonvacuous :
  mentioned_rules <> [] /\ issue_sites <> [] /\ rule_table <> [] /\
  (exists ops s, run_sops ops empty_logger = Ok s /\ issue_count s = 2 /\ error_count s = 1 /\ message_count s = 1 /\
                 get_error s 0 = AIssue (wE 9) /\ get_message s 0 = AIssue (wM 1)).
Proof.
  repeat split; try (vm_compute; discriminate).
  exists [SAdd (wW 0); SRemoveAll;
          SFetchClean (FParsed (Some 1) [(2, false); (3, false)] 4) (fun id => Nat.eqb id 3) 9], 
         (add_issue (wE 9) (add_issue (wM 1) empty_logger)).
  vm_compute. repeat split; reflexivity.
Qed.
