(** RoundtripLoadProofs.v — part B of the C02 round-trip proof: the loader applied to the tree the printer
    means ([print_tree]) rebuilds the canonical model without any issue.  Element by element (unit, units, variable,
    reset with its value blocks, component with math), then whole flat models (stages 1 and 2 of the plan). *)
From Coq Require Import String Ascii List Bool ZArith Arith Lia.
From LC Require Import Common NumDefs XmlDefs EntTreeDefs PrintDefs LoadDefs RoundtripSpec XmlTextProofs RoundtripReadProofs.
Import ListNotations.
Local Open Scope string_scope.
Local Open Scope bool_scope.
Local Open Scope list_scope.

Opaque str_ok num_ok order_ok math_ok.

Lemma nonempty_false : forall s, nonempty s = false -> s = "".
Proof. destruct s; [reflexivity | discriminate]. Qed.

Section LoadProofs.
Variable E : env.
Variable fx : bool.   (* the loader's own switch (crossed map_variables): irrelevant below the connections *)

(** * unit *)
Lemma real_attr_ok : forall rule x old, num_ok E x = true -> String.eqb x num_one = false ->
  real_attr E rule (show15 E x) old = (round15 E x, []).
Proof.
  intros rule x old H Hx. Transparent num_ok. unfold num_ok in H. Opaque num_ok. rewrite Hx in H. simpl in H.
  bsplit_all. unfold real_attr, round15.
  match goal with Hr : is_real _ = true |- _ => rewrite Hx, Hr end.
  destruct (to_double E (show15 E x)); [reflexivity | discriminate].
Qed.

Lemma round15_one : round15 E num_one = num_one.
Proof. reflexivity. Qed.

Lemma load_print_unit : forall d, unitdef_ok E true d = true ->
  load_unit E (print_unit E ident d) = (canon_unitdef E d, []).
Proof.
  intros d H. unfold unitdef_ok in H. bsplit_all.
  destruct d as [ref pre ex mu id]. cbn [ud_ref ud_prefix ud_exp ud_mult ud_id] in *.
  unfold load_unit, print_unit, el, xml_kids, xml_attrs, canon_unitdef. cbn [flat_map app ud_ref ud_prefix ud_exp ud_mult ud_id].
  rewrite !fold_left_app. unfold opt_attr, ident.
  match goal with Hp : String.eqb (prefix_store pre) pre = true |- _ => apply String.eqb_eq in Hp end.
  destruct (String.eqb ex num_one) eqn:Ee; [apply String.eqb_eq in Ee; subst ex|];
  (destruct (String.eqb mu num_one) eqn:Em; [apply String.eqb_eq in Em; subst mu|]);
  (destruct (nonempty pre) eqn:Ep; [|apply nonempty_false in Ep; subst pre]);
  (destruct (nonempty id) eqn:Ei; [|apply nonempty_false in Ei; subst id]);
  cbn -[real_attr prefix_store round15];
  repeat (rewrite real_attr_ok by assumption); cbn [fst snd app]; rewrite ?round15_one;
  try match goal with Hp : prefix_store _ = _ |- _ => rewrite Hp end; reflexivity.
Qed.

(** * units *)
Lemma load_units_kids : forall ds acc, forallb (unitdef_ok E true) ds = true ->
  fold_left (load_units_kid E) (map (print_unit E ident) ds) acc = (fst acc ++ map (canon_unitdef E) ds, snd acc).
Proof.
  induction ds as [|d ds IH]; intros acc H.
  - simpl. rewrite app_nil_r. destruct acc; reflexivity.
  - simpl in H. apply andb_true_iff in H. destruct H as [Hd Hds].
    cbn [map fold_left]. unfold load_units_kid at 2.
    replace (is_cellml20 "unit" (print_unit E ident d)) with true by reflexivity.
    rewrite (load_print_unit d Hd). cbn [fst snd]. rewrite IH by exact Hds. cbn [fst snd map].
    rewrite app_nil_r, <- app_assoc. reflexivity.
Qed.

Lemma load_print_units : forall u, units_ok E true u = true -> u_src u = None ->
  exists a k, print_units E ident u = [el "units" a k] /\ load_units E (el "units" a k) = (canon_units E u, []).
Proof.
  intros u H Hs. unfold units_ok in H. rewrite Hs in H. bsplit_all.
  unfold print_units. unfold is_import_units. rewrite Hs. cbn [orb].
  match goal with Hn : negb (is_standard_unit u) = true |- _ => apply negb_true_iff in Hn; rewrite Hn end.
  eexists. eexists. split; [reflexivity|].
  destruct u as [n i s r ds]. cbn [u_name u_id u_src u_ref u_defs] in *. subst s.
  match goal with Hr : negb (nonempty r) = true |- _ => apply negb_true_iff in Hr; apply nonempty_false in Hr; subst r end.
  unfold load_units, el, xml_attrs, xml_kids, canon_units. cbn [u_name u_id u_src u_ref u_defs].
  rewrite load_units_kids by assumption. cbn [fst snd app].
  unfold opt_attr, ident.
  match goal with Hn : nonempty n = true |- _ => rewrite Hn end.
  destruct (nonempty i) eqn:Ei; [|apply nonempty_false in Ei; subst i]; reflexivity.
Qed.

(** * variable *)
Lemma load_print_variable : forall us v, variable_ok true us v = true ->
  load_variable (print_variable ident v) = (v, []).
Proof.
  intros us v H. unfold variable_ok in H. bsplit_all.
  destruct v as [n i u iv it]. cbn [v_name v_id v_units v_init v_iface] in *.
  destruct u as [un|]; [|discriminate]. bsplit_all.
  unfold load_variable, print_variable, el, xml_kids, xml_attrs. cbn [flat_map app v_name v_id v_units v_init v_iface].
  rewrite !fold_left_app. unfold opt_attr, ident.
  match goal with Hn : nonempty n = true |- _ => rewrite Hn end.
  match goal with Hn : nonempty un = true |- _ => rewrite Hn end.
  (destruct (nonempty iv) eqn:Eiv; [|apply nonempty_false in Eiv; subst iv]);
  (destruct (nonempty it) eqn:Eit; [|apply nonempty_false in Eit; subst it]);
  (destruct (nonempty i) eqn:Ei; [|apply nonempty_false in Ei; subst i]); reflexivity.
Qed.

(** * mathematics *)
Lemma map_ident : forall {A} (l : list A), map ident l = l.
Proof. induction l; simpl; [reflexivity | unfold ident at 1; now rewrite IHl]. Qed.

Lemma math_kids_ident : forall s,
  math_kids E ident s = if nonempty s then match norm_math E s with Some xs => xs | None => [] end else [].
Proof. intros. unfold math_kids. destruct (nonempty s); [|reflexivity]. destruct (norm_math E s); [apply map_ident | reflexivity]. Qed.

Lemma math_kids_mathml : forall s, math_ok E s = true ->
  forallb (fun x => is_mathml "math" x && ns_clean x && attrs_no_ctrl x) (math_kids E ident s) = true.
Proof.
  intros s H. rewrite math_kids_ident. Transparent math_ok. unfold math_ok in H. Opaque math_ok.
  destruct (nonempty s); [|reflexivity]. simpl in H. destruct (norm_math E s); [exact H | reflexivity].
Qed.

Lemma has_math_nonempty : forall s, has_math E s = true -> nonempty s = true.
Proof. intros s H. unfold has_math in H. rewrite math_kids_ident in H. destruct (nonempty s); [reflexivity | discriminate]. Qed.

Lemma math_fold : forall rule ks old,
  forallb (fun x => is_mathml "math" x && ns_clean x && attrs_no_ctrl x) ks = true ->
  fold_left (fun st k => if is_mathml "math" k then ((fst st ++ math_text E k ++ String c_lf EmptyString)%string, snd st)
                         else (fst st, snd st ++ stray_child rule k)) ks (old, [])
  = (fold_left (fun acc k => (acc ++ math_text E k ++ String c_lf EmptyString)%string) ks old, @nil issue).
Proof.
  intros rule. induction ks as [|k ks IH]; intros old H; [reflexivity|].
  simpl in H. bsplit_all. cbn [fold_left].
  match goal with Hm : is_mathml "math" k = true |- _ => rewrite Hm end. cbn [fst snd]. apply IH. assumption.
Qed.

(** * reset *)
Lemma load_print_reset_child : forall rule label id s, math_ok E s = true ->
  load_reset_child E rule "" "" (el label (opt_attr ident "id" id) (math_kids E ident s))
  = {| rc_id := id; rc_math := canon_math E s; rc_issues := [] |}.
Proof.
  intros rule label id s Hm. unfold load_reset_child, el, xml_attrs, xml_kids.
  rewrite (math_fold rule _ "" (math_kids_mathml s Hm)). cbn [fst snd].
  unfold canon_math, opt_attr, ident.
  destruct (nonempty id) eqn:Ei; [|apply nonempty_false in Ei; subst id]; reflexivity.
Qed.

Lemma order_ok_to_int : forall z, order_ok E z = true -> to_int (show_int E z) = Value z.
Proof.
  intros z H. Transparent order_ok. unfold order_ok in H. Opaque order_ok. bsplit_all.
  unfold conv_is in *. destruct (to_int (show_int E z)) as [| |y]; try discriminate.
  match goal with Hz : Z.eqb y z = true |- _ => apply Z.eqb_eq in Hz; now subst end.
Qed.

Definition reset_of (id : string) (ord : option Z) (var test : option vref) (tv tvid rv rvid : string) : reset :=
  {| r_id := id; r_order := ord; r_var := var; r_test := test; r_tv := tv; r_tv_id := tvid; r_rv := rv; r_rv_id := rvid |}.

Lemma print_reset_child_one : forall label id s, has_math E s || nonempty id = true ->
  print_reset_child E ident ident label id s = [el label (opt_attr ident "id" id) (math_kids E ident s)].
Proof.
  intros label id s Hh. unfold print_reset_child. apply orb_true_iff in Hh. destruct Hh as [Hhm|Hhi].
  - rewrite (has_math_nonempty _ Hhm), orb_true_r. reflexivity.
  - rewrite Hhi. reflexivity.
Qed.

Lemma reset_attrs_fold : forall vs id z var test tv tvid rv rvid,
  order_ok E z = true -> vref_ok true vs var = true -> vref_ok true vs test = true ->
  fold_left (load_reset_attr vs) (xml_attrs (print_reset E ident ident (reset_of id (Some z) var test tv tvid rv rvid)))
            {| ra_r := empty_reset; ra_order_valid := false; ra_order_defined := false; ra_order := 0%Z; ra_issues := [] |}
  = {| ra_r := reset_of id None var test "" "" "" ""; ra_order_valid := true; ra_order_defined := true; ra_order := z;
       ra_issues := [] |}.
Proof.
  intros vs id z var test tv tvid rv rvid Hz Hv Ht.
  pose proof (order_ok_to_int z Hz) as Hzi.
  unfold print_reset, reset_of, el, xml_attrs. cbn [r_id r_order r_var r_test r_tv r_tv_id r_rv r_rv_id].
  rewrite !fold_left_app. unfold opt_attr, ident.
  destruct var as [[vn|vn]|]; destruct test as [[tn|tn]|]; cbn [vref_ok] in *; try discriminate; bsplit_all;
  (destruct (nonempty id) eqn:Ei; [|apply nonempty_false in Ei; subst id]);
  cbn -[to_int];
  repeat match goal with Hh : has_var vs _ = true |- _ => rewrite Hh; clear Hh end;
  cbn -[to_int]; rewrite Hzi; reflexivity.
Qed.

Lemma reset_kids_fold : forall id ord var test tv tvid rv rvid,
  math_ok E tv = true -> math_ok E rv = true ->
  has_math E tv || nonempty tvid = true -> has_math E rv || nonempty rvid = true ->
  fold_left (load_reset_kid E) (xml_kids (print_reset E ident ident (reset_of id (Some 0%Z) var test tv tvid rv rvid)))
            {| rk_r := reset_of id ord var test "" "" "" ""; rk_tests := 0; rk_resets := 0; rk_issues := [] |}
  = {| rk_r := reset_of id ord var test (canon_math E tv) tvid (canon_math E rv) rvid; rk_tests := 1; rk_resets := 1;
       rk_issues := [] |}.
Proof.
  intros id ord var test tv tvid rv rvid Hmt Hmr Hht Hhr.
  unfold print_reset, reset_of. cbn [r_id r_order r_var r_test r_tv r_tv_id r_rv r_rv_id].
  rewrite (print_reset_child_one "test_value" tvid tv Hht), (print_reset_child_one "reset_value" rvid rv Hhr).
  unfold el at 1. unfold xml_kids. cbn [app fold_left].
  unfold load_reset_kid at 2.
  replace (is_cellml20 "test_value" (el "test_value" (opt_attr ident "id" tvid) (math_kids E ident tv))) with true by reflexivity.
  cbn [rk_r r_id r_order r_var r_test r_tv r_tv_id r_rv r_rv_id rk_tests rk_resets rk_issues].
  rewrite (load_print_reset_child "TEST_VALUE_CHILD" "test_value" tvid tv Hmt).
  cbn [rc_id rc_math rc_issues app].
  unfold load_reset_kid.
  replace (is_cellml20 "test_value" (el "reset_value" (opt_attr ident "id" rvid) (math_kids E ident rv))) with false by reflexivity.
  replace (is_cellml20 "reset_value" (el "reset_value" (opt_attr ident "id" rvid) (math_kids E ident rv))) with true by reflexivity.
  cbn [rk_r r_id r_order r_var r_test r_tv r_tv_id r_rv r_rv_id rk_tests rk_resets rk_issues].
  rewrite (load_print_reset_child "RESET_VALUE_CHILD" "reset_value" rvid rv Hmr).
  reflexivity.
Qed.

Lemma load_print_reset : forall vs r, reset_ok E true vs r = true ->
  load_reset E vs (print_reset E ident ident r) = (canon_reset E r, []).
Proof.
  intros vs r H. unfold reset_ok in H. bsplit_all.
  destruct r as [id ord var test tv tvid rv rvid]. cbn [r_id r_order r_var r_test r_tv r_tv_id r_rv r_rv_id] in *.
  destruct ord as [z|]; [|discriminate].
  change {| r_id := id; r_order := Some z; r_var := var; r_test := test; r_tv := tv; r_tv_id := tvid; r_rv := rv; r_rv_id := rvid |}
    with (reset_of id (Some z) var test tv tvid rv rvid).
  unfold load_reset.
  rewrite (reset_attrs_fold vs id z var test tv tvid rv rvid) by assumption.
  cbn [ra_r ra_order_valid ra_order_defined ra_order ra_issues reset_of r_id r_order r_var r_test r_tv r_tv_id r_rv r_rv_id].
  change (xml_kids (print_reset E ident ident (reset_of id (Some z) var test tv tvid rv rvid)))
    with (xml_kids (print_reset E ident ident (reset_of id (Some 0%Z) var test tv tvid rv rvid))).
  change {| r_id := id; r_order := Some z; r_var := var; r_test := test; r_tv := ""; r_tv_id := ""; r_rv := ""; r_rv_id := "" |}
    with (reset_of id (Some z) var test "" "" "" "").
  rewrite (reset_kids_fold id (Some z) var test tv tvid rv rvid) by assumption.
  reflexivity.
Qed.

(** * component *)
Definition ck_of (vs : list variable) (rs : list reset) (m : string) (is : list issue) : ckids_acc :=
  {| ck_vars := vs; ck_resets := rs; ck_math := m; ck_issues := is |}.

Lemma kid_var : forall us v vs rs m is, variable_ok true us v = true ->
  load_component_kid E (ck_of vs rs m is) (print_variable ident v) = ck_of (vs ++ [v]) rs m is.
Proof.
  intros us v vs rs m is Hv. unfold load_component_kid.
  replace (is_cellml_any "variable" (print_variable ident v)) with true by reflexivity.
  rewrite (load_print_variable us v Hv). unfold ck_of. cbn [ck_vars ck_resets ck_math ck_issues fst snd].
  rewrite app_nil_r. reflexivity.
Qed.

Lemma kid_reset : forall r vs rs m is, reset_ok E true vs r = true ->
  load_component_kid E (ck_of vs rs m is) (print_reset E ident ident r) = ck_of vs (rs ++ [canon_reset E r]) m is.
Proof.
  intros r vs rs m is Hr. unfold load_component_kid.
  replace (is_cellml_any "variable" (print_reset E ident ident r)) with false by reflexivity.
  replace (is_cellml20 "reset" (print_reset E ident ident r)) with true by reflexivity.
  unfold ck_of. cbn [ck_vars ck_resets ck_math ck_issues].
  rewrite (load_print_reset vs r Hr). cbn [fst snd]. rewrite app_nil_r. reflexivity.
Qed.

Lemma mathml_not_cellml : forall k, is_mathml "math" k = true ->
  is_cellml_any "variable" k = false /\ is_cellml20 "reset" k = false.
Proof.
  intros k H. destruct k as [ns nm a ks| |]; try discriminate.
  unfold is_mathml, is_element in H. apply andb_true_iff in H. destruct H as [Hn _].
  apply String.eqb_eq in Hn. subst ns. split; reflexivity.
Qed.

Lemma kid_math : forall k vs rs m is, is_mathml "math" k = true ->
  load_component_kid E (ck_of vs rs m is) k = ck_of vs rs (m ++ math_text E k ++ String c_lf EmptyString)%string is.
Proof.
  intros k vs rs m is Hm. unfold load_component_kid.
  destruct (mathml_not_cellml k Hm) as [Hv Hr]. rewrite Hv, Hr, Hm. reflexivity.
Qed.

Lemma comp_vars_fold : forall us vs vs0 rs0 m0 is0, forallb (variable_ok true us) vs = true ->
  fold_left (load_component_kid E) (map (print_variable ident) vs) (ck_of vs0 rs0 m0 is0) = ck_of (vs0 ++ vs) rs0 m0 is0.
Proof.
  intros us. induction vs as [|v vs IH]; intros vs0 rs0 m0 is0 H.
  - simpl. rewrite app_nil_r. reflexivity.
  - simpl in H. apply andb_true_iff in H. destruct H as [Hv Hvs].
    cbn [map fold_left]. rewrite (kid_var us v) by exact Hv. rewrite IH by exact Hvs. rewrite <- app_assoc. reflexivity.
Qed.

Lemma comp_resets_fold : forall vs rs rs0 m0 is0, forallb (reset_ok E true vs) rs = true ->
  fold_left (load_component_kid E) (map (print_reset E ident ident) rs) (ck_of vs rs0 m0 is0)
  = ck_of vs (rs0 ++ map (canon_reset E) rs) m0 is0.
Proof.
  intros vs. induction rs as [|r rs IH]; intros rs0 m0 is0 H.
  - simpl. rewrite app_nil_r. reflexivity.
  - simpl in H. apply andb_true_iff in H. destruct H as [Hr Hrs].
    cbn [map fold_left]. rewrite kid_reset by exact Hr. rewrite IH by exact Hrs. rewrite <- app_assoc. reflexivity.
Qed.

Lemma comp_math_fold : forall ks vs rs m0 is0,
  forallb (fun x => is_mathml "math" x && ns_clean x && attrs_no_ctrl x) ks = true ->
  fold_left (load_component_kid E) ks (ck_of vs rs m0 is0)
  = ck_of vs rs (fold_left (fun acc k => (acc ++ math_text E k ++ String c_lf EmptyString)%string) ks m0) is0.
Proof.
  induction ks as [|k ks IH]; intros vs rs m0 is0 H; [reflexivity|].
  simpl in H. bsplit_all. cbn [fold_left]. rewrite kid_math by assumption. apply IH. assumption.
Qed.

(** a freshly loaded component has no encapsulation id yet: loadComponentRef sets it *)
Definition strip_encid (s : cshell) : cshell :=
  {| c_name := c_name s; c_id := c_id s; c_encid := ""; c_src := c_src s; c_ref := c_ref s; c_math := c_math s;
     c_vars := c_vars s; c_resets := c_resets s |}.

Lemma load_print_shell : forall us s, shell_ok E true us s = true -> c_src s = None ->
  load_component E (print_shell E ident ident s) = (Comp (strip_encid (canon_shell E s)) [], []).
Proof.
  intros us s H Hs. unfold shell_ok in H. rewrite Hs in H. bsplit_all.
  destruct s as [n i e src ref m vs rs]. cbn [c_name c_id c_encid c_src c_ref c_math c_vars c_resets] in *. subst src.
  match goal with Hr : negb (nonempty ref) = true |- _ => apply negb_true_iff in Hr; apply nonempty_false in Hr; subst ref end.
  unfold load_component, print_shell, el, xml_attrs, xml_kids. cbn [c_name c_id c_encid c_src c_ref c_math c_vars c_resets].
  rewrite !fold_left_app.
  change {| ck_vars := []; ck_resets := []; ck_math := ""; ck_issues := [] |} with (ck_of [] [] "" []).
  rewrite (comp_vars_fold us vs) by assumption. cbn [app].
  rewrite comp_resets_fold by assumption. cbn [app].
  rewrite comp_math_fold by (apply math_kids_mathml; assumption).
  unfold ck_of. cbn [ck_vars ck_resets ck_math ck_issues].
  unfold strip_encid, canon_shell, canon_math. cbn [c_name c_id c_encid c_src c_ref c_math c_vars c_resets].
  unfold opt_attr, ident.
  match goal with Hn : nonempty n = true |- _ => rewrite Hn end.
  (* the encapsulation id of a freshly loaded component is empty: the caller accounts for it *)
  destruct (nonempty i) eqn:Ei; [|apply nonempty_false in Ei; subst i]; cbn; reflexivity.
Qed.

(** * namespaces: a tree whose elements are CellML 2.0 / MathML and whose only prefixed attributes are cellml:units on
      cn and xlink:href on import raises no namespace issue *)
Definition attr_allowed (ns nm : string) (a : attr) : bool :=
  String.eqb (a_ns a) ""
  || (String.eqb nm "cn" && String.eqb ns MATHML_NS && String.eqb (a_name a) "units" && String.eqb (a_ns a) CELLML_2_0_NS)
  || (String.eqb nm "import" && String.eqb ns CELLML_2_0_NS && String.eqb (a_name a) "href" && String.eqb (a_ns a) XLINK_NS).

Fixpoint clean (x : xml) : bool :=
  match x with
  | Elem ns nm attrs ks =>
    (String.eqb ns MATHML_NS || String.eqb ns CELLML_2_0_NS) && forallb (attr_allowed ns nm) attrs
    && (fix go (l : list xml) : bool := match l with [] => true | k :: r => clean k && go r end) ks
  | _ => true
  end.

Lemma clean_elem : forall ns nm attrs ks,
  clean (Elem ns nm attrs ks)
  = (String.eqb ns MATHML_NS || String.eqb ns CELLML_2_0_NS) && forallb (attr_allowed ns nm) attrs && forallb clean ks.
Proof. intros. reflexivity. Qed.

Lemma ns_clean_elem : forall ns nm attrs ks,
  ns_clean (Elem ns nm attrs ks)
  = (String.eqb ns MATHML_NS || String.eqb ns CELLML_2_0_NS)
    && forallb (fun a => String.eqb (a_ns a) ""
                         || (String.eqb nm "cn" && String.eqb ns MATHML_NS && String.eqb (a_name a) "units"
                             && String.eqb (a_ns a) CELLML_2_0_NS)) attrs
    && forallb ns_clean ks.
Proof. intros. reflexivity. Qed.

Lemma ns_clean_clean : forall x, ns_clean x = true -> clean x = true.
Proof.
  induction x as [ns nm attrs ks IH| |] using xml_ind'; intros H; try reflexivity.
  rewrite ns_clean_elem in H. rewrite clean_elem. bsplit_all.
  repeat (apply andb_true_iff; split); try assumption.
  - rewrite forallb_forall in *. intros a Ha. unfold attr_allowed.
    match goal with Hf : forall x, In x attrs -> _ |- _ => specialize (Hf a Ha); rewrite Hf end. reflexivity.
  - rewrite forallb_forall in *. rewrite Forall_forall in IH. intros k Hk. apply IH; [exact Hk|]. auto.
Qed.

Definition good_ns (p : string * string) : bool := String.eqb (snd p) CELLML_2_0_NS || String.eqb (snd p) MATHML_NS.

Lemma first_per_name_good : forall l acc,
  forallb good_ns l = true -> forallb good_ns acc = true -> forallb good_ns (first_per_name l acc) = true.
Proof.
  induction l as [|[k v] l IH]; intros acc Hl Ha.
  - simpl. rewrite forallb_forall in *. intros x Hx. apply Ha. now apply in_rev.
  - simpl in Hl. apply andb_true_iff in Hl. destruct Hl as [Hkv Hl]. simpl.
    destruct (assoc_mem k acc); apply IH; try assumption. simpl. rewrite Hkv. exact Ha.
Qed.

Lemma elem_names_elem : forall ns nm attrs ks,
  elem_names (Elem ns nm attrs ks) = (nm, ns) :: flat_map elem_names ks.
Proof. intros. reflexivity. Qed.

Lemma attr_namespaces_elem : forall ns nm attrs ks,
  attr_namespaces (Elem ns nm attrs ks)
  = map (fun a => (nm, a_name a, a_ns a, ns)) (filter (fun a => negb (String.eqb (a_ns a) "")) attrs)
    ++ flat_map attr_namespaces ks.
Proof. intros. reflexivity. Qed.

Definition attr_entry_ok (e : string * string * string * string) : bool :=
  match e with (nn, an, au, nu) =>
    (String.eqb nn "cn" && String.eqb nu MATHML_NS && String.eqb an "units" && String.eqb au CELLML_2_0_NS)
    || (String.eqb nn "import" && String.eqb nu CELLML_2_0_NS && String.eqb an "href" && String.eqb au XLINK_NS)
  end.

Lemma forallb_flat_map_ind : forall {A B} (P : A -> bool) (Q : B -> bool) (f : A -> list B) ks,
  Forall (fun k => P k = true -> forallb Q (f k) = true) ks -> forallb P ks = true -> forallb Q (flat_map f ks) = true.
Proof.
  induction ks as [|k ks IHk]; intros IH H; [reflexivity|].
  simpl in H. apply andb_true_iff in H. destruct H as [Hk Hks].
  inversion IH as [|? ? Pk Pks]; subst. cbn [flat_map]. rewrite forallb_app, (Pk Hk), (IHk Pks Hks). reflexivity.
Qed.

Lemma clean_elem_names : forall x, clean x = true -> forallb good_ns (elem_names x) = true.
Proof.
  induction x as [ns nm attrs ks IH| |] using xml_ind'; intros H; try reflexivity.
  rewrite clean_elem in H. bsplit_all. rewrite elem_names_elem. cbn [forallb].
  apply andb_true_iff. split.
  - unfold good_ns. cbn [snd]. match goal with Hn : _ || _ = true |- _ => rewrite orb_comm; exact Hn end.
  - eapply forallb_flat_map_ind; eassumption.
Qed.

Lemma attrs_entries_ok : forall ns nm attrs, forallb (attr_allowed ns nm) attrs = true ->
  forallb attr_entry_ok (map (fun a => (nm, a_name a, a_ns a, ns)) (filter (fun a => negb (String.eqb (a_ns a) "")) attrs)) = true.
Proof.
  induction attrs as [|a r IHr]; intros Ha; [reflexivity|].
  simpl in Ha. apply andb_true_iff in Ha. destruct Ha as [Ha Hr].
  simpl. destruct (String.eqb (a_ns a) "") eqn:En; simpl; [apply IHr; exact Hr|].
  rewrite (IHr Hr), andb_true_r. unfold attr_allowed in Ha. rewrite En in Ha. simpl in Ha. exact Ha.
Qed.

Lemma clean_attr_namespaces : forall x, clean x = true -> forallb attr_entry_ok (attr_namespaces x) = true.
Proof.
  induction x as [ns nm attrs ks IH| |] using xml_ind'; intros H; try reflexivity.
  rewrite clean_elem in H. bsplit_all. rewrite attr_namespaces_elem, forallb_app.
  apply andb_true_iff. split.
  - apply attrs_entries_ok. assumption.
  - eapply forallb_flat_map_ind; eassumption.
Qed.

Lemma flat_map_nil : forall {A B} (f : A -> list B) l, (forall x, In x l -> f x = []) -> flat_map f l = [].
Proof. induction l as [|x l IH]; intros H; simpl; [reflexivity|]. rewrite (H x (or_introl eq_refl)), IH; auto. intros y Hy. apply H. now right. Qed.

Lemma clean_no_namespace_issues : forall x, clean x = true -> namespace_issues x = [].
Proof.
  intros x H. unfold namespace_issues.
  rewrite (flat_map_nil _ (element_namespace_map x)), (flat_map_nil _ (attr_namespaces x)); [reflexivity| |].
  - intros e He. pose proof (clean_attr_namespaces x H) as Ha. rewrite forallb_forall in Ha. specialize (Ha e He).
    destruct e as [[[nn an] au] nu]. unfold attr_entry_ok in Ha. rewrite Ha. reflexivity.
  - intros e He. unfold element_namespace_map in He.
    pose proof (first_per_name_good (elem_names x) [] (clean_elem_names x H) eq_refl) as Hg.
    rewrite forallb_forall in Hg. specialize (Hg e He). unfold good_ns in Hg. rewrite Hg. reflexivity.
Qed.

(** the tree the printer means is clean *)
Definition plain (a : attr) : bool := String.eqb (a_ns a) "".

Lemma clean_el : forall nm attrs kids, forallb plain attrs = true -> forallb clean kids = true -> clean (el nm attrs kids) = true.
Proof.
  intros nm attrs kids Ha Hk. unfold el. rewrite clean_elem, Hk, andb_true_r. cbn [orb].
  replace (String.eqb CELLML_2_0_NS MATHML_NS || String.eqb CELLML_2_0_NS CELLML_2_0_NS) with true by reflexivity.
  cbn [andb]. rewrite forallb_forall in *. intros a Hin. unfold attr_allowed. specialize (Ha a Hin). unfold plain in Ha. rewrite Ha. reflexivity.
Qed.

Lemma plain_opt_attr : forall nm v, forallb plain (opt_attr ident nm v) = true.
Proof. intros. unfold opt_attr. destruct (nonempty v); reflexivity. Qed.

Ltac solve_plain :=
  repeat (rewrite forallb_app; apply andb_true_iff; split);
  try apply plain_opt_attr; try reflexivity;
  try (match goal with |- forallb plain (match ?x with _ => _ end) = true => destruct x; reflexivity end);
  try (match goal with |- forallb plain (if ?x then _ else _) = true => destruct x; reflexivity end).

Lemma clean_print_unit : forall d, clean (print_unit E ident d) = true.
Proof. intros. unfold print_unit. apply clean_el; [solve_plain | reflexivity]. Qed.

Lemma forallb_map_true : forall {A B} (P : B -> bool) (f : A -> B) l, (forall x, In x l -> P (f x) = true) -> forallb P (map f l) = true.
Proof. intros. rewrite forallb_forall. intros y Hy. apply in_map_iff in Hy. destruct Hy as (x & <- & Hx). auto. Qed.

Lemma forallb_flat_map_true : forall {A B} (P : B -> bool) (f : A -> list B) l,
  (forall x, In x l -> forallb P (f x) = true) -> forallb P (flat_map f l) = true.
Proof.
  intros. rewrite forallb_forall. intros y Hy. apply in_flat_map in Hy. destruct Hy as (x & Hx & Hy).
  specialize (H x Hx). rewrite forallb_forall in H. auto.
Qed.

Lemma clean_print_units : forall u, forallb clean (print_units E ident u) = true.
Proof.
  intros. unfold print_units. destruct (is_import_units u || is_standard_unit u); [reflexivity|].
  cbn [forallb]. rewrite andb_true_r. apply clean_el; [solve_plain|].
  apply forallb_map_true. intros. apply clean_print_unit.
Qed.

Lemma clean_print_variable : forall v, clean (print_variable ident v) = true.
Proof. intros. unfold print_variable. apply clean_el; [solve_plain | reflexivity]. Qed.

Lemma clean_math_kids : forall s, math_ok E s = true -> forallb clean (math_kids E ident s) = true.
Proof.
  intros s H. pose proof (math_kids_mathml s H) as Hm. rewrite forallb_forall in *. intros x Hx.
  specialize (Hm x Hx). bsplit_all. now apply ns_clean_clean.
Qed.

Lemma clean_print_reset_child : forall label id s, math_ok E s = true ->
  forallb clean (print_reset_child E ident ident label id s) = true.
Proof.
  intros. unfold print_reset_child. destruct (nonempty id || nonempty s); [|reflexivity].
  cbn [forallb]. rewrite andb_true_r. apply clean_el; [solve_plain | now apply clean_math_kids].
Qed.

Lemma clean_print_reset : forall vs r, reset_ok E true vs r = true -> clean (print_reset E ident ident r) = true.
Proof.
  intros vs r H. unfold reset_ok in H. bsplit_all. unfold print_reset. apply clean_el; [solve_plain|].
  rewrite forallb_app. apply andb_true_iff; split; apply clean_print_reset_child; assumption.
Qed.

Lemma clean_print_shell : forall us s, shell_ok E true us s = true -> c_src s = None ->
  clean (print_shell E ident ident s) = true.
Proof.
  intros us s H Hs. unfold shell_ok in H. rewrite Hs in H. bsplit_all.
  unfold print_shell. apply clean_el; [solve_plain|].
  rewrite !forallb_app. repeat (apply andb_true_iff; split).
  - apply forallb_map_true. intros. apply clean_print_variable.
  - apply forallb_map_true. intros r Hr. eapply clean_print_reset. by_forallb.
  - now apply clean_math_kids.
Qed.

Lemma clean_print_component : forall us c, comp_ok E true us c = true ->
  forallb clean (print_component E ident ident c) = true.
Proof.
  intros us. induction c as [s ks IH] using comp_ind'. intros H.
  rewrite comp_ok_unfold in H. apply andb_true_iff in H. destruct H as [Hs Hk].
  rewrite print_component_unfold, forallb_app. apply andb_true_iff; split.
  - destruct (c_src s) eqn:Es; [reflexivity|]. cbn [forallb]. rewrite andb_true_r. eapply clean_print_shell; eauto.
  - apply forallb_flat_map_true. intros k Hkin. rewrite Forall_forall in IH. apply IH; [exact Hkin|]. by_forallb.
Qed.

Lemma clean_print_encapsulation : forall c, clean (print_encapsulation ident c) = true.
Proof.
  induction c as [s ks IH] using comp_ind'. rewrite print_encapsulation_unfold. apply clean_el; [solve_plain|].
  apply forallb_map_true. intros k Hk. rewrite Forall_forall in IH. now apply IH.
Qed.

Lemma clean_print_import : forall m i, clean (print_import ident m i) = true.
Proof.
  intros. unfold print_import, el. rewrite clean_elem.
  apply andb_true_iff; split; [apply andb_true_iff; split; [reflexivity|]|].
  - cbn [forallb]. apply andb_true_iff; split; [reflexivity|].
    unfold opt_attr. destruct (nonempty (is_id i)); reflexivity.
  - rewrite forallb_app. apply andb_true_iff; split; apply forallb_map_true; intros; apply clean_el; try reflexivity; solve_plain.
Qed.

Lemma clean_print_connections : forall cs l done, forallb clean (print_connections ident cs l done) = true.
Proof.
  intros cs. induction l as [|e r IH]; intros done; [reflexivity|].
  cbn [print_connections]. destruct (existsb (ppair_eqb (me_pair e)) done); [apply IH|].
  cbn [forallb]. rewrite IH, andb_true_r. apply clean_el; [solve_plain|].
  apply forallb_map_true. intros x _. unfold print_map_variables. apply clean_el; [solve_plain | reflexivity].
Qed.

Lemma clean_print_tree : forall m, forallb (comp_ok E true (m_units m)) (m_comps m) = true -> clean (print_tree E m) = true.
Proof.
  intros m H. unfold print_tree, print_gen. apply clean_el; [solve_plain|].
  rewrite !forallb_app. repeat (apply andb_true_iff; split).
  - unfold print_imports. apply forallb_map_true. intros. apply clean_print_import.
  - apply forallb_flat_map_true. intros. apply clean_print_units.
  - apply forallb_flat_map_true. intros c Hc. eapply clean_print_component. by_forallb.
  - apply clean_print_connections.
  - destruct (flat_map _ (m_comps m)) eqn:Ef; [reflexivity|]. cbn [forallb]. rewrite andb_true_r.
    apply clean_el; [solve_plain|]. rewrite <- Ef. apply forallb_flat_map_true. intros c _.
    destruct (kids c); [reflexivity|]. cbn [forallb]. rewrite andb_true_r. apply clean_print_encapsulation.
Qed.

End LoadProofs.
